import RawPanelVerif.Lemmas.EncSoundState
/-! C01 `enc_sound_masked`, single-line sections without any enum / bit-field range hypothesis: what the reference
reader reads from the `HWC#`, `HWCx#`, `HWCc#` lines, the flow / command lines and the register lines of ANY message is
the effect of the masked message (`Spec.In.maskMsg`). -/
namespace RawPanelVerif.EncMask
open RawPanelVerif RawPanelVerif.Bytes RawPanelVerif.MsgIn RawPanelVerif.Model.In RawPanelVerif.InBits RawPanelVerif.ReadIn
open RawPanelVerif.Spec.In RawPanelVerif.EncSound

variable (O : Oracles)

theorem opt_map {α β : Type} (o : Option α) (f : α → β) (g : β → List Effect) : opt (o.map f) g = opt o (fun a => g (f a)) := by
  cases o <;> rfl

/-- `HWC#` for every state (any `int32`), output flag and blink mask (any `uint32`): the reader recovers the low 3 bits
of the state and the low 4 bits of the mask -/
theorem mode_packW (s : Int) (b : Nat) (o : Bool) :
    readMode (modeInt { state := s, output := o, blink := b }) = { state := (s % 8).toNat, output := o, blink := b % 16 } := by
  rw [modeInt_eq]
  unfold readMode
  have hs : (s % 8).toNat < 8 := by omega
  generalize (s % 8).toNat = k at hs
  cases o <;> simp <;> omega

/-- `HWCx#`: low 4 bits of the interpretation, low 12 bits of the value -/
theorem ext_packW (i : Int) (v : Nat) :
    readExt (extInt { interp := i, value := v }) = { interp := (i % 16).toNat, value := v % 4096 } := by
  rw [extInt_eq]
  unfold readExt
  have hs : (i % 16).toNat < 16 := by omega
  generalize (i % 16).toNat = k at hs
  simp; omega

/-- `HWCc#` index: low 5 bits -/
theorem colIndex_packW (i : Int) : readColor (colorIndexInt i) = .index (i % 32).toNat := by
  rw [colorIndexInt_eq]
  unfold readColor
  have hs : (i % 32).toNat < 32 := by omega
  generalize (i % 32).toNat = k at hs
  have h1 : ¬ ((128 + k) / 64 % 2 = 1) := by omega
  simp only [h1, if_false]
  congr 1; omega

theorem mode_readsW (id : Nat) (hid : id < 4294967296) (m : Option Mode) :
    Reads O (modeLines id m)
      (opt (m.map maskMode) (fun m => [Effect.setMode id { state := m.state.toNat, output := m.output, blink := m.blink }])) := by
  rw [opt_map]
  unfold modeLines
  refine optLine_reads O _ _ _ (fun m hm => Reads.single ?_)
  rw [read_hash O (asc "HWC") (asc "HWC#") id _ (by decide) (by decide) (by decide) (by decide)]
  unfold readHash
  rw [if_pos rfl]
  obtain ⟨s, o, b⟩ := m
  have hmi : modeInt { state := s, output := o, blink := b } < 4294967296 := by
    rw [modeInt_eq]; cases o <;> simp <;> omega
  rw [num_utoa _ hmi]
  simp only []
  rw [forIds_utoa id hid, mode_packW]
  rfl

theorem ext_readsW (id : Nat) (hid : id < 4294967296) (e : Option Ext) :
    Reads O (extLines id e)
      (opt (e.map maskExt) (fun e => [Effect.setExt id { interp := e.interp.toNat, value := e.value }])) := by
  rw [opt_map]
  unfold extLines
  refine optLine_reads O _ _ _ (fun e he => Reads.single ?_)
  rw [read_hash O (asc "HWCx") (asc "HWCx#") id _ (by decide) (by decide) (by decide) (by decide)]
  unfold readHash
  rw [if_neg (by decide), if_pos rfl]
  obtain ⟨i, v⟩ := e
  have hmi : extInt { interp := i, value := v } < 4294967296 := by
    rw [extInt_eq]; omega
  rw [num_utoa _ hmi]
  simp only []
  rw [forIds_utoa id hid, ext_packW]
  rfl

/-- colours: RGB wins when both alternatives are set; the index is 5 bits; no hypothesis -/
theorem color_readsW (id : Nat) (hid : id < 4294967296) (c : Option Color) :
    Reads O (colorLines id c) (opt (c.map maskColor) (fun c => opt (colorOf c) (fun ce => [Effect.setColor id ce]))) := by
  rw [opt_map]
  unfold colorLines
  refine optLine_reads O _ _ _ (fun c hc => ?_)
  obtain ⟨rgb, idx⟩ := c
  cases rgb with
  | some rgb =>
    refine Reads.single ?_
    rw [read_hash O (asc "HWCc") (asc "HWCc#") id _ (by decide) (by decide) (by decide) (by decide)]
    unfold readHash
    rw [if_neg (by decide), if_neg (by decide), if_pos rfl]
    have hmi : colorRGBInt rgb < 4294967296 := by rw [colorRGBInt_eq]; omega
    rw [num_utoa _ hmi]
    simp only []
    rw [forIds_utoa id hid]
    obtain ⟨r, g, b⟩ := rgb
    rw [InBits.colRGB_pack]
    rfl
  | none =>
    cases idx with
    | none => exact Reads.nil O
    | some i =>
      refine Reads.single ?_
      rw [read_hash O (asc "HWCc") (asc "HWCc#") id _ (by decide) (by decide) (by decide) (by decide)]
      unfold readHash
      rw [if_neg (by decide), if_neg (by decide), if_pos rfl]
      have hmi : colorIndexInt i < 4294967296 := by rw [colorIndexInt_eq]; omega
      rw [num_utoa _ hmi]
      simp only []
      rw [forIds_utoa id hid, colIndex_packW]
      rfl

/-! ## flow, commands, registers -/

theorem flow_readsW (f : Int) : Reads O (flowLines f) (effectsOfFlow f) := by
  unfold flowLines effectsOfFlow
  by_cases h2 : f = 2
  · subst h2; exact Reads.single (by rfl)
  · by_cases h3 : f = 3
    · subst h3; exact Reads.single (by rfl)
    · by_cases h1 : f = 1
      · subst h1; exact Reads.single (by rfl)
      · rw [if_neg h2, if_neg h3, if_neg h1, if_neg h1, if_neg h2, if_neg h3]
        exact Reads.nil O

theorem env_readsW (m : Int) : Reads O (envLine m) (envOf m) := by
  unfold envLine envOf
  by_cases h0 : m = 0
  · subst h0; exact Reads.single (by rfl)
  · by_cases h1 : m = 1
    · subst h1; exact Reads.single (by rfl)
    · by_cases h2 : m = 2
      · subst h2; exact Reads.single (by rfl)
      · rw [if_neg h0, if_neg h1, if_neg h2, if_neg h0, if_neg h1, if_neg h2]
        exact Reads.nil O

theorem i32ok_rangeW (n : Int) (h : i32ok n = true) : -2147483648 ≤ n ∧ n ≤ 2147483647 := by
  unfold i32ok at h
  simp only [Bool.and_eq_true, decide_eq_true_eq] at h
  exact h

theorem num_neg (z : Int) (h : z < 0) : num? (itoa z) = none := by
  unfold itoa
  rw [if_pos h]
  unfold num? digitsVal?
  generalize digitsOf z.natAbs = d
  have : ¬ ((45 :: d) ≠ [] ∧ (45 :: d).all isDigit = true) := by
    intro hc
    have := hc.2
    simp only [List.all_cons, Bool.and_eq_true] at this
    exact absurd this.1 (by decide)
  rw [if_neg this]

/-- `key=-n`: not a `num`, no effect -/
theorem numLine_neg (K Keq : Bytes) (mk : Nat → CmdE) (z : Int) (hz : z < 0) (he : Keq = K ++ [61])
    (h0 : keyHeadOk K = true)
    (h61 : (61 : UInt8) ∉ K) (h35 : cut 35 K = none)
    (hsp : K ≠ asc "ActivePanel" ∧ K ≠ asc "PanelBrightness" ∧ K ≠ asc "SetCalibrationProfile" ∧ K ≠ asc "SetNetworkConfig" ∧
           K ≠ asc "SimulateEnvironmentalHealth")
    (hl : numCmdTable.lookup K = some mk) :
    readLine O (Keq ++ itoa z) = .effects [] := by
  rw [he, kw_split, readLine_kv' O K _ h0 h61, h35]
  simp only []
  unfold readPlain
  rw [if_neg hsp.1, if_neg hsp.2.1, if_neg hsp.2.2.1, if_neg hsp.2.2.2.1, if_neg hsp.2.2.2.2, hl]
  simp only [num_neg z hz]

/-- an enum-valued argument (`SleepMode`, `SleepScreenSaver`, `LoadCPU`): non-negative values are carried, negative ones
give a line that is no grammar line -/
theorem enumArg_reads (K Keq : Bytes) (mk : Nat → CmdE) (o : Option Int) (hok : optOk o i32ok = true) (he : Keq = K ++ [61])
    (h0 : keyHeadOk K = true)
    (h61 : (61 : UInt8) ∉ K) (h35 : cut 35 K = none)
    (hsp : K ≠ asc "ActivePanel" ∧ K ≠ asc "PanelBrightness" ∧ K ≠ asc "SetCalibrationProfile" ∧ K ≠ asc "SetNetworkConfig" ∧
           K ≠ asc "SimulateEnvironmentalHealth")
    (hl : numCmdTable.lookup K = some mk) :
    Reads O (optLine o (fun v => [Keq ++ itoa v])) (opt (nonNegArg o) (fun v => [Effect.cmd (mk (enumArg v))])) := by
  cases o with
  | none => exact Reads.nil O
  | some v =>
    have hr := i32ok_rangeW v hok
    unfold nonNegArg optLine
    simp only []
    by_cases hv : 0 ≤ v
    · rw [if_pos hv]
      unfold opt
      simp only []
      rw [itoa_nonneg v hv, enumArg_eq v ⟨hv, hr.2⟩]
      exact Reads.single (numLine O K Keq mk v.toNat (by omega) he h0 h61 h35 hsp hl)
    · rw [if_neg hv]
      exact Reads.single (numLine_neg O K Keq mk v (by omega) he h0 h61 h35 hsp hl)

theorem cmd_readsW (c : Command) (h : cmdWire O c = true) : Reads O (cmdLines O c) (effectsOfCmd (maskCmd c)) := by
  simp only [cmdWire, Bool.and_eq_true] at h
  obtain ⟨⟨⟨⟨⟨⟨⟨⟨h1, h2⟩, h4⟩, h5⟩, h6⟩, h7⟩, h8⟩, h9⟩, h10⟩ := h
  unfold cmdLines effectsOfCmd maskCmd
  simp only []
  repeat' apply Reads.append
  any_goals (exact flag_reads O _ _ _ (by rfl))
  · refine optLine_reads O _ _ _ (fun p hp => Reads.single ?_)
    have := optOk_some _ _ _ h1 hp
    simp only [Bool.and_eq_true] at this
    exact brightness_line O p.1 p.2 (u32ok_lt _ this.1) (u32ok_lt _ this.2)
  · exact optLine_reads O _ _ _ (fun j _ => Reads.single (cal_line O j))
  · refine optLine_reads O _ _ _ (fun n hn => Reads.single ?_)
    have := optOk_some _ _ _ h2 hn
    simp only [Bool.and_eq_true, beq_iff_eq] at this
    exact net_line O n this.1
  · exact optLine_reads O _ _ _ (fun m _ => env_readsW O m)
  · refine optLine_reads O _ _ _ (fun v hv => Reads.single ?_)
    exact numLine O (asc "SleepTimer") _ _ v (u32ok_lt _ (optOk_some _ _ _ h4 hv)) (by decide) (by decide) (by decide) (by decide) (by kwfacts) (by rfl)
  · exact enumArg_reads O (asc "SleepMode") _ _ _ h5 (by decide) (by decide) (by decide) (by decide) (by kwfacts) (by rfl)
  · exact enumArg_reads O (asc "SleepScreenSaver") _ _ _ h6 (by decide) (by decide) (by decide) (by decide) (by kwfacts) (by rfl)
  · refine optLine_reads O _ _ _ (fun v hv => Reads.single ?_)
    exact numLine O (asc "DimmedGain") _ _ v (u32ok_lt _ (optOk_some _ _ _ h7 hv)) (by decide) (by decide) (by decide) (by decide) (by kwfacts) (by rfl)
  · refine optLine_reads O _ _ _ (fun v hv => Reads.single ?_)
    exact numLine O (asc "HeartBeatTimer") _ _ v (u32ok_lt _ (optOk_some _ _ _ h8 hv)) (by decide) (by decide) (by decide) (by decide) (by kwfacts) (by rfl)
  · refine optLine_reads O _ _ _ (fun v hv => Reads.single ?_)
    exact numLine O (asc "PublishSystemStat") _ _ v (u32ok_lt _ (optOk_some _ _ _ h9 hv)) (by decide) (by decide) (by decide) (by decide) (by kwfacts) (by rfl)
  · exact enumArg_reads O (asc "LoadCPU") _ _ _ h10 (by decide) (by decide) (by decide) (by decide) (by kwfacts) (by rfl)
  · refine optLine_reads O _ _ _ (fun v _ => ?_)
    rw [b01_eq]
    have := numLine O (asc "Webserver") (asc "Webserver=") _ (if v then 1 else 0) (by cases v <;> decide) (by decide) (by decide) (by decide) (by decide) (by kwfacts) (by rfl)
    cases v <;> exact Reads.single this
  · refine optLine_reads O _ _ _ (fun v _ => ?_)
    rw [b01_eq]
    have := numLine O (asc "JSONonOutbound") (asc "JSONonOutbound=") _ (if v then 1 else 0) (by cases v <;> decide) (by decide) (by decide) (by decide) (by decide) (by kwfacts) (by rfl)
    cases v <;> exact Reads.single this

/-- registers: any kind number (other kinds than 0-3: no line, no effect) -/
theorem reg_readsW (r : Register) (h : regWire r = true) : Reads O (regLine r) (effectsOfReg r) := by
  by_cases hk : 0 ≤ r.reg ∧ r.reg ≤ 3
  · refine reg_reads O r ?_
    unfold regWire at h
    unfold regOk enumOk
    simp only [Bool.and_eq_true, decide_eq_true_eq] at h ⊢
    exact ⟨⟨hk, h.1⟩, h.2⟩
  · unfold regLine effectsOfReg
    rw [if_neg (by omega), if_neg (by omega), if_neg (by omega), if_neg (by omega),
      if_neg (by omega), if_neg (by omega), if_neg (by omega), if_neg (by omega)]
    exact Reads.nil O

end RawPanelVerif.EncMask
