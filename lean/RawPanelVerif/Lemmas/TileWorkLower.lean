import RawPanelVerif.Lemmas.TileTotal
/-!
# Lower bound on the loop iterations of a filled round rectangle (C18: where the "no hang" domain ends)

`FillRoundRect(x, y, w, h, r)` runs `FillRect(x+r, y, w-2r, h)`: at least `(w-2r)·(1+h)` loop bodies, wherever the
rectangle lies (every pixel outside the clip rectangle is still visited).  The title bar of `WriteDisplayTileNew` is
`2·TitleBarPadding + lineHeight - 1` rows high, and `TitleBarPadding` (documented as a 2-bit field) is used unmasked.
-/
namespace RawPanelVerif.Tile
open RawPanelVerif RawPanelVerif.Mono RawPanelVerif.Gen

theorem loopC_ticks_ge (f : RunSt → Nat → Option RunSt) (k : Nat)
    (hstep : ∀ s i s', f s i = some s' → s.2 + k ≤ s'.2) (m : Nat) (s s' : RunSt) (h : loopC f m s = some s') :
    s.2 + m * (1 + k) ≤ s'.2 := by
  induction m generalizing s' with
  | zero =>
    unfold loopC at h
    cases h; omega
  | succ m ih =>
    unfold loopC at h
    cases h1 : loopC f m s with
    | none => rw [h1] at h; cases h
    | some s1 =>
      rw [h1] at h
      have a := ih s1 h1
      have b := hstep _ _ _ h
      simp only [] at b
      rw [Nat.succ_mul]
      omega

theorem pxC_ticks (s s' : RunSt) (x y : Int) (col : Bool) (h : pxC s x y col = some s') : s'.2 = s.2 := by
  unfold pxC at h
  cases hd : drawPixelC s.1 x y col with
  | none => rw [hd] at h; cases h
  | some c => rw [hd] at h; cases h; rfl

theorem vlineC_ticks_ge (s s' : RunSt) (x y hh : Int) (col : Bool) (h : vlineC s x y hh col = some s') :
    s.2 + hh.toNat ≤ s'.2 := by
  unfold vlineC at h
  have := loopC_ticks_ge (fun s i => pxC s x (y + i) col) 0
    (fun s i s' hs => by have := pxC_ticks s s' x (y + i) col hs; omega) hh.toNat s s' h
  omega

theorem fillRectC_ticks_ge (s s' : RunSt) (x y w hh : Int) (col : Bool) (h : fillRectC s x y w hh col = some s') :
    s.2 + w.toNat * (1 + hh.toNat) ≤ s'.2 := by
  unfold fillRectC at h
  exact loopC_ticks_ge (fun s i => vlineC s (x + i) y hh col) hh.toNat
    (fun s i s' hs => vlineC_ticks_ge s s' (x + i) y hh col hs) w.toNat s s' h

theorem thenC_some {a : Option RunSt} {f : RunSt → Option RunSt} {s' : RunSt} (h : thenC a f = some s') :
    ∃ s1, a = some s1 ∧ f s1 = some s' := by
  unfold thenC at h
  cases a with
  | none => cases h
  | some s1 => exact ⟨s1, rfl, h⟩

/-- a filled round rectangle costs at least `(w-2r)·(1+h)` loop iterations, whatever the canvas and the clip are -/
theorem fillRoundRectC_ticks_ge (s s' : RunSt) (x y w hh r : Int) (col : Bool)
    (h : fillRoundRectC s x y w hh r col = some s') : s.2 + (w - 2 * r).toNat * (1 + hh.toNat) ≤ s'.2 := by
  unfold fillRoundRectC at h
  obtain ⟨s1, h1, h2⟩ := thenC_some h
  obtain ⟨s2, h3, h4⟩ := thenC_some h2
  have a := fillRectC_ticks_ge s s1 _ _ _ _ col h1
  obtain ⟨k1, e1, _⟩ := fillCircleHelperC_runs s1.1 s1.2 (x + w - r - 1) (y + r) r 1 (hh - 2 * r - 1) col
  obtain ⟨k2, e2, _⟩ := fillCircleHelperC_runs s2.1 s2.2 (x + r) (y + r) r 2 (hh - 2 * r - 1) col
  have e1' : fillCircleHelperC s1 (x + w - r - 1) (y + r) r 1 (hh - 2 * r - 1) col = some (_, s1.2 + k1) := e1
  have e2' : fillCircleHelperC s2 (x + r) (y + r) r 2 (hh - 2 * r - 1) col = some (_, s2.2 + k2) := e2
  rw [e1'] at h3; cases h3
  rw [e2'] at h4; cases h4
  simp only [] at a ⊢
  omega

theorem applyOpC_ticks_mono (s s' : RunSt) (op : Op) (h : applyOpC s op = some s') : s.2 ≤ s'.2 := by
  obtain ⟨k, e, _⟩ := applyOpC_runs s.1 s.2 op
  have e' : applyOpC s op = some (applyOp s.1 op, s.2 + k) := e
  rw [e'] at h; cases h
  simp only []; omega

theorem runOpsCList_ticks_mono (ops : List Op) (s s' : RunSt) (h : runOpsCList s ops = some s') : s.2 ≤ s'.2 := by
  induction ops generalizing s with
  | nil => unfold runOpsCList at h; cases h; omega
  | cons op rest ih =>
    unfold runOpsCList at h
    cases h1 : applyOpC s op with
    | none => rw [h1] at h; cases h
    | some s1 =>
      rw [h1] at h
      have := applyOpC_ticks_mono s s1 op h1
      have := ih s1 h
      omega

/-- a run that contains a filled round rectangle costs at least that rectangle's `(w-2r)·(1+h)` iterations -/
theorem runOpsCList_frrect_ge (ops : List Op) (x y w hh r : Int) (col : Bool) (hm : Op.frrect x y w hh r col ∈ ops)
    (s s' : RunSt) (h : runOpsCList s ops = some s') : s.2 + (w - 2 * r).toNat * (1 + hh.toNat) ≤ s'.2 := by
  induction ops generalizing s with
  | nil => cases hm
  | cons op rest ih =>
    unfold runOpsCList at h
    cases h1 : applyOpC s op with
    | none => rw [h1] at h; cases h
    | some s1 =>
      rw [h1] at h
      rcases List.mem_cons.1 hm with e | hm'
      · subst e
        have a := fillRoundRectC_ticks_ge s s1 x y w hh r col h1
        have b := runOpsCList_ticks_mono rest s1 s' h
        omega
      · have a := applyOpC_ticks_mono s s1 op h1
        have b := ih hm' s1 h
        omega

end RawPanelVerif.Tile
