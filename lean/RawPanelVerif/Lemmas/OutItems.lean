import RawPanelVerif.Lemmas.OutLemmas
/-!
# `;`-lists: the relational reading `Spec.Out.ItemsOf`, the reader's `readItems` and the model's `trimExplode`

`ItemsOf pieces items` (Spec/GrammarOut.lean) is the specification: the items are, in order, the pieces with their
surrounding white space removed, empty results left out.  It is functional (`itemsOf_functional`), it is met by the
reader's executable `readItems` (`readItems_meets`) and by the model of `TrimExplode` (`trimExplode_meets`); hence the
two agree on every byte string (`trimExplode_eq_readItems`).  `itemsOf_mem`: the membership form
`x ∈ items ↔ ∃ p ∈ pieces, x = trimSpace p ∧ x ≠ []`.
-/
namespace RawPanelVerif.OutLemmas
open RawPanelVerif RawPanelVerif.Bytes RawPanelVerif.DecOut RawPanelVerif.Spec.Out

theorem itemsOf_functional (ps a b : List Bytes) (ha : ItemsOf ps a) (hb : ItemsOf ps b) : a = b := by
  induction ha generalizing b with
  | nil => cases hb; rfl
  | skip he _ ih =>
    cases hb with
    | skip _ hb' => exact ih _ hb'
    | keep hne _ => exact absurd he hne
  | keep hne _ ih =>
    cases hb with
    | skip he _ => exact absurd he hne
    | keep _ hb' => rw [ih _ hb']

theorem itemsOfPieces_meets (ps : List Bytes) : ItemsOf ps (itemsOfPieces ps) := by
  induction ps with
  | nil => exact .nil
  | cons p ps ih =>
    unfold itemsOfPieces
    by_cases h : trimSpace p = []
    · rw [if_pos h]; exact .skip h ih
    · rw [if_neg h]; exact .keep h ih

/-- the reader's executable `;`-list reading meets the relational specification -/
theorem readItems_meets (v : Bytes) : ItemsOf (splitOn 59 v) (readItems v) := itemsOfPieces_meets _

theorem filterMap_meets (ps : List Bytes) : ItemsOf ps ((ps.map trimSpace).filter (fun x => x ≠ [])) := by
  induction ps with
  | nil => exact .nil
  | cons p ps ih =>
    simp only [List.map_cons, List.filter_cons]
    by_cases h : trimSpace p = []
    · simp only [h, ne_eq, not_true_eq_false, decide_false, Bool.false_eq_true, if_false]
      exact .skip h ih
    · simp only [h, ne_eq, not_false_eq_true, decide_true, if_true]
      exact .keep h ih

/-- the model of `TrimExplode(v, ";")` meets the relational specification -/
theorem trimExplode_meets (v : Bytes) : ItemsOf (splitOn 59 v) (trimExplode 59 v) := filterMap_meets _

/-- … hence model and reader agree on every byte string -/
theorem trimExplode_eq_readItems (v : Bytes) : trimExplode 59 v = readItems v :=
  itemsOf_functional _ _ _ (trimExplode_meets v) (readItems_meets v)

theorem readItems_eq_filter (v : Bytes) : readItems v = ((splitOn 59 v).map trimSpace).filter (fun x => x ≠ []) :=
  (trimExplode_eq_readItems v).symm

/-- membership form of the specification -/
theorem itemsOf_mem (ps items : List Bytes) (h : ItemsOf ps items) (x : Bytes) :
    x ∈ items ↔ ∃ p ∈ ps, x = trimSpace p ∧ x ≠ [] := by
  induction h with
  | nil => simp
  | @skip p ps items he _ ih =>
    rw [ih]
    constructor
    · rintro ⟨q, hq, e⟩; exact ⟨q, by simp [hq], e⟩
    · rintro ⟨q, hq, e, hne⟩
      simp only [List.mem_cons] at hq
      rcases hq with rfl | hq
      · rw [he] at e; exact absurd e hne
      · exact ⟨q, hq, e, hne⟩
  | @keep p ps items hne _ ih =>
    simp only [List.mem_cons]
    rw [ih]
    constructor
    · rintro (rfl | ⟨q, hq, e⟩)
      · exact ⟨p, Or.inl rfl, rfl, hne⟩
      · exact ⟨q, Or.inr hq, e⟩
    · rintro ⟨q, hq, e, hx⟩
      rcases hq with rfl | hq
      · exact Or.inl e
      · exact Or.inr ⟨q, hq, e, hx⟩

end RawPanelVerif.OutLemmas
