import RawPanelVerif.Lemmas.GorwpBridge
/-!
Helper lemmas for C19 (a): the model's per-event dispatch (`Gorwp.dispatchEvent`, five handler calls in program
order) satisfies the specification's relational description of what one event owes (`Spec.Gorwp.groupOk`:
for every kind of handler exactly one invocation if it is bound and the event matches, none otherwise).
-/
namespace RawPanelVerif.GorwpDispatch
open RawPanelVerif.Gorwp RawPanelVerif.Spec.Gorwp RawPanelVerif.GorwpBridge

abbrev SK := RawPanelVerif.Spec.Gorwp.Kind
abbrev MK := RawPanelVerif.Gorwp.Kind

theorem countKind_append (k : SK) (a b : List SInv) : countKind k (a ++ b) = countKind k a + countKind k b := by
  simp [countKind]

/-- the ∀-form of `groupOk` -/
theorem groupOk_iff (b : SBindings) (e : SEvent) (g : List SInv) :
    groupOk b e g = true ↔ (∀ k, countKind k g = if owesKind b e k then 1 else 0) ∧ ∀ i ∈ g, argsMatch e i = true := by
  unfold groupOk
  simp only [Bool.and_eq_true, List.all_eq_true, Kind.all, beq_iff_eq]
  constructor
  · rintro ⟨h1, h2⟩
    refine ⟨fun k => ?_, h2⟩
    cases k <;> exact h1 _ (by simp)
  · rintro ⟨h1, h2⟩
    exact ⟨fun k _ => h1 k, h2⟩

theorem owedCount_eq (b : SBindings) (e : SEvent) :
    owedCount b e = (if owesKind b e .trigger then 1 else 0) + (if owesKind b e .binary then 1 else 0)
      + (if owesKind b e .pulsed then 1 else 0) + (if owesKind b e .absolute then 1 else 0)
      + (if owesKind b e .intensity then 1 else 0) := by
  unfold owedCount Kind.all
  simp only [List.filter_cons, List.filter_nil]
  generalize owesKind b e .trigger = o1
  generalize owesKind b e .binary = o2
  generalize owesKind b e .pulsed = o3
  generalize owesKind b e .absolute = o4
  generalize owesKind b e .intensity = o5
  cases o1 <;> cases o2 <;> cases o3 <;> cases o4 <;> cases o5 <;> rfl

/-- one handler's part of the log of one event, in the specification's vocabulary -/
structure Seg (sb : SBindings) (se : SEvent) (k : SK) (g : List SInv) : Prop where
  count : ∀ k', countKind k' g = if k' = k ∧ owesKind sb se k = true then 1 else 0
  args : ∀ i ∈ g, argsMatch se i = true
  len : g.length = if owesKind sb se k then 1 else 0

theorem seg_trigger (b : Bindings) (e : Event) :
    Seg (toSBindings b) (toSEvent e) .trigger ((callTrigger b e).map toSInv) := by
  unfold callTrigger
  by_cases h : e.id ∈ b.trigger
  · refine ⟨fun k' => ?_, ?_, ?_⟩
    · cases k' <;> simp [h, countKind, toSInv, SInv.kind, owesKind, SBindings.has, SEvent.carries, toSBindings, toSEvent]
    · simp [h, toSInv, argsMatch, toSEvent]
    · simp [h, owesKind, SBindings.has, SEvent.carries, toSBindings, toSEvent]
  · refine ⟨fun k' => ?_, ?_, ?_⟩ <;>
      simp [h, countKind, owesKind, SBindings.has, toSBindings, toSEvent]

theorem seg_binary (b : Bindings) (e : Event) :
    Seg (toSBindings b) (toSEvent e) .binary ((callBinary b e).map toSInv) := by
  unfold callBinary
  cases hb : e.binary with
  | none => refine ⟨fun k' => ?_, ?_, ?_⟩ <;> simp [countKind, owesKind, SEvent.carries, toSEvent, hb]
  | some be =>
    by_cases h : e.id ∈ b.binary
    · refine ⟨fun k' => ?_, ?_, ?_⟩
      · cases k' <;> simp [h, countKind, toSInv, SInv.kind, owesKind, SBindings.has, SEvent.carries, toSBindings, toSEvent, hb]
      · simp [h, toSInv, argsMatch, toSEvent, hb]
      · simp [h, owesKind, SBindings.has, SEvent.carries, toSBindings, toSEvent, hb]
    · refine ⟨fun k' => ?_, ?_, ?_⟩ <;>
        simp [h, countKind, owesKind, SBindings.has, toSBindings, toSEvent]

theorem seg_pulsed (b : Bindings) (e : Event) :
    Seg (toSBindings b) (toSEvent e) .pulsed ((callPulsed b e).map toSInv) := by
  unfold callPulsed
  cases hb : e.pulsed with
  | none => refine ⟨fun k' => ?_, ?_, ?_⟩ <;> simp [countKind, owesKind, SEvent.carries, toSEvent, hb]
  | some v =>
    by_cases h : e.id ∈ b.pulsed
    · refine ⟨fun k' => ?_, ?_, ?_⟩
      · cases k' <;> simp [h, countKind, toSInv, SInv.kind, owesKind, SBindings.has, SEvent.carries, toSBindings, toSEvent, hb]
      · simp [h, toSInv, argsMatch, toSEvent, hb]
      · simp [h, owesKind, SBindings.has, SEvent.carries, toSBindings, toSEvent, hb]
    · refine ⟨fun k' => ?_, ?_, ?_⟩ <;>
        simp [h, countKind, owesKind, SBindings.has, toSBindings, toSEvent]

theorem seg_absolute (b : Bindings) (e : Event) :
    Seg (toSBindings b) (toSEvent e) .absolute ((callAbsolute b e).map toSInv) := by
  unfold callAbsolute
  cases hb : e.absolute with
  | none => refine ⟨fun k' => ?_, ?_, ?_⟩ <;> simp [countKind, owesKind, SEvent.carries, toSEvent, hb]
  | some v =>
    by_cases h : e.id ∈ b.absolute
    · refine ⟨fun k' => ?_, ?_, ?_⟩
      · cases k' <;> simp [h, countKind, toSInv, SInv.kind, owesKind, SBindings.has, SEvent.carries, toSBindings, toSEvent, hb]
      · simp [h, toSInv, argsMatch, toSEvent, hb]
      · simp [h, owesKind, SBindings.has, SEvent.carries, toSBindings, toSEvent, hb]
    · refine ⟨fun k' => ?_, ?_, ?_⟩ <;>
        simp [h, countKind, owesKind, SBindings.has, toSBindings, toSEvent]

theorem seg_intensity (b : Bindings) (e : Event) :
    Seg (toSBindings b) (toSEvent e) .intensity ((callIntensity b e).map toSInv) := by
  unfold callIntensity
  cases hb : e.speed with
  | none => refine ⟨fun k' => ?_, ?_, ?_⟩ <;> simp [countKind, owesKind, SEvent.carries, toSEvent, hb]
  | some v =>
    by_cases h : e.id ∈ b.intensity
    · refine ⟨fun k' => ?_, ?_, ?_⟩
      · cases k' <;> simp [h, countKind, toSInv, SInv.kind, owesKind, SBindings.has, SEvent.carries, toSBindings, toSEvent, hb]
      · simp [h, toSInv, argsMatch, toSEvent, hb]
      · simp [h, owesKind, SBindings.has, SEvent.carries, toSBindings, toSEvent, hb]
    · refine ⟨fun k' => ?_, ?_, ?_⟩ <;>
        simp [h, countKind, owesKind, SBindings.has, toSBindings, toSEvent]

/-- the log of one event is a group the specification accepts, and it has the length the specification expects -/
theorem group_of_dispatchEvent (b : Bindings) (e : Event) :
    groupOk (toSBindings b) (toSEvent e) ((dispatchEvent b e).map toSInv) = true
    ∧ ((dispatchEvent b e).map toSInv).length = owedCount (toSBindings b) (toSEvent e) := by
  have t := seg_trigger b e
  have bi := seg_binary b e
  have p := seg_pulsed b e
  have a := seg_absolute b e
  have i := seg_intensity b e
  unfold dispatchEvent
  simp only [List.map_append]
  constructor
  · rw [groupOk_iff]
    constructor
    · intro k
      simp only [countKind_append, t.count, bi.count, p.count, a.count, i.count]
      cases k <;> simp
    · intro x hx
      simp only [List.mem_append] at hx
      rcases hx with (((hx | hx) | hx) | hx) | hx
      · exact t.args x hx
      · exact bi.args x hx
      · exact p.args x hx
      · exact a.args x hx
      · exact i.args x hx
  · simp only [List.length_append, t.len, bi.len, p.len, a.len, i.len, owedCount_eq]

/-- the checker consumes an accepted group of the expected length and goes on with the rest -/
theorem checkLogDyn_group (sb : SBindings) (e : SEvent) (r : List SDyn) (g rest : List SInv)
    (hg : groupOk sb e g = true) (hl : g.length = owedCount sb e) :
    checkLogDyn sb (.event e :: r) (g ++ rest) = checkLogDyn sb r rest := by
  simp only [checkLogDyn]
  have ht : (g ++ rest).take (owedCount sb e) = g := by rw [← hl]; simp
  have hd : (g ++ rest).drop (owedCount sb e) = rest := by rw [← hl]; simp
  rw [ht, hd]
  simp [hl, hg]

theorem toSBindings_add (b : Bindings) (k : MK) (id : Nat) :
    toSBindings (b.add k id) = (toSBindings b).add (toSKind k) id := by
  cases k <;> rfl

theorem toSBindings_has (b : Bindings) (k : MK) (id : Nat) :
    (toSBindings b).has (toSKind k) id = b.has k id := by
  cases k <;> rfl

end RawPanelVerif.GorwpDispatch
