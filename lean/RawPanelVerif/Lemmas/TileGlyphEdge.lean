import RawPanelVerif.Props.C20
/-!
# Edge-glyph facts over the regenerated font tables (C18, clause `centre`)

In proportional mode every letter and digit of every font is at least two columns wide and has ink in its first and in
its last-but-one column (`decide +kernel`, one theorem per font).
-/
namespace RawPanelVerif.Tile
open RawPanelVerif RawPanelVerif.Mono RawPanelVerif.Gen RawPanelVerif.C20

def alnum (c : Nat) : Bool := (48 ≤ c && c ≤ 57) || (65 ≤ c && c ≤ 90) || (97 ≤ c && c ≤ 122)

def colHasInk (t : TextSt) (ch i : Nat) : Bool := (List.range t.fp.bbH).any (fun j => inkBit t ch i j)

def edgeGlyphOk (n : Int) (ch : Nat) : Bool :=
  let t := tf n true
  2 ≤ charWidth t ch && colHasInk t ch 0 && colHasInk t ch (charWidth t ch - 2)

/-- checked over the regenerated font tables: every letter and digit of every font -/
theorem edge_facts0 : ∀ ch ∈ List.range 128, alnum ch = true → edgeGlyphOk 0 ch = true := by decide +kernel
theorem edge_facts1 : ∀ ch ∈ List.range 128, alnum ch = true → edgeGlyphOk 1 ch = true := by decide +kernel
theorem edge_facts2 : ∀ ch ∈ List.range 128, alnum ch = true → edgeGlyphOk 2 ch = true := by decide +kernel

end RawPanelVerif.Tile
