import RawPanelVerif.Lemmas.GfxRun
/-! C05: the repaired streaming reader on a run of consecutive chunks; the JSON hop. -/
namespace RawPanelVerif.Gfx
open RawPanelVerif

theorem parse_eq (s : RState) (l : Bytes) :
    Stream.parse s l = match parseLine? (trimSpace l) with
      | none => (s.initRule, Batch.decode Batch.step [trimSpace l])
      | some p => Stream.parseP s.initRule p (trimSpace l) := by
  unfold Stream.parse parseLine?
  cases h : matchGfx (trimSpace l) <;> simp [h]

/-- the reader while a transfer is open: `k` chunks buffered -/
def ropen (buf : List Bytes) (k n : Nat) (ids pfx : Bytes) : RState :=
  { count := (k : Int) - 1, ty := pfx, buf := some buf, max := (n : Int) - 1, list := ids }

/-- the reader after `reset()` -/
def rdone (n : Nat) : RState := { count := -1, ty := [], buf := none, max := (n : Int) - 1, list := [] }

theorem initRule_ropen (buf : List Bytes) (k n : Nat) (ids pfx : Bytes) (h : ids ≠ []) :
    (ropen buf k n ids pfx).initRule = ropen buf k n ids pfx := by
  simp [RState.initRule, ropen, h]

def quiet (pos m : Nat) : List (Nat × List Seen) := (List.range' pos m).map (fun i => (i, []))

theorem stream_tail (ty : Nat) (ids : Bytes) (hids : ids ≠ []) (n : Nat) :
    ∀ (ls ds : List Bytes) (k : Nat) (buf : List Bytes) (pos : Nat), IsRun ty ids k ls ds → 1 ≤ k →
      k + ls.length = n → (∀ l ∈ ls, trimSpace l = l) →
      Stream.runFrom Stream.parse (ropen buf k n ids (pfxOf ty)) pos ls =
        if ls = [] then (ropen buf k n ids (pfxOf ty), [])
        else (rdone n, quiet pos (ls.length - 1) ++ [(pos + ls.length - 1, Batch.decode Batch.step (buf ++ ls))]) := by
  intro ls
  induction ls with
  | nil => intro ds k buf pos _ _ _ _; simp [Stream.runFrom]
  | cons l ls ih =>
    intro ds k buf pos hrun hk hn htrim
    cases ds with
    | nil => exact absurd hrun (by simp [IsRun])
    | cons d ds =>
      obtain ⟨⟨p, hp, hidx, hty, hlist, hdata, hok, hpfx⟩, hrest⟩ := hrun
      simp only [List.length_cons] at hn
      have htl : trimSpace l = l := htrim l (by simp)
      have hstep : Stream.parse (ropen buf k n ids (pfxOf ty)) l =
          if ls = [] then (rdone n, Batch.decode Batch.step (buf ++ [l]))
          else (ropen (buf ++ [l]) (k + 1) n ids (pfxOf ty), []) := by
        rw [parse_eq, htl, hp, initRule_ropen _ _ _ _ _ hids]
        simp only [Stream.parseP, ropen, hidx, hpfx, hlist]
        have hk0 : ¬ ((k : Int) = 0) := by omega
        simp only [hk0, if_false, if_true, Int.sub_add_cancel, Option.getD_some]
        by_cases hls : ls = []
        · subst hls
          simp only [List.length_nil] at hn
          have : (k : Int) = (n : Int) - 1 := by omega
          simp [this, RState.cleared, rdone]
        · have hlen : 0 < ls.length := List.length_pos_iff.mpr hls
          have : ¬ ((k : Int) = (n : Int) - 1) := by omega
          simp [this, hls]
      simp only [Stream.runFrom, hstep]
      by_cases hls : ls = []
      · subst hls
        simp [Stream.runFrom, quiet]
      · simp only [hls, if_false]
        rw [ih ds (k + 1) (buf ++ [l]) (pos + 1) hrest (by omega) (by omega)
          (fun x hx => htrim x (by simp [hx]))]
        simp only [hls, if_false, List.cons_ne_nil, List.length_cons, List.append_assoc, List.singleton_append]
        have hlen : 0 < ls.length := List.length_pos_iff.mpr hls
        have e1 : pos + 1 + ls.length - 1 = pos + (ls.length + 1) - 1 := by omega
        have e2 : ls.length + 1 - 1 = (ls.length - 1) + 1 := by omega
        rw [e1, e2]
        simp [quiet, List.range'_succ]

end RawPanelVerif.Gfx

namespace RawPanelVerif.Gfx

theorem stream_whole (ty : Nat) (ids : Bytes) (hids : ids ≠ []) (s : RState) (l0 : Bytes) (ls ds : List Bytes)
    (p0 : Parsed) (pos : Nat)
    (hp0 : parseLine? l0 = some p0) (hidx : p0.idx = 0) (hlist : p0.list = ids) (hpfx : p0.pfx = pfxOf ty)
    (hmax : p0.max = (ls.length : Int)) (hrun : IsRun ty ids 1 ls ds)
    (ht0 : trimSpace l0 = l0) (htrim : ∀ l ∈ ls, trimSpace l = l) :
    Stream.runFrom Stream.parse s pos (l0 :: ls) =
      (rdone (ls.length + 1), quiet pos ls.length ++ [(pos + ls.length, Batch.decode Batch.step (l0 :: ls))]) := by
  have hstep : Stream.parse s l0 =
      if ls = [] then (rdone 1, Batch.decode Batch.step [l0])
      else (ropen [l0] 1 (ls.length + 1) ids (pfxOf ty), []) := by
    rw [parse_eq, ht0, hp0]
    simp only [Stream.parseP, RState.intake, hidx, hlist, hpfx, hmax, if_true]
    by_cases hls : ls = []
    · subst hls; simp [RState.cleared, rdone]
    · have hlen : 0 < ls.length := List.length_pos_iff.mpr hls
      have : ¬ ((0 : Int) = (ls.length : Int)) := by omega
      simp [this, hls, ropen]
  simp only [Stream.runFrom, hstep]
  by_cases hls : ls = []
  · subst hls; simp [Stream.runFrom, quiet]
  · simp only [hls, if_false]
    rw [stream_tail ty ids hids (ls.length + 1) ls ds 1 [l0] (pos + 1) hrun (by omega) (by omega) htrim]
    simp only [hls, if_false]
    have hlen : 0 < ls.length := List.length_pos_iff.mpr hls
    obtain ⟨m, hm⟩ : ∃ m, ls.length = m + 1 := ⟨ls.length - 1, by omega⟩
    have e1 : pos + 1 + (m + 1) - 1 = pos + (m + 1) := by omega
    simp only [hm, Nat.add_sub_cancel, e1]
    simp [quiet, List.range'_succ]

/-! ### chunk lines carry no surrounding white space -/

/-- an ASCII byte that is not white space -/
def plainByte (c : UInt8) : Bool := c < 0x80 && !(c == 32 || (9 ≤ c && c ≤ 13))

theorem plainByte_lt (c : UInt8) (h : plainByte c = true) : c.toNat < 128 := by
  simp only [plainByte, Bool.and_eq_true, decide_eq_true_eq] at h
  exact UInt8.lt_iff_toNat_lt.mp h.1

theorem dropSpace1_plain (c : UInt8) (r : Bytes) (h : plainByte c = true) : Bytes.dropSpace1 (c :: r) = none := by
  have hlt := plainByte_lt c h
  unfold Bytes.dropSpace1
  split
  all_goals first
    | rfl
    | (rename_i heq; simp only [List.cons.injEq] at heq; obtain ⟨rfl, _⟩ := heq; exact absurd h (by decide))
    | (rename_i heq; simp only [List.cons.injEq] at heq; obtain ⟨rfl, _⟩ := heq; exact absurd hlt (by decide))

theorem dropSpace1Rev_plain (c : UInt8) (r : Bytes) (h : plainByte c = true) : Bytes.dropSpace1Rev (c :: r) = none := by
  have hlt := plainByte_lt c h
  unfold Bytes.dropSpace1Rev
  split
  all_goals first
    | rfl
    | (rename_i heq; simp only [List.cons.injEq] at heq; obtain ⟨rfl, _⟩ := heq; exact absurd h (by decide))
    | (rename_i heq; simp only [List.cons.injEq] at heq; obtain ⟨rfl, _⟩ := heq; exact absurd hlt (by decide))
    | (rename_i heq; simp only [List.cons.injEq] at heq; obtain ⟨rfl, _⟩ := heq
       rw [if_neg]
       simp only [UInt8.le_iff_toNat_le, ← UInt8.toNat_inj, UInt8.toNat_ofNat, UInt8.reduceToNat]
       omega)

/-- a line that neither starts nor ends with a white-space rune is left alone by `strings.TrimSpace` -/
theorem trimSpace_id (l : Bytes) (h1 : Bytes.dropSpace1 l = none) (h2 : Bytes.dropSpace1Rev l.reverse = none) :
    trimSpace l = l := by
  have hl : ∀ n, Bytes.trimLeft n l = l := by
    intro n; cases n with
    | zero => rfl
    | succ n => simp only [Bytes.trimLeft, h1]
  have hr : ∀ n, Bytes.trimRightRev n l.reverse = l.reverse := by
    intro n; cases n with
    | zero => rfl
    | succ n => simp only [Bytes.trimRightRev, h2]
  unfold trimSpace Bytes.trimSpace
  simp only [hl, hr, List.reverse_reverse]

theorem encChar_plain : ∀ n, n < 64 → plainByte (B64.encChar n) = true := by decide

theorem encode_plain (b : Bytes) : ∀ c ∈ B64.encode b, plainByte c = true := by
  have hp : plainByte B64.pad = true := by decide
  fun_induction B64.encode b with
  | case1 => simp
  | case2 a =>
    have ha := a.toNat_lt
    intro c hc
    simp only [List.mem_cons, List.not_mem_nil, or_false] at hc
    rcases hc with h | h | h | h <;> subst h <;> first | exact hp | exact encChar_plain _ (by omega)
  | case3 a b =>
    have ha := a.toNat_lt; have hb := b.toNat_lt
    intro c hc
    simp only [List.mem_cons, List.not_mem_nil, or_false] at hc
    rcases hc with h | h | h | h <;> subst h <;> first | exact hp | exact encChar_plain _ (by omega)
  | case4 a b c rest ih =>
    have ha := a.toNat_lt; have hb := b.toNat_lt; have hc := c.toNat_lt
    intro x hx
    simp only [List.mem_cons] at hx
    rcases hx with h | h | h | h | h
    · subst h; exact encChar_plain _ (by omega)
    · subst h; exact encChar_plain _ (by omega)
    · subst h; exact encChar_plain _ (by omega)
    · subst h; exact encChar_plain _ (by omega)
    · exact ih x h

theorem encode_ne_nil (b : Bytes) (h : b ≠ []) : B64.encode b ≠ [] := by
  match b, h with
  | [_], _ => simp [B64.encode]
  | [_, _], _ => simp [B64.encode]
  | _ :: _ :: _ :: _, _ => simp [B64.encode]

theorem segment_ne_nil (g : Img) (i : Nat) (hi : i < totalLines g.data.length) : segment g i ≠ [] := by
  have hlen : 0 < (segment g i).length := by
    unfold segment
    rw [List.length_take, List.length_drop, bytesPerLine_eq]
    unfold totalLines at hi; rw [bytesPerLine_eq] at hi
    omega
  exact List.ne_nil_of_length_pos hlen

theorem trimSpace_chunkLine (g : Img) (ids : Bytes) (total i : Nat) (hi : i < totalLines g.data.length) :
    trimSpace (chunkLine g ids total i) = chunkLine g ids total i := by
  have henc := encode_ne_nil _ (segment_ne_nil g i hi)
  obtain ⟨ys, c, hyc⟩ : ∃ ys c, B64.encode (segment g i) = ys ++ [c] :=
    ⟨_, _, (List.dropLast_concat_getLast henc).symm⟩
  have hc : plainByte c = true := encode_plain _ c (by rw [hyc]; simp)
  obtain ⟨t, ht⟩ : ∃ t, chunkLine g ids total i = 72 :: t := by
    unfold chunkLine cmdString
    split
    · exact ⟨_, by simp [pRGB]; rfl⟩
    · split
      · exact ⟨_, by simp [pGray]; rfl⟩
      · exact ⟨_, by simp [pHWCg]; rfl⟩
  obtain ⟨xs, hxs⟩ : ∃ xs, chunkLine g ids total i = xs ++ [c] := by
    unfold chunkLine; rw [hyc]; exact ⟨_, by rw [← List.append_assoc]⟩
  apply trimSpace_id
  · rw [ht]; exact dropSpace1_plain 72 t (by decide)
  · rw [hxs, List.reverse_append]; exact dropSpace1Rev_plain c _ hc

/-- **streaming**: the encoder's lines, one at a time from any reader state, give exactly one message carrying `g`,
at the last line; the reader ends up reset -/
theorem stream_chunkLines (g : Img) (ids : Bytes) (hv : ValidIds ids) (hr : InRange g) (h : g.data ≠ [])
    (s : RState) (pos : Nat) :
    Stream.runFrom Stream.parse s pos (chunkLines g ids) =
      (rdone (totalLines g.data.length),
        quiet pos (totalLines g.data.length - 1) ++
          [(pos + (totalLines g.data.length - 1), [.gfx (intExplode ids) (received g) 1])]) := by
  have hdec := decode_chunkLines g ids hv hr h
  have hl := totalLines_lt g hr
  have hpos : 0 < totalLines g.data.length := by
    have h1 : g.data.length ≠ 0 := by simpa using h
    have h2 : totalLines g.data.length ≠ 0 := fun e => h1 ((totalLines_eq_zero g.data.length).mp e)
    omega
  rw [chunkLines_cons g ids h] at hdec ⊢
  rw [stream_whole g.ty ids hv.1 s _ _ ((List.range' 1 (totalLines g.data.length - 1)).map (segment g)) _ pos
    (parseLine?_chunk_zero g ids hv hr _ hl) rfl rfl rfl (by simp)
    (isRun_chunkLines g ids hv hr _ _ 1 (by omega) (by omega))
    (trimSpace_chunkLine g ids _ 0 hpos)
    (by
      intro l hl
      simp only [List.mem_map, List.mem_range'_1] at hl
      obtain ⟨i, hi, rfl⟩ := hl
      exact trimSpace_chunkLine g ids _ i (by omega))]
  rw [hdec]
  simp only [List.length_map, List.length_range']
  have : totalLines g.data.length - 1 + 1 = totalLines g.data.length := by omega
  rw [this]

end RawPanelVerif.Gfx
