import RawPanelVerif.Lemmas.StripContent
/-!
# The JSON / message flattening of a valid UTF-8 string is trimmed

`strip_trimmed : validUtf8 s → trimSpace (stripLineBreaks s) = stripLineBreaks s` — the concatenation of the trimmed lines
of a valid UTF-8 string neither begins nor ends with a white-space rune (no such rune can form across a joint, and the
first / last non-empty trimmed line keeps its first / last rune).  Hence flattening is idempotent on valid UTF-8
(`strip_idem`), which is what lets the C03 / C04 specification compare message texts and JSON payloads *exactly* up to
the white space at the edges of their lines (`Spec.Out.normLines`).
-/
namespace RawPanelVerif.Strip
open RawPanelVerif RawPanelVerif.Bytes

/-! ### one white-space rune in front (behind) is always taken -/

theorem dropSpace1_wsRune_append (w r : Bytes) (h : WsRune w) : dropSpace1 (w ++ r) = some r := by
  unfold WsRune dropSpace1 at h
  split at h
  all_goals first
    | (injection h with h; subst h; rfl)
    | (split at h
       · rename_i hc
         injection h with h; subst h
         simp [dropSpace1, hc]
       · exact absurd h (by simp))
    | exact absurd h (by simp)

theorem dropSpace1Rev_wsRuneRev_append (w r : Bytes) (h : WsRuneRev w) : dropSpace1Rev (w ++ r) = some r := by
  unfold WsRuneRev dropSpace1Rev at h
  split at h
  all_goals first
    | (injection h with h; subst h; rfl)
    | (split at h
       · rename_i hc
         injection h with h; subst h
         simp [dropSpace1Rev, hc]
       · exact absurd h (by simp))
    | exact absurd h (by simp)

theorem wsRune_ne_nil (w : Bytes) (h : WsRune w) : w ≠ [] := by
  intro e; subst e; unfold WsRune at h; exact absurd h (by decide)

theorem wsRuneRev_ne_nil (w : Bytes) (h : WsRuneRev w) : w ≠ [] := by
  intro e; subst e; unfold WsRuneRev at h; exact absurd h (by decide)

/-! ### `trimSpace` leaves no white-space rune at either end -/

theorem dropSpace1_trimLeft (n : Nat) (s : Bytes) (hn : s.length ≤ n) : dropSpace1 (trimLeft n s) = none := by
  induction n generalizing s with
  | zero =>
    have : s = [] := List.length_eq_zero_iff.mp (by omega)
    subst this; rfl
  | succ n ih =>
    unfold trimLeft
    cases h : dropSpace1 s with
    | none => simpa using h
    | some r =>
      obtain ⟨w, hs, hw⟩ := dropSpace1_some s r h
      have := wsRune_ne_nil w hw
      have hl : r.length ≤ n := by
        have : s.length = w.length + r.length := by rw [hs]; simp
        have : 0 < w.length := List.length_pos_iff.mpr ‹w ≠ []›
        omega
      simpa using ih r hl

theorem dropSpace1Rev_trimRightRev (n : Nat) (s : Bytes) (hn : s.length ≤ n) : dropSpace1Rev (trimRightRev n s) = none := by
  induction n generalizing s with
  | zero =>
    have : s = [] := List.length_eq_zero_iff.mp (by omega)
    subst this; rfl
  | succ n ih =>
    unfold trimRightRev
    cases h : dropSpace1Rev s with
    | none => simpa using h
    | some r =>
      obtain ⟨w, hs, hw⟩ := dropSpace1Rev_some s r h
      have := wsRuneRev_ne_nil w hw
      have hl : r.length ≤ n := by
        have : s.length = w.length + r.length := by rw [hs]; simp
        have : 0 < w.length := List.length_pos_iff.mpr ‹w ≠ []›
        omega
      simpa using ih r hl

/-- a trimmed string has no white-space rune at its beginning and none at its end -/
theorem trimSpace_ends (l : Bytes) : dropSpace1 (trimSpace l) = none ∧ dropSpace1Rev (trimSpace l).reverse = none := by
  unfold trimSpace
  simp only []
  have hL := dropSpace1_trimLeft l.length l (Nat.le_refl _)
  generalize trimLeft l.length l = L at hL ⊢
  have hT := dropSpace1Rev_trimRightRev L.length L.reverse (by simp)
  obtain ⟨pre, h2, _⟩ := trimRightRev_decomp L.length L.reverse
  generalize trimRightRev L.length L.reverse = T at hT h2 ⊢
  refine ⟨?_, by simpa using hT⟩
  have hLe : L = T.reverse ++ pre.reverse := by
    have := congrArg List.reverse h2
    simpa using this
  cases hd : dropSpace1 T.reverse with
  | none => rfl
  | some r =>
    obtain ⟨w, hs, hw⟩ := dropSpace1_some _ r hd
    rw [hLe, hs, List.append_assoc, dropSpace1_wsRune_append w _ hw] at hL
    exact absurd hL (by simp)

/-- a string without a white-space rune at either end is its own trimmed form -/
theorem trimSpace_fix (s : Bytes) (h1 : dropSpace1 s = none) (h2 : dropSpace1Rev s.reverse = none) : trimSpace s = s := by
  unfold trimSpace
  simp only []
  have e1 : trimLeft s.length s = s := by
    cases s.length with
    | zero => rfl
    | succ n => unfold trimLeft; rw [h1]
  rw [e1]
  have e2 : trimRightRev s.length s.reverse = s.reverse := by
    cases s.length with
    | zero => rfl
    | succ n => unfold trimRightRev; rw [h2]
  rw [e2, List.reverse_reverse]

/-! ### joining chunks cannot create a white-space rune at the ends -/

theorem mem_tail_isCont (u : Bytes) (h : WsRune u) (b : UInt8) (hb : b ∈ u.tail) : isCont b = true := by
  have := wsRune_tail_cont u h
  rw [List.all_eq_true] at this
  exact this b hb

/-- a non-empty chunk without leading white-space rune, followed by something that does not begin with a continuation
byte, does not begin with a white-space rune -/
theorem dropSpace1_append_none (c y : Bytes) (hc : c ≠ []) (h0 : dropSpace1 c = none) (hy : startsCont y = false) :
    dropSpace1 (c ++ y) = none := by
  cases hd : dropSpace1 (c ++ y) with
  | none => rfl
  | some r =>
    exfalso
    obtain ⟨w, hs, hw⟩ := dropSpace1_some _ r hd
    rcases List.append_eq_append_iff.mp hs with ⟨a, e1, e2⟩ | ⟨a, e1, e2⟩
    · -- w = c ++ a : `c` is a proper prefix of the rune unless a = []
      by_cases ha : a = []
      · subst ha
        rw [List.append_nil] at e1
        have := dropSpace1_wsRune_append w [] hw
        rw [List.append_nil, e1, h0] at this; exact absurd this (by simp)
      · -- y = a ++ r with a ≠ [] a tail segment of the rune
        cases a with
        | nil => exact absurd rfl ha
        | cons b bs =>
          have hb : b ∈ w.tail := by
            rw [e1]
            cases c with
            | nil => exact absurd rfl hc
            | cons c0 cs => simp
          have := mem_tail_isCont w hw b hb
          rw [e2] at hy
          simp only [List.cons_append, startsCont] at hy
          rw [this] at hy; exact absurd hy (by simp)
    · -- c = w ++ a
      rw [e1, dropSpace1_wsRune_append w a hw] at h0
      exact absurd h0 (by simp)

/-- mirror image: a non-empty chunk (not beginning with a continuation byte) without trailing white-space rune,
preceded by anything, does not end with a white-space rune -/
theorem dropSpace1Rev_append_none (c z : Bytes) (hc : c ≠ []) (h0 : dropSpace1Rev c.reverse = none)
    (hs : startsCont c = false) : dropSpace1Rev (c.reverse ++ z) = none := by
  cases hd : dropSpace1Rev (c.reverse ++ z) with
  | none => rfl
  | some r =>
    exfalso
    obtain ⟨w, he, hw⟩ := dropSpace1Rev_some _ r hd
    have hu := wsRuneRev_reverse w hw
    rcases List.append_eq_append_iff.mp he with ⟨a, e1, e2⟩ | ⟨a, e1, e2⟩
    · -- w = c.reverse ++ a
      by_cases ha : a = []
      · subst ha
        rw [List.append_nil] at e1
        have := dropSpace1Rev_wsRuneRev_append w [] hw
        rw [List.append_nil, e1] at this
        rw [this] at h0; exact absurd h0 (by simp)
      · -- w.reverse = a.reverse ++ c, a ≠ []: `c` is a tail segment of the forward rune
        have e3 : w.reverse = a.reverse ++ c := by rw [e1]; simp
        cases c with
        | nil => exact absurd rfl hc
        | cons c0 cs =>
          have hb : c0 ∈ w.reverse.tail := by
            rw [e3]
            cases har : a.reverse with
            | nil => exact absurd (List.reverse_eq_nil_iff.mp har) ha
            | cons x xs => simp
          have := mem_tail_isCont _ hu c0 hb
          simp only [startsCont] at hs
          rw [this] at hs; exact absurd hs (by simp)
    · -- c.reverse = w ++ a
      rw [e1, dropSpace1Rev_wsRuneRev_append w a hw] at h0
      exact absurd h0 (by simp)

/-- what a trimmed valid line is, as a chunk -/
structure Chunk (c : Bytes) : Prop where
  left : dropSpace1 c = none
  right : dropSpace1Rev c.reverse = none
  start : startsCont c = false

theorem startsCont_flatten (cs : List Bytes) (h : ∀ c ∈ cs, startsCont c = false) : startsCont cs.flatten = false := by
  induction cs with
  | nil => rfl
  | cons c cs ih =>
    simp only [List.flatten_cons]
    exact startsCont_append c _ (h c (by simp)) (ih (fun x hx => h x (by simp [hx])))

theorem flatten_left (cs : List Bytes) (h : ∀ c ∈ cs, Chunk c) : dropSpace1 cs.flatten = none := by
  induction cs with
  | nil => rfl
  | cons c cs ih =>
    simp only [List.flatten_cons]
    have ih' := ih (fun x hx => h x (by simp [hx]))
    by_cases hc : c = []
    · subst hc; simpa using ih'
    · exact dropSpace1_append_none c _ hc (h c (by simp)).left
        (startsCont_flatten cs (fun x hx => (h x (by simp [hx])).start))

theorem flatten_right_aux (ds : List Bytes) (h : ∀ c ∈ ds, Chunk c) : dropSpace1Rev (ds.map List.reverse).flatten = none := by
  induction ds with
  | nil => rfl
  | cons c ds ih =>
    simp only [List.map_cons, List.flatten_cons]
    have ih' := ih (fun x hx => h x (by simp [hx]))
    by_cases hc : c = []
    · subst hc; simpa using ih'
    · exact dropSpace1Rev_append_none c _ hc (h c (by simp)).right (h c (by simp)).start

theorem flatten_right (cs : List Bytes) (h : ∀ c ∈ cs, Chunk c) : dropSpace1Rev cs.flatten.reverse = none := by
  have := flatten_right_aux cs.reverse (fun c hc => h c (by simpa using hc))
  rw [List.reverse_flatten, ← List.map_reverse]
  exact this

/-- the concatenation of chunks is trimmed -/
theorem flatten_trimmed (cs : List Bytes) (h : ∀ c ∈ cs, Chunk c) : trimSpace cs.flatten = cs.flatten :=
  trimSpace_fix _ (flatten_left cs h) (flatten_right cs h)

theorem chunk_trim_valid (l : Bytes) (h : utf8Run [] l = some []) : Chunk (trimSpace l) :=
  ⟨(trimSpace_ends l).1, (trimSpace_ends l).2, startsCont_trim_valid l h⟩

/-- **the flattening of a valid UTF-8 string is trimmed** -/
theorem strip_trimmed (s : Bytes) (h : validUtf8 s = true) : trimSpace (stripLineBreaks s) = stripLineBreaks s := by
  unfold validUtf8 at h
  rw [beq_iff_eq, ← join_splitOn 10 s] at h
  have hl := utf8Run_lines _ h
  unfold stripLineBreaks
  apply flatten_trimmed
  intro c hc
  simp only [List.mem_map] at hc
  obtain ⟨l, hlm, rfl⟩ := hc
  exact chunk_trim_valid l (hl l hlm)

/-- a string without LF is flattened to its trimmed form -/
theorem strip_noLF (s : Bytes) (h : (10 : UInt8) ∉ s) : stripLineBreaks s = trimSpace s := by
  unfold stripLineBreaks
  rw [splitOn_nosep 10 s h]
  simp

/-- **flattening is idempotent on valid UTF-8** -/
theorem strip_idem (s : Bytes) (h : validUtf8 s = true) (hno : (10 : UInt8) ∉ stripLineBreaks s) :
    stripLineBreaks (stripLineBreaks s) = stripLineBreaks s := by
  rw [strip_noLF _ hno, strip_trimmed s h]

end RawPanelVerif.Strip
