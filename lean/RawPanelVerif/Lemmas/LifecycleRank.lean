import RawPanelVerif.Lemmas.LifecycleMeasure
/-! A rank that bounds how long the client can keep going when the environment does not disturb it (no new
panel drop, no new bytes, no new `msgsToPanel` traffic, consumer not stopping): every program step and every
awaited environment step (dial result, time while sleeping, consumer resuming, a write being taken) decreases it. -/
namespace RawPanelVerif.Lifecycle

/-- the connection can still end with an uncancelled disconnect without a further step of the panel:
the panel has gone, the reader has given up, or (binary) a frame has started and can run into its deadline -/
def doomable (c : Conn) : Bool := c.peerClosed || c.fault || (c.binary && decide (0 < c.partial))

def Phase.inConn : Phase → Bool
  | .probing | .announcing | .connected | .teardown _ => true
  | _ => false

/-- budget for the retry sleep and the further connection that follow an uncancelled disconnect -/
def headBonus (rc : Nat) (inConn : Bool) : List Conn → Nat
  | c :: _ => if inConn = true ∧ c.exit = false ∧ doomable c = true then rc + 14 else 0
  | [] => 0

def cphase : Phase → (sleepLeft : Nat) → (timerPending : Bool) → Nat
  | .returned, _, _ => 0
  | .exiting, _, _ => 1
  | .noConnWait, _, true => 1
  | .noConnWait, _, false => 16
  | .teardown .callback, _, _ => 2
  | .teardown .close, _, _ => 3
  | .teardown .quit, _, _ => 4
  | .connected, _, _ => 5
  | .announcing, _, _ => 6
  | .probing, _, _ => 9
  | .dialing, _, _ => 14
  | .retrySleep, left, _ => 15 + left

def crank (s : St) : Nat :=
  cphase s.phase (s.wake - s.now) (decide (s.now < s.wake)) + headBonus s.rc s.phase.inConn s.conns + connsRank s.conns
    + 14 * s.offered + (if s.consumer then 0 else 1)

/-- program steps and the environment steps the client may be waiting for -/
def helpful (s : St) : Lbl → Bool
  | .cancel | .peerClose | .byteArrive _ | .offer | .consumerStop => false
  | .consumerResume => !s.consumer
  | .tick d => decide (0 < d ∧ s.phase = .retrySleep ∧ s.now < s.wake)
  | _ => true

/-- environment steps that cannot prolong the run -/
def neutral (s : St) : Lbl → Bool
  | .cancel | .consumerResume => true
  | .tick _ => decide (s.phase ≠ .noConnWait)
  | _ => false

theorem headBonus_cons_same (rc : Nat) (b : Bool) {c c' : Conn} (rest : List Conn) (hd : doomable c' = doomable c)
    (he : c'.exit = c.exit) : headBonus rc b (c' :: rest) = headBonus rc b (c :: rest) := by
  simp [headBonus, hd, he]

theorem headBonus_set_same (rc : Nat) (b : Bool) : ∀ (cs : List Conn) (i : Nat) (c c' : Conn), cs[i]? = some c →
    doomable c' = doomable c → c'.exit = c.exit → headBonus rc b (cs.set i c') = headBonus rc b cs
  | [], i, c, c', h, _, _ => by simp at h
  | d :: r, 0, c, c', h, hd, he => by simp at h; subst h; simp [headBonus, hd, he]
  | d :: r, i + 1, c, c', h, _, _ => by simp [headBonus]

theorem headBonus_set_le (rc : Nat) (b : Bool) : ∀ (cs : List Conn) (i : Nat) (c c' : Conn), cs[i]? = some c →
    doomable c' = doomable c → c'.exit = true → headBonus rc b (cs.set i c') ≤ headBonus rc b cs
  | [], i, c, c', h, _, _ => by simp at h
  | d :: r, 0, c, c', h, hd, he => by simp at h; subst h; simp [headBonus, he]
  | d :: r, i + 1, c, c', h, _, _ => by simp [headBonus]

theorem headBonus_notIn (rc : Nat) (cs : List Conn) : headBonus rc false cs = 0 := by
  cases cs <;> simp [headBonus]

theorem headBonus_le (rc : Nat) (b : Bool) (cs : List Conn) : headBonus rc b cs ≤ rc + 14 := by
  cases cs with
  | nil => simp [headBonus]
  | cons c r => simp only [headBonus]; split <;> omega

theorem crank_step (ae : Bool) (s s' : St) (l : Lbl) (hC : InvC s) (hnc : 0 < s.nc) (hs : step ae s l = some s') :
    (helpful s l = true → crank s' < crank s) ∧ (neutral s l = true → crank s' ≤ crank s) := by
  cases l with
  | cancel => have := step_cancel hs; subst this; exact ⟨by simp [helpful], fun _ => Nat.le_refl _⟩
  | offer => exact ⟨by simp [helpful], by simp [neutral]⟩
  | consumerStop => exact ⟨by simp [helpful], by simp [neutral]⟩
  | peerClose => exact ⟨by simp [helpful], by simp [neutral]⟩
  | byteArrive fin => exact ⟨by simp [helpful], by simp [neutral]⟩
  | consumerResume =>
    have := step_consumerResume hs; subst this
    refine ⟨fun h => ?_, fun _ => ?_⟩
    · simp [helpful] at h; simp [crank, h]
    · simp only [crank]; cases s.consumer <;> simp
  | tick d =>
    have := step_tick hs; subst this
    refine ⟨fun h => ?_, fun h => ?_⟩
    · simp [helpful] at h
      obtain ⟨h1, h2, h3⟩ := h
      simp [crank, h2, cphase, Phase.inConn]; omega
    · simp [neutral] at h
      simp only [crank]
      have : cphase s.phase (s.wake - (s.now + d)) (decide (s.now + d < s.wake)) ≤ cphase s.phase (s.wake - s.now) (decide (s.now < s.wake)) := by
        cases hp : s.phase with
        | noConnWait => exact absurd hp h
        | retrySleep => simp [cphase]; omega
        | teardown t => cases t <;> simp [cphase]
        | _ => simp [cphase]
      omega
  | dialOk bin =>
    obtain ⟨hp, rfl⟩ := step_dialOk hs
    refine ⟨fun _ => ?_, by simp [neutral]⟩
    simp [crank, hp, cphase, Phase.inConn, headBonus, doomable, Conn.partial, partialOf, connsRank, connRank, wRank, Conn.arrived]
    omega
  | dialFail =>
    obtain ⟨hp, rfl⟩ := step_dialFail hs
    refine ⟨fun _ => ?_, by simp [neutral]⟩
    have : s.now < s.now + s.nc := by omega
    simp [crank, hp, cphase, Phase.inConn, this]
  | noConnTimer =>
    obtain ⟨hp, hw, rfl⟩ := step_noConnTimer hs
    refine ⟨fun _ => ?_, by simp [neutral]⟩
    have : ¬ (s.now < s.wake) := by omega
    simp [crank, hp, cphase, Phase.inConn, this]
  | noConnDrain =>
    obtain ⟨hp, ho, rfl⟩ := step_noConnDrain hs
    refine ⟨fun _ => ?_, by simp [neutral]⟩
    simp only [crank, hp, Phase.inConn]
    have : 1 ≤ cphase .noConnWait (s.wake - s.now) (decide (s.now < s.wake)) := by
      cases decide (s.now < s.wake) <;> simp [cphase]
    simp [cphase] at this ⊢; omega
  | sleepDone =>
    obtain ⟨hp, hw, rfl⟩ := step_sleepDone hs
    refine ⟨fun _ => ?_, by simp [neutral]⟩
    simp [crank, hp, cphase, Phase.inConn]; omega
  | onConnect =>
    obtain ⟨hp, rfl⟩ := step_onConnect hs
    refine ⟨fun _ => ?_, by simp [neutral]⟩
    simp [crank, hp, cphase, Phase.inConn]
  | ret =>
    obtain ⟨hp, rfl⟩ := step_ret hs
    refine ⟨fun _ => ?_, by simp [neutral]⟩
    rcases hp with hp | ⟨hp, _⟩
    · simp [crank, hp, cphase, Phase.inConn, headBonus_notIn]
    · have : 1 ≤ cphase .noConnWait (s.wake - s.now) (decide (s.now < s.wake)) := by
        cases decide (s.now < s.wake) <;> simp [cphase]
      simp [crank, hp, cphase, Phase.inConn, headBonus_notIn] at this ⊢; omega
  | readErr =>
    obtain ⟨c, rest, hc, hp, _, _, rfl⟩ := step_readErr hs
    refine ⟨fun _ => ?_, by simp [neutral]⟩
    simp [crank, hp, cphase, Phase.inConn]
  | readFault =>
    obtain ⟨c, rest, hc, hp, _, hb, _, _, hpa, rfl⟩ := step_readFault hs
    refine ⟨fun _ => ?_, by simp [neutral]⟩
    have hd : doomable { c with fault := true } = doomable c := by
      have : decide (0 < c.partial) = true := by simpa using hpa
      simp [doomable, hb, Conn.partial] at this ⊢; simp [this]
    simp [crank, hc, hp, cphase, Phase.inConn, headBonus_cons_same s.rc true rest hd rfl, connsRank, connRank, Conn.arrived]
  | closeQuit =>
    obtain ⟨c, rest, hc, hp, rfl⟩ := step_closeQuit hs
    refine ⟨fun _ => ?_, by simp [neutral]⟩
    have hd : doomable { c with quit := true } = doomable c := rfl
    simp [crank, hc, hp, cphase, Phase.inConn, headBonus_cons_same s.rc true rest hd rfl, connsRank, connRank, Conn.arrived]
  | connClose =>
    obtain ⟨c, rest, hc, hp, rfl⟩ := step_connClose hs
    refine ⟨fun _ => ?_, by simp [neutral]⟩
    have hd : doomable { c with closed := true } = doomable c := rfl
    simp [crank, hc, hp, cphase, Phase.inConn, headBonus_cons_same s.rc true rest hd rfl, connsRank, connRank, Conn.arrived]
  | spawnWriter =>
    obtain ⟨c, rest, hc, hp, rfl⟩ := step_spawnWriter hs
    refine ⟨fun _ => ?_, by simp [neutral]⟩
    have hu : c.w = .unborn := (hC 0 c (by simp [hc])).unbornIff.mpr ⟨rfl, hp⟩
    have hd : doomable { c with w := .spawned } = doomable c := rfl
    simp [crank, hc, hp, cphase, Phase.inConn, headBonus_cons_same s.rc true rest hd rfl, connsRank, connRank, Conn.arrived, wRank, hu]
  | takeFrame =>
    obtain ⟨c, rest, hc, hp, hh, _, _, rfl⟩ := step_takeFrame hs
    refine ⟨fun _ => ?_, by simp [neutral]⟩
    have hd : doomable { c with held := true } = doomable c := rfl
    simp [crank, hc, hp, cphase, Phase.inConn, headBonus_cons_same s.rc true rest hd rfl, connsRank, connRank, Conn.arrived, hh]
  | deliver =>
    obtain ⟨c, rest, hc, hp, hh, _, rfl⟩ := step_deliver hs
    refine ⟨fun _ => ?_, by simp [neutral]⟩
    have hle := (hC 0 c (by simp [hc])).delLe
    have hd : doomable { c with held := false, delivered := c.delivered + 1 } = doomable c := rfl
    simp [hh] at hle
    simp [crank, hc, hp, cphase, Phase.inConn, headBonus_cons_same s.rc true rest hd rfl, connsRank, connRank, Conn.arrived, hh] at hle ⊢
    omega
  | onDisconnect b =>
    obtain ⟨c, rest, hc, hp, hb, rfl⟩ := step_onDisconnect hs
    refine ⟨fun _ => ?_, by simp [neutral]⟩
    cases b with
    | true =>
      simp [crank, hc, hp, cphase, Phase.inConn, headBonus, ← hb]
    | false =>
      have hdr := (hC 0 c (by simp [hc])).dropped (Or.inr (by simp [hp, Phase.reading])) hb.symm
      have hd : doomable c = true := by
        rcases hdr.1 with h | h <;> simp [doomable, h]
      simp [crank, hc, hp, cphase, Phase.inConn, headBonus, ← hb, hd]
      omega
  | writerStart i =>
    obtain ⟨c, hc, hw, rfl⟩ := step_writerStart hs
    refine ⟨fun _ => ?_, by simp [neutral]⟩
    have h1 := connsRank_set s.conns i c { c with w := .running } hc
    have h2 := connRank_w c .running
    have h3 := headBonus_set_same s.rc s.phase.inConn s.conns i c { c with w := .running } hc rfl rfl
    simp [wRank, hw] at h1 h2
    simp only [crank, h3]; omega
  | writerSeesQuit i =>
    obtain ⟨c, hc, hw, _, rfl⟩ := step_writerSeesQuit hs
    refine ⟨fun _ => ?_, by simp [neutral]⟩
    have h1 := connsRank_set s.conns i c { c with w := .exited } hc
    have h2 := connRank_w c .exited
    have h3 := headBonus_set_same s.rc s.phase.inConn s.conns i c { c with w := .exited } hc rfl rfl
    simp [wRank, hw] at h1 h2
    simp only [crank, h3]; omega
  | writerTake i =>
    obtain ⟨c, hc, hw, ho, rfl⟩ := step_writerTake hs
    refine ⟨fun _ => ?_, by simp [neutral]⟩
    have h1 := connsRank_set s.conns i c { c with w := .writing } hc
    have h2 := connRank_w c .writing
    have h3 := headBonus_set_same s.rc s.phase.inConn s.conns i c { c with w := .writing } hc rfl rfl
    simp [wRank, hw] at h1 h2
    simp only [crank, h3]; omega
  | writeDone i =>
    obtain ⟨c, hc, hw, _, rfl⟩ := step_writeDone hs
    refine ⟨fun _ => ?_, by simp [neutral]⟩
    have h1 := connsRank_set s.conns i c { c with w := .running } hc
    have h2 := connRank_w c .running
    have h3 := headBonus_set_same s.rc s.phase.inConn s.conns i c { c with w := .running } hc rfl rfl
    simp [wRank, hw] at h1 h2
    simp only [crank, h3]; omega
  | writeErr i =>
    obtain ⟨c, hc, hw, _, rfl⟩ := step_writeErr hs
    refine ⟨fun _ => ?_, by simp [neutral]⟩
    have h1 := connsRank_set s.conns i c { c with w := .running } hc
    have h2 := connRank_w c .running
    have h3 := headBonus_set_same s.rc s.phase.inConn s.conns i c { c with w := .running } hc rfl rfl
    simp [wRank, hw] at h1 h2
    simp only [crank, h3]; omega
  | writerSeesCancel i =>
    obtain ⟨c, hc, hw, _, rfl⟩ := step_writerSeesCancel hs
    refine ⟨fun _ => ?_, by simp [neutral]⟩
    have h1 := connsRank_set s.conns i c { c with w := .exited, exit := true, closed := true } hc
    have h2 : connRank { c with w := .exited, exit := true, closed := true } + wRank c.w = connRank c + wRank .exited := by
      simp [connRank, Conn.arrived]; omega
    have h3 := headBonus_set_le s.rc s.phase.inConn s.conns i c { c with w := .exited, exit := true, closed := true } hc rfl rfl
    simp [wRank, hw] at h1 h2
    simp only [crank]; omega

end RawPanelVerif.Lifecycle
