import RawPanelVerif.Lemmas.EncSoundAll
/-! C02: what the decoder's byte matchers accept (shape lemmas), and the silence of non-grammar lines
(decoder and reference reader). -/
namespace RawPanelVerif.DecShape
open RawPanelVerif RawPanelVerif.Bytes RawPanelVerif.MsgIn RawPanelVerif.Model.In RawPanelVerif.InBits RawPanelVerif.ReadIn
open RawPanelVerif.Spec.In RawPanelVerif.EncSound RawPanelVerif.TotalIn

/-! ## shape of what the byte matchers accept -/

theorem stripPrefix_some (p s r : Bytes) (h : stripPrefix p s = some r) : s = p ++ r := by
  induction p generalizing s with
  | nil => simp [stripPrefix] at h; subst h; rfl
  | cons c cs ih =>
    cases s with
    | nil => simp [stripPrefix] at h
    | cons d ds =>
      simp only [stripPrefix] at h
      split at h
      · rename_i e; subst e
        rw [ih ds h]; rfl
      · simp at h

theorem stripPrefix_append (p r : Bytes) : stripPrefix p (p ++ r) = some r := by
  induction p with
  | nil => cases r <;> rfl
  | cons c cs ih => simp [stripPrefix, ih]

theorem firstKw_some (ks : List Bytes) (s kw r : Bytes) (h : firstKw ks s = some (kw, r)) : kw ∈ ks ∧ s = kw ++ r := by
  induction ks with
  | nil => simp [firstKw] at h
  | cons k ks ih =>
    unfold firstKw at h
    split at h
    · rename_i r' hr
      simp only [Option.some.injEq, Prod.mk.injEq] at h
      obtain ⟨rfl, rfl⟩ := h
      exact ⟨by simp, stripPrefix_some _ _ _ hr⟩
    · have := ih h
      exact ⟨by simp [this.1], this.2⟩

theorem spanP_spec (p : UInt8 → Bool) (s : Bytes) :
    s = (spanP p s).1 ++ (spanP p s).2 ∧ (spanP p s).1.all p = true ∧
    (∀ c r, (spanP p s).2 = c :: r → p c = false) := by
  induction s with
  | nil => simp [spanP]
  | cons c cs ih =>
    unfold spanP
    by_cases hc : p c = true
    · simp only [hc, if_true]
      obtain ⟨h1, h2, h3⟩ := ih
      refine ⟨?_, ?_, h3⟩
      · simp only [List.cons_append]; rw [← h1]
      · simp [hc, h2]
    · simp only [hc, Bool.false_eq_true, if_false]
      refine ⟨rfl, rfl, ?_⟩
      intro c' r' e
      injection e with e1 _
      subst e1
      simpa using hc

/-- `spanP` on `a ++ c :: r` with `a` all-`p` and `c` not `p` -/
theorem spanP_append (p : UInt8 → Bool) (a : Bytes) (c : UInt8) (r : Bytes) (ha : a.all p = true) (hc : p c = false) :
    spanP p (a ++ c :: r) = (a, c :: r) := by
  induction a with
  | nil => simp [spanP, hc]
  | cons x xs ih =>
    simp only [List.all_cons, Bool.and_eq_true] at ha
    simp [spanP, ha.1, ih ha.2]

theorem spanP_all (p : UInt8 → Bool) (a : Bytes) (ha : a.all p = true) : spanP p a = (a, []) := by
  induction a with
  | nil => rfl
  | cons x xs ih =>
    simp only [List.all_cons, Bool.and_eq_true] at ha
    simp [spanP, ha.1, ih ha.2]

/-- `matchCmd` accepts exactly `kw ids=value` -/
theorem matchCmd_some (s : Bytes) (m : List Bytes) (h : matchCmd s = some m) :
    ∃ kw ids v, kw ∈ kwCmd ∧ ids ≠ [] ∧ ids.all isDigitComma = true ∧ noLF v = true ∧ s = kw ++ ids ++ 61 :: v ∧ m = [s, kw, ids, v] := by
  unfold matchCmd at h
  split at h
  · simp at h
  · rename_i kw r hk
    obtain ⟨hk1, hk2⟩ := firstKw_some _ _ _ _ hk
    have hsp := spanP_spec isDigitComma r
    generalize spanP isDigitComma r = sp at h hsp
    obtain ⟨ids, r1⟩ := sp
    simp only [] at h hsp
    split at h
    · simp at h
    · rename_i hne
      split at h
      · rename_i v
        split at h
        · rename_i hlf
          simp only [Option.some.injEq] at h
          refine ⟨kw, ids, v, hk1, hne, hsp.2.1, hlf, ?_, h.symm⟩
          rw [hk2, hsp.1, List.append_assoc]
        · simp at h
      · simp at h

theorem wf_or_outside (c : Prop) [Decidable c] : (if c then LineClass.wellFormed else LineClass.outside) ≠ .nonGrammar := by
  split <;> simp

theorem classify_nonGrammar (O : Oracles) (l : Bytes) (h : classify O l = .nonGrammar) :
    l.head? ≠ some 123 ∧ l.head? ≠ some 91 ∧
    (match cut 61 l with
     | none => wordTable.lookup l = none
     | some (key, _) =>
       match cut 35 key with
       | some (fam, _) => grammarFams.contains fam = false
       | none => plainKeys.contains key = false ∧ readRegKey regWord key = none) := by
  unfold classify at h
  split at h
  · simp at h
  · simp at h
  · rename_i h1 h2
    refine ⟨?_, ?_, ?_⟩
    · intro e
      cases l with
      | nil => simp at e
      | cons c cs => simp at e; subst e; exact h1 cs rfl
    · intro e
      cases l with
      | nil => simp at e
      | cons c cs => simp at e; subst e; exact h2 cs rfl
    · cases hc : cut 61 l with
      | none =>
        rw [hc] at h
        simp only [] at h ⊢
        split at h
        · simp at h
        · rename_i hw
          cases hl : wordTable.lookup l with
          | none => rfl
          | some e => rw [hl] at hw; simp at hw
      | some kv =>
        obtain ⟨key, v⟩ := kv
        rw [hc] at h
        simp only [] at h ⊢
        cases hf : cut 35 key with
        | some fi =>
          obtain ⟨fam, ids⟩ := fi
          rw [hf] at h
          simp only [] at h ⊢
          split at h
          · rename_i hg; simpa using hg
          · exfalso
            split at h
            · simp at h
            · exact wf_or_outside _ h
        | none =>
          rw [hf] at h
          simp only [] at h ⊢
          split at h
          · exfalso
            split at h
            · simp at h
            · split at h
              · simp at h
              · split at h <;> simp at h
          · rename_i hp
            split at h
            · split at h <;> simp at h
            · rename_i hr
              exact ⟨by simpa using hp, hr⟩

theorem hashLine_grammar (O : Oracles) (fam ids v : Bytes) (h61f : (61 : UInt8) ∉ fam) (h35 : (35 : UInt8) ∉ fam)
    (h61i : (61 : UInt8) ∉ ids) (hg : grammarFams.contains fam = true) :
    classify O (fam ++ 35 :: ids ++ 61 :: v) ≠ .nonGrammar := by
  intro h
  have := (classify_nonGrammar O _ h).2.2
  have hk : (61 : UInt8) ∉ fam ++ 35 :: ids := by
    intro hm
    simp only [List.mem_append, List.mem_cons] at hm
    rcases hm with hm | hm | hm
    · exact h61f hm
    · exact absurd hm (by decide)
    · exact h61i hm
  rw [cut_append 61 _ _ hk] at this
  simp only [] at this
  rw [cut_append 35 _ _ h35] at this
  simp only [] at this
  rw [hg] at this
  exact absurd this (by simp)

theorem plainLine_grammar (O : Oracles) (key v : Bytes) (h61 : (61 : UInt8) ∉ key) (h35 : (35 : UInt8) ∉ key)
    (hg : plainKeys.contains key = true ∨ readRegKey regWord key ≠ none) :
    classify O (key ++ 61 :: v) ≠ .nonGrammar := by
  intro h
  have := (classify_nonGrammar O _ h).2.2
  rw [cut_append 61 _ _ h61] at this
  simp only [] at this
  rw [cut_none 35 _ h35] at this
  simp only [] at this
  rcases hg with hg | hg
  · rw [hg] at this; exact absurd this.1 (by simp)
  · exact hg this.2

theorem all_dc_no61 (ids : Bytes) (h : ids.all isDigitComma = true) : (61 : UInt8) ∉ ids :=
  all_not_mem _ ids 61 h (by decide)

theorem matchCmd_grammar (O : Oracles) (s : Bytes) (m : List Bytes) (h : matchCmd s = some m) : classify O s ≠ .nonGrammar := by
  obtain ⟨kw, ids, v, hk, _, hids, _, hs, _⟩ := matchCmd_some s m h
  rw [hs]
  simp only [kwCmd, List.mem_cons, List.not_mem_nil, or_false] at hk
  rcases hk with rfl | rfl | rfl | rfl | rfl
  · have := hashLine_grammar O (asc "HWC") ids v (by decide) (by decide) (all_dc_no61 _ hids) (by decide)
    rwa [show asc "HWC" ++ 35 :: ids = asc "HWC#" ++ ids by rw [show asc "HWC#" = asc "HWC" ++ [35] by decide]; simp] at this
  · have := hashLine_grammar O (asc "HWCx") ids v (by decide) (by decide) (all_dc_no61 _ hids) (by decide)
    rwa [show asc "HWCx" ++ 35 :: ids = asc "HWCx#" ++ ids by rw [show asc "HWCx#" = asc "HWCx" ++ [35] by decide]; simp] at this
  · have := hashLine_grammar O (asc "HWCc") ids v (by decide) (by decide) (all_dc_no61 _ hids) (by decide)
    rwa [show asc "HWCc" ++ 35 :: ids = asc "HWCc#" ++ ids by rw [show asc "HWCc#" = asc "HWCc" ++ [35] by decide]; simp] at this
  · have := hashLine_grammar O (asc "HWCt") ids v (by decide) (by decide) (all_dc_no61 _ hids) (by decide)
    rwa [show asc "HWCt" ++ 35 :: ids = asc "HWCt#" ++ ids by rw [show asc "HWCt#" = asc "HWCt" ++ [35] by decide]; simp] at this
  · have := hashLine_grammar O (asc "HWCrawADCValues") ids v (by decide) (by decide) (all_dc_no61 _ hids) (by decide)
    rwa [show asc "HWCrawADCValues" ++ 35 :: ids = asc "HWCrawADCValues#" ++ ids by rw [show asc "HWCrawADCValues#" = asc "HWCrawADCValues" ++ [35] by decide]; simp] at this

theorem digits1_some (s d r : Bytes) (h : digits1 s = some (d, r)) : s = d ++ r ∧ d ≠ [] ∧ d.all isDigit = true := by
  unfold digits1 at h
  have hsp := spanP_spec isDigit s
  generalize spanP isDigit s = sp at h hsp
  obtain ⟨a, b⟩ := sp
  simp only [] at h hsp
  split at h
  · simp at h
  · rename_i hne
    simp only [Option.some.injEq, Prod.mk.injEq] at h
    obtain ⟨rfl, rfl⟩ := h
    exact ⟨hsp.1, hne, hsp.2.1⟩

/-- `matchGfx` accepts only `kw ids=…` -/
theorem matchGfx_prefix (s : Bytes) (m : List Bytes) (h : matchGfx s = some m) :
    ∃ kw ids v, kw ∈ kwGfx ∧ ids.all isDigitComma = true ∧ s = kw ++ ids ++ 61 :: v := by
  unfold matchGfx at h
  split at h
  · simp at h
  · rename_i kw r hk
    obtain ⟨hk1, hk2⟩ := firstKw_some _ _ _ _ hk
    have hsp := spanP_spec isDigitComma r
    generalize spanP isDigitComma r = sp at h hsp
    obtain ⟨ids, r1⟩ := sp
    simp only [] at h hsp
    split at h
    · simp at h
    · split at h
      · rename_i v
        exact ⟨kw, ids, v, hk1, hsp.2.1, by rw [hk2, hsp.1, List.append_assoc]⟩
      · simp at h

theorem matchGfx_grammar (O : Oracles) (s : Bytes) (m : List Bytes) (h : matchGfx s = some m) : classify O s ≠ .nonGrammar := by
  obtain ⟨kw, ids, v, hk, hids, hs⟩ := matchGfx_prefix s m h
  rw [hs]
  simp only [kwGfx, List.mem_cons, List.not_mem_nil, or_false] at hk
  rcases hk with rfl | rfl | rfl
  · have := hashLine_grammar O (asc "HWCgRGB") ids v (by decide) (by decide) (all_dc_no61 _ hids) (by decide)
    rwa [show asc "HWCgRGB" ++ 35 :: ids = asc "HWCgRGB#" ++ ids by rw [show asc "HWCgRGB#" = asc "HWCgRGB" ++ [35] by decide]; simp] at this
  · have := hashLine_grammar O (asc "HWCgGray") ids v (by decide) (by decide) (all_dc_no61 _ hids) (by decide)
    rwa [show asc "HWCgGray" ++ 35 :: ids = asc "HWCgGray#" ++ ids by rw [show asc "HWCgGray#" = asc "HWCgGray" ++ [35] by decide]; simp] at this
  · have := hashLine_grammar O (asc "HWCg") ids v (by decide) (by decide) (all_dc_no61 _ hids) (by decide)
    rwa [show asc "HWCg" ++ 35 :: ids = asc "HWCg#" ++ ids by rw [show asc "HWCg#" = asc "HWCg" ++ [35] by decide]; simp] at this

theorem matchSingle_some (s : Bytes) (m : List Bytes) (h : matchSingle s = some m) :
    ∃ kw d, kw ∈ kwSingle ∧ d ≠ [] ∧ d.all isDigit = true ∧ s = kw ++ 61 :: d ∧ m = [s, kw, d] := by
  unfold matchSingle at h
  split at h
  · simp at h
  · rename_i kw r hk
    obtain ⟨hk1, hk2⟩ := firstKw_some _ _ _ _ hk
    split at h
    · rename_i d
      split at h
      · rename_i hd
        simp only [Option.some.injEq] at h
        exact ⟨kw, d, hk1, hd.1, hd.2, hk2, h.symm⟩
      · simp at h
    · simp at h

theorem matchStr_some (s : Bytes) (m : List Bytes) (h : matchStr s = some m) :
    ∃ kw v, kw ∈ kwStr ∧ noLF v = true ∧ s = kw ++ 61 :: v ∧ m = [s, kw, v] := by
  unfold matchStr at h
  split at h
  · simp at h
  · rename_i kw r hk
    obtain ⟨hk1, hk2⟩ := firstKw_some _ _ _ _ hk
    split at h
    · rename_i v
      split at h
      · rename_i hd
        simp only [Option.some.injEq] at h
        exact ⟨kw, v, hk1, hd, hk2, h.symm⟩
      · simp at h
    · simp at h

theorem matchDual_some (s : Bytes) (m : List Bytes) (h : matchDual s = some m) :
    ∃ a b, a ≠ [] ∧ a.all isDigit = true ∧ b ≠ [] ∧ b.all isDigit = true ∧
      s = asc "PanelBrightness" ++ 61 :: (a ++ 44 :: b) ∧ m = [s, asc "PanelBrightness", a, b] := by
  unfold matchDual at h
  split at h
  · simp at h
  · rename_i r hp
    have hs := stripPrefix_some _ _ _ hp
    split at h
    · simp at h
    · rename_i a r1 hd
      obtain ⟨hr, ha1, ha2⟩ := digits1_some _ _ _ hd
      split at h
      · rename_i b
        split at h
        · rename_i hb
          simp only [Option.some.injEq] at h
          refine ⟨a, b, ha1, ha2, hb.1, hb.2, ?_, h.symm⟩
          rw [hs, hr, show asc "PanelBrightness=" = asc "PanelBrightness" ++ [61] by decide]
          simp
        · simp at h
      · simp at h

theorem matchReg_some (s : Bytes) (m : List Bytes) (h : matchReg s = some m) :
    ∃ kw id d, kw ∈ kwReg ∧ id.all Model.In.isUpperDigit = true ∧ d ≠ [] ∧ d.all isDigit = true ∧
      s = kw ++ id ++ 61 :: d ∧ m = [s, kw, id, d] := by
  unfold matchReg at h
  split at h
  · simp at h
  · rename_i kw r hk
    obtain ⟨hk1, hk2⟩ := firstKw_some _ _ _ _ hk
    have hsp := spanP_spec Model.In.isUpperDigit r
    generalize spanP Model.In.isUpperDigit r = sp at h hsp
    obtain ⟨id, r1⟩ := sp
    simp only [] at h hsp
    split at h
    · rename_i d
      split at h
      · rename_i hd
        simp only [Option.some.injEq] at h
        refine ⟨kw, id, d, hk1, hsp.2.1, hd.1, hd.2, ?_, h.symm⟩
        rw [hk2, hsp.1, List.append_assoc]
      · simp at h
    · simp at h

theorem upperDigit_same : Model.In.isUpperDigit = Spec.In.isUpperDigit := rfl

theorem matchSingle_grammar (O : Oracles) (s : Bytes) (m : List Bytes) (h : matchSingle s = some m) : classify O s ≠ .nonGrammar := by
  obtain ⟨kw, d, hk, _, _, hs, _⟩ := matchSingle_some s m h
  rw [hs]
  simp only [kwSingle, List.mem_cons, List.not_mem_nil, or_false] at hk
  rcases hk with rfl | rfl | rfl | rfl | rfl | rfl | rfl | rfl | rfl | rfl <;>
    exact plainLine_grammar O _ _ (by decide) (by decide) (Or.inl (by decide))

theorem matchStr_grammar (O : Oracles) (s : Bytes) (m : List Bytes) (h : matchStr s = some m) : classify O s ≠ .nonGrammar := by
  obtain ⟨kw, v, hk, _, hs, _⟩ := matchStr_some s m h
  rw [hs]
  simp only [kwStr, List.mem_cons, List.not_mem_nil, or_false] at hk
  rcases hk with rfl | rfl | rfl <;>
    exact plainLine_grammar O _ _ (by decide) (by decide) (Or.inl (by decide))

theorem matchDual_grammar (O : Oracles) (s : Bytes) (m : List Bytes) (h : matchDual s = some m) : classify O s ≠ .nonGrammar := by
  obtain ⟨a, b, _, _, _, _, hs, _⟩ := matchDual_some s m h
  rw [hs]
  exact plainLine_grammar O _ _ (by decide) (by decide) (Or.inl (by decide))

theorem matchReg_grammar (O : Oracles) (s : Bytes) (m : List Bytes) (h : matchReg s = some m) : classify O s ≠ .nonGrammar := by
  obtain ⟨kw, id, d, hk, hid, _, _, hs, _⟩ := matchReg_some s m h
  rw [hs]
  rw [upperDigit_same] at hid
  have h61 : (61 : UInt8) ∉ id := all_not_mem _ id 61 hid (by decide)
  have h35 : (35 : UInt8) ∉ id := all_not_mem _ id 35 hid (by decide)
  simp only [kwReg, List.mem_cons, List.not_mem_nil, or_false] at hk
  have app61 : ∀ W : Bytes, (61 : UInt8) ∉ W → (61 : UInt8) ∉ W ++ id := by
    intro W hW hm; simp only [List.mem_append] at hm; rcases hm with hm | hm; exact hW hm; exact h61 hm
  have app35 : ∀ W : Bytes, (35 : UInt8) ∉ W → (35 : UInt8) ∉ W ++ id := by
    intro W hW hm; simp only [List.mem_append] at hm; rcases hm with hm | hm; exact hW hm; exact h35 hm
  rcases hk with rfl | rfl | rfl | rfl
  · have := hashLine_grammar O (asc "Flag") id d (by decide) (by decide) h61 (by decide)
    rwa [show asc "Flag" ++ 35 :: id = asc "Flag#" ++ id by rw [show asc "Flag#" = asc "Flag" ++ [35] by decide]; simp] at this
  · exact plainLine_grammar O _ _ (app61 _ (by decide)) (app35 _ (by decide)) (Or.inr (by rw [regKey_mem id hid]; simp))
  · exact plainLine_grammar O _ _ (app61 _ (by decide)) (app35 _ (by decide)) (Or.inr (by rw [regKey_shift id hid]; simp))
  · exact plainLine_grammar O _ _ (app61 _ (by decide)) (app35 _ (by decide)) (Or.inr (by rw [regKey_state id hid]; simp))

theorem literal_grammar (O : Oracles) (s : Bytes) (m : Option InMsg) (h : literalMsg s = some m) (hs : s ≠ []) :
    classify O s = .wellFormed := by
  unfold literalMsg at h
  rw [if_neg hs] at h
  by_cases e : s = asc "ping"
  · subst e; rfl
  rw [if_neg e] at h
  clear e
  by_cases e : s = asc "ack"
  · subst e; rfl
  rw [if_neg e] at h
  clear e
  by_cases e : s = asc "nack"
  · subst e; rfl
  rw [if_neg e] at h
  clear e
  by_cases e : s = asc "ActivePanel=1"
  · subst e; rfl
  rw [if_neg e] at h
  clear e
  by_cases e : s = asc "list"
  · subst e; rfl
  rw [if_neg e] at h
  clear e
  by_cases e : s = asc "map"
  · subst e; rfl
  rw [if_neg e] at h
  clear e
  by_cases e : s = asc "PanelTopology?"
  · subst e; rfl
  rw [if_neg e] at h
  clear e
  by_cases e : s = asc "BurninProfile?"
  · subst e; rfl
  rw [if_neg e] at h
  clear e
  by_cases e : s = asc "CalibrationProfile?"
  · subst e; rfl
  rw [if_neg e] at h
  clear e
  by_cases e : s = asc "NetworkConfig?"
  · subst e; rfl
  rw [if_neg e] at h
  clear e
  by_cases e : s = asc "Registers?"
  · subst e; rfl
  rw [if_neg e] at h
  clear e
  by_cases e : s = asc "Connections?"
  · subst e; rfl
  rw [if_neg e] at h
  clear e
  by_cases e : s = asc "RunTimeStats?"
  · subst e; rfl
  rw [if_neg e] at h
  clear e
  by_cases e : s = asc "Clear"
  · subst e; rfl
  rw [if_neg e] at h
  clear e
  by_cases e : s = asc "ClearLEDs"
  · subst e; rfl
  rw [if_neg e] at h
  clear e
  by_cases e : s = asc "ClearDisplays"
  · subst e; rfl
  rw [if_neg e] at h
  clear e
  by_cases e : s = asc "SleepTimer?"
  · subst e; rfl
  rw [if_neg e] at h
  clear e
  by_cases e : s = asc "WakeUp!"
  · subst e; rfl
  rw [if_neg e] at h
  clear e
  by_cases e : s = asc "Reboot"
  · subst e; rfl
  rw [if_neg e] at h
  clear e
  simp at h

/-- what the decoder does with a line no matcher accepts -/
theorem decLine_fallthrough (O : Oracles) (pinned : Bool) (st : DecSt) (s : Bytes)
    (h0 : literalMsg s = none) (h1 : s.head? ≠ some 123) (h2 : s.head? ≠ some 91)
    (h3 : matchCmd s = none) (h4 : matchGfx s = none) (h5 : matchSingle s = none) (h6 : matchDual s = none)
    (h7 : matchStr s = none) (h8 : matchReg s = none) :
    decLine O pinned st s = .ok { st with out := st.out ++ [some {}] } := by
  unfold decLine
  simp only [h0, h3, h4, h5, h6, h7, h8, bind, Except.bind, pure, Except.pure]
  rw [if_neg h1, if_neg h2]

theorem opt_none_of_forall {α : Type} (o : Option α) (h : ∀ a, o ≠ some a) : o = none := by
  cases o with
  | none => rfl
  | some a => exact absurd rfl (h a)

/-- **non-grammar lines are silent**: a line whose keyword / key is not part of the grammar makes the decoder append
at most the empty message — no state change, command or register write -/
theorem nongrammar_decLine (O : Oracles) (pinned : Bool) (st : DecSt) (l : Bytes) (h : classify O l = .nonGrammar) :
    decLine O pinned st l = .ok { st with out := st.out ++ (if l = [] then [] else [some {}]) } := by
  by_cases hl : l = []
  · subst hl
    simp only [if_true, List.append_nil]
    rfl
  · rw [if_neg hl]
    have hc := classify_nonGrammar O l h
    refine decLine_fallthrough O pinned st l ?_ hc.1 hc.2.1 ?_ ?_ ?_ ?_ ?_ ?_
    · apply opt_none_of_forall
      intro m hm
      have := literal_grammar O l m hm hl
      rw [this] at h; exact absurd h (by simp)
    · exact opt_none_of_forall _ (fun m hm => matchCmd_grammar O l m hm h)
    · exact opt_none_of_forall _ (fun m hm => matchGfx_grammar O l m hm h)
    · exact opt_none_of_forall _ (fun m hm => matchSingle_grammar O l m hm h)
    · exact opt_none_of_forall _ (fun m hm => matchDual_grammar O l m hm h)
    · exact opt_none_of_forall _ (fun m hm => matchStr_grammar O l m hm h)
    · exact opt_none_of_forall _ (fun m hm => matchReg_grammar O l m hm h)

theorem contains_false_ne (l : List Bytes) (x k : Bytes) (h : l.contains x = false) (hk : k ∈ l) : x ≠ k := by
  intro e; subst e
  have : l.contains x = true := by simpa using hk
  rw [this] at h; exact absurd h (by simp)

theorem lookup_none_of_not_mem {β : Type} (tbl : List (Bytes × β)) (key : Bytes) (h : (tbl.map (·.1)).contains key = false) :
    tbl.lookup key = none := by
  induction tbl with
  | nil => rfl
  | cons p ps ih =>
    obtain ⟨k, v⟩ := p
    simp only [List.map_cons, List.contains_cons, Bool.or_eq_false_iff] at h
    simp only [List.lookup]
    rw [h.1]
    exact ih h.2

/-- the reference reader gives a non-grammar line no effect -/
theorem nongrammar_read (O : Oracles) (l : Bytes) (h : classify O l = .nonGrammar) : readLine O l = .effects [] := by
  obtain ⟨h1, h2, h3⟩ := classify_nonGrammar O l h
  unfold readLine
  split
  · rename_i t; exact absurd rfl h1
  · rename_i t; exact absurd rfl h2
  · cases hc : cut 61 l with
    | none =>
      rw [hc] at h3
      simp only [] at h3 ⊢
      rw [h3]
    | some kv =>
      obtain ⟨key, v⟩ := kv
      rw [hc] at h3
      simp only [] at h3 ⊢
      cases hf : cut 35 key with
      | some fi =>
        obtain ⟨fam, ids⟩ := fi
        rw [hf] at h3
        simp only [] at h3 ⊢
        have ne := fun k hk => contains_false_ne grammarFams fam k h3 hk
        unfold readHash
        rw [if_neg (ne _ (by decide)), if_neg (ne _ (by decide)), if_neg (ne _ (by decide)), if_neg (ne _ (by decide)),
          if_neg (ne _ (by decide)), if_neg (ne _ (by decide)), if_neg (ne _ (by decide)), if_neg (ne _ (by decide)),
          if_neg (ne _ (by decide))]
      | none =>
        rw [hf] at h3
        simp only [] at h3 ⊢
        have ne := fun k hk => contains_false_ne plainKeys key k h3.1 hk
        unfold readPlain
        rw [if_neg (ne _ (by decide)), if_neg (ne _ (by decide)), if_neg (ne _ (by decide)), if_neg (ne _ (by decide)),
          if_neg (ne _ (by decide))]
        have hl : numCmdTable.lookup key = none := by
          apply lookup_none_of_not_mem
          cases hcc : (numCmdTable.map (·.1)).contains key with
          | false => rfl
          | true =>
            exfalso
            have hm : key ∈ numCmdTable.map (·.1) := by simpa using hcc
            have : key ∈ plainKeys := by unfold plainKeys; simp only [List.mem_append]; exact Or.inr hm
            exact ne key this rfl
        rw [hl, h3.2]

end RawPanelVerif.DecShape
