import RawPanelVerif.Lemmas.GfxSafeStream
/-! C05: unrelated non-graphics lines woven into a history change nothing about the graphics deliveries. -/
namespace RawPanelVerif.Gfx
open RawPanelVerif

/-- a line that is not a graphics line, neither as it is (batch) nor with white space stripped (streaming) -/
def Unrelated (o : Bytes) : Prop := parseLine? o = none ∧ parseLine? (trimSpace o) = none

/-- `all` is `cs` with unrelated lines inserted anywhere (before, between, after) -/
inductive Weave : List Bytes → List Bytes → Prop where
  | nil : Weave [] []
  | skip (o : Bytes) (cs all : List Bytes) (h : Unrelated o) (w : Weave cs all) : Weave cs (o :: all)
  | take (c : Bytes) (cs all : List Bytes) (w : Weave cs all) : Weave (c :: cs) (c :: all)

def Seen.isGfx : Seen → Bool
  | .gfx _ _ _ => true
  | .other _ => false

def Out.isGfx : Out → Bool
  | .gfx _ _ => true
  | .other _ => false

/-! ### batch -/

def gfxOuts (evs : List Event) : List Out := (evs.map (·.out)).filter Out.isGfx

theorem batch_weave (cs all : List Bytes) (w : Weave cs all) : ∀ (s : BState) (pos pos' : Nat),
    (Batch.runFrom Batch.step s pos all).1 = (Batch.runFrom Batch.step s pos' cs).1 ∧
      gfxOuts (Batch.runFrom Batch.step s pos all).2 = gfxOuts (Batch.runFrom Batch.step s pos' cs).2 := by
  induction w with
  | nil => intro s pos pos'; exact ⟨rfl, rfl⟩
  | skip o cs all h _ ih =>
    intro s pos pos'
    have hstep : Batch.step s o = (s, some (.other o)) := by rw [step_eq, h.1]
    simp only [Batch.runFrom, hstep]
    have := ih s (pos + 1) pos'
    exact ⟨this.1, by simpa [gfxOuts, Out.isGfx] using this.2⟩
  | take c cs all _ ih =>
    intro s pos pos'
    have := ih (Batch.step s c).1 (pos + 1) (pos' + 1)
    simp only [Batch.runFrom]
    cases h2 : (Batch.step s c).2 with
    | none => simpa using this
    | some o => exact ⟨this.1, by simp only [gfxOuts, List.map_cons, List.filter_cons] at this ⊢; rw [this.2]⟩

theorem decode_filter (lines : List Bytes) :
    (Batch.decode Batch.step lines).filter Seen.isGfx =
      (gfxOuts (Batch.run Batch.step lines).2).map (see (Batch.run Batch.step lines).1.store) := by
  simp only [Batch.decode, gfxOuts, List.filter_map, List.map_map]
  congr 1
  apply List.filter_congr
  intro e _
  simp only [Function.comp]
  cases h : e.out <;> simp [see, Seen.isGfx, Out.isGfx]

/-- the graphics messages of a batch call on a woven history are those of the call on the graphics lines alone -/
theorem decode_weave (cs all : List Bytes) (w : Weave cs all) :
    (Batch.decode Batch.step all).filter Seen.isGfx = (Batch.decode Batch.step cs).filter Seen.isGfx := by
  rw [decode_filter, decode_filter]
  have := batch_weave cs all w {} 0 0
  simp only [Batch.run]
  rw [this.1, this.2]

/-! ### streaming -/

theorem initRule_idem (s : RState) : s.initRule.initRule = s.initRule := by
  unfold RState.initRule
  split
  · rename_i h; simp [h]
  · rename_i h; simp [h]

theorem parse_initRule (s s' : RState) (h : s.initRule = s'.initRule) (l : Bytes) :
    Stream.parse s l = Stream.parse s' l := by
  rw [parse_eq, parse_eq, h]

/-- for every `Parse` call that returned graphics messages: the line it was called with, and those messages -/
def hits (evs : List (Nat × List Seen)) (lines : List Bytes) : List (Bytes × List Seen) :=
  (evs.zip lines).filterMap (fun el =>
    if (el.1.2.filter Seen.isGfx).isEmpty then none else some (el.2, el.1.2.filter Seen.isGfx))

theorem stream_weave (cs all : List Bytes) (w : Weave cs all) : ∀ (s s' : RState) (pos pos' : Nat),
    s.initRule = s'.initRule →
    hits (Stream.runFrom Stream.parse s pos all).2 all = hits (Stream.runFrom Stream.parse s' pos' cs).2 cs := by
  induction w with
  | nil => intro s s' pos pos' _; rfl
  | skip o cs all h _ ih =>
    intro s s' pos pos' hs
    have hstep : Stream.parse s o = (s.initRule, [.other (trimSpace o)]) := by
      rw [parse_eq, h.2]; simp only []; rw [decode_other _ h.2]
    simp only [Stream.runFrom, hstep, hits, List.zip_cons_cons, List.filterMap_cons]
    have := ih s.initRule s' (pos + 1) pos' (by rw [initRule_idem, hs])
    simpa [hits, Seen.isGfx] using this
  | take c cs all _ ih =>
    intro s s' pos pos' hs
    have hp := parse_initRule s s' hs c
    simp only [Stream.runFrom, hits, List.zip_cons_cons, List.filterMap_cons, hp]
    have := ih (Stream.parse s' c).1 (Stream.parse s' c).1 (pos + 1) (pos' + 1) rfl
    simp only [hits] at this
    rw [this]

end RawPanelVerif.Gfx

namespace RawPanelVerif.Gfx

theorem hits_append (e1 e2 : List (Nat × List Seen)) (l1 l2 : List Bytes) (h : e1.length = l1.length) :
    hits (e1 ++ e2) (l1 ++ l2) = hits e1 l1 ++ hits e2 l2 := by
  simp only [hits, List.zip_append h, List.filterMap_append]

theorem hits_quiet : ∀ (m pos : Nat) (ls : List Bytes), hits (quiet pos m) ls = [] := by
  intro m
  induction m with
  | zero => intro pos ls; simp [quiet, hits]
  | succ m ih =>
    intro pos ls
    cases ls with
    | nil => simp [hits]
    | cons l ls =>
      have : quiet pos (m + 1) = (pos, []) :: quiet (pos + 1) m := by simp [quiet, List.range'_succ]
      rw [this]
      simp only [hits, List.zip_cons_cons, List.filterMap_cons, List.filter_nil, List.isEmpty_nil, if_true]
      exact ih (pos + 1) ls

theorem chunkLines_snoc (g : Img) (ids : Bytes) (h : g.data ≠ []) :
    chunkLines g ids =
      (List.range (totalLines g.data.length - 1)).map (chunkLine g ids (totalLines g.data.length)) ++
        [chunkLine g ids (totalLines g.data.length) (totalLines g.data.length - 1)] := by
  have hpos : 0 < totalLines g.data.length := by
    have h1 : g.data.length ≠ 0 := by simpa using h
    have h2 : totalLines g.data.length ≠ 0 := fun e => h1 ((totalLines_eq_zero g.data.length).mp e)
    omega
  unfold chunkLines
  obtain ⟨n, hn⟩ : ∃ n, totalLines g.data.length = n + 1 := ⟨_, (Nat.succ_pred_eq_of_pos hpos).symm⟩
  rw [hn, List.range_succ]
  simp

/-- the only `Parse` call that returns graphics is the one on the last chunk line, and it returns the image -/
theorem hits_chunkLines (g : Img) (ids : Bytes) (hv : ValidIds ids) (hr : InRange g) (h : g.data ≠ [])
    (s : RState) (pos : Nat) :
    hits (Stream.runFrom Stream.parse s pos (chunkLines g ids)).2 (chunkLines g ids) =
      [(chunkLine g ids (totalLines g.data.length) (totalLines g.data.length - 1),
        [.gfx (intExplode ids) (received g) 1])] := by
  rw [stream_chunkLines g ids hv hr h s pos]
  simp only []
  conv => lhs; arg 2; rw [chunkLines_snoc g ids h]
  rw [hits_append _ _ _ _ (by simp [quiet]), hits_quiet]
  simp [hits, Seen.isGfx]

end RawPanelVerif.Gfx

namespace RawPanelVerif.Gfx

theorem Weave.refl : ∀ cs : List Bytes, Weave cs cs
  | [] => .nil
  | c :: cs => .take c cs cs (Weave.refl cs)

theorem Weave.snoc_skip (cs all : List Bytes) (o : Bytes) (h : Unrelated o) (w : Weave cs all) :
    Weave cs (all ++ [o]) := by
  induction w with
  | nil => exact .skip o [] [] h .nil
  | skip o' cs all h' _ ih => exact .skip o' cs (all ++ [o]) h' ih
  | take c cs all _ ih => exact .take c cs (all ++ [o]) ih

end RawPanelVerif.Gfx
