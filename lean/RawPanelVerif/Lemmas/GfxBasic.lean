import RawPanelVerif.Model.Gfx
/-! Helper lemmas for C05: decimal printing/reading, chunk segments, spans, the matcher on printed lines. -/
namespace RawPanelVerif.Gfx
open RawPanelVerif

/-! ### segments -/

theorem bytesPerLine_eq : bytesPerLine = 170 := by decide

theorem segment_length_le (g : Img) (i : Nat) : (segment g i).length ≤ 170 := by
  unfold segment
  rw [List.length_take, bytesPerLine_eq]
  omega

/-- cutting a list into `n` consecutive pieces of `k` bytes gives it back, if `n*k` covers it -/
theorem pieces_concat (k : Nat) : ∀ (n : Nat) (l : Bytes), l.length ≤ n * k →
    (List.range n).flatMap (fun i => (l.drop (i * k)).take k) = l := by
  intro n
  induction n with
  | zero => intro l h; simp at h; simp [h]
  | succ n ih =>
    intro l h
    rw [List.range_succ_eq_map, List.flatMap_cons, List.flatMap_map]
    have h2 : (l.drop k).length ≤ n * k := by
      rw [List.length_drop]; rw [Nat.succ_mul] at h; omega
    have := ih (l.drop k) h2
    simp only [Nat.zero_mul, List.drop_zero]
    have e : ∀ i, (l.drop ((i + 1) * k)).take k = ((l.drop k).drop (i * k)).take k := by
      intro i; rw [List.drop_drop]; congr 2; rw [Nat.succ_mul]; omega
    simp only [e, this]
    exact List.take_append_drop k l

theorem totalLines_covers (len : Nat) : len ≤ totalLines len * 170 := by
  unfold totalLines; rw [bytesPerLine_eq]; omega

theorem segments_concat (g : Img) :
    (List.range (totalLines g.data.length)).flatMap (segment g) = g.data := by
  have := pieces_concat 170 (totalLines g.data.length) g.data (totalLines_covers _)
  have e : segment g = fun i => (g.data.drop (i * 170)).take 170 := by
    funext i; simp [segment, bytesPerLine_eq]
  rw [e]; exact this

theorem totalLines_eq_zero (len : Nat) : totalLines len = 0 ↔ len = 0 := by
  unfold totalLines; rw [bytesPerLine_eq]; omega

/-- `totalLines len` is ⌈len/170⌉: the least `n` with `len ≤ n*170` -/
theorem totalLines_is_ceil (len n : Nat) : totalLines len ≤ n ↔ len ≤ n * 170 := by
  unfold totalLines; rw [bytesPerLine_eq]; omega

theorem chunkLines_length (g : Img) (ids : Bytes) : (chunkLines g ids).length = totalLines g.data.length := by
  simp [chunkLines]

end RawPanelVerif.Gfx

namespace RawPanelVerif.Gfx

/-! ### decimal -/

theorem digit_facts : ∀ d, d < 10 →
    isDigit (UInt8.ofNat (48 + d)) = true ∧ (UInt8.ofNat (48 + d)).toNat - 48 = d := by decide

theorem dec_ne_nil (n : Nat) : dec n ≠ [] := by
  unfold dec; split <;> simp

theorem dec_all_digit (n : Nat) : (dec n).all isDigit = true := by
  fun_induction dec n with
  | case1 n h =>
    simp only [List.all_cons, List.all_nil, Bool.and_true]; exact (digit_facts n h).1
  | case2 n h ih =>
    simp only [List.all_append, ih, List.all_cons, List.all_nil, Bool.and_true, Bool.true_and]
    exact (digit_facts (n % 10) (Nat.mod_lt _ (by omega))).1

theorem natOfDigits_append (a b : Bytes) :
    natOfDigits (a ++ b) = b.foldl (fun acc d => acc * 10 + (d.toNat - 48)) (natOfDigits a) := by
  simp [natOfDigits, List.foldl_append]

theorem natOfDigits_dec (n : Nat) : natOfDigits (dec n) = n := by
  fun_induction dec n with
  | case1 n h =>
    simp only [natOfDigits, List.foldl_cons, List.foldl_nil, Nat.zero_mul, Nat.zero_add]
    exact (digit_facts n h).2
  | case2 n h ih =>
    rw [natOfDigits_append, ih]
    simp only [List.foldl_cons, List.foldl_nil]
    rw [(digit_facts (n % 10) (Nat.mod_lt _ (by omega))).2]
    omega

theorem atoi_dec (n : Nat) (h : n ≤ maxInt) : atoi (dec n) = n := by
  unfold atoi
  have h1 : (dec n).isEmpty = false := by
    cases hd : dec n with
    | nil => exact absurd hd (dec_ne_nil n)
    | cons _ _ => rfl
  simp [h1, dec_all_digit, natOfDigits_dec, Nat.min_eq_left h]

/-! ### spans -/

theorem spanP_append (p : UInt8 → Bool) (ds : Bytes) (c : UInt8) (rest : Bytes)
    (h : ds.all p = true) (hc : p c = false) : spanP p (ds ++ c :: rest) = (ds, c :: rest) := by
  induction ds with
  | nil => simp [spanP, hc]
  | cons d ds ih =>
    simp only [List.all_cons, Bool.and_eq_true] at h
    simp [spanP, h.1, ih h.2]

theorem spanP_all_nil (p : UInt8 → Bool) (ds : Bytes) (h : ds.all p = true) : spanP p ds = (ds, []) := by
  induction ds with
  | nil => rfl
  | cons d ds ih =>
    simp only [List.all_cons, Bool.and_eq_true] at h
    simp [spanP, h.1, ih h.2]

theorem digitsThen_dec (sep : UInt8) (hs : isDigit sep = false) (n : Nat) (rest : Bytes) :
    digitsThen sep (dec n ++ sep :: rest) = some (dec n, rest) := by
  unfold digitsThen
  rw [spanP_append isDigit (dec n) sep rest (dec_all_digit n) hs]
  simp [dec_ne_nil]

theorem stripPrefix_append (p rest : Bytes) : stripPrefix p (p ++ rest) = some rest := by
  induction p with
  | nil => cases rest <;> rfl
  | cons a p ih => simp [stripPrefix, ih]

end RawPanelVerif.Gfx

namespace RawPanelVerif.Gfx

/-! ### the matcher on the encoder's lines -/

/-- a target list text the pattern accepts: non-empty, digits and commas -/
def ValidIds (ids : Bytes) : Prop := ids ≠ [] ∧ ids.all isIdChar = true

def pfxOf (ty : Nat) : Bytes := cmdString ty ++ [35]

theorem tailOK_encode (b : Bytes) : tailOK (B64.encode b) = true := by
  unfold tailOK
  simp only [Bool.not_eq_true', List.contains_eq_mem, decide_eq_false_iff_not]
  intro h; exact B64.encode_no_lf b 10 h rfl

theorem matchAfterPrefix_line (g1 ids : Bytes) (hv : ValidIds ids) (i : Nat) (c : UInt8) (t : Bytes)
    (hc : isDigit c = false) :
    matchAfterPrefix g1 (ids ++ 61 :: (dec i ++ c :: t)) = matchTail g1 ids (dec i) (c :: t) := by
  unfold matchAfterPrefix
  rw [spanP_append isIdChar ids 61 _ hv.2 (by decide)]
  simp only [hv.1, if_false]
  rw [spanP_append isDigit (dec i) c t (dec_all_digit i) hc]
  simp [dec_ne_nil]

theorem matchGfx_prefix (ty : Nat) (rest : Bytes) :
    matchGfx (pfxOf ty ++ rest) = matchAfterPrefix (pfxOf ty) rest := by
  unfold pfxOf cmdString
  by_cases h1 : ty = 1
  · simp only [h1, if_true]
    unfold matchGfx
    rw [stripPrefix_append]
  · by_cases h2 : ty = 2
    · simp only [h2, if_true, show (2:Nat) ≠ 1 by decide, if_false]
      unfold matchGfx
      rw [stripPrefix_append]
      simp [stripPrefix, pRGB, pGray]
    · simp only [h1, h2, if_false]
      unfold matchGfx
      rw [stripPrefix_append]
      simp [stripPrefix, pRGB, pGray, pHWCg]

theorem chunkLine_shape (g : Img) (ids : Bytes) (total i : Nat) :
    chunkLine g ids total i = pfxOf g.ty ++ (ids ++ 61 :: (dec i ++
      ((if i = 0 then header g total else []) ++ 58 :: B64.encode (segment g i)))) := by
  simp [chunkLine, pfxOf, List.append_assoc]

/-- a later chunk line: prefix, ids, index, payload -/
theorem matchGfx_chunkLine_succ (g : Img) (ids : Bytes) (hv : ValidIds ids) (total i : Nat) (hi : i ≠ 0) :
    matchGfx (chunkLine g ids total i) =
      some { g1 := pfxOf g.ty, g2 := ids, g3 := dec i, g11 := B64.encode (segment g i) } := by
  rw [chunkLine_shape, matchGfx_prefix]
  simp only [hi, if_false, List.nil_append]
  rw [matchAfterPrefix_line _ _ hv _ 58 _ (by decide)]
  simp [matchTail, tailOK_encode]

/-- chunk 0: with the header -/
theorem matchGfx_chunkLine_zero (g : Img) (ids : Bytes) (hv : ValidIds ids) (total : Nat) :
    matchGfx (chunkLine g ids total 0) =
      some { g1 := pfxOf g.ty, g2 := ids, g3 := dec 0, g4 := header g total,
             g5 := dec (total - 1), g6 := dec g.W, g7 := dec g.H,
             g8 := if g.off then [44] ++ dec g.X ++ [44] ++ dec g.Y else [],
             g9 := if g.off then dec g.X else [], g10 := if g.off then dec g.Y else [],
             g11 := B64.encode (segment g 0) } := by
  rw [chunkLine_shape, matchGfx_prefix]
  simp only [if_true, header, List.append_assoc, List.cons_append, List.nil_append]
  rw [matchAfterPrefix_line _ _ hv _ 47 _ (by decide)]
  unfold matchTail
  simp only []
  rw [digitsThen_dec 44 (by decide)]
  simp only []
  rw [digitsThen_dec 120 (by decide)]
  simp only []
  by_cases ho : g.off
  · simp only [ho, if_true, List.append_assoc, List.cons_append, List.nil_append]
    rw [spanP_append isDigit (dec g.H) 44 _ (dec_all_digit _) (by decide)]
    simp only [dec_ne_nil, if_false]
    rw [digitsThen_dec 44 (by decide)]
    simp only []
    rw [digitsThen_dec 58 (by decide)]
    simp [tailOK_encode]
  · simp only [ho, if_false, List.nil_append, Bool.false_eq_true]
    rw [spanP_append isDigit (dec g.H) 58 _ (dec_all_digit _) (by decide)]
    simp [dec_ne_nil, tailOK_encode]

end RawPanelVerif.Gfx

namespace RawPanelVerif.Gfx

/-- images whose fields fit the message's types (three formats, `uint32` dimensions, a Go slice length) -/
structure InRange (g : Img) : Prop where
  ty : g.ty ≤ 2
  W : g.W < 2 ^ 32
  H : g.H < 2 ^ 32
  X : g.X < 2 ^ 32
  Y : g.Y < 2 ^ 32
  len : g.data.length < 2 ^ 62

/-- the image object a decoder builds from the header of chunk 0 (no data yet); X/Y travel only with the offset flag -/
def headerImg (g : Img) : Img :=
  { ty := g.ty, W := g.W, H := g.H, off := g.off, X := if g.off then g.X else 0, Y := if g.off then g.Y else 0 }

theorem typeOfPrefix_pfxOf (ty : Nat) (h : ty ≤ 2) : typeOfPrefix (pfxOf ty) = ty := by
  have : ty = 0 ∨ ty = 1 ∨ ty = 2 := by omega
  rcases this with h | h | h <;> subst h <;> decide

theorem atou32_dec (n : Nat) (h : n < 2 ^ 32) : atou32 (dec n) = n := by
  unfold atou32
  rw [atoi_dec n (by unfold maxInt; omega)]
  exact Nat.mod_eq_of_lt h

theorem atou32_nil : atou32 [] = 0 := by decide

theorem header_ne_nil (g : Img) (total : Nat) : header g total ≠ [] := by
  unfold header; simp

theorem parsedOf_chunk_succ (g : Img) (ids : Bytes) (hr : InRange g) (i : Nat) (hi : i < 2 ^ 62) :
    parsedOf { g1 := pfxOf g.ty, g2 := ids, g3 := dec i, g11 := B64.encode (segment g i) } =
      { idx := (i : Int), ty := g.ty, pfx := pfxOf g.ty, list := ids, max := 2,
        img := { ty := g.ty, W := 64, H := 32 }, data := segment g i, ok := true } := by
  unfold parsedOf
  simp only [typeOfPrefix_pfxOf g.ty hr.ty, B64.decode_encode, atoi_dec i (by unfold maxInt; omega)]
  simp

theorem parsedOf_chunk_zero (g : Img) (ids : Bytes) (hr : InRange g) (total : Nat) (ht : total < 2 ^ 62) :
    parsedOf { g1 := pfxOf g.ty, g2 := ids, g3 := dec 0, g4 := header g total,
               g5 := dec (total - 1), g6 := dec g.W, g7 := dec g.H,
               g8 := if g.off then [44] ++ dec g.X ++ [44] ++ dec g.Y else [],
               g9 := if g.off then dec g.X else [], g10 := if g.off then dec g.Y else [],
               g11 := B64.encode (segment g 0) } =
      { idx := 0, ty := g.ty, pfx := pfxOf g.ty, list := ids, max := ((total - 1 : Nat) : Int),
        img := headerImg g, data := segment g 0, ok := true } := by
  unfold parsedOf headerImg
  simp only [typeOfPrefix_pfxOf g.ty hr.ty, B64.decode_encode, atoi_dec 0 (by decide),
    atoi_dec (total - 1) (by unfold maxInt; omega), header_ne_nil, ne_eq, not_false_eq_true, if_true,
    atou32_dec g.W hr.W, atou32_dec g.H hr.H]
  by_cases ho : g.off
  · simp [ho, atou32_dec g.X hr.X, atou32_dec g.Y hr.Y]
  · simp [ho, atou32_nil]

end RawPanelVerif.Gfx
