import RawPanelVerif.Spec.PanelOut
/-!
# Independent reader of the panel → system ASCII grammar (DESIGN.md Appendix B), never imports Model/

`readLine o l` classifies one line:
* `grammar effs`  — `l` is derivable in the grammar and denotes `effs`;
* `nonGrammar`    — the keyword / key name of `l` is not part of the grammar (also: blank line, `key=` without value,
                    an `HWC#…=Word` line whose kind word is not one of the seven): no effect;
* `outside`       — a grammar keyword with arguments that do not parse (or a string containing LF, which is not a line):
                    outside the domain of C04 (covered by C06 only).

`readOutbound o ls` = the effects of all lines, in line order.

Grammar (panel → system):
```
flow     ping | ack | nack | BSY | RDY | list
event    HWC#num[.num]=Down|Up|Press             edge ∈ {0,1,2,4,8,16}; Press = Down then Up
         HWC#num[.num]=(Enc|Abs|Speed|Raw):int   Enc, Speed signed 32-bit; Abs, Raw unsigned 32-bit; the edge suffix of a
                                                 value event carries no information (value events have no edge)
         HWC#…=Word[:…] with any other Word      not part of the grammar: no effect
map      map=num:num
info     key=value, value non-empty; per key: text | num | word | list | payload | SysStat record
register (Mem|Shift|State)[A-Z0-9]*=num | Flag#digits*=num   (flag set iff > 0, empty id = 0)
```
`num` = non-empty decimal digits with value < 2^32; `int` = optional `-` then `num`.
-/
namespace RawPanelVerif.Spec.Out
open RawPanelVerif RawPanelVerif.Bytes RawPanelVerif.MsgOut

inductive LineClass
  | grammar (effs : List Effect)
  | nonGrammar
  | outside
  deriving DecidableEq, Repr

/-- `num`: non-empty decimal digits, value < 2^32 -/
def readNum (s : Bytes) : Option Nat :=
  if s ≠ [] ∧ s.all isDigit ∧ natOfDigits s ≤ u32Max then some (natOfDigits s) else none

/-- `int`: optional `-` then `num` -/
def readInt (s : Bytes) : Option Int :=
  match s with
  | 45 :: d => (readNum d).map (fun n => - (n : Int))
  | d => (readNum d).map (fun n => (n : Int))

/-- split at the first occurrence of `sep` -/
def splitFirst (sep : UInt8) : Bytes → Option (Bytes × Bytes)
  | [] => none
  | c :: cs => if c = sep then some ([], cs) else (splitFirst sep cs).map (fun p => (c :: p.1, p.2))

def dropPrefix : Bytes → Bytes → Option Bytes
  | [], s => some s
  | _ :: _, [] => none
  | p :: ps, c :: cs => if p = c then dropPrefix ps cs else none

def flowWords : List Bytes := [asc "ping", asc "ack", asc "nack", asc "BSY", asc "RDY", asc "list"]

/-! ### events -/

def edgeValues : List Nat := [0, 1, 2, 4, 8, 16]

/-- `num[.num]` before the `=` -/
def readIdEdge (s : Bytes) : Option (Nat × Option Nat) :=
  match splitOn 46 s with
  | [i] => (readNum i).map (fun n => (n, none))
  | [i, e] =>
    match readNum i, readNum e with
    | some n, some ed => if ed ∈ edgeValues then some (n, some ed) else none
    | _, _ => none
  | _ => none

/-- the seven event kind words -/
def kindWords : List Bytes :=
  [asc "Down", asc "Up", asc "Press", asc "Enc", asc "Abs", asc "Speed", asc "Raw"]

/-- the kind word of the right-hand side of an event line: everything before the first `:` -/
def kindOf (rhs : Bytes) : Bytes := match splitOn 58 rhs with | k :: _ => k | [] => []

/-- `HWC#` lines.  A kind word that is not one of the seven is not part of the grammar (no effect).  A value event
(`Enc|Abs|Speed|Raw`) may carry an edge suffix like the binary ones (the property quantifies over all seven kinds "with
and without edge suffix"); value events have no edge — the suffix carries no information and the line denotes the same
event as without it. -/
def readEvent (rest : Bytes) : LineClass :=
  match splitOn 61 rest with
  | [lhs, rhs] =>
    if kindOf rhs ∉ kindWords then .nonGrammar
    else
    match readIdEdge lhs with
    | none => .outside
    | some (id, edge) =>
      let ed := edge.getD 0
      if rhs = asc "Down" then .grammar [.event .binary id ed true 0]
      else if rhs = asc "Up" then .grammar [.event .binary id ed false 0]
      else if rhs = asc "Press" then .grammar [.event .binary id ed true 0, .event .binary id ed false 0]
      else match splitOn 58 rhs with
        | [k, v] =>
          match readInt v with
          | none => .outside
          | some x =>
            if k = asc "Enc" then (if inI32 x then .grammar [.event .enc id 0 false x] else .outside)
            else if k = asc "Speed" then (if inI32 x then .grammar [.event .speed id 0 false x] else .outside)
            else if k = asc "Abs" then (if 0 ≤ x ∧ v.head? ≠ some 45 then .grammar [.event .abs id 0 false x] else .outside)
            else if k = asc "Raw" then (if 0 ≤ x ∧ v.head? ≠ some 45 then .grammar [.event .raw id 0 false x] else .outside)
            else .outside
        | _ => .outside
  | _ => .outside

/-! ### map -/
def readMap (rest : Bytes) : LineClass :=
  match splitOn 58 rest with
  | [k, v] =>
    match readNum k, readNum v with
    | some a, some b => .grammar [.mapEntry a b]
    | _, _ => .outside
  | _ => .outside

/-! ### `;`-lists: items separated by `;`, surrounding white space insignificant, empty items ignored -/

/-- `ItemsOf pieces items`: `items` are, in order, the pieces with their surrounding white space removed, the pieces that
are empty afterwards left out (relational reading of a `;`-list; functional: `Lemmas/OutItems.lean`) -/
inductive ItemsOf : List Bytes → List Bytes → Prop
  | nil : ItemsOf [] []
  | skip {p : Bytes} {ps items : List Bytes} : trimSpace p = [] → ItemsOf ps items → ItemsOf (p :: ps) items
  | keep {p : Bytes} {ps items : List Bytes} : trimSpace p ≠ [] → ItemsOf ps items → ItemsOf (p :: ps) (trimSpace p :: items)

/-- executable reading, piece by piece -/
def itemsOfPieces : List Bytes → List Bytes
  | [] => []
  | p :: ps => if trimSpace p = [] then itemsOfPieces ps else trimSpace p :: itemsOfPieces ps

def readItems (v : Bytes) : List Bytes := itemsOfPieces (splitOn 59 v)

/-! ### SysStat record -/

/-- `k1:v1:k2:v2:…[:]` → pairs -/
def pairUp : List Bytes → Option (List (Bytes × Bytes))
  | [] => some []
  | [x] => if x = [] then some [] else none
  | k :: v :: r => (pairUp r).map (fun ps => (k, v) :: ps)

def floatKeys : List Bytes := [asc "CPUTemp", asc "ExtTemp", asc "CPUVoltage"]
def intKeys : List Bytes :=
  [asc "CPUFreqCurrent", asc "CPUFreqMin", asc "CPUFreqMax", asc "MemTotal", asc "MemFree", asc "MemAvailable",
   asc "MemBuffers", asc "MemCached"]
def flagKeys : List Bytes :=
  [asc "UnderVoltageNow", asc "UnderVoltage", asc "FreqCapNow", asc "FreqCap", asc "ThrottledNow", asc "Throttled",
   asc "SoftTempLimitNow", asc "SoftTempLimit"]

/-- typed value of one SysStat field -/
def readSysVal (o : OutOracle) (k v : Bytes) : Option Val :=
  if k = asc "CPUUsage" then (readNum v).map (fun n => Val.num n)
  else if k ∈ floatKeys then (if floatTextOk v then some (.opaque (o.parseF v)) else none)
  else if k ∈ intKeys then (match readInt v with | some x => if inI32 x then some (.num x) else none | none => none)
  else if k ∈ flagKeys then (if v = [49] then some (.flag true) else if v = [48] then some (.flag false) else none)
  else none

def sysDefault (k : Bytes) : Val :=
  if k ∈ floatKeys then .opaque [48] else if k ∈ flagKeys then .flag false else .num 0

def distinct : List Bytes → Bool
  | [] => true
  | k :: r => !r.contains k && distinct r

def readSysStat (o : OutOracle) (v : Bytes) : LineClass :=
  match pairUp (splitOn 58 v) with
  | none => .outside
  | some ps =>
    if !distinct (ps.map (·.1)) then .outside
    else match ps.mapM (fun kv => (readSysVal o kv.1 kv.2).map (fun x => (kv.1, x))) with
      | none => .outside
      | some tv => .grammar (sysKeys.map (fun k => .sysstat k ((tv.lookup k).getD (sysDefault k))))

/-! ### the key=value family -/

def textKeys : List Bytes := [asc "_model", asc "_serial", asc "_version", asc "_platform", asc "_name"]
def payloadKeys : List Bytes :=
  [asc "_panelTopology_svgbase", asc "_panelTopology_HWC", asc "_burninProfile", asc "_calibrationProfile",
   asc "_defaultCalibrationProfile", asc "ErrorMsg", asc "Msg"]
def numKeys : List Bytes := [asc "_sleepTimer", asc "_heartBeatTimer", asc "DimmedGain"]
def num0Keys : List Bytes :=
  [asc "_serverModeMaxClients", asc "_bootsCount", asc "_totalUptimeMin", asc "_sessionUptimeMin", asc "_screenSaverOnMin"]
def otherKeys : List Bytes :=
  [asc "_bluePillReady", asc "_panelType", asc "_support", asc "_isSleeping", asc "_networkConfig",
   asc "_serverModeLockToIP", asc "_connections", asc "EnvironmentalHealth", asc "SysStat"]
def infoKeys : List Bytes := textKeys ++ payloadKeys ++ numKeys ++ num0Keys ++ otherKeys

def panelTypeWords : List Bytes := [asc "BPI", asc "Physical", asc "Emulation", asc "Touch", asc "Composite"]
def runModeWords : List Bytes := [asc "Normal", asc "Safemode", asc "Blocked"]

def ofNum (v : Bytes) (f : Nat → List Effect) : LineClass :=
  match readNum v with | some n => .grammar (f n) | none => .outside

/-- the keys with their own value syntax -/
def readInfoOther (o : OutOracle) (key v : Bytes) : LineClass :=
  if key = asc "_bluePillReady" then ofNum v (fun n => if n ≠ 0 then [.info key (.flag true)] else [])
  else if key = asc "_isSleeping" then ofNum v (fun n => [.info key (.flag (n ≠ 0))])
  else if key = asc "_panelType" then (if v ∈ panelTypeWords then .grammar [.info key (.word v)] else .outside)
  else if key = asc "EnvironmentalHealth" then (if v ∈ runModeWords then .grammar [.info key (.word v)] else .outside)
  else if key = asc "_support" then
    (if (splitOn 44 v).all (fun n => n ∈ capNames) then .grammar (supportEff (capNames.map (fun n => (splitOn 44 v).contains n)))
     else .outside)
  else if key = asc "_networkConfig" then
    (match o.netOfJson v with | some c => .grammar [.info key (.net c)] | none => .outside)
  else if key = asc "_serverModeLockToIP" ∨ key = asc "_connections" then .grammar (itemsEff key (readItems v))
  else if key = asc "SysStat" then readSysStat o v
  else .outside

/-- `key=v`, `key` a grammar key, `v` non-empty -/
def readInfo (o : OutOracle) (key v : Bytes) : LineClass :=
  if key ∈ textKeys then .grammar [.info key (.text v)]
  else if key ∈ payloadKeys then .grammar (if key = asc "_panelTopology_svgbase" then svgEff v else payloadEff key v)
  else if key ∈ numKeys then ofNum v (fun n => [.info key (.num n)])
  else if key ∈ num0Keys then ofNum v (numEff0 key)
  else readInfoOther o key v

/-! ### registers -/
def regWordsSpec : List Bytes := [asc "Mem", asc "Shift", asc "State"]

/-- `word id = rest` with `id ∈ [A-Z0-9]*`: some (id, rest) -/
def regShape (after : Bytes) : Option (Bytes × Bytes) :=
  match splitFirst 61 after with
  | some (i, v) => if i.all isUpperDigit then some (i, v) else none
  | none => none

def readRegister (l : Bytes) : Option LineClass :=
  match dropPrefix (asc "Flag#") l with
  | some after =>
    (regShape after).map (fun iv =>
      if iv.1.all isDigit ∧ natOfDigits iv.1 ≤ u32Max then
        ofNum iv.2 (fun n => [.reg (asc "Flag") (digitsOf (natOfDigits iv.1)) (if n > 0 then 1 else 0)])
      else .outside)
  | none =>
    regWordsSpec.findSome? (fun w =>
      match dropPrefix w l with
      | some after => (regShape after).map (fun iv => ofNum iv.2 (fun n => [.reg w iv.1 n]))
      | none => none)

/-! ### one line -/
def readLine (o : OutOracle) (l : Bytes) : LineClass :=
  if l.contains 10 then .outside
  else if l ∈ flowWords then .grammar [.flow l]
  else match dropPrefix (asc "HWC#") l with
  | some rest => readEvent rest
  | none =>
    match dropPrefix (asc "map=") l with
    | some rest => readMap rest
    | none =>
      match (match splitFirst 61 l with
             | some (key, v) => if key ∈ infoKeys then some (if v = [] then LineClass.nonGrammar else readInfo o key v) else none
             | none => none) with
      | some c => c
      | none =>
        match readRegister l with
        | some c => c
        | none => .nonGrammar

def LineClass.effects : LineClass → List Effect
  | .grammar e => e
  | _ => []

/-- the effects of a line sequence, in line order -/
def readOutbound (o : OutOracle) (ls : List Bytes) : List Effect := ls.flatMap (fun l => (readLine o l).effects)

/-- every line is in the domain of C04 (well-formed or non-grammar) -/
def inDomainLines (o : OutOracle) (ls : List Bytes) : Bool := ls.all (fun l => readLine o l != .outside)

/-! ### lines outside the domain inside a batch: no line changes what its neighbours denote

The grammar assigns no meaning to a line with a grammar keyword / key and arguments that do not parse (`_panelType=Foo`,
`EnvironmentalHealth=Weird`, `HWC#5=Enc` …): `readLine = .outside`.  What the property still fixes for a batch containing
such lines: "exactly the events and values … each line [denotes], in line order" — every line denotes what it denotes on
its own, whatever stands before or after it.  `readOutboundWith o alone` reads a batch taking for an outside line the
effects `alone l` that line has as a one-line batch (for the check: what the decoder under test returns for `[l]`; for
the theorem `C04.decOut_context_free`: what the decoder model returns). -/

def readLineWith (o : OutOracle) (alone : Bytes → List Effect) (l : Bytes) : List Effect :=
  match readLine o l with
  | .outside => alone l
  | c => c.effects

def readOutboundWith (o : OutOracle) (alone : Bytes → List Effect) (ls : List Bytes) : List Effect :=
  ls.flatMap (readLineWith o alone)

end RawPanelVerif.Spec.Out
