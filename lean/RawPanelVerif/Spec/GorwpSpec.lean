/-!
# C19 — what the high-level client owes its user, as monitors over one observed run (independent of `Model/`)

The script is what the scripted panel sent (after the handlers were bound); the observation is what the
harness saw: `Connect`'s result, the handler invocation log, acknowledges on the wire, the state getters, whether
the client ended the connection.

Numbers: `initWindowMs` is the property's (2 s initialisation window; tied to the code's constant by
`C19.init_window_is_the_documented_one`).  `settleMs` and `clockSlackMs` are harness tolerances and are named as such;
both only make the monitor demand less.  What the script knows about the run (`preWindowMs`, `lossBound`) comes in
through `Script`, from constants the extractor reads in the source.  There is no bound on how long dispatch may take:
a stall shows as a log that stays short (`burst_stalled` / `invocation_missing`); slowness is a tag of the driver.
-/
namespace RawPanelVerif.Spec.Gorwp

structure SEvent where
  id : Nat
  binary : Option (Bool × Nat) := none     -- pressed, edge
  pulsed : Option Int := none
  absolute : Option Nat := none
  speed : Option Int := none
  deriving DecidableEq, Repr, Inhabited

/-- a handler invocation as the user sees it: which kind of handler, component id, arguments -/
inductive SInv
  | trigger (id : Nat) (ev : SEvent)
  | binary (id : Nat) (status : Nat) (edge : Nat)
  | pulsed (id : Nat) (v : Int)
  | absolute (id : Nat) (v : Int)
  | intensity (id : Nat) (v : Int)
  deriving DecidableEq, Repr, Inhabited

structure SBindings where
  trigger : List Nat := []
  binary : List Nat := []
  pulsed : List Nat := []
  absolute : List Nat := []
  intensity : List Nat := []
  deriving DecidableEq, Repr, Inhabited

/-- the five kinds of handler a user can register for a component id -/
inductive Kind | trigger | binary | pulsed | absolute | intensity
  deriving DecidableEq, Repr, Inhabited

def Kind.all : List Kind := [.trigger, .binary, .pulsed, .absolute, .intensity]

/-- a handler of kind `k` is registered for component `id` -/
def SBindings.has (b : SBindings) : Kind → Nat → Bool
  | .trigger, id => decide (id ∈ b.trigger)
  | .binary, id => decide (id ∈ b.binary)
  | .pulsed, id => decide (id ∈ b.pulsed)
  | .absolute, id => decide (id ∈ b.absolute)
  | .intensity, id => decide (id ∈ b.intensity)

def SBindings.add (b : SBindings) : Kind → Nat → SBindings
  | .trigger, id => { b with trigger := id :: b.trigger }
  | .binary, id => { b with binary := id :: b.binary }
  | .pulsed, id => { b with pulsed := id :: b.pulsed }
  | .absolute, id => { b with absolute := id :: b.absolute }
  | .intensity, id => { b with intensity := id :: b.intensity }

/-- the event matches a handler of kind `k`: a typed handler matches an event that has the component of its kind
(the intensity handler is the one for speed components), the generic trigger handler matches every event -/
def SEvent.carries (e : SEvent) : Kind → Bool
  | .trigger => true
  | .binary => e.binary.isSome
  | .pulsed => e.pulsed.isSome
  | .absolute => e.absolute.isSome
  | .intensity => e.speed.isSome

/-- which kind of handler was invoked -/
def SInv.kind : SInv → Kind
  | .trigger .. => .trigger
  | .binary .. => .binary
  | .pulsed .. => .pulsed
  | .absolute .. => .absolute
  | .intensity .. => .intensity

/-- the invocation carries the event's component id and its press state and edge (as `BinaryStatus` 0/1 and the 8-bit
`BinaryEdge`), or its value; the generic handler gets the event itself -/
def argsMatch (e : SEvent) : SInv → Bool
  | .trigger id ev => decide (id = e.id) && decide (ev = e)
  | .binary id st ed => decide (id = e.id) && (match e.binary with
      | some (p, edge) => decide (st = (if p then 1 else 0)) && decide (ed = edge % 256)
      | none => false)
  | .pulsed id v => decide (id = e.id) && decide (e.pulsed = some v)
  | .absolute id v => decide (id = e.id) && decide (e.absolute.map Int.ofNat = some v)
  | .intensity id v => decide (id = e.id) && decide (e.speed = some v)

/-- how often a handler of kind `k` was invoked in a stretch of the log -/
def countKind (k : Kind) (g : List SInv) : Nat := (g.filter (fun i => decide (i.kind = k))).length

/-- event `e` owes an invocation of the handler of kind `k`: it is bound to the event's id and the event matches -/
def owesKind (b : SBindings) (e : SEvent) (k : Kind) : Bool := b.has k e.id && e.carries k

/-- how many invocations the event owes -/
def owedCount (b : SBindings) (e : SEvent) : Nat := (Kind.all.filter (owesKind b e)).length

/-- EXACTLY ONCE PER MATCHING EVENT: the stretch `g` of the log is what event `e` owes — for every kind of handler,
exactly one invocation if that handler is bound to the event's id and the event matches it, none otherwise; and
every invocation carries the event's id and arguments.  (The order between the handlers of ONE event is not fixed
by the property.) -/
def groupOk (b : SBindings) (e : SEvent) (g : List SInv) : Bool :=
  Kind.all.all (fun k => countKind k g == (if owesKind b e k then 1 else 0)) && g.all (argsMatch e)

/-- the beginning of such a group: nothing in it that the event does not owe, nothing twice -/
def groupPrefixOk (b : SBindings) (e : SEvent) (g : List SInv) : Bool :=
  Kind.all.all (fun k => decide (countKind k g ≤ (if owesKind b e k then 1 else 0))) && g.all (argsMatch e)

inductive LogVerdict | ok | short | extra | mismatch
  deriving DecidableEq, Repr

/-- a run as the user sees it: registrations and events in the order in which they happened -/
inductive SDyn
  | bind (k : Kind) (id : Nat)
  | event (e : SEvent)
  deriving DecidableEq, Repr, Inhabited

/-- IN PANEL ORDER: the log must be, event by event, exactly the invocations that event owes to the handlers
registered before it -/
def checkLogDyn (b : SBindings) : List SDyn → List SInv → LogVerdict
  | [], [] => .ok
  | [], _ :: _ => .extra
  | .bind k id :: r, log => checkLogDyn (b.add k id) r log
  | .event e :: r, log =>
    let n := owedCount b e
    let got := log.take n
    if got.length < n then
      -- the log ends inside / before this event's group: stalled or lost
      if groupPrefixOk b e got then .short else .mismatch
    else if groupOk b e got then checkLogDyn b r (log.drop n)
    else .mismatch

/-- the same for a fixed set of handlers -/
def checkLog (b : SBindings) (es : List SEvent) (log : List SInv) : LogVerdict :=
  checkLogDyn b (es.map SDyn.event) log

/-! ### history items -/
inductive Item
  | event (e : SEvent)
  | ping
  | info (model serial name : List Nat)
  | topo (json svg : List Nat) (nHWc : Nat)
  | avail (kv : List (Nat × Nat))
  | broken (overLimit : Bool)   -- over-limit header (true) or truncated frame (false)
  | wait (ms : Nat)             -- the panel sends nothing for `ms` milliseconds
  | bind (k : Kind) (id : Nat)  -- the user registers a handler at this point of the script
  deriving DecidableEq, Repr, Inhabited

/-- everything before the first broken frame -/
def beforeBroken : List Item → List Item
  | [] => []
  | .broken _ :: _ => []
  | x :: r => x :: beforeBroken r

def hasBroken (h : List Item) : Bool := h.any (fun i => match i with | .broken _ => true | _ => false)
def firstBrokenIsOverLimit (h : List Item) : Bool := (h.find? (fun i => match i with | .broken _ => true | _ => false)) = some (.broken true)

/-- HARNESS TOLERANCE, not a number of the property: a pause of the panel of at least this many milliseconds counts as
long enough for everything sent before it to have been dispatched (the scripts pause 300 ms before a broken frame).
It is used only for the allowance around an over-limit frame below; a larger value demands LESS. -/
def settleMs : Nat := 250

def Item.settles : Item → Bool
  | .wait ms => decide (settleMs ≤ ms)
  | _ => false

/-- split at the last settling pause: `(before, after)`; none → everything is "after" -/
def splitLastSettle (h : List Item) : List Item × List Item :=
  let r := h.reverse
  let after := (r.takeWhile (fun i => !i.settles)).reverse
  (h.take (h.length - after.length), after)

/-- how many events a stretch of a run contains -/
def eventCount (d : List SDyn) : Nat := (d.filter (fun i => match i with | .event _ => true | _ => false)).length

def eventsOf (h : List Item) : List SEvent := h.filterMap (fun i => match i with | .event e => some e | _ => none)
/-- events and registrations of a script, in order -/
def dynOf (h : List Item) : List SDyn :=
  h.filterMap (fun i => match i with | .event e => some (SDyn.event e) | .bind k id => some (SDyn.bind k id) | _ => none)
def pingCount (h : List Item) : Nat := (h.filter (· = .ping)).length

/-- the latest non-empty value (empty strings do not overwrite) -/
def lastNonEmpty (init : List Nat) : List (List Nat) → List Nat
  | [] => init
  | v :: r => lastNonEmpty (if v = [] then init else v) r

def models (h : List Item) : List (List Nat) := h.filterMap (fun i => match i with | .info m _ _ => some m | _ => none)
def serials (h : List Item) : List (List Nat) := h.filterMap (fun i => match i with | .info _ s _ => some s | _ => none)
def names (h : List Item) : List (List Nat) := h.filterMap (fun i => match i with | .info _ _ n => some n | _ => none)
def jsons (h : List Item) : List (List Nat) := h.filterMap (fun i => match i with | .topo j _ _ => some j | _ => none)
def svgs (h : List Item) : List (List Nat) := h.filterMap (fun i => match i with | .topo _ s _ => some s | _ => none)
def availEntries (h : List Item) : List (Nat × Nat) := h.flatMap (fun i => match i with | .avail kv => kv | _ => [])

/-- the value most recently reported for key `k` -/
def lastValue (k : Nat) : List (Nat × Nat) → Option Nat
  | [] => none
  | (k', v) :: r => match lastValue k r with
    | some w => some w
    | none => if k' = k then some v else none

/-- model, serial, topology JSON and SVG have all arrived (non-empty) -/
def allFourArrived (h : List Item) : Bool :=
  (models h).any (· ≠ []) && (serials h).any (· ≠ []) && (jsons h).any (· ≠ []) && (svgs h).any (· ≠ [])

/-- CONNECT RESULT: connecting succeeds exactly when model, serial, topology JSON and SVG arrive within the
initialisation window.  `arrived` = what arrived before the window closed; `connectOk` = `Connect` returned no error. -/
def connectResult (arrived : List Item) (connectOk : Bool) : Option String :=
  if connectOk = allFourArrived arrived then none
  else some (if connectOk then "connect_succeeded_although_item_missing" else "connect_failed_although_all_items_arrived")

def lastHWcCount (h : List Item) : Option Nat :=
  h.foldl (fun acc i => match i with | .topo j _ n => if j = [] then acc else some n | _ => acc) none

/-! ### the observation -/
structure Obs where
  initOk : Bool
  tconn : Nat := 0
  inv : List SInv := []
  acks : Nat := 0
  model : List Nat := []
  serial : List Nat := []
  name : List Nat := []
  tj : List Nat := []
  sv : List Nat := []
  tn : Int := -1
  tg : String := "-"      -- digest of the JSON form of what `GetTopology()` returns
  tf : String := "-"      -- digest of the JSON form of a fresh parse of the stored topology JSON
  av : List (Nat × Nat) := []
  tlast : Nat := 0
  dataRaces : Nat := 0
  bindRace : Bool := false
  closed : Bool := false  -- the panel saw the client end the connection while the script was still running
  deriving Repr, Inhabited

structure Script where
  ascii : Bool := false
  /-- a lower bound, in ms, of the time between the call of `Connect` and the start of the initialisation window (the
  request leaving): script knowledge, e.g. the scripted ASCII panel leaves the mode probe unanswered, so the detector's
  whole probe deadline passes first.  0 = nothing known. -/
  preWindowMs : Nat := 0
  initItems : List Item := []     -- what the panel answered to the initial request within the initialisation window
  initEnded : Bool := false       -- the connection ended inside the window (closed by the panel / broken frame): nothing more can arrive
  bind : SBindings := {}
  feedback : Bool := false
  hist : List Item := []
  /-- how many of the events sent right before an over-limit frame (no settling pause in between) the client may still
  hold undispatched when that frame ends the connection: the capacity of its incoming queue, in events.  `none` = not known. -/
  lossBound : Option Nat := none
  deriving Repr, Inhabited

/-- THE INITIALISATION WINDOW of the property ("connecting succeeds exactly when … arrive within the initialisation
window"): the property's anchors and the package documentation give it as "2 s initialisation wait".  The constant the
code uses (`time.After(2 * time.Second)` in `init`) is tied to this number by `C19.init_window_is_the_documented_one`. -/
def initWindowMs : Nat := 2000

/-- clock granularity: `tconn` is a whole number of milliseconds -/
def clockSlackMs : Nat := 5

/-- all four items were sent AND the connection ended inside the window (the panel closed right after its answer): whether
they "arrived" before the end is a race the property does not decide — either result of `Connect` is accepted -/
def undecided (sc : Script) : Bool := sc.initEnded && allFourArrived sc.initItems

/-- The allowance around a broken frame.  A broken frame ends the connection and the client shuts down at once.
* truncated frame: the reader gives up only when its payload deadline has passed — seconds after everything before the
  frame arrived — so EVERYTHING before it is demanded;
* over-limit header: messages that arrived immediately before it (no settling pause in between) may still be queued
  and are then dropped.  They are allowed, not demanded — but no more of them may be missing than the client can hold
  (`lossBound`), and everything up to the last settling pause is demanded.
Result: the demanded part and the allowed part of the run before the broken frame. -/
def brokenSplit (sc : Script) : List SDyn × List SDyn :=
  let h := beforeBroken sc.hist
  if !hasBroken sc.hist then (dynOf h, [])
  else if firstBrokenIsOverLimit sc.hist then let (req, opt) := splitLastSettle h; (dynOf req, dynOf opt)
  else (dynOf h, [])

/-- may the last `rest` (a suffix of the allowed part) be missing? -/
def lossAllowed (sc : Script) (rest : List SDyn) : Bool :=
  match sc.lossBound with
  | some n => decide (eventCount rest ≤ n)
  | none => true

/-- the lengths `k` of the allowed part for which "demanded part + first `k` allowed items" explains the log exactly -/
def acceptedSplits (sc : Script) (inv : List SInv) : List Nat :=
  let (req, opt) := brokenSplit sc
  (List.range (opt.length + 1)).filter (fun k =>
    lossAllowed sc (opt.drop k) && checkLogDyn sc.bind (req ++ opt.take k) inv == .ok)

/-- for reports: `some missing` when the log was accepted although `missing` allowed events were not dispatched -/
def prefixAccepted (sc : Script) (inv : List SInv) : Option Nat :=
  let (_, opt) := brokenSplit sc
  match (acceptedSplits sc inv).reverse with
  | k :: _ => if k < opt.length then some (eventCount (opt.drop k)) else none
  | [] => none

def check (sc : Script) (o : Obs) : Option String :=
  match (if undecided sc then none else connectResult sc.initItems o.initOk) with
  | some c => some c
  | none =>
  if !o.initOk then
    -- the error must not come before the window has passed, while the missing items could still arrive
    if !sc.initEnded && o.tconn + clockSlackMs < sc.preWindowMs + initWindowMs then some "connect_error_before_window" else none
  else
    let h := beforeBroken sc.hist
    let all := sc.initItems ++ h
    let verdict := if !(acceptedSplits sc o.inv).isEmpty then LogVerdict.ok else checkLogDyn sc.bind (dynOf h) o.inv
    match verdict with
    | .extra => some (if hasBroken sc.hist then (if firstBrokenIsOverLimit sc.hist then "invocation_after_broken_frame" else "invocation_after_truncated_frame") else "invocation_unexpected")
    | .mismatch => some "invocation_mismatch"
    | .short => some (if sc.feedback then "burst_stalled" else "invocation_missing")
    | .ok =>
      if hasBroken sc.hist then none   -- state / acks at the moment of a forced shutdown are not compared
      -- STAYS LIVE: nothing broken or over-limit was received, yet the client ended the connection
      else if o.closed then some "connection_dropped_without_cause"
      else if o.acks ≠ pingCount h then some "ack_count"
      else if o.model ≠ lastNonEmpty [] (models all) then some "getter_model"
      else if o.serial ≠ lastNonEmpty [] (serials all) then some "getter_serial"
      else if o.name ≠ lastNonEmpty [] (names all) then some "getter_name"
      else if o.tj ≠ lastNonEmpty [] (jsons all) then some "state_topology_json"
      else if o.sv ≠ lastNonEmpty [] (svgs all) then some "state_topology_svg"
      else if (lastHWcCount all).map Int.ofNat ≠ some o.tn then some "getter_topology"
      -- the stored JSON is the latest one received (clause above); the getter must equal a fresh parse of exactly that
      else if o.tg ≠ o.tf then some "getter_topology_not_latest"
      else if (availEntries all).any (fun (k, _) => (o.av.find? (·.1 = k)).map (·.2) ≠ lastValue k (availEntries all)) then some "state_availability"
      else if o.av.any (fun (k, _) => lastValue k (availEntries all) = none) then some "state_availability"
      else if o.bindRace then some "bind_race_detected"
      else none

end RawPanelVerif.Spec.Gorwp
