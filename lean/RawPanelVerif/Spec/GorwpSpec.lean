/-!
# C19 — what the high-level client owes its user, as monitors over one observed run (independent of `Model/`)

The script is what the scripted panel sent (after the handlers were bound); the observation is what the
harness saw: `Connect`'s result, the handler invocation log, acknowledges on the wire, the state getters.
-/
namespace RawPanelVerif.Spec.Gorwp

structure SEvent where
  id : Nat
  binary : Option (Bool × Nat) := none     -- pressed, edge
  pulsed : Option Int := none
  absolute : Option Nat := none
  speed : Option Int := none
  deriving DecidableEq, Repr, Inhabited

/-- a handler invocation as the user sees it: which kind of handler, component id, arguments -/
inductive SInv
  | trigger (id : Nat) (ev : SEvent)
  | binary (id : Nat) (status : Nat) (edge : Nat)
  | pulsed (id : Nat) (v : Int)
  | absolute (id : Nat) (v : Int)
  | intensity (id : Nat) (v : Int)
  deriving DecidableEq, Repr, Inhabited

structure SBindings where
  trigger : List Nat := []
  binary : List Nat := []
  pulsed : List Nat := []
  absolute : List Nat := []
  intensity : List Nat := []
  deriving DecidableEq, Repr, Inhabited

/-- the invocations one event owes: one per bound handler whose kind matches a component of the event
(the generic trigger handler matches every event of its id) -/
def expectedFor (b : SBindings) (e : SEvent) : List SInv :=
  (if e.id ∈ b.trigger then [SInv.trigger e.id e] else [])
  ++ (match e.binary with
      | some (p, edge) => if e.id ∈ b.binary then [SInv.binary e.id (if p then 1 else 0) (edge % 256)] else []
      | none => [])
  ++ (match e.pulsed with | some v => if e.id ∈ b.pulsed then [SInv.pulsed e.id v] else [] | none => [])
  ++ (match e.absolute with | some v => if e.id ∈ b.absolute then [SInv.absolute e.id (v : Int)] else [] | none => [])
  ++ (match e.speed with | some v => if e.id ∈ b.intensity then [SInv.intensity e.id v] else [] | none => [])

/-- same elements with the same multiplicities (order between the handlers of ONE event is not fixed by the property) -/
def sameMultiset (a b : List SInv) : Bool :=
  a.length == b.length && a.all (fun x => a.count x == b.count x)

inductive LogVerdict | ok | short | extra | mismatch
  deriving DecidableEq, Repr

/-- the log must be, event by event in panel order, exactly the invocations that event owes -/
def checkLog (b : SBindings) : List SEvent → List SInv → LogVerdict
  | [], [] => .ok
  | [], _ :: _ => .extra
  | e :: es, log =>
    let want := expectedFor b e
    let got := log.take want.length
    if got.length < want.length then
      -- the log ends inside / before this event's group: stalled or lost
      if got.all (fun x => want.contains x) then .short else .mismatch
    else if sameMultiset got want then checkLog b es (log.drop want.length)
    else .mismatch

/-! ### history items -/
inductive Item
  | event (e : SEvent)
  | ping
  | info (model serial name : List Nat)
  | topo (json svg : List Nat) (nHWc : Nat)
  | avail (kv : List (Nat × Nat))
  | broken (overLimit : Bool)   -- over-limit header (true) or truncated frame (false)
  | wait
  deriving DecidableEq, Repr, Inhabited

/-- everything before the first broken frame -/
def beforeBroken : List Item → List Item
  | [] => []
  | .broken _ :: _ => []
  | x :: r => x :: beforeBroken r

def hasBroken (h : List Item) : Bool := h.any (fun i => match i with | .broken _ => true | _ => false)
def firstBrokenIsOverLimit (h : List Item) : Bool := (h.find? (fun i => match i with | .broken _ => true | _ => false)) = some (.broken true)

/-- split at the last pause: `(before, after)`; no pause → everything is "after" -/
def splitLastWait (h : List Item) : List Item × List Item :=
  let r := h.reverse
  let after := (r.takeWhile (· ≠ .wait)).reverse
  (h.take (h.length - after.length), after)

def eventsOf (h : List Item) : List SEvent := h.filterMap (fun i => match i with | .event e => some e | _ => none)
def pingCount (h : List Item) : Nat := (h.filter (· = .ping)).length

/-- the latest non-empty value (empty strings do not overwrite) -/
def lastNonEmpty (init : List Nat) : List (List Nat) → List Nat
  | [] => init
  | v :: r => lastNonEmpty (if v = [] then init else v) r

def models (h : List Item) : List (List Nat) := h.filterMap (fun i => match i with | .info m _ _ => some m | _ => none)
def serials (h : List Item) : List (List Nat) := h.filterMap (fun i => match i with | .info _ s _ => some s | _ => none)
def names (h : List Item) : List (List Nat) := h.filterMap (fun i => match i with | .info _ _ n => some n | _ => none)
def jsons (h : List Item) : List (List Nat) := h.filterMap (fun i => match i with | .topo j _ _ => some j | _ => none)
def svgs (h : List Item) : List (List Nat) := h.filterMap (fun i => match i with | .topo _ s _ => some s | _ => none)
def availEntries (h : List Item) : List (Nat × Nat) := h.flatMap (fun i => match i with | .avail kv => kv | _ => [])

/-- the value most recently reported for key `k` -/
def lastValue (k : Nat) : List (Nat × Nat) → Option Nat
  | [] => none
  | (k', v) :: r => match lastValue k r with
    | some w => some w
    | none => if k' = k then some v else none

/-- model, serial, topology JSON and SVG have all arrived (non-empty) -/
def allFourArrived (h : List Item) : Bool :=
  (models h).any (· ≠ []) && (serials h).any (· ≠ []) && (jsons h).any (· ≠ []) && (svgs h).any (· ≠ [])

def lastHWcCount (h : List Item) : Option Nat :=
  h.foldl (fun acc i => match i with | .topo j _ n => if j = [] then acc else some n | _ => acc) none

/-! ### the observation -/
structure Obs where
  initOk : Bool
  tconn : Nat := 0
  inv : List SInv := []
  acks : Nat := 0
  model : List Nat := []
  serial : List Nat := []
  name : List Nat := []
  tj : List Nat := []
  sv : List Nat := []
  tn : Int := -1
  tg : String := "-"      -- digest of the JSON form of what `GetTopology()` returns
  tf : String := "-"      -- digest of the JSON form of a fresh parse of the stored topology JSON
  av : List (Nat × Nat) := []
  tlast : Nat := 0
  dataRaces : Nat := 0
  bindRace : Bool := false
  deriving Repr, Inhabited

structure Script where
  ascii : Bool := false
  initItems : List Item := []     -- what the panel answered to the initial request within the 2 s window
  bind : SBindings := {}
  feedback : Bool := false
  hist : List Item := []
  deriving Repr, Inhabited

def initWindowMs : Nat := 2000
def probeMs : Nat := 2000
def burstBoundMs : Nat := 5000

def check (sc : Script) (o : Obs) : Option String :=
  let shouldInit := allFourArrived sc.initItems
  if o.initOk ≠ shouldInit then some (if shouldInit then "connect_failed_although_all_items_arrived" else "connect_succeeded_although_item_missing")
  else if !o.initOk then
    -- the error must not come before the window has passed
    if o.tconn + 5 < initWindowMs + (if sc.ascii then probeMs else 0) then some "connect_error_before_window" else none
  else
    let h := beforeBroken sc.hist
    let all := sc.initItems ++ h
    -- A broken frame ends the connection and the client shuts down at once: messages that arrived immediately before
    -- it (no pause in between) may still be queued and are then dropped.  They are allowed, not demanded (timing
    -- tolerance); everything up to the last pause before the broken frame is demanded.
    let (req, opt) := if hasBroken sc.hist then splitLastWait h else (h, [])
    let optEv := eventsOf opt
    let verdicts := (List.range (optEv.length + 1)).map (fun k => checkLog sc.bind (eventsOf req ++ optEv.take k) o.inv)
    let verdict := if verdicts.any (· = .ok) then LogVerdict.ok else checkLog sc.bind (eventsOf h) o.inv
    match verdict with
    | .extra => some (if hasBroken sc.hist then (if firstBrokenIsOverLimit sc.hist then "invocation_after_broken_frame" else "invocation_after_truncated_frame") else "invocation_unexpected")
    | .mismatch => some "invocation_mismatch"
    | .short => some (if sc.feedback then "burst_stalled" else "invocation_missing")
    | .ok =>
      if hasBroken sc.hist then none   -- state / acks at the moment of a forced shutdown are not compared
      else if o.acks ≠ pingCount h then some "ack_count"
      else if o.model ≠ lastNonEmpty [] (models all) then some "getter_model"
      else if o.serial ≠ lastNonEmpty [] (serials all) then some "getter_serial"
      else if o.name ≠ lastNonEmpty [] (names all) then some "getter_name"
      else if o.tj ≠ lastNonEmpty [] (jsons all) then some "state_topology_json"
      else if o.sv ≠ lastNonEmpty [] (svgs all) then some "state_topology_svg"
      else if (lastHWcCount all).map Int.ofNat ≠ some o.tn then some "getter_topology"
      -- the stored JSON is the latest one received (clause above); the getter must equal a fresh parse of exactly that
      else if o.tg ≠ o.tf then some "getter_topology_not_latest"
      else if (availEntries all).any (fun (k, _) => (o.av.find? (·.1 = k)).map (·.2) ≠ lastValue k (availEntries all)) then some "state_availability"
      else if o.av.any (fun (k, _) => lastValue k (availEntries all) = none) then some "state_availability"
      else if o.tlast > burstBoundMs then some "burst_slow"
      else if o.bindRace then some "bind_race_detected"
      else none

end RawPanelVerif.Spec.Gorwp
