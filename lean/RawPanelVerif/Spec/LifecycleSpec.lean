/-!
# C11 — lifecycle monitors over an observed trace (independent of `Model/`)

The trace is what the harness observed of ONE run of `ConnectToPanel` against a scripted panel:
callbacks, deliveries, what the panel accepted / sent / closed / saw closing, cancellation, return,
`wg.Wait()`, goroutines of the library left.  `check` returns `none` when every clause of property C11
holds on the trace and `some clause` otherwise.  Tolerances appear only in timing clauses.
-/
namespace RawPanelVerif.Spec.Lifecycle

inductive Ev
  | start | cancel | cancel2 | cancelfb | listen
  | acc (k : Nat)
  | rx (k : Nat)
  | tx (k off : Nat)            -- logged BEFORE the panel writes stream[..off)
  | pcl (k off : Nat)           -- panel half-closes after `off` bytes
  | pclose (k : Nat)            -- panel closed the socket completely itself
  | held (k off : Nat)
  | peof (k : Nat) (kind : String)
  | con (k : Nat) (bin : Bool)
  | dis (k : Nat) (b : Bool)
  | del (tok : String)
  | ret | wg | nowg | noret
  | gor (n : Nat) | gor2 (n : Nat)
  | gorc (n : Nat)              -- census just before cancel: goroutines of this call inside the library
  | hk (point : String) | hkRelease
  | lag (ms : Nat)
  | cstop | cres                -- the script's consumer of msgsFromPanel stops / resumes receiving
  | fin
  | other (s : String)
  deriving DecidableEq, Repr, Inhabited

structure TEv where
  t : Nat
  e : Ev
  deriving DecidableEq, Repr, Inhabited

inductive Mode | absent | refuse | silent | bin | asc | late
  deriving DecidableEq, Repr, Inhabited

structure Script where
  mode : Mode := .bin
  nc : Nat := 0
  rc : Nat := 0
  cyc : Nat := 0
  cut : Nat := 0
  hold : Nat := 0
  park : Nat := 0
  appear : Nat := 0
  stream : List Nat := []
  exp : List String := []
  /-- scripts whose successive connections negotiate DIFFERENT protocol modes (a panel reconfigured, or another device
  behind the same address, between two sessions of one call): connection k (1-based) is served in mode `per[k-1].1` with
  the stream `per[k-1].2.1` whose complete frames decode to `per[k-1].2.2` (the last entry for every later connection);
  empty = every connection as `mode` / `stream` / `exp` -/
  per : List (Mode × List Nat × List String) := []
  deriving Repr, Inhabited

/-- what the scripted panel does on connection `k` (1-based): the script itself unless it names a mode per connection -/
def connScript (sc : Script) (k : Nat) : Script :=
  match (match sc.per[k - 1]? with | some p => some p | none => sc.per.getLast?) with
  | some (m, s, e) => { sc with mode := m, stream := s, exp := e }
  | none => sc

/-- "the configured retry period": the period a script configures, or — the property ranges over "configured and
default retry periods" — the default the library promises its callers when none is configured: 3 s between dial
attempts, 1 s before a reconnect.  These numbers are the monitor's own (never read from the code): that the defaults
found in the source on this run are these is a proof obligation (`C11.constants_are_those_of_the_monitor`), so a changed
default breaks an obligation instead of shifting the monitor. -/
def defaultNoConnRetry : Nat := 3
def defaultReconnRetry : Nat := 1
def ncMs (s : Script) : Nat := (if s.nc = 0 then defaultNoConnRetry else s.nc) * 1000
def rcMs (s : Script) : Nat := (if s.rc = 0 then defaultReconnRetry else s.rc) * 1000

/-- timing tolerances (ms) -/
def tolEarly : Nat := 5          -- timestamps are truncated to ms
def tolLate : Nat := 700
/-- "returns within a bounded time": the bound the monitor uses allows, per connection cycle the environment forces
after the cancellation, one retry period, one probe window ("2 s" in the text of C12) and one second of winding down an
ASCII connection after the panel's EOF.  Tied to the constants of the source by `C11.constants_are_those_of_the_monitor`. -/
def probeMs : Nat := 2000
def eofSleepMs : Nat := 1000
def settleMs : Nat := 150        -- a frame sent less than this before `cancel` may or may not be delivered

/-- only the part of the trace up to the harness's `end` marker counts -/
def upToEnd : List TEv → List TEv
  | [] => []
  | x :: r => if x.e = .fin then [] else x :: upToEnd r

/-! ## frame boundaries of the scripted stream (protocol framing only) -/

def le32 (a b c d : Nat) : Nat := a + 256 * b + 65536 * c + 16777216 * d

/-- number of complete binary frames (4-byte little-endian length + payload) inside the first `n` bytes -/
def binFramesIn (fuel : Nat) (s : List Nat) (n : Nat) : Nat :=
  match fuel with
  | 0 => 0
  | fuel + 1 =>
    match s with
    | a :: b :: c :: d :: rest =>
      let len := le32 a b c d
      if 4 + len ≤ n ∧ len ≤ rest.length then 1 + binFramesIn fuel (rest.drop len) (n - (4 + len)) else 0
    | _ => 0

/-- number of LF-terminated lines inside the first `n` bytes -/
def ascLinesIn (s : List Nat) (n : Nat) : Nat := ((s.take n).filter (· = 10)).length

def framesIn (sc : Script) (n : Nat) : Nat :=
  match sc.mode with
  | .asc => ascLinesIn sc.stream n
  | _ => binFramesIn (sc.stream.length + 1) sc.stream n

/-- end offsets of the frames of a stream whose frames (binary: header + payload, ASCII: line + LF) have the byte
lengths `lens` -/
def frameEnds : List Nat → List Nat
  | [] => []
  | n :: ls => n :: (frameEnds ls).map (· + n)

/-- number of frames that lie completely inside the first `d` bytes of such a stream: what must have been
delivered, exactly once each, when the panel drops the connection after `d` bytes -/
def completeBefore (lens : List Nat) (d : Nat) : Nat := ((frameEnds lens).filter (· ≤ d)).length

/-! ## clause 1-2: callbacks -/

def callbacks (tr : List TEv) : List (Nat × Ev) :=
  tr.filterMap (fun x => match x.e with
    | .con _ _ => some (x.t, x.e)
    | .dis _ _ => some (x.t, x.e)
    | _ => none)

/-- connect/disconnect strictly alternate starting with connect; the k-th of each kind carries number k -/
def alternates : List (Nat × Ev) → (expectCon : Bool) → (k : Nat) → Bool
  | [], _, _ => true
  | (_, .con k' _) :: r, true, k => k' == k && alternates r false k
  | (_, .dis k' _) :: r, false, k => k' == k && alternates r true (k + 1)
  | _, _, _ => false

def firstCancelTime (tr : List TEv) : Option Nat :=
  (tr.find? (fun x => x.e = .cancel ∨ x.e = .cancelfb)).map (·.t)

/-- position-based: is there a `cancel` strictly before index `i`? -/
def cancelBefore (tr : List TEv) (i : Nat) : Bool :=
  (tr.take i).any (fun x => x.e = .cancel ∨ x.e = .cancelfb)

def isCallback (e : Ev) : Bool := match e with | .con _ _ => true | .dis _ _ => true | _ => false
def isDisTrue (e : Ev) : Bool := match e with | .dis _ true => true | _ => false
def isDisFalse (e : Ev) : Bool := match e with | .dis _ false => true | _ => false
def isAcc (e : Ev) : Bool := match e with | .acc _ => true | _ => false

/-- `dis true` at most once, only after `cancel`, and no callback after it -/
def cancelledDisOk (tr : List TEv) : Option String :=
  let idx := (List.range tr.length).filter (fun i => isDisTrue (tr.getD i default).e)
  match idx with
  | [] => none
  | [i] =>
    if !cancelBefore tr i then some "cancelled_disconnect_before_cancel"
    else if (tr.drop (i + 1)).any (fun x => isCallback x.e) then some "callback_after_cancelled_disconnect"
    else none
  | _ => some "cancelled_disconnect_twice"

/-- nothing is called back once the call has returned -/
def noCallbackAfterRet (tr : List TEv) : Bool :=
  match tr.findIdx? (fun x => x.e = .ret) with
  | none => true
  | some i => !(tr.drop (i + 1)).any (fun x => isCallback x.e)

/-! ## clause 3: deliveries -/

def maxTx (tr : List TEv) (k : Nat) (before : Option Nat) : Nat :=
  tr.foldl (fun m x => match x.e with
    | .tx k' off =>
      let inTime : Bool := match before with | none => true | some T => decide (x.t + settleMs ≤ T)
      if k' = k ∧ inTime = true then max m off else m
    | _ => m) 0

def accCount (tr : List TEv) : Nat := (tr.filter (fun x => isAcc x.e)).length
def deliveries (tr : List TEv) : List String := tr.filterMap (fun x => match x.e with | .del s => some s | _ => none)

/-- consume, for one connection, the deliveries `exp[0], exp[1], …` as far as they match, at most `allowed` -/
def eat : (allowed : Nat) → (exp : List String) → (toks : List String) → Nat × List String
  | 0, _, toks => (0, toks)
  | _, [], toks => (0, toks)
  | _, _, [] => (0, [])
  | a + 1, e :: es, t :: ts => if e = t then let (n, r) := eat a es ts; (n + 1, r) else (0, t :: ts)

/-- ASSUMPTION of the property (documented API precondition, connecttopanel.go line 28): someone receives from
`msgsFromPanel`.  When the script's consumer is paused at the moment of the cancellation, only what was completely sent
before the pause began is demanded (the client can hand over nothing while nobody receives). -/
def effectiveCancelTime (tr : List TEv) : Option Nat :=
  match firstCancelTime tr with
  | none => none
  | some tc =>
    let stops := tr.filter (fun x => x.e = .cstop ∧ x.t ≤ tc)
    match stops.getLast? with
    | none => some tc
    | some st => if tr.any (fun x => x.e = .cres ∧ st.t ≤ x.t ∧ x.t ≤ tc) then some tc else some st.t

/-- … and the return is bounded from the later of the cancellation and the consumer's last resumption -/
def lastConsumerResume (tr : List TEv) : Nat := tr.foldl (fun m x => if x.e = .cres then max m x.t else m) 0

/-- every connection delivers frames 0.. of the stream it was sent (in the mode that connection negotiated), at least those completely sent `settleMs` before the
cancellation (all of them when the panel dropped the connection), at most those completely sent; nothing else. -/
def deliveriesOk (sc : Script) (tr : List TEv) : Option String :=
  let tc := effectiveCancelTime tr
  let rec go (fuel k : Nat) (toks : List String) : Option String :=
    match fuel with
    | 0 => if toks.isEmpty then none else some "unexpected_delivery"
    | fuel + 1 =>
      let sck := connScript sc k
      let allowed := framesIn sck (maxTx tr k none)
      let required := framesIn sck (maxTx tr k tc)
      let (n, rest) := eat allowed sck.exp toks
      if n < required then some s!"frame_lost@conn{k}" else go fuel (k + 1) rest
  go (accCount tr) 1 (deliveries tr)

/-! ## clause 4: reconnect after the retry period -/

/-- for every uncancelled disconnect: the next accept exists (the panel keeps listening), comes no earlier
than the retry period and not much later -/
def reconnectOk (sc : Script) (lagMs : Nat) (tr : List TEv) : Option String :=
  let rec go (l : List TEv) : Option String :=
    match l with
    | [] => none
    | x :: r =>
      if isDisFalse x.e then
        match r.find? (fun y => isAcc y.e ∨ y.e = .ret) with
        | some y =>
          if y.e = .ret then some "return_after_uncancelled_disconnect"
          else if y.t + tolEarly < x.t + rcMs sc then some "reconnect_before_retry_period"
          else if y.t > x.t + rcMs sc + tolLate + lagMs then some "reconnect_late"
          else go r
        | none => some "no_reconnect_after_disconnect"
      else go r
  go tr

/-- `late` panel: the first accept lies on the grid of the no-connection period and within one period of the
listener's appearance -/
def noConnGridOk (sc : Script) (lagMs : Nat) (tr : List TEv) : Option String :=
  if sc.mode ≠ .late then none else
  match tr.find? (fun x => x.e = .listen), tr.find? (fun x => isAcc x.e) with
  | some l, some a =>
    if a.t % ncMs sc > tolLate + lagMs then some "dial_off_retry_grid"
    else if a.t > l.t + ncMs sc + tolLate + lagMs then some "dial_late_after_panel_appeared"
    else none
  | _, _ => some "never_connected_to_late_panel"

/-! ## clause 5: after cancel -/

def lagOf (tr : List TEv) : Nat := tr.foldl (fun m x => match x.e with | .lag n => max m n | _ => m) 0

def countAfter (tr : List TEv) (T : Nat) (p : Ev → Bool) : Nat :=
  (tr.filter (fun x => x.t ≥ T ∧ p x.e)).length

def afterCancelOk (sc : Script) (tr : List TEv) : Option String :=
  let lagMs := lagOf tr
  if tr.any (fun x => x.e = .noret) then some "no_return_after_cancel" else
  match firstCancelTime tr, tr.find? (fun x => x.e = .ret) with
  | none, _ => some "script_without_cancel"
  | some _, none => some "no_return_after_cancel"
  | some tc, some r =>
    -- one (retry + probe + EOF sleep) per connection cycle the environment forced after the cancellation
    let cycles := 1 + countAfter tr tc isDisFalse
    let tb := max tc (lastConsumerResume tr)
    if r.t > tb + cycles * (rcMs sc + probeMs + eofSleepMs) + tolLate + lagMs then some "return_not_bounded"
    else if tr.any (fun x => x.e = .nowg) ∨ !tr.any (fun x => x.e = .wg) then some "waitgroup_not_drained"
    else if tr.any (fun x => match x.e with | .gor n => n ≠ 0 | _ => false) then some "goroutine_left_after_wg_wait"
    else
      -- wg.Add after wg.Wait() returned (observable only through the parking hook)
      let iw := (tr.findIdx? (fun x => x.e = .wg)).getD tr.length
      if (tr.drop iw).any (fun x => match x.e with | .hk p => p = "writerAdded" | _ => false) then some "wg_add_after_wait_returned"
      else
        let ks := (List.range (accCount tr)).map (· + 1)
        let open_ := ks.filter (fun k => !tr.any (fun x => match x.e with
          | .peof k' _ => k' = k | .pclose k' => k' = k | _ => false))
        -- "every socket it opened closed": the panel saw the end of every connection it accepted (when, relative to
        -- the disconnect callback, is not the property's business: the order of `conn.Close()` and `ondisconnect` is
        -- compared with the model, Driver/Lifecycle `closeOrder`)
        match open_ with
        | k :: _ => some s!"socket_not_closed@conn{k}"
        | [] => none

/-! ## the monitor -/

def checkAll (sc : Script) (tr0 : List TEv) : Option String :=
  let tr := upToEnd tr0
  let lagMs := lagOf tr
  if tr.any (fun x => x.e = .cancelfb) then some "trigger_never_happened"
  -- (how many goroutines of the library exist BEFORE the cancellation is not a clause of the property — it speaks of
  -- "after cancellation … every internal goroutine finished" — and a writer that outlives its connection is C09's
  -- concern; the census `gorc` is compared with the model instead: Driver/Lifecycle)
  else if !alternates (callbacks tr) true 1 then some "callbacks_do_not_alternate"
  else match cancelledDisOk tr with
  | some c => some c
  | none =>
  if !noCallbackAfterRet tr then some "callback_after_return" else
  match deliveriesOk sc tr with
  | some c => some c
  | none =>
  match reconnectOk sc lagMs tr with
  | some c => some c
  | none =>
  match noConnGridOk sc lagMs tr with
  | some c => some c
  | none => afterCancelOk sc tr

/-- scripts in which the verification hook holds a writer goroutine back report their failures in a class of their own -/
def check (sc : Script) (tr : List TEv) : Option String :=
  (checkAll sc tr).map (fun c => if sc.park > 0 then "parked:" ++ c else c)

end RawPanelVerif.Spec.Lifecycle
