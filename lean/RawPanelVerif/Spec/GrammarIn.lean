import RawPanelVerif.Spec.PanelIn
import RawPanelVerif.Base.B64In
/-!
# Reference reader of the system → panel ASCII grammar (DESIGN.md Appendix B), independent of Model/

`readInbound : List Bytes → List Effect`.  A line is first cut at its first `=` into key and value; a key is cut at
its first `#` into family and id list.  Numerals are non-empty decimal digit strings with value `< 2^32`
(`int` = optional `-`); every id of an id list receives the effect.  Lines that are not derivable from the grammar
produce no effect.  Graphics lines are assembled over lines: index 0 opens a transfer (with header: last index,
W×H, optional X,Y; without: three lines, 64×32), each following line must be the next index of the same family and
the same id list, the effect happens at the last index.  A graphics line carries at most 170 image bytes.
JSON state lines (`{…}`) take the state `encoding/json` parses (oracle) and have the effect of that state;
`[…]` lines carry a list of whole messages.
-/
namespace RawPanelVerif.Spec.In
open RawPanelVerif RawPanelVerif.Bytes RawPanelVerif.MsgIn

/-! ## lexical helpers -/

/-- cut at the first occurrence of `sep` -/
def cut (sep : UInt8) : Bytes → Option (Bytes × Bytes)
  | [] => none
  | c :: cs => if c = sep then some ([], cs) else (cut sep cs).map (fun p => (c :: p.1, p.2))

/-- `num`: non-empty decimal digits, value < 2^32 -/
def num? (s : Bytes) : Option Nat :=
  match digitsVal? s with
  | some n => if n < 4294967296 then some n else none
  | none => none

/-- `int`: optional `-`, then `num` -/
def int? (s : Bytes) : Option Int :=
  match s with
  | 45 :: r => (num? r).map (fun n => -(n : Int))
  | _ => (num? s).map (fun n => (n : Int))

/-- optional numeric field of a text line: empty = 0 -/
def intField? (s : Bytes) : Option Int := if s = [] then some 0 else int? s
def numField? (s : Bytes) : Option Nat := if s = [] then some 0 else num? s

def mapM? {α β : Type} (f : α → Option β) : List α → Option (List β)
  | [] => some []
  | a :: as => match f a, mapM? f as with
    | some b, some bs => some (b :: bs)
    | _, _ => none

/-- `ids`: `num (, num)*` -/
def ids? (s : Bytes) : Option (List Nat) := mapM? num? (splitOn 44 s)

/-! ## words without arguments -/

def wordTable : List (Bytes × Effect) :=
  [ (asc "ping", .flow .ping), (asc "ack", .flow .ack), (asc "nack", .flow .nack),
    (asc "list", .cmd .sendPanelInfo), (asc "map", .cmd .reportHWCavailability),
    (asc "PanelTopology?", .cmd .sendPanelTopology), (asc "BurninProfile?", .cmd .sendBurninProfile),
    (asc "CalibrationProfile?", .cmd .sendCalibrationProfile), (asc "NetworkConfig?", .cmd .sendNetworkConfig),
    (asc "Registers?", .cmd .sendRegisters), (asc "Connections?", .cmd .getConnections),
    (asc "RunTimeStats?", .cmd .getRunTimeStats), (asc "Clear", .cmd .clearAll), (asc "ClearLEDs", .cmd .clearLEDs),
    (asc "ClearDisplays", .cmd .clearDisplays), (asc "SleepTimer?", .cmd .getSleepTimeout),
    (asc "WakeUp!", .cmd .wakeUp), (asc "Reboot", .cmd .reboot) ]

/-! ## `key=num` commands -/

def numCmdTable : List (Bytes × (Nat → CmdE)) :=
  [ (asc "HeartBeatTimer", .heartBeatTimer), (asc "DimmedGain", .dimmedGain), (asc "PublishSystemStat", .publishSystemStat),
    (asc "LoadCPU", .loadCPU), (asc "SleepTimer", .sleepTimer), (asc "SleepMode", .sleepMode),
    (asc "SleepScreenSaver", .sleepScreenSaver), (asc "Webserver", fun n => .webserver (n > 0)),
    (asc "JSONonOutbound", fun n => .jsonOnOutbound (n > 0)) ]

def readBrightness (v : Bytes) : List Effect :=
  match cut 44 v with
  | none => (match num? v with | some n => [.cmd (.brightness n n)] | none => [])
  | some (a, b) => (match num? a, num? b with | some x, some y => [.cmd (.brightness x y)] | _, _ => [])

def readEnv (v : Bytes) : List Effect :=
  if v = asc "Normal" then [.cmd (.simulateEnv .normal)]
  else if v = asc "Safemode" then [.cmd (.simulateEnv .safemode)]
  else if v = asc "Blocked" then [.cmd (.simulateEnv .blocked)]
  else []

/-! ## packed state integers -/

/-- `HWC#`: bits 0-3 state, bit 5 output, bits 8-11 blink mask -/
def readMode (n : Nat) : ModeE := { state := n % 16, output := n / 32 % 2 = 1, blink := n / 256 % 16 }

/-- `HWCx#`: bits 0-11 value, bits 12-15 interpretation -/
def readExt (n : Nat) : ExtE := { interp := n / 4096 % 16, value := n % 4096 }

/-- colour integer: bit 6 set → rr gg bb in bits 5-4, 3-2, 1-0; else bits 0-4 index; bit 7 ignored -/
def readColor (n : Nat) : ColorE :=
  if n / 64 % 2 = 1 then .rgb (n / 16 % 4) (n / 4 % 4) (n % 4) else .index (n % 32)

/-- colour field of a text line: empty or 0 = none -/
def readTextColor (s : Bytes) : Option (Option ColorE) :=
  match numField? s with
  | none => none
  | some 0 => some none
  | some n => some (match readColor n with | .index 0 => none | c => some c)

/-! ## `HWCt#` : 21 `|`-separated fields, missing = empty -/

def fld (fs : List Bytes) (i : Nat) : Bytes := fs.getD i []

def readText (v : Bytes) : Option TextE := do
  let fs := splitOn 124 v
  let f0 ← intField? (fld fs 0)
  let f1 ← intField? (fld fs 1)
  let f2 ← numField? (fld fs 2)
  let f4 ← numField? (fld fs 4)
  let f7 ← intField? (fld fs 7)
  let f8 ← intField? (fld fs 8)
  let f9 ← intField? (fld fs 9)
  let f10 ← intField? (fld fs 10)
  let f11 ← intField? (fld fs 11)
  let f12 ← intField? (fld fs 12)
  let f13 ← intField? (fld fs 13)
  let f15 ← numField? (fld fs 15)
  let f16 ← numField? (fld fs 16)
  let f17 ← numField? (fld fs 17)
  let f18 ← numField? (fld fs 18)
  let c19 ← readTextColor (fld fs 19)
  let c20 ← readTextColor (fld fs 20)
  -- empty field 0 with format 0 = format 7 (hide)
  let format : Int := if fld fs 0 = [] ∧ f1 = 0 then 7 else f1
  -- pair mode ≥ 1 is implied by a present field 6 or 7
  let pair : Int := if (fld fs 6 ≠ [] ∨ fld fs 7 ≠ []) ∧ f8 < 1 then 1 else f8
  pure (normText
    { value := f0, fontSize := f0.toNat, format := format,
      stateIcon := f2 % 4, modIcon := f2 / 8 % 8,
      title := fld fs 3, solidBar := f4 = 0, line1 := fld fs 5, line2 := fld fs 6, value2 := f7, pairMode := pair,
      scaleType := f9, rangeLow := f10, rangeHigh := f11, limitLow := f12, limitHigh := f13,
      textFace := f15 % 8, titleFace := f15 / 8 % 8, fixedWidth := f15 / 64 % 2 = 1,
      textW := f16 % 4, textH := f16 / 4 % 4, titleW := f16 / 16 % 4, titleH := f16 / 64 % 4,
      padding := f17 % 4, spacing := f17 / 4 % 8, inverted := f18 > 0, pixelColor := c19, bgColor := c20 })

/-! ## registers -/

def regWord : List (Bytes × RegKind) := [(asc "Mem", .mem), (asc "Shift", .shift), (asc "State", .state)]

def dropPrefix : Bytes → Bytes → Option Bytes
  | [], s => some s
  | _ :: _, [] => none
  | p :: ps, c :: cs => if p = c then dropPrefix ps cs else none

def readRegKey : List (Bytes × RegKind) → Bytes → Option (RegKind × Bytes)
  | [], _ => none
  | (w, k) :: rest, key =>
    match dropPrefix w key with
    | some id => if id.all isUpperDigit then some (k, id) else readRegKey rest key
    | none => readRegKey rest key

/-! ## one line -/

/-- a graphics part line, parsed -/
structure GfxPart where
  kind : GfxKind
  idsText : Bytes
  ids : List Nat
  index : Nat
  /-- header: (last index, w, h, optional x y) -/
  header : Option (Nat × Nat × Nat × Option (Nat × Nat))
  data : Bytes
  deriving DecidableEq, Repr

inductive LineRes where
  | effects (es : List Effect)
  | gfx (p : GfxPart)
  deriving Repr

/-- the most image bytes one graphics line carries -/
def maxChunk : Nat := 170

def readGfxHeader (h : Bytes) : Option (Nat × Nat × Nat × Option (Nat × Nat)) :=
  -- max,WxH[,X,Y]
  match splitOn 44 h with
  | [mx, wh] =>
    (match num? mx, cut 120 wh with
     | some mx, some (w, hh) => (match num? w, num? hh with | some w, some hh => some (mx, w, hh, none) | _, _ => none)
     | _, _ => none)
  | [mx, wh, x, y] =>
    (match num? mx, cut 120 wh with
     | some mx, some (w, hh) =>
       (match num? w, num? hh, num? x, num? y with
        | some w, some hh, some x, some y => some (mx, w, hh, some (x, y))
        | _, _, _, _ => none)
     | _, _ => none)
  | _ => none

def readGfx (kind : GfxKind) (idsText v : Bytes) : Option GfxPart :=
  match ids? idsText, cut 58 v with
  | some ids, some (pre, b64) =>
    let data := B64In.decode b64
    if data.length > maxChunk then none else
    (match cut 47 pre with
     | none => (num? pre).map (fun i => { kind := kind, idsText := idsText, ids := ids, index := i, header := none, data := data })
     | some (i, h) =>
       (match num? i, readGfxHeader h with
        | some i, some hd => some { kind := kind, idsText := idsText, ids := ids, index := i, header := some hd, data := data }
        | _, _ => none))
  | _, _ => none

def forIds (idsText : Bytes) (f : Nat → Effect) : List Effect :=
  match ids? idsText with
  | some ids => ids.map f
  | none => []

/-- `family#ids=value` -/
def readHash (fam idsText v : Bytes) : LineRes :=
  if fam = asc "HWC" then
    .effects (match num? v with | some n => forIds idsText (fun id => .setMode id (readMode n)) | none => [])
  else if fam = asc "HWCx" then
    .effects (match num? v with | some n => forIds idsText (fun id => .setExt id (readExt n)) | none => [])
  else if fam = asc "HWCc" then
    .effects (match num? v with | some n => forIds idsText (fun id => .setColor id (readColor n)) | none => [])
  else if fam = asc "HWCt" then
    .effects (match readText v with | some t => forIds idsText (fun id => .setText id t) | none => [])
  else if fam = asc "HWCrawADCValues" then
    .effects (if v = asc "1" then forIds idsText (fun id => .setRawADC id true)
              else if v = asc "0" then forIds idsText (fun id => .setRawADC id false) else [])
  else if fam = asc "HWCg" then (match readGfx .mono idsText v with | some p => .gfx p | none => .effects [])
  else if fam = asc "HWCgRGB" then (match readGfx .rgb idsText v with | some p => .gfx p | none => .effects [])
  else if fam = asc "HWCgGray" then (match readGfx .gray idsText v with | some p => .gfx p | none => .effects [])
  else if fam = asc "Flag" then
    .effects (match flagId? idsText, num? v with
              | some id, some n => [.reg .flag id (if n > 0 then 1 else 0)]
              | _, _ => [])
  else .effects []

/-- `key=value` without `#` in the key -/
def readPlain (O : Oracles) (key v : Bytes) : List Effect :=
  if key = asc "ActivePanel" then (if v = asc "1" then [.cmd .activatePanel] else [])
  else if key = asc "PanelBrightness" then readBrightness v
  else if key = asc "SetCalibrationProfile" then [.cmd (.setCalibrationProfile v)]
  else if key = asc "SetNetworkConfig" then (match O.parseNet v with | some n => [.cmd (.setNetworkConfig n)] | none => [])
  else if key = asc "SimulateEnvironmentalHealth" then readEnv v
  else match numCmdTable.lookup key with
    | some mk => (match num? v with | some n => [.cmd (mk n)] | none => [])
    | none =>
      match readRegKey regWord key with
      | some (k, id) => (match num? v with | some n => [.reg k id n] | none => [])
      | none => []

def effectsOfMsgOpt (m : Option InMsg) : List Effect := match m with | some m => effectsOfIn m | none => []

def readLine (O : Oracles) (l : Bytes) : LineRes :=
  match l with
  | 123 :: _ => .effects (effectsOfState (O.parseState l))
  | 91 :: _ => .effects ((O.parseMsgs l).flatMap effectsOfMsgOpt)
  | _ =>
    match cut 61 l with
    | none => .effects (match wordTable.lookup l with | some e => [e] | none => [])
    | some (key, v) =>
      match cut 35 key with
      | some (fam, idsText) => readHash fam idsText v
      | none => .effects (readPlain O key v)

/-! ## graphics transfers over lines -/

structure Xfer where
  kind : GfxKind
  idsText : Bytes
  ids : List Nat
  next : Nat
  last : Nat
  w : Nat
  h : Nat
  xy : Option (Nat × Nat)
  data : Bytes
  deriving DecidableEq, Repr

/-- (new transfer state, effects) -/
def stepGfx (x : Option Xfer) (p : GfxPart) : Option Xfer × List Effect :=
  let opened : Option Xfer :=
    if p.index = 0 then
      match p.header with
      | some (mx, w, h, xy) => some { kind := p.kind, idsText := p.idsText, ids := p.ids, next := 0, last := mx, w := w, h := h, xy := xy, data := [] }
      | none => some { kind := p.kind, idsText := p.idsText, ids := p.ids, next := 0, last := 2, w := 64, h := 32, xy := none, data := [] }
    else x
  match opened with
  | none => (none, [])
  | some t =>
    if t.kind = p.kind ∧ t.idsText = p.idsText ∧ t.next = p.index ∧ (p.index = 0 ∨ p.header = none) then
      let data := t.data ++ p.data
      if p.index = t.last then
        (none, t.ids.map (fun id => .setGfx id { kind := t.kind, w := t.w, h := t.h, xy := t.xy, data := data }))
      else (some { t with next := t.next + 1, data := data }, [])
    else (none, [])          -- out of order / other component: the transfer is abandoned

def readFrom (O : Oracles) : Option Xfer → List Bytes → List Effect
  | _, [] => []
  | x, l :: ls =>
    match readLine O l with
    | .effects es => es ++ readFrom O x ls
    | .gfx p => let (x', es) := stepGfx x p; es ++ readFrom O x' ls

/-- **the reference reader** -/
def readInbound (O : Oracles) (ls : List Bytes) : List Effect := readFrom O none ls

end RawPanelVerif.Spec.In

/-! ## the domain of C02: well-formed lines, non-grammar lines, and lines outside both -/
namespace RawPanelVerif.Spec.In
open RawPanelVerif RawPanelVerif.Bytes RawPanelVerif.MsgIn

inductive LineClass where
  /-- derivable from the grammar -/
  | wellFormed
  /-- keyword / key name not part of the grammar: must never have an effect -/
  | nonGrammar
  /-- grammar keyword with arguments that do not parse: the protocol is silent (covered by C06 only) -/
  | outside
  deriving DecidableEq, Repr

def grammarFams : List Bytes :=
  [asc "HWC", asc "HWCx", asc "HWCc", asc "HWCt", asc "HWCrawADCValues", asc "HWCg", asc "HWCgRGB", asc "HWCgGray", asc "Flag"]

def plainKeys : List Bytes :=
  [asc "ActivePanel", asc "PanelBrightness", asc "SetCalibrationProfile", asc "SetNetworkConfig", asc "SimulateEnvironmentalHealth"] ++
  numCmdTable.map (·.1)

def int32Field (s : Bytes) : Bool := match intField? s with | some n => i32ok n | none => false

/-- a well-formed `HWCt#` value: at most 21 fields, numeric fields empty or numerals in range -/
def textWellFormed (v : Bytes) : Bool :=
  let fs := splitOn 124 v
  fs.length ≤ 21 && (readText v).isSome &&
  int32Field (fld fs 1) && int32Field (fld fs 7) && int32Field (fld fs 8) && int32Field (fld fs 9) &&
  int32Field (fld fs 10) && int32Field (fld fs 11) && int32Field (fld fs 12) && int32Field (fld fs 13) &&
  (match intField? (fld fs 1) with
   | some f1 => if is1011 f1 then (numField? (fld fs 0)).isSome else int32Field (fld fs 0)
   | none => false)

def canonicalB64 (b : Bytes) : Bool := B64In.encode (B64In.decode b) == b

def gfxWellFormed (kind : GfxKind) (idsText v : Bytes) : Bool :=
  (readGfx kind idsText v).isSome && (match cut 58 v with | some (_, b) => canonicalB64 b | none => false)

def classify (O : Oracles) (l : Bytes) : LineClass :=
  match l with
  | 123 :: _ => .wellFormed
  | 91 :: _ => .wellFormed
  | _ =>
    match cut 61 l with
    | none => if (wordTable.lookup l).isSome then .wellFormed else .nonGrammar
    | some (key, v) =>
      match cut 35 key with
      | some (fam, idsText) =>
        if !grammarFams.contains fam then .nonGrammar
        else if l.contains 10 then .outside
        else
          let ok : Bool :=
            if fam = asc "Flag" then
              (match flagId? idsText with | some _ => (idsText = [] || (num? idsText).isSome) | none => false) && (num? v).isSome
            else if (ids? idsText).isNone then false
            else if fam = asc "HWC" ∨ fam = asc "HWCx" ∨ fam = asc "HWCc" then (num? v).isSome
            else if fam = asc "HWCt" then textWellFormed v
            else if fam = asc "HWCrawADCValues" then v = asc "0" || v = asc "1"
            else if fam = asc "HWCg" then gfxWellFormed .mono idsText v
            else if fam = asc "HWCgRGB" then gfxWellFormed .rgb idsText v
            else gfxWellFormed .gray idsText v
          if ok then .wellFormed else .outside
      | none =>
        if plainKeys.contains key then
          if l.contains 10 then .outside
          else if (readPlain O key v).isEmpty then .outside
          else if key = asc "SetCalibrationProfile" ∧ normPayload v ≠ v then .outside
          else .wellFormed
        else match readRegKey regWord key with
          | some _ => if (num? v).isSome ∧ !l.contains 10 then .wellFormed else .outside
          | none => .nonGrammar

/-- graphics lines form in-order transfers: no part is dropped by the reader -/
def gfxDiscipline (O : Oracles) : Option Xfer → List Bytes → Bool
  | _, [] => true
  | x, l :: ls =>
    match readLine O l with
    | .effects _ => gfxDiscipline O x ls
    | .gfx p =>
      match stepGfx x p with
      | (none, []) => false
      | (x', _) => gfxDiscipline O x' ls

/-- the line sequences C02 quantifies over: every line well-formed or non-grammar, graphics transfers in order -/
def inDomainLines (O : Oracles) (ls : List Bytes) : Bool :=
  ls.all (fun l => classify O l != .outside) && gfxDiscipline O none ls

end RawPanelVerif.Spec.In

/-! ## lines outside the domain inside a batch: no line changes what its neighbours denote

The grammar assigns no meaning to a line with a grammar keyword / key and arguments that do not parse (an enumerated value
outside its enumeration, a malformed number …): `classify = .outside`.  What the property still fixes for a batch that
contains such lines: "one effect per line and in line order" — every line denotes what it denotes on its own, whatever
stands before or after it.  `readFromWith O alone` reads a batch like `readFrom`, taking for an outside line that is
not a graphics part the effects `alone l` that line has as a one-line batch (for the check: what the decoder under test
returns for `[l]`; for the theorem `C02.dec_context_free`: what the decoder model returns).  Graphics parts are the one
construct whose meaning depends on earlier lines; a malformed graphics part stays outside this domain too. -/
namespace RawPanelVerif.Spec.In
open RawPanelVerif RawPanelVerif.Bytes RawPanelVerif.MsgIn

/-- the key of the line names one of the three graphics families -/
def isGfxFamLine (l : Bytes) : Bool :=
  match cut 61 l with
  | some (key, _) =>
    (match cut 35 key with
     | some (fam, _) => fam == asc "HWCg" || fam == asc "HWCgRGB" || fam == asc "HWCgGray"
     | none => false)
  | none => false

/-- a line whose own (context-free) reading is supplied: outside the grammar's domain, and not a graphics part -/
def isLoneLine (O : Oracles) (l : Bytes) : Bool := classify O l == .outside && !isGfxFamLine l

def readFromWith (O : Oracles) (alone : Bytes → List Effect) : Option Xfer → List Bytes → List Effect
  | _, [] => []
  | x, l :: ls =>
    if isLoneLine O l then alone l ++ readFromWith O alone x ls
    else match readLine O l with
      | .effects es => es ++ readFromWith O alone x ls
      | .gfx p => let (x', es) := stepGfx x p; es ++ readFromWith O alone x' ls

/-- the batch read with the outside lines' own meaning -/
def readInboundWith (O : Oracles) (alone : Bytes → List Effect) (ls : List Bytes) : List Effect := readFromWith O alone none ls

/-- graphics discipline over the lines that are read by the grammar -/
def gfxDisciplineCtx (O : Oracles) : Option Xfer → List Bytes → Bool
  | _, [] => true
  | x, l :: ls =>
    if isLoneLine O l then gfxDisciplineCtx O x ls
    else match readLine O l with
      | .effects _ => gfxDisciplineCtx O x ls
      | .gfx p =>
        match stepGfx x p with
        | (none, []) => false
        | (x', _) => gfxDisciplineCtx O x' ls

/-- the batches the context clause speaks about: every line well-formed, non-grammar, or outside but not a graphics part;
graphics transfers in order -/
def inDomainLinesCtx (O : Oracles) (ls : List Bytes) : Bool :=
  ls.all (fun l => classify O l != .outside || !isGfxFamLine l) && gfxDisciplineCtx O none ls

end RawPanelVerif.Spec.In

/-! ## the guard of the round trip messages → lines → messages (C02 `roundtrip_in`) -/
namespace RawPanelVerif.Spec.In
open RawPanelVerif RawPanelVerif.Bytes RawPanelVerif.MsgIn

/-- a FLAG register id is empty or a protocol numeral (digits, value < 2^32) -/
def rtRegOk (r : Register) : Bool := r.reg != 1 || r.id == [] || (num? r.id).isSome
/-- normalising the calibration payload twice changes nothing more (true of valid UTF-8) -/
def rtCalOk (j : Bytes) : Bool := normPayload (normPayload j) == normPayload j
def rtCmdOk (c : Command) : Bool := optOk c.setCalibrationProfile rtCalOk
def rtMsgOk (m : InMsg) : Bool := optOk m.command rtCmdOk && m.registers.all rtRegOk
/-- what `inDomainIn` lacks for the encoder's lines to lie in `inDomainLines` -/
def roundtripGuard (ms : List InMsg) : Bool := ms.all rtMsgOk

end RawPanelVerif.Spec.In
