import RawPanelVerif.Base.B64
/-!
# C05 — the property, as a stranger would check it on a decoder's observable behaviour

Written from the property text and the protocol description of a chunk line
`HWCg#|HWCgRGB#|HWCgGray# <ids> = <index> [/<last>,<W>x<H>[,<X>,<Y>]] : <base64>`; shares no code with `Model/`.

The *history* is the sequence of lines as the feeding discipline reads them: the batch call takes them as they are,
the streaming reader strips surrounding white-space runes from every line first (callers apply `Bytes.trimSpace`, which
is `strings.TrimSpace`: ASCII white space and U+0085, U+00A0, U+1680, U+2000–200A, U+2028/9, U+202F, U+205F, U+3000).
An *observation* is the history and the image deliveries seen (image, the line position at which it was
returned when the feeding discipline shows it, and the bytes the delivered object holds at the end of the history).

* `checkSafety`  every delivery is **legitimate**: there are positions `p₀ < p₁ < … < p_N = p` of chunk lines with
  indices `0..N`, all with the target list and format of `p₀`, `p₀` a chunk-0 line declaring `N` (a header-less
  chunk 0 declares 2 and 64x32) and the delivered dimensions / offset, no chunk-0 line strictly between `p₀` and `p`,
  every payload valid base64 and the delivered bytes their concatenation (`corrupt`); no transfer `p₀` is delivered
  twice (`duplicate`); the delivered object still holds the delivered bytes at the end (`altered`).
  Lines between the chosen positions are unconstrained, so both a decoder that aborts on a stray chunk and one that
  ignores stray chunks satisfy it.
* `checkEnc`     the encoder's lines for an image and id list are, per id, chunks `0..n-1` (n ≥ 1 iff the image is
  non-empty) of at most 170 payload bytes each, chunk 0 declaring `n-1` and the image's metadata, payloads
  concatenating to the image.
* `checkClean`   a clean consecutive run of such lines, possibly with non-graphics lines between, yields exactly one
  image per run, equal to what was sent, at the run's last line.
* `checkEncAll`, `checkCleanAll`  the same for ONE call that carries several images (several states of one message,
  several messages): per image in message order, per id in order, one clean run of that image's own format,
  dimensions, offset and bytes, and one delivery equal to that image (`Lemmas/GfxMsgs.lean` proves that on a single
  image they are `checkEnc` / `checkClean`).
-/
namespace RawPanelVerif.Spec.Gfx
open RawPanelVerif

abbrev Bytes := List UInt8

def isDigit (c : UInt8) : Bool := 48 ≤ c && c ≤ 57
def isNumber (s : Bytes) : Bool := !s.isEmpty && s.all isDigit
def value (s : Bytes) : Nat := s.foldl (fun a d => a * 10 + (d.toNat - 48)) 0

/-- cut at the first occurrence of `b` -/
def cut (b : UInt8) : Bytes → Option (Bytes × Bytes)
  | [] => none
  | c :: cs =>
    if c = b then some ([], cs)
    else match cut b cs with
      | some (x, y) => some (c :: x, y)
      | none => none

def splitOn (b : UInt8) : Bytes → List Bytes
  | [] => [[]]
  | c :: cs =>
    if c = b then [] :: splitOn b cs
    else match splitOn b cs with
      | [] => [[c]]
      | p :: ps => (c :: p) :: ps

structure Header where
  last : Nat
  W : Nat
  H : Nat
  xy : Option (Nat × Nat)
  deriving DecidableEq, Repr

structure Chunk where
  fmt : Nat                  -- 0 mono, 1 RGB, 2 gray
  ids : Bytes                -- target list, as written
  idx : Nat
  hdr : Option Header
  payload : Option Bytes     -- `none`: not valid base64
  small : Bool               -- every number fits the field it is for: target ids, dimensions and offsets are
                             -- `uint32` message fields (value < 2^32), chunk indices are a signed 64-bit count (< 2^63)
  deriving DecidableEq, Repr

def fmtOf (cmd : Bytes) : Option Nat :=
  if cmd = [72, 87, 67, 103] then some 0                               -- HWCg
  else if cmd = [72, 87, 67, 103, 82, 71, 66] then some 1              -- HWCgRGB
  else if cmd = [72, 87, 67, 103, 71, 114, 97, 121] then some 2        -- HWCgGray
  else none

/-- the number fits a `uint32` message field (target id, width, height, offset); any number of leading zeros -/
def fits32 (s : Bytes) : Bool := value s < 2 ^ 32

/-- the number fits a signed 64-bit count (chunk index, declared last index) -/
def fitsInt (s : Bytes) : Bool := value s < 2 ^ 63

/-- `last,WxH` or `last,WxH,X,Y` → header and whether all numbers fit their fields -/
def parseHeader (h : Bytes) : Option (Header × Bool) :=
  match splitOn 44 h with
  | [m, wh] =>
    match cut 120 wh with
    | some (w, hh) =>
      if isNumber m ∧ isNumber w ∧ isNumber hh then
        some (⟨value m, value w, value hh, none⟩, fitsInt m && fits32 w && fits32 hh)
      else none
    | none => none
  | [m, wh, x, y] =>
    match cut 120 wh with
    | some (w, hh) =>
      if isNumber m ∧ isNumber w ∧ isNumber hh ∧ isNumber x ∧ isNumber y then
        some (⟨value m, value w, value hh, some (value x, value y)⟩,
          fitsInt m && fits32 w && fits32 hh && fits32 x && fits32 y)
      else none
    | none => none
  | _ => none

/-- a graphics chunk line, or `none` for any other line -/
def parseLine (l : Bytes) : Option Chunk :=
  if l.contains 10 then none else
  match cut 58 l with
  | none => none
  | some (head, payload) =>
    match cut 61 head with
    | none => none
    | some (lhs, rhs) =>
      match cut 35 lhs with
      | none => none
      | some (cmd, ids) =>
        match fmtOf cmd with
        | none => none
        | some fmt =>
          if ids.isEmpty ∨ !ids.all (fun c => isDigit c || c == 44) then none else
          let idsFit := (splitOn 44 ids).all fits32
          match cut 47 rhs with
          | none =>
            if isNumber rhs then
              some ⟨fmt, ids, value rhs, none, B64.decode? payload, idsFit && fitsInt rhs⟩
            else none
          | some (i, h) =>
            if isNumber i then
              match parseHeader h with
              | some (hd, sm) => some ⟨fmt, ids, value i, some hd, B64.decode? payload, idsFit && fitsInt i && sm⟩
              | none => none
            else none

/-- the ids a target list denotes (an empty item counts as 0) -/
def idsOf (s : Bytes) : List Nat := (splitOn 44 s).map value

/-- what a chunk-0 line declares; the header-less ("simple") form is three lines of a 64x32 image -/
def declared (c : Chunk) : Header := c.hdr.getD ⟨2, 64, 32, none⟩

/-- the delivered image -/
structure Img where
  ids : List Nat
  fmt : Nat
  W : Nat
  H : Nat
  off : Bool
  X : Nat
  Y : Nat
  data : Bytes
  deriving DecidableEq, Repr

structure Deliv where
  pos : Option Nat     -- history position of the line at which it was returned (`none`: not observable, batch call)
  img : Img            -- as seen at delivery
  final : Bytes        -- bytes held by the delivered object at the end of the history
  deriving DecidableEq, Repr

/-- all lines of the history are in the domain where the protocol fixes the numbers: every target id, dimension and
offset fits `uint32` (the type of the message fields), every chunk index / declared last index a signed 64-bit count -/
def inDomain (lines : List Bytes) : Bool :=
  lines.all (fun l => match parseLine l with | some c => c.small | none => true)

/-! ## legitimacy -/

def isChunk0 (oc : Option (Option Chunk)) : Bool :=
  match oc with
  | some (some c) => c.idx == 0
  | _ => false

/-- position of the last chunk-0 line at or before `p` -/
def startOf (cs : List (Option Chunk)) : Nat → Option Nat
  | 0 => if isChunk0 cs[0]? then some 0 else none
  | p + 1 => if isChunk0 cs[p + 1]? then some (p + 1) else startOf cs p

def prefixAt (D : Bytes) (off : Nat) (pl : Bytes) : Bool := (D.drop off).take pl.length == pl

/-- one more line between `p₀` and `p`: every way of taking it as the next chunk of the transfer (or not at all) -/
def reachStep (D : Bytes) (c0 : Chunk) (st : List (Nat × Nat)) (oc : Option Chunk) : List (Nat × Nat) :=
  match oc with
  | none => st
  | some c =>
    if c.fmt = c0.fmt ∧ c.ids = c0.ids then
      match c.payload with
      | none => st
      | some pl =>
        st ++ (st.filter (fun ko => c.idx = ko.1 && prefixAt D ko.2 pl)).map (fun ko => (ko.1 + 1, ko.2 + pl.length))
    else st

/-- states (next index expected, bytes of `D` accounted for) reachable over the lines strictly between `p₀` and `p` -/
def reach (D : Bytes) (c0 : Chunk) (n0 : Nat) (mid : List (Option Chunk)) : List (Nat × Nat) :=
  mid.foldl (reachStep D c0) [(1, n0)]

def metaOK (h : Header) (c0 : Chunk) (d : Img) : Bool :=
  c0.fmt == d.fmt && idsOf c0.ids == d.ids && h.W == d.W && h.H == d.H &&
    (match h.xy with
     | some (x, y) => d.off && d.X == x && d.Y == y
     | none => !d.off)

/-- is image `d`, returned at line `p`, legitimate?  Returns the position `p₀` of its transfer's chunk 0. -/
def legitAt (cs : List (Option Chunk)) (p : Nat) (d : Img) : Option Nat :=
  match startOf cs p with
  | none => none
  | some p0 =>
    match cs[p0]?, cs[p]? with
    | some (some c0), some (some c) =>
      match c0.payload, c.payload with
      | some pl0, some pl =>
        let h := declared c0
        if metaOK h c0 d && c.fmt == c0.fmt && c.ids == c0.ids && c.idx == h.last &&
            (if p = p0 then d.data == pl0
             else prefixAt d.data 0 pl0 &&
               (reach d.data c0 pl0.length ((cs.take p).drop (p0 + 1))).any
                 (fun ko => ko.1 == h.last && d.data.drop ko.2 == pl)) then some p0
        else none
      | _, _ => none
    | _, _ => none

/-- first position ≥ `frm` (< `n`) at which `d` is legitimate and whose transfer satisfies `ok` -/
def findLegit (cs : List (Option Chunk)) (d : Img) (n : Nat) (frm : Nat) (ok : Nat → Bool) : Option (Nat × Nat) :=
  ((List.range n).filter (· ≥ frm)).findSome? (fun p =>
    match legitAt cs p d with
    | some p0 => if ok p0 then some (p, p0) else none
    | none => none)

/-- the violated clause, with the index of the offending delivery -/
inductive Clause where
  | corrupt (j : Nat)      -- not the chunks 0..N, in order, of one transfer started by its chunk 0
  | duplicate (j : Nat)    -- its transfer was already delivered
  | altered (j : Nat)      -- the delivered object no longer holds the delivered bytes
  deriving DecidableEq, Repr

def Clause.toString : Clause → String
  | .corrupt j => s!"corrupt@{j}"
  | .duplicate j => s!"duplicate@{j}"
  | .altered j => s!"altered@{j}"

/-- deliveries in order. With positions (streaming) each must be legitimate where it was returned and belong to a
transfer not delivered before. Without (one batch call returning a list) an assignment of strictly increasing line
positions with pairwise different transfers must exist; taking for each delivery the first possible position is
complete because the transfer start `p₀` is monotone in `p`. -/
def safetyLoop (cs : List (Option Chunk)) (n : Nat) : List Deliv → Nat → Nat → List Nat → Option Clause
  | [], _, _, _ => none
  | d :: ds, j, next, used =>
    match d.pos with
    | some p =>
      match legitAt cs p d.img with
      | none => some (.corrupt j)
      | some p0 =>
        if used.contains p0 then some (.duplicate j)
        else if d.final != d.img.data then some (.altered j)
        else safetyLoop cs n ds (j + 1) next (p0 :: used)
    | none =>
      match findLegit cs d.img n next (fun p0 => !used.contains p0) with
      | none =>
        if (findLegit cs d.img n next (fun _ => true)).isSome then some (.duplicate j) else some (.corrupt j)
      | some (p, p0) =>
        if d.final != d.img.data then some (.altered j)
        else safetyLoop cs n ds (j + 1) (p + 1) (p0 :: used)

/-- `none` = every delivery legitimate, delivered once, never altered; otherwise the violated clause
(on the chunk readings of the history's lines) -/
def safetyOn (cs : List (Option Chunk)) (ds : List Deliv) : Option Clause := safetyLoop cs cs.length ds 0 0 []

def safety (lines : List Bytes) (ds : List Deliv) : Option Clause := safetyOn (lines.map parseLine) ds

/-- every number of every graphics line fits its field (`Chunk.small`) -/
def inDomainOn (cs : List (Option Chunk)) : Bool :=
  cs.all (fun oc => match oc with | some c => c.small | none => true)

def checkSafety (lines : List Bytes) (ds : List Deliv) : Option String := (safety lines ds).map Clause.toString

/-! ## the encoder's lines and clean runs -/

/-- what was sent -/
structure Sent where
  fmt : Nat
  W : Nat
  H : Nat
  off : Bool
  X : Nat
  Y : Nat
  data : Bytes
  deriving DecidableEq, Repr

def decimal (n : Nat) : Bytes := (Nat.toDigits 10 n).map (fun c => UInt8.ofNat c.toNat)

/-- chunks `i, i+1, …` of one run: right target, format, numbering, header only (and exactly) on chunk 0, payloads of
at most 170 bytes; returns the concatenated payload -/
def runPayload (g : Sent) (ids : Bytes) (n : Nat) : Nat → List Chunk → Option Bytes
  | _, [] => some []
  | i, c :: cs =>
    match c.payload with
    | none => none
    | some pl =>
      let hdrOK := if i = 0 then c.hdr = some ⟨n - 1, g.W, g.H, if g.off then some (g.X, g.Y) else none⟩ else c.hdr = none
      if c.fmt = g.fmt ∧ c.ids = ids ∧ c.idx = i ∧ hdrOK ∧ pl.length ≤ 170 then
        (runPayload g ids n (i + 1) cs).map (pl ++ ·)
      else none

/-- one clean run: chunks 0..n-1, n ≥ 1, concatenating to the image -/
def isRun (g : Sent) (ids : Bytes) (cs : List Chunk) : Bool :=
  !cs.isEmpty && runPayload g ids cs.length 0 cs == some g.data

/-- split a chunk sequence before every chunk 0 -/
def groups : List (Nat × Chunk) → List (List (Nat × Chunk))
  | [] => []
  | pc :: rest =>
    match groups rest with
    | [] => [[pc]]
    | grp :: more =>
      match grp with
      | (_, c) :: _ => if c.idx = 0 then [pc] :: grp :: more else (pc :: grp) :: more
      | [] => [pc] :: more

/-- positions and chunks of the graphics lines of a history -/
def gfxLines (lines : List Bytes) : List (Nat × Chunk) :=
  (lines.zipIdx).filterMap (fun (l, i) => (parseLine l).map (fun c => (i, c)))

/-- the graphics lines of the history are, per id in order, one clean run of the image (nothing for an empty image) -/
def cleanRuns (g : Sent) (ids : List Nat) (lines : List Bytes) : Bool :=
  let gs := groups (gfxLines lines)
  if g.data.isEmpty then gs.isEmpty
  else gs.length == ids.length &&
    (gs.zip ids).all (fun (grp, id) => isRun g (decimal id) (grp.map (·.2)))

/-- the encoder's output: only graphics lines, clean runs -/
def checkEnc (g : Sent) (ids : List Nat) (lines : List Bytes) : Option String :=
  if !lines.all (fun l => (parseLine l).isSome) then some "enc-not-chunk-line"
  else if !cleanRuns g ids lines then some "enc-not-clean-run"
  else none

def sameImage (g : Sent) (id : Nat) (d : Img) : Bool :=
  d.ids == [id] && d.fmt == g.fmt && d.W == g.W && d.H == g.H && d.off == g.off &&
    (!g.off || (d.X == g.X && d.Y == g.Y)) && d.data == g.data

def cleanLoop (g : Sent) : List (List (Nat × Chunk) × Nat) → List Deliv → Nat → Option String
  | [], [], _ => none
  | [], _ :: _, j => some s!"extra-delivery@{j}"
  | _ :: _, [], j => some s!"missing-delivery@{j}"
  | (grp, id) :: more, d :: ds, j =>
    if !sameImage g id d.img then some s!"wrong-image@{j}"
    else if d.final != g.data then some s!"altered@{j}"
    else match d.pos, grp.getLast? with
      | some p, some (q, _) => if p = q then cleanLoop g more ds (j + 1) else some s!"not-at-last-line@{j}"
      | _, _ => cleanLoop g more ds (j + 1)

/-- given that the history's graphics lines are clean runs of `g` for `ids` (else `none`: nothing demanded):
exactly one delivery per run, equal to what was sent, at the run's last line -/
def checkClean (g : Sent) (ids : List Nat) (lines : List Bytes) (ds : List Deliv) : Option String :=
  if !cleanRuns g ids lines then none
  else cleanLoop g ((groups (gfxLines lines)).zip ids) ds 0

/-! ## several images in one call

One call of the encoder may carry several messages, each with several states, each state with its own image and target
ids.  What must come out is, per image in message order and per target id in order, one clean run of THAT image
(format, dimensions, offset and bytes of its own state); nothing for an empty image or an empty target list. -/

/-- the transfers a call must emit: `(image, target id)` per image in message order, per id in order -/
def runsOf (imgs : List (Sent × List Nat)) : List (Sent × Nat) :=
  imgs.flatMap (fun gi => if gi.1.data.isEmpty then [] else gi.2.map (fun id => (gi.1, id)))

/-- the graphics lines of the history are exactly the demanded transfers, in order, each a clean run of its own image -/
def cleanRunsAll (imgs : List (Sent × List Nat)) (lines : List Bytes) : Bool :=
  let gs := groups (gfxLines lines)
  gs.length == (runsOf imgs).length &&
    (gs.zip (runsOf imgs)).all (fun (grp, r) => isRun r.1 (decimal r.2) (grp.map (·.2)))

/-- the encoder's output for a whole call: only graphics lines, one clean run per image and id -/
def checkEncAll (imgs : List (Sent × List Nat)) (lines : List Bytes) : Option String :=
  if !lines.all (fun l => (parseLine l).isSome) then some "enc-not-chunk-line"
  else if !cleanRunsAll imgs lines then some "enc-not-clean-run"
  else none

/-- `cleanLoop` with the image of each run -/
def cleanLoopAll : List (List (Nat × Chunk) × (Sent × Nat)) → List Deliv → Nat → Option String
  | [], [], _ => none
  | [], _ :: _, j => some s!"extra-delivery@{j}"
  | _ :: _, [], j => some s!"missing-delivery@{j}"
  | (grp, r) :: more, d :: ds, j =>
    if !sameImage r.1 r.2 d.img then some s!"wrong-image@{j}"
    else if d.final != r.1.data then some s!"altered@{j}"
    else match d.pos, grp.getLast? with
      | some p, some (q, _) => if p = q then cleanLoopAll more ds (j + 1) else some s!"not-at-last-line@{j}"
      | _, _ => cleanLoopAll more ds (j + 1)

/-- given that the history's graphics lines are the clean runs of the call's images (else `none`: nothing demanded):
exactly one delivery per run, in order, equal to the image of that run, at the run's last line -/
def checkCleanAll (imgs : List (Sent × List Nat)) (lines : List Bytes) (ds : List Deliv) : Option String :=
  if !cleanRunsAll imgs lines then none
  else cleanLoopAll ((groups (gfxLines lines)).zip (runsOf imgs)) ds 0

end RawPanelVerif.Spec.Gfx
