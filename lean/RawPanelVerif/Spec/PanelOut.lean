import RawPanelVerif.Base.MsgOutTypes
import RawPanelVerif.Spec.StripSpec
/-!
# Panel → system: what a message / a line *means* (effect vocabulary), independent of Model/

An `Effect` is one thing the system learns from the panel: a flow signal, one component event, one availability-map
entry, one piece of panel information, the capability set, one system-statistics field, one register value.

`effectsOfOut m` lists what the message `m` carries, in the order of the protocol sections.  Conventions, all forced by
the message types (proto3 scalars have no presence) or stated in DESIGN.md Appendix B:

* a scalar without presence (`PanelInfo` strings / numbers / `PanelType`, `RunTimeStats` counters, `BluePillReady`) at
  its default value is *not reported*; a value inside a present wrapper message (`SleepTimeout{0}`) is reported;
* an empty capability set, an empty `;`-list and a payload without non-white-space content are not expressible in
  ASCII (the `key=value` family needs a value) and are not reported;
* payload-carrying values are compared modulo the C07 normal form (DESIGN.md Appendix B: "white space at the edges of
  the original lines" is insignificant, everything else — in particular white space INSIDE a line — is significant):
  for JSON profiles, topology JSON and message texts `payload c` holds `normLines v` (every LF-separated line without the
  white space at its two ends, concatenated), so a payload without line feed is compared exactly up to the white space
  at its two ends; the topology SVG alone is compared by its content with all white-space runes deleted
  (`Spec.Strip.contentOf`), because its flattening inserts a blank where a line does not end in `>`;
* `Press` is not an effect: it reads as `binary … true` followed by `binary … false`;
* FLAG registers are Booleans with numeric ids (`reg Flag "7" 1`);
* SysStat is a record: all 20 fields are reported, absent fields of a line at their zero value;
* floats and the network configuration are opaque tokens produced by the `OutOracle` (strconv / encoding/json).
-/
namespace RawPanelVerif.Spec.Out
open RawPanelVerif RawPanelVerif.Bytes RawPanelVerif.MsgOut

inductive Val
  | text (b : Bytes)          -- exact byte string
  | payload (c : Bytes)       -- C07 normal form (`normLines`; SVG: white-space-free content)
  | num (n : Int)
  | flag (b : Bool)
  | items (l : List Bytes)    -- `;`-list
  | word (w : Bytes)          -- one of an enumerated set of words
  | opaque (t : Bytes)        -- float token
  | net (c : NetCfg)
  deriving DecidableEq, Repr

inductive EvKind | binary | enc | abs | speed | raw
  deriving DecidableEq, Repr

inductive Effect
  | flow (w : Bytes)
  /-- `binary`: `edge`, `pressed` meaningful (`value = 0`); other kinds: `value` meaningful (`edge = 0`, `pressed = false`) -/
  | event (kind : EvKind) (id : Nat) (edge : Nat) (pressed : Bool) (value : Int)
  | mapEntry (k v : Nat)
  | info (key : Bytes) (v : Val)
  /-- membership of the 13 capabilities, in the order of `capNames` -/
  | support (flags : List Bool)
  | sysstat (key : Bytes) (v : Val)
  | reg (kind : Bytes) (id : Bytes) (v : Nat)
  deriving DecidableEq, Repr

/-- the 13 capability names (order of the .proto fields) -/
def capNames : List Bytes :=
  [asc "ASCII", asc "Binary", asc "JSONFeedback", asc "JSONonInbound", asc "JSONonOutbound", asc "Processors",
   asc "System", asc "RawADCValues", asc "BurninProfile", asc "EnvHealth", asc "Registers", asc "Calibration",
   asc "NetworkSettings"]

def supportFlags (s : Support) : List Bool :=
  [s.ascii, s.binary, s.jsonFeedback, s.jsonInbound, s.jsonOutbound, s.processors, s.system, s.rawADCValues,
   s.burninProfile, s.envHealth, s.registers, s.calibration, s.networkSettings]

/-- the 20 SysStat keys -/
def sysKeys : List Bytes :=
  [asc "CPUUsage", asc "CPUTemp", asc "ExtTemp", asc "CPUVoltage", asc "CPUFreqCurrent", asc "CPUFreqMin",
   asc "CPUFreqMax", asc "MemTotal", asc "MemFree", asc "MemAvailable", asc "MemBuffers", asc "MemCached",
   asc "UnderVoltageNow", asc "UnderVoltage", asc "FreqCapNow", asc "FreqCap", asc "ThrottledNow", asc "Throttled",
   asc "SoftTempLimitNow", asc "SoftTempLimit"]

def content (v : Bytes) : Bytes := Spec.Strip.contentOf v

/-- C07 normal form of a line-structured payload: the LF-separated lines, each without the white space at its two ends,
concatenated in order -/
def normLines (v : Bytes) : Bytes := ((Spec.Strip.splitLF v).map trimSpace).flatten

def textEff (key v : Bytes) : List Effect := if v = [] then [] else [.info key (.text v)]
/-- JSON profiles, topology JSON, message texts -/
def payloadEff (key v : Bytes) : List Effect := if normLines v = [] then [] else [.info key (.payload (normLines v))]
/-- the topology SVG -/
def svgEff (v : Bytes) : List Effect :=
  if content v = [] then [] else [.info (asc "_panelTopology_svgbase") (.payload (content v))]
def numEff (key : Bytes) (n : Nat) : List Effect := [.info key (.num n)]
def numEff0 (key : Bytes) (n : Nat) : List Effect := if n = 0 then [] else [.info key (.num n)]
def itemsEff (key : Bytes) (l : List Bytes) : List Effect := if l = [] then [] else [.info key (.items l)]
def supportEff (flags : List Bool) : List Effect := if flags.any id then [.support flags] else []

def flowWord (f : Int) : Option Bytes :=
  if f = 1 then some (asc "ping") else if f = 2 then some (asc "ack") else if f = 3 then some (asc "nack")
  else if f = 4 then some (asc "BSY") else if f = 5 then some (asc "RDY") else if f = 100 then some (asc "list") else none

def panelTypeName (t : Int) : Option Bytes :=
  if t = 1 then some (asc "BPI") else if t = 2 then some (asc "Physical") else if t = 3 then some (asc "Emulation")
  else if t = 4 then some (asc "Touch") else if t = 5 then some (asc "Composite") else none

def runModeName (m : Int) : Option Bytes :=
  if m = 0 then some (asc "Normal") else if m = 1 then some (asc "Safemode") else if m = 2 then some (asc "Blocked") else none

def flowEff (f : Int) : List Effect := match flowWord f with | some w => [.flow w] | none => []
def panelTypeEff (t : Int) : List Effect := match panelTypeName t with | some w => [.info (asc "_panelType") (.word w)] | none => []
def envEff (m : Int) : List Effect := match runModeName m with | some w => [.info (asc "EnvironmentalHealth") (.word w)] | none => []

def optEff {α : Type} (x : Option α) (f : α → List Effect) : List Effect := match x with | some a => f a | none => []

def panelInfoEff (p : PanelInfo) : List Effect :=
  textEff (asc "_model") p.model ++ textEff (asc "_serial") p.serial ++ textEff (asc "_version") p.softwareVersion ++
  textEff (asc "_name") p.name ++ textEff (asc "_platform") p.platform ++
  (if p.bluePillReady then [.info (asc "_bluePillReady") (.flag true)] else []) ++
  numEff0 (asc "_serverModeMaxClients") p.maxClients ++
  itemsEff (asc "_serverModeLockToIP") p.lockedToIPs ++
  panelTypeEff p.panelType ++
  optEff p.support (fun s => supportEff (supportFlags s))

def sysStatEff (o : OutOracle) (s : SysStat) : List Effect :=
  [.sysstat (asc "CPUUsage") (.num s.cpuUsage), .sysstat (asc "CPUTemp") (.opaque (o.fmtF 1 s.cpuTemp)),
   .sysstat (asc "ExtTemp") (.opaque (o.fmtF 1 s.extTemp)), .sysstat (asc "CPUVoltage") (.opaque (o.fmtF 2 s.cpuVoltage)),
   .sysstat (asc "CPUFreqCurrent") (.num s.cpuFreqCurrent), .sysstat (asc "CPUFreqMin") (.num s.cpuFreqMin),
   .sysstat (asc "CPUFreqMax") (.num s.cpuFreqMax), .sysstat (asc "MemTotal") (.num s.memTotal),
   .sysstat (asc "MemFree") (.num s.memFree), .sysstat (asc "MemAvailable") (.num s.memAvailable),
   .sysstat (asc "MemBuffers") (.num s.memBuffers), .sysstat (asc "MemCached") (.num s.memCached),
   .sysstat (asc "UnderVoltageNow") (.flag s.underVoltageNow), .sysstat (asc "UnderVoltage") (.flag s.underVoltage),
   .sysstat (asc "FreqCapNow") (.flag s.freqCapNow), .sysstat (asc "FreqCap") (.flag s.freqCap),
   .sysstat (asc "ThrottledNow") (.flag s.throttledNow), .sysstat (asc "Throttled") (.flag s.throttled),
   .sysstat (asc "SoftTempLimitNow") (.flag s.softTempLimitNow), .sysstat (asc "SoftTempLimit") (.flag s.softTempLimit)]

def eventEff (e : Event) : List Effect :=
  optEff e.binary (fun b => [.event .binary e.hwcid b.edge.toNat b.pressed 0]) ++
  optEff e.pulsed (fun v => [.event .enc e.hwcid 0 false v]) ++
  optEff e.absolute (fun v => [.event .abs e.hwcid 0 false v]) ++
  optEff e.speed (fun v => [.event .speed e.hwcid 0 false v]) ++
  optEff e.rawAnalog (fun v => [.event .raw e.hwcid 0 false v])

def regEff (r : Register) : List Effect :=
  if r.reg = 0 then [.reg (asc "Mem") r.id r.value]
  else if r.reg = 1 then [.reg (asc "Flag") (digitsOf (natOfDigits r.id)) (if r.value > 0 then 1 else 0)]
  else if r.reg = 2 then [.reg (asc "Shift") r.id r.value]
  else if r.reg = 3 then [.reg (asc "State") r.id r.value]
  else []

/-- what the message carries, in the order of the protocol sections -/
def effectsOfOut (o : OutOracle) (m : OutMsg) : List Effect :=
  flowEff m.flow ++
  optEff m.panelInfo panelInfoEff ++
  optEff m.topology (fun t => svgEff t.svgbase ++ payloadEff (asc "_panelTopology_HWC") t.json) ++
  optEff m.burnin (payloadEff (asc "_burninProfile")) ++
  optEff m.netConfig (fun c => [.info (asc "_networkConfig") (.net c)]) ++
  optEff m.calibration (payloadEff (asc "_calibrationProfile")) ++
  optEff m.defaultCalibration (payloadEff (asc "_defaultCalibrationProfile")) ++
  optEff m.sleepTimeout (numEff (asc "_sleepTimer")) ++
  optEff m.sleepState (fun b => [.info (asc "_isSleeping") (.flag b)]) ++
  optEff m.heartBeat (numEff (asc "_heartBeatTimer")) ++
  optEff m.dimmedGain (numEff (asc "DimmedGain")) ++
  optEff m.connections (itemsEff (asc "_connections")) ++
  optEff m.runTimeStats (fun r =>
    numEff0 (asc "_bootsCount") r.bootsCount ++ numEff0 (asc "_totalUptimeMin") r.totalUptime ++
    numEff0 (asc "_sessionUptimeMin") r.sessionUptime ++ numEff0 (asc "_screenSaverOnMin") r.screenSaveOnTime) ++
  optEff m.errorMsg (payloadEff (asc "ErrorMsg")) ++
  optEff m.message (payloadEff (asc "Msg")) ++
  m.avail.map (fun kv => .mapEntry kv.1 kv.2) ++
  optEff m.envHealth envEff ++
  optEff m.sysStat (sysStatEff o) ++
  m.events.flatMap eventEff ++
  m.registers.flatMap regEff

/-! ## comparison of an observed effect sequence with the expected per-message effects

Events keep their order; registers keep their order; the remaining effects of one message (distinct keys, map
entries) commute and are compared as a multiset — in particular the availability-map lines of a message as a set. -/

def Effect.isEvent : Effect → Bool | .event .. => true | _ => false
def Effect.isReg : Effect → Bool | .reg .. => true | _ => false
def Effect.commutes (e : Effect) : Bool := !e.isEvent && !e.isReg

def sameMsg (exp obs : List Effect) : Bool :=
  (exp.filter Effect.isEvent == obs.filter Effect.isEvent) &&
  (exp.filter Effect.isReg == obs.filter Effect.isReg) &&
  (exp.filter Effect.commutes).isPerm (obs.filter Effect.commutes)

/-- `obs` is, message by message, `exp` -/
def approx : List (List Effect) → List Effect → Bool
  | [], obs => obs.isEmpty
  | e :: es, obs => sameMsg e (obs.take e.length) && approx es (obs.drop e.length)

/-! ## the ASCII-representable domain of C03 (decidable) -/

def u32Max : Nat := 4294967295
def inU32 (n : Nat) : Bool := n ≤ u32Max
def inI32 (v : Int) : Bool := -2147483648 ≤ v && v ≤ 2147483647

def noLF (s : Bytes) : Bool := !s.contains 10

/-- valid UTF-8 (RFC 3629: no overlong forms, no surrogates, ≤ U+10FFFF) -/
def validUtf8 : (fuel : Nat) → Bytes → Bool
  | 0, s => s.isEmpty
  | _, [] => true
  | n + 1, b0 :: r =>
    let cont (b : UInt8) : Bool := 0x80 ≤ b && b ≤ 0xBF
    if b0 < 0x80 then validUtf8 n r
    else if 0xC2 ≤ b0 && b0 ≤ 0xDF then
      match r with | b1 :: r' => cont b1 && validUtf8 n r' | _ => false
    else if 0xE0 ≤ b0 && b0 ≤ 0xEF then
      match r with
      | b1 :: b2 :: r' =>
        cont b1 && cont b2 && (b0 != 0xE0 || 0xA0 ≤ b1) && (b0 != 0xED || b1 ≤ 0x9F) && validUtf8 n r'
      | _ => false
    else if 0xF0 ≤ b0 && b0 ≤ 0xF4 then
      match r with
      | b1 :: b2 :: b3 :: r' =>
        cont b1 && cont b2 && cont b3 && (b0 != 0xF0 || 0x90 ≤ b1) && (b0 != 0xF4 || b1 ≤ 0x8F) && validUtf8 n r'
      | _ => false
    else false

def payloadOk (s : Bytes) : Bool := validUtf8 s.length s

/-- item of a `;`-list: non-empty, no `;`, no LF, no white space at its ends -/
def itemOk (s : Bytes) : Bool := s != [] && !s.contains 59 && noLF s && trimSpace s == s

/-- text the reader accepts as a float numeral -/
def floatTextOk (s : Bytes) : Bool :=
  s.any isDigit && s.all (fun b => isDigit b || b = 45 || b = 43 || b = 46 || b = 101 || b = 69)

def isUpperDigit (b : UInt8) : Bool := (65 ≤ b && b ≤ 90) || isDigit b

def edgeOk (e : Int) : Bool := e = 0 || e = 1 || e = 2 || e = 4 || e = 8 || e = 16

def panelInfoOk (p : PanelInfo) : Bool :=
  noLF p.model && noLF p.serial && noLF p.name && noLF p.softwareVersion && noLF p.platform &&
  inU32 p.maxClients && p.lockedToIPs.all itemOk && (0 ≤ p.panelType && p.panelType ≤ 5)

def sysStatOk (o : OutOracle) (s : SysStat) : Bool :=
  inU32 s.cpuUsage && floatTextOk (o.fmtF 1 s.cpuTemp) && floatTextOk (o.fmtF 1 s.extTemp) &&
  floatTextOk (o.fmtF 2 s.cpuVoltage) && inI32 s.cpuFreqCurrent && inI32 s.cpuFreqMin && inI32 s.cpuFreqMax &&
  inI32 s.memTotal && inI32 s.memFree && inI32 s.memAvailable && inI32 s.memBuffers && inI32 s.memCached

def eventOk (e : Event) : Bool :=
  inU32 e.hwcid && (match e.binary with | some b => edgeOk b.edge | none => true) &&
  (match e.pulsed with | some v => inI32 v | none => true) && (match e.absolute with | some v => inU32 v | none => true) &&
  (match e.speed with | some v => inI32 v | none => true) && (match e.rawAnalog with | some v => inU32 v | none => true)

def registerOk (r : Register) : Bool :=
  (0 ≤ r.reg && r.reg ≤ 3) && inU32 r.value &&
  (if r.reg = 1 then r.id.all isDigit && inU32 (natOfDigits r.id) else r.id.all isUpperDigit)

def optOk {α : Type} (x : Option α) (f : α → Bool) : Bool := match x with | some a => f a | none => true

def distinctKeys : List (Nat × Nat) → Bool
  | [] => true
  | kv :: r => !(r.any (fun x => x.1 == kv.1)) && distinctKeys r

def inDomainMsg (o : OutOracle) (m : OutMsg) : Bool :=
  (m.flow = 0 || (flowWord m.flow).isSome) &&
  m.avail.all (fun kv => inU32 kv.1 && inU32 kv.2) && distinctKeys m.avail &&
  optOk m.panelInfo panelInfoOk &&
  optOk m.topology (fun t => payloadOk t.svgbase && payloadOk t.json) &&
  optOk m.burnin payloadOk && optOk m.calibration payloadOk && optOk m.defaultCalibration payloadOk &&
  optOk m.netConfig (fun c => o.netOfJson (o.jsonOfNet c) == some c && noLF (o.jsonOfNet c) && o.jsonOfNet c != []) &&
  optOk m.sleepTimeout inU32 && optOk m.heartBeat inU32 && optOk m.dimmedGain inU32 &&
  optOk m.connections (fun c => c.all itemOk) &&
  optOk m.runTimeStats (fun r => inU32 r.bootsCount && inU32 r.totalUptime && inU32 r.sessionUptime && inU32 r.screenSaveOnTime) &&
  optOk m.errorMsg payloadOk && optOk m.message payloadOk &&
  optOk m.envHealth (fun e => 0 ≤ e && e ≤ 2) &&
  optOk m.sysStat (sysStatOk o) &&
  m.events.all eventOk && m.registers.all registerOk

def inDomainOut (o : OutOracle) (ms : List OutMsg) : Bool := ms.all (inDomainMsg o)

end RawPanelVerif.Spec.Out
