/-!
# C17 — pixel-format conversions agree with each other and with the mono bitmap
(executable predicates on *observed* outputs; independent of `Model/`; arithmetic only, no bit operations)

Observed data come in as plain functions: a byte slice is its length and `byteAt : Nat → Nat`, a mono bitmap is
`bit : Nat → Nat → Bool` (x, y), an image is an `Obs` (size + pixel function, 8-bit R,G,B,A).

* `checkColor`      (2) 6-bit `xxrrggbb` → RGB565 `bbbbbggg gggrrrrr`; r,b: 0,1,2,3 → 0,10,20,31; g: → 0,21,42,63
* `checkExport`     (1) RGB565 export: `2·w·h` bytes, pixel (x,y) = big-endian word of the pixel / background colour by its bit;
                        4-bit grey export for even `w`: `w·h/2` bytes, two pixels per byte, first pixel in the high nibble,
                        value = top nibble of the luma of that colour.  Odd `w`: no demand on the grey export.
* `checkRoundtrip`  (3) image object and back: same size, every visible pixel equal (complement for `invert`)
* `checkGfx`        (4) graphics state → image: declared size; every pixel covered by the data is the documented expansion in
                        every routine (so the routines agree there); centred copy on the target canvas at offset
                        `(tw−W)/2, (th−H)/2` (division truncating toward zero), pixels falling outside dropped.
                        No demand on pixels the data does not cover, nor on the canvas around the image.
                        PNG cannot represent an image without pixels: for `W = 0` or `H = 0` no PNG image is demanded.
A panic of the implementation is reported by the driver as clause `panic` before these predicates are consulted.

**Placement fields.**  A graphics message also carries `XYoffset`, `X`, `Y`: where a panel puts the image *on its display*
("default is to center the image").  They are not part of the stored picture: `checkGfx` has no parameter for them — the
image of declared size is the expansion of the stored values at (x,y) itself in every routine (the property's "identically
across the alternative conversion routines": `ConvertGfxStateToPngBytes` and `CreateImgObjectFrom*Bytes` cannot even see
them), and on a target canvas the copy is centred.  The run sets them to non-default values (`pix.gfxo`) and applies the
same clauses.

**Objects in use.**  The export and round-trip clauses speak about an image object in a given state, not about a fresh one:
`checkExport` is applied with the colours the object's exported fields `OLEDPixelColor` / `OLEDBckgColor` show *at the moment
of the export* and the bitmap it holds then — whatever was set, exported or (re)created on that object before, in any
order; `checkRoundtrip` is applied to a `CreateFromImage` into an object that already holds an image (of another or of
exactly the same byte size, with bits set); `checkColor` to every setter call (`pix.obj`).

Luma (`RGB16BitToGray`): the channels are widened to 16 bit (5-bit × 2114, 6-bit × 1040), combined with the weights
19595, 38470, 7471 (/65536, rounded) and the top 8 bits are kept.
-/
namespace RawPanelVerif.Spec.Pix

abbrev RGBA := Nat × Nat × Nat × Nat

structure Obs where
  w : Nat
  h : Nat
  px : Nat → Nat → RGBA

def allPixels (w h : Nat) : List (Nat × Nat) :=
  (List.range h).flatMap (fun y => (List.range w).map (fun x => (x, y)))

/-! ## (2) colours -/

def tbl5 : Nat → Nat
  | 0 => 0 | 1 => 10 | 2 => 20 | _ => 31
def tbl6 : Nat → Nat
  | 0 => 0 | 1 => 21 | 2 => 42 | _ => 63

/-- documented RGB565 value of the colour code `xxrrggbb` -/
def color565 (code : Nat) : Nat :=
  tbl5 (code % 4) * 2048 + tbl6 (code / 4 % 4) * 32 + tbl5 (code / 16 % 4)

def checkColor (code observed : Nat) : Option String :=
  if observed = color565 code then none else some "color"

/-! ## (1) exports -/

/-- 8-bit luma of an RGB565 colour `bbbbbggg gggrrrrr` -/
def luma8 (c : Nat) : Nat :=
  let r16 := (c % 32) * 2114
  let g16 := (c / 32 % 64) * 1040
  let b16 := (c / 2048 % 32) * 2114
  (19595 * r16 + 38470 * g16 + 7471 * b16 + 32768) / 65536 / 256

def rgbPixelOk (w : Nat) (bit : Nat → Nat → Bool) (pcol bcol : Nat) (rgb : Nat → Nat) (p : Nat × Nat) : Bool :=
  let col := if bit p.1 p.2 then pcol else bcol
  let i := p.2 * w + p.1
  rgb (2 * i) == col / 256 && rgb (2 * i + 1) == col % 256

def grayPixelOk (w : Nat) (bit : Nat → Nat → Bool) (pcol bcol : Nat) (gray : Nat → Nat) (p : Nat × Nat) : Bool :=
  let col := if bit p.1 p.2 then pcol else bcol
  let i := p.2 * w + p.1
  let b := gray (i / 2)
  (if i % 2 = 0 then b / 16 else b % 16) == luma8 col / 16

def checkExport (w h : Nat) (bit : Nat → Nat → Bool) (pcol bcol : Nat)
    (rgbLen : Nat) (rgb : Nat → Nat) (grayLen : Nat) (gray : Nat → Nat) : Option String :=
  if rgbLen ≠ 2 * w * h then some "rgb.size"
  else if w % 2 = 0 ∧ grayLen ≠ w * h / 2 then some "gray.size"
  else
    match (allPixels w h).find? (fun p => !rgbPixelOk w bit pcol bcol rgb p) with
    | some p => some s!"rgb.pixel@{p.1},{p.2}"
    | none =>
      if w % 2 = 0 then
        match (allPixels w h).find? (fun p => !grayPixelOk w bit pcol bcol gray p) with
        | some p => some s!"gray.pixel@{p.1},{p.2}"
        | none => none
      else none

/-! ## (3) round trip -/

def checkRoundtrip (w h : Nat) (invert : Bool) (bit : Nat → Nat → Bool)
    (w2 h2 : Nat) (bit2 : Nat → Nat → Bool) : Option String :=
  if w2 ≠ w ∨ h2 ≠ h then some "round.size"
  else
    match (allPixels w h).find? (fun p => bit2 p.1 p.2 != (bit p.1 p.2 != invert)) with
    | some p => some s!"round.pixel@{p.1},{p.2}"
    | none => none

/-! ## (4) graphics states; format 0 = mono, 1 = RGB565, 2 = 4-bit grey -/

/-- the data contain the value of pixel (x,y) -/
def covered (fmt W len : Nat) (x y : Nat) : Bool :=
  match fmt with
  | 0 => y * ((W + 7) / 8) + x / 8 < len
  | 1 => 2 * (y * W + x) + 1 < len
  | _ => (y * W + x) / 2 < len

/-- documented expansion of the stored value of pixel (x,y) -/
def expand (fmt W : Nat) (byteAt : Nat → Nat) (x y : Nat) : RGBA :=
  match fmt with
  | 0 =>
    let b := byteAt (y * ((W + 7) / 8) + x / 8)
    if b / 2 ^ (7 - x % 8) % 2 = 1 then (255, 255, 255, 255) else (0, 0, 0, 255)
  | 1 =>
    let i := 2 * (y * W + x)
    let word := byteAt i * 256 + byteAt (i + 1)
    (word % 32 * 255 / 31, word / 32 % 64 * 255 / 63, word / 2048 % 32 * 255 / 31, 255)
  | _ =>
    let i := y * W + x
    let b := byteAt (i / 2)
    let n := if i % 2 = 0 then b / 16 else b % 16
    (n * 17, n * 17, n * 17, 255)

structure GfxObs where
  direct : Option Obs      -- CreateImgObjectFrom{RGB,Gray}Bytes (no such routine for mono)
  rwp : Obs                -- RwpImgToImage at the declared size
  centred : Obs            -- RwpImgToImage on the target canvas
  png : Option Obs         -- decoded PNG of ConvertGfxStateToPngBytes

/-- `bad a` for the image of a routine that produced one, `dflt` otherwise -/
def whenSome (o : Option Obs) (dflt : Bool) (bad : Obs → Bool) : Bool :=
  match o with
  | some a => bad a
  | none => dflt

def pixelFail (fmt W H len : Nat) (byteAt : Nat → Nat) (tw th : Nat) (o : GfxObs) (p : Nat × Nat) : Option String :=
  let x := p.1
  let y := p.2
  if !covered fmt W len x y then none
  else
    let e := expand fmt W byteAt x y
    if o.rwp.px x y != e then some s!"expand.rwp@{x},{y}"
    else if whenSome o.direct false (fun a => a.px x y != e) then some s!"agree.direct@{x},{y}"
    else if whenSome o.png false (fun a => a.px x y != e) then some s!"agree.png@{x},{y}"
    else
      let X : Int := (x : Int) + ((tw : Int) - (W : Int)).tdiv 2
      let Y : Int := (y : Int) + ((th : Int) - (H : Int)).tdiv 2
      if 0 ≤ X ∧ X < tw ∧ 0 ≤ Y ∧ Y < th then
        if o.centred.px X.toNat Y.toNat != e then some s!"centre@{x},{y}" else none
      else none

def sizeIs (o : Obs) (w h : Nat) : Bool := o.w == w && o.h == h

def checkGfx (fmt W H len : Nat) (byteAt : Nat → Nat) (tw th : Nat) (o : GfxObs) : Option String :=
  if !sizeIs o.rwp W H then some "size.rwp"
  else if !sizeIs o.centred tw th then some "size.centred"
  else if whenSome o.direct false (fun a => !sizeIs a W H) then some "size.direct"
  else if whenSome o.png (decide (W ≠ 0 ∧ H ≠ 0)) (fun a => !sizeIs a W H) then some "size.png"
  else (allPixels W H).findSome? (pixelFail fmt W H len byteAt tw th o)

end RawPanelVerif.Spec.Pix
