import RawPanelVerif.Base.TopoTypes
import RawPanelVerif.Gen.Consts
/-!
# C13 / C14 — the properties as executable predicates on *observed* results

Independent of `Model/`.  Given a topology, a query and the observed answer (from the implementation or from
the model) `checkLookup` says which clause of C13 fails, if any; `checkRandomize`, `checkClean`,
`checkRoundTrip` do the same for the transformations of C14 on observed before/after topologies.

C13 clauses
* `overlay`     resolved definition = indexed base type (zero definition if the type is not indexed) with each
                attribute replaced exactly when the override supplies a non-empty value: `> 0` for width,
                height and handle index, `≠ ""` for output/input/extended kind, description and render hints,
                `≠ 0` for rotation, present for the display, non-empty for the sub-element list.
* `notfound.*`  unknown ids: `(-1,-1)`, `""`, `nil + error`, the empty definition, the empty component.
* `agree`       the second resolver agrees with the first on the nine attributes both overlay
                (all but description and render hints) whenever the component's type is indexed.
* `preds`       two observations with the same resolved definition report the same predicate values.
* `mutated`     the serialised form after the look-up equals the serialised form before.
Integer arguments outside `0 ≤ id < 2^32` (second resolver) and negative slice indices are outside the domain.
-/
namespace RawPanelVerif.Spec.Topo
open RawPanelVerif.Topo

/-- the indexed base type of a type number, if any -/
def base (t : Topology) (ty : Nat) : Option TypeDef := (t.ti.find? (fun e => e.1 == ty)).map (·.2)

/-- the empty definition -/
def zero : TypeDef := {}

/-- per-attribute overlay of an override on a base definition -/
def overlay (b : TypeDef) : Option TypeDef → TypeDef
  | none => b
  | some o =>
    { w := if o.w > 0 then o.w else b.w
      h := if o.h > 0 then o.h else b.h
      out := if o.out ≠ [] then o.out else b.out
      inp := if o.inp ≠ [] then o.inp else b.inp
      desc := if o.desc ≠ [] then o.desc else b.desc
      ext := if o.ext ≠ [] then o.ext else b.ext
      subidx := if o.subidx > 0 then o.subidx else b.subidx
      rotate := if o.rotate ≠ [48] then o.rotate else b.rotate
      disp := match o.disp with | some d => some d | none => b.disp
      sub := match o.sub with | [] => b.sub | s => s
      render := if o.render ≠ [] then o.render else b.render }

/-- the resolved definition of a component in a topology -/
def resolved (t : Topology) (c : HWc) : TypeDef := overlay ((base t c.type).getD zero) c.ov

/-- the component an id denotes: the first one carrying it -/
def firstWithId (t : Topology) (id : Nat) : Option HWc := t.hwc.find? (fun c => c.id == id)

/-- agreement on the nine attributes both resolvers overlay -/
def sharedEq (a b : TypeDef) : Bool :=
  a.w == b.w && a.h == b.h && a.out == b.out && a.inp == b.inp && a.ext == b.ext &&
  a.subidx == b.subidx && a.rotate == b.rotate && a.disp == b.disp && a.sub == b.sub

def ok (b : Bool) (clause : String) : Option String := if b then none else some clause

/-- second resolver on the component at a position -/
def checkB (t : Topology) (c : Option HWc) (r : Result) : Option String :=
  match c with
  | none => ok (r == .typeDef zero) "notfound.B"
  | some c =>
    match base t c.type with
    | none => none                                   -- type not indexed: the property makes no claim
    | some _ =>
      match r with
      | .typeDef td => ok (sharedEq td (resolved t c)) "agree"
      | _ => some "agree.shape"

def checkLookup (t : Topology) (before : Str) (q : Query) (a : Answer) : Option String :=
  if a.after ≠ before then some "mutated" else
  match q, a.res with
  | .hwcs, .ids l => ok (l == t.hwc.map (·.id)) "hwcs"
  | .xy id, .xy x y =>
    match firstWithId t id with
    | some c => ok (x == c.x && y == c.y) "xy"
    | none => ok (x == -1 && y == -1) "notfound.xy"
  | .text id, .text s =>
    match firstWithId t id with
    | some c => ok (s == c.txt) "text"
    | none => ok (s == []) "notfound.text"
  | .type id, r =>
    match firstWithId t id, r with
    | some c, .typeDef td => ok (td == resolved t c) "overlay"
    | none, .notFound _ => none
    | some _, _ => some "overlay.shape"
    | none, _ => some "notfound.type"
  | .withDisplay, .ids l => ok (l == (t.hwc.filter (fun c => (resolved t c).disp.isSome)).map (·.id)) "withdisplay"
  | .resolveA k, r =>
    match t.hwc[k]? with
    | some c => ok (r == .typeDef (resolved t c)) "overlay"
    | none => none
  | .resolveAx c, r => ok (r == .typeDef (resolved t c)) "overlay"
  | .resolveB k, r =>
    if k < 0 then none else checkB t t.hwc[k.toNat]? r
  | .resolveBid id, r =>
    if id < 0 ∨ id ≥ 4294967296 then none else checkB t (firstWithId t id.toNat) r
  | .defId id, r =>
    if id < 0 ∨ id ≥ 4294967296 then none else
    match firstWithId t id.toNat with
    | some c => ok (r == .comp c) "defid"
    | none => ok (r == .comp {}) "notfound.defid"
  | .pred _, .preds _ => none
  | .predOf id, r =>
    match firstWithId t id, r with
    | some c, .typePreds td _ => ok (td == resolved t c) "overlay"
    | none, .notFound _ => none
    | some _, _ => some "overlay.shape"
    | none, _ => some "notfound.type"
  | _, _ => some "shape"

/-- an observation of predicate values together with the definition they were computed on -/
def predPair : Query → Result → Option (TypeDef × Preds)
  | .pred td, .preds p => some (td, p)
  | .predOf _, .typePreds td p => some (td, p)
  | _, _ => none

/-- "depend only on the resolved definition": equal definitions ⇒ equal predicate values -/
def predCompat (x y : TypeDef × Preds) : Bool := x.1 != y.1 || x.2 == y.2

def predsConsistent (seen : List (TypeDef × Preds)) (x : TypeDef × Preds) : Bool := seen.all (predCompat x)

/-! ## C14 -/

def keys (t : Topology) : List Nat := t.ti.map (·.1)

/-- a component with its type number blanked -/
def eraseType (c : HWc) : HWc := { c with type := 0 }

/-- the property's domain for renumbering: every component's type is 0 or indexed; 0 itself (= "disabled")
is not a type number of the index -/
def inDomain14 (t : Topology) : Bool :=
  !(keys t).contains 0 && t.hwc.all (fun c => c.type == 0 || (base t c.type).isSome)

def checkRandomize (sequence : Bool) (t t' : Topology) : Option String :=
  if t'.hwc.map eraseType ≠ t.hwc.map eraseType then some "components"
  else if (keys t').length ≠ (keys t).length then some "typecount"
  else if inDomain14 t && t'.hwc.map (resolved t') ≠ t.hwc.map (resolved t) then some "resolved"
  else if sequence && !((List.range' 1 (keys t).length).all (fun k => (keys t').contains k)) then some "seqids"
  else none

/-- removing section markers deletes exactly the marker components, all others kept in order -/
def checkClean (t t' : Topology) : Option String :=
  ok (t'.hwc == t.hwc.filter (fun c => c.type != Gen.sectionType)) "clean"

/-- `j` = serialised `t`, `parsed` = what parsing `j` gave, `j2` = serialised `parsed` -/
def checkRoundTrip (t : Topology) (j : Str) (parsed : Option Topology) (j2 : Str) : Option String :=
  match parsed with
  | none => some "json.parse"
  | some t' => if t' ≠ t then some "json.roundtrip" else if j2 ≠ j then some "json.fixpoint" else none

end RawPanelVerif.Spec.Topo
