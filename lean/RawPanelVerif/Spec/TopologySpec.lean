import RawPanelVerif.Base.TopoTypes
import RawPanelVerif.Gen.Consts
/-!
# C13 / C14 — the properties as executable predicates on *observed* results

Independent of `Model/`.  Given a topology, a query and the observed answer (from the implementation or from
the model) `checkLookup` says which clause of C13 fails, if any; `checkRandomize`, `checkClean`,
`checkRoundTrip` do the same for the transformations of C14 on observed before/after topologies.

C13 clauses
* `overlay`     resolved definition = indexed base type (zero definition if the type is not indexed) with each
                attribute replaced exactly when the override supplies a non-empty value: `> 0` for width,
                height and handle index, `≠ ""` for output/input/extended kind, description and render hints,
                `≠ 0` for rotation, present for the display, non-empty for the sub-element list.
* `notfound.*`  unknown ids: `(-1,-1)`, `""`, `nil + error`, the empty definition, the empty component.
* `agree`       the second resolver agrees with the first on the nine attributes both overlay
                (all but description and render hints) whenever the component's type is indexed.
* `preds`       two observations with the same resolved definition report the same predicate values.
* `pred.*`      every predicate has the value the protocol's kind vocabulary gives it (`checkPreds`).
* `mutated`     the serialised form after the look-up equals the serialised form before.
Integer arguments outside `0 ≤ id < 2^32` (second resolver) and negative slice indices are outside the domain.
-/
namespace RawPanelVerif.Spec.Topo
open RawPanelVerif.Topo

/-- the indexed base type of a type number, if any -/
def base (t : Topology) (ty : Nat) : Option TypeDef := (t.ti.find? (fun e => e.1 == ty)).map (·.2)

/-- the empty definition -/
def zero : TypeDef := {}

/-- per-attribute overlay of an override on a base definition -/
def overlay (b : TypeDef) : Option TypeDef → TypeDef
  | none => b
  | some o =>
    { w := if o.w > 0 then o.w else b.w
      h := if o.h > 0 then o.h else b.h
      out := if o.out ≠ [] then o.out else b.out
      inp := if o.inp ≠ [] then o.inp else b.inp
      desc := if o.desc ≠ [] then o.desc else b.desc
      ext := if o.ext ≠ [] then o.ext else b.ext
      subidx := if o.subidx > 0 then o.subidx else b.subidx
      rotate := if rotIsZero o.rotate then b.rotate else o.rotate
      disp := match o.disp with | some d => some d | none => b.disp
      sub := match o.sub with | [] => b.sub | s => s
      render := if o.render ≠ [] then o.render else b.render }

/-- the resolved definition of a component in a topology -/
def resolved (t : Topology) (c : HWc) : TypeDef := overlay ((base t c.type).getD zero) c.ov

/-- the component an id denotes: the first one carrying it -/
def firstWithId (t : Topology) (id : Nat) : Option HWc := t.hwc.find? (fun c => c.id == id)

/-- agreement on the nine attributes both resolvers overlay -/
def sharedEq (a b : TypeDef) : Bool :=
  a.w == b.w && a.h == b.h && a.out == b.out && a.inp == b.inp && a.ext == b.ext &&
  a.subidx == b.subidx && a.rotate == b.rotate && a.disp == b.disp && a.sub == b.sub

def ok (b : Bool) (clause : String) : Option String := if b then none else some clause

/-- second resolver on the component at a position -/
def checkB (t : Topology) (c : Option HWc) (r : Result) : Option String :=
  match c with
  | none => ok (r == .typeDef zero) "notfound.B"
  | some c =>
    match base t c.type with
    | none => none                                   -- type not indexed: the property makes no claim
    | some _ =>
      match r with
      | .typeDef td => ok (sharedEq td (resolved t c)) "agree"
      | _ => some "agree.shape"

/-! ### the derived predicates, from the protocol's vocabulary of input / output / extended kinds

The *input kind* of a definition is the first comma-separated token of its `in` string.  Buttons are the kinds
`b b4 b2h b2v pb`; binary inputs are the buttons and `gpi`; pulsed `pb p`; absolute `av ah ar a`; intensity
`iv ih ir i`.  A display is present when the definition has a display description.  LEDs: output kind `rgb`, or
the **whole** input string is `rg`, `rb` or `mono`.  Motorised: extended kind `pos`.  Steps: extended kind
exactly `steps` → span of the sub-element indices (largest − smallest + 1; stated for a non-empty list with
indices within ±10000, the values the code's sentinels allow), otherwise 0.  LED-bar steps: the extended kind
*contains* `steps` → number of sub elements, otherwise 0. -/

def bytes (s : String) : Str := s.toList.map (fun c => c.toNat.toUInt8)

/-- the first comma-separated token -/
def firstTok (s : Str) : Str := s.takeWhile (· != 44)

/-- relational reading of `firstTok`: no comma inside, and the string is the token alone or the token, a comma
and anything -/
def IsFirstToken (s tok : Str) : Prop := 44 ∉ tok ∧ (s = tok ∨ ∃ rest, s = tok ++ 44 :: rest)

def kindIn (k : Str) (l : List String) : Bool := (l.map bytes).contains k

def buttonKinds : List String := ["b", "b4", "b2h", "b2v", "pb"]
def binaryKinds : List String := buttonKinds ++ ["gpi"]
def pulsedKinds : List String := ["pb", "p"]
def absoluteKinds : List String := ["av", "ah", "ar", "a"]
def intensityKinds : List String := ["iv", "ih", "ir", "i"]
def ledInputs : List String := ["rg", "rb", "mono"]

/-- `sub` occurs somewhere in `s` (executable form of `sub <:+: s`) -/
def hasInfix (sub s : Str) : Bool := (List.range (s.length + 1)).any (fun i => sub.isPrefixOf (s.drop i))

/-- span of the sub-element indices, where the property's reading applies -/
def stepSpan (td : TypeDef) : Option Int :=
  let idxs := td.sub.map (·.idx)
  match idxs.max?, idxs.min? with
  | some mx, some mn => if idxs.all (fun x => decide (-10000 ≤ x ∧ x ≤ 10000)) then some (mx - mn + 1) else none
  | _, _ => none

/-- the predicate values of a definition; `none` = the first clause that fails -/
def checkPreds (td : TypeDef) (p : Preds) : Option String :=
  let k := firstTok td.inp
  if p.inputType ≠ k then some "pred.inputType"
  else if p.isButton ≠ kindIn k buttonKinds then some "pred.isButton"
  else if p.isBinary ≠ kindIn k binaryKinds then some "pred.isBinary"
  else if p.isPulsed ≠ kindIn k pulsedKinds then some "pred.isPulsed"
  else if p.isAbsolute ≠ kindIn k absoluteKinds then some "pred.isAbsolute"
  else if p.isIntensity ≠ kindIn k intensityKinds then some "pred.isIntensity"
  else if p.hasDisplay ≠ td.disp.isSome then some "pred.hasDisplay"
  else if p.hasLED ≠ (td.out == bytes "rgb" || kindIn td.inp ledInputs) then some "pred.hasLED"
  else if p.isMotorized ≠ (td.ext == bytes "pos") then some "pred.isMotorized"
  else if p.ledBarSteps ≠ (if hasInfix (bytes "steps") td.ext then (td.sub.length : Int) else 0) then some "pred.ledBarSteps"
  else if td.ext ≠ bytes "steps" then (if p.hasSteps ≠ 0 then some "pred.hasSteps" else none)
  else match stepSpan td with
    | some n => if p.hasSteps ≠ n then some "pred.hasSteps" else none
    | none => none

def checkLookup (t : Topology) (before : Str) (q : Query) (a : Answer) : Option String :=
  if a.after ≠ before then some "mutated" else
  match q, a.res with
  | .hwcs, .ids l => ok (l == t.hwc.map (·.id)) "hwcs"
  | .xy id, .xy x y =>
    match firstWithId t id with
    | some c => ok (x == c.x && y == c.y) "xy"
    | none => ok (x == -1 && y == -1) "notfound.xy"
  | .text id, .text s =>
    match firstWithId t id with
    | some c => ok (s == c.txt) "text"
    | none => ok (s == []) "notfound.text"
  | .type id, r =>
    match firstWithId t id, r with
    | some c, .typeDef td => ok (td == resolved t c) "overlay"
    | none, .notFound _ => none
    | some _, _ => some "overlay.shape"
    | none, _ => some "notfound.type"
  | .withDisplay, .ids l => ok (l == (t.hwc.filter (fun c => (resolved t c).disp.isSome)).map (·.id)) "withdisplay"
  | .resolveA k, r =>
    match t.hwc[k]? with
    | some c => ok (r == .typeDef (resolved t c)) "overlay"
    | none => none
  | .resolveAx c, r => ok (r == .typeDef (resolved t c)) "overlay"
  | .resolveB k, r =>
    if k < 0 then none else checkB t t.hwc[k.toNat]? r
  | .resolveBid id, r =>
    if id < 0 ∨ id ≥ 4294967296 then none else checkB t (firstWithId t id.toNat) r
  | .defId id, r =>
    if id < 0 ∨ id ≥ 4294967296 then none else
    match firstWithId t id.toNat with
    | some c => ok (r == .comp c) "defid"
    | none => ok (r == .comp {}) "notfound.defid"
  | .pred td, .preds p => checkPreds td p
  | .predOf id, r =>
    match firstWithId t id, r with
    | some c, .typePreds td p => if td == resolved t c then checkPreds td p else some "overlay"
    | none, .notFound _ => none
    | some _, _ => some "overlay.shape"
    | none, _ => some "notfound.type"
  | _, _ => some "shape"

/-- an observation of predicate values together with the definition they were computed on -/
def predPair : Query → Result → Option (TypeDef × Preds)
  | .pred td, .preds p => some (td, p)
  | .predOf _, .typePreds td p => some (td, p)
  | _, _ => none

/-- "depend only on the resolved definition": equal definitions ⇒ equal predicate values -/
def predCompat (x y : TypeDef × Preds) : Bool := x.1 != y.1 || x.2 == y.2

def predsConsistent (seen : List (TypeDef × Preds)) (x : TypeDef × Preds) : Bool := seen.all (predCompat x)

/-! ## C14 -/

def keys (t : Topology) : List Nat := t.ti.map (·.1)

/-- a component with its type number blanked -/
def eraseType (c : HWc) : HWc := { c with type := 0 }

/-- the property's domain for renumbering: every component's type is 0 or indexed; 0 itself (= "disabled")
is not a type number of the index -/
def inDomain14 (t : Topology) : Bool :=
  !(keys t).contains 0 && t.hwc.all (fun c => c.type == 0 || (base t c.type).isSome)

/-- the renumbering clause for one component (`c` before, `c'` after): a component whose type is indexed keeps
its resolved definition — whatever else is in the topology; a component of type 0 ("disabled") keeps it provided 0
is not a type number of the index (otherwise "ids exactly 1..n" contradicts it); for a component whose non-zero
type is missing from the index the property makes no claim (the number may be handed to another type). -/
def compKept (t t' : Topology) (c c' : HWc) : Bool :=
  if c.type = 0 then (keys t).contains 0 || resolved t' c' == resolved t c
  else (base t c.type).isNone || resolved t' c' == resolved t c

def checkRandomize (sequence : Bool) (t t' : Topology) : Option String :=
  if t'.hwc.map eraseType ≠ t.hwc.map eraseType then some "components"
  else if (keys t').length ≠ (keys t).length then some "typecount"
  else if inDomain14 t && t'.hwc.map (resolved t') ≠ t.hwc.map (resolved t) then some "resolved"
  else if !(t.hwc.zip t'.hwc).all (fun cc => compKept t t' cc.1 cc.2) then some "resolved.component"
  else if sequence && !((List.range' 1 (keys t).length).all (fun k => (keys t').contains k)) then some "seqids"
  else none

/-- removing section markers deletes exactly the marker components, all others kept in order -/
def checkClean (t t' : Topology) : Option String :=
  ok (t'.hwc == t.hwc.filter (fun c => c.type != Gen.sectionType)) "clean"

/-- `j` = serialised `t`, `parsed` = what parsing `j` gave, `j2` = serialised `parsed`.
"Equal topology" is Go equality: the `float32` rotation is compared as a value (`-0 == 0`), everything else
field by field (`Topology.norm`). -/
def checkRoundTrip (t : Topology) (j : Str) (parsed : Option Topology) (j2 : Str) : Option String :=
  match parsed with
  | none => some "json.parse"
  | some t' => if t'.norm ≠ t.norm then some "json.roundtrip" else if j2 ≠ j then some "json.fixpoint" else none

/-- the two serialisers (`ToJSON`, `JSONstring`) are the same function of the topology: asked one after the other on
the same object they return the same bytes (`same`, observed by the harness) -/
def checkSerialisers (same : Bool) : Option String := ok same "json.serialisers-differ"

end RawPanelVerif.Spec.Topo
