import RawPanelVerif.Gen.Icons
/-!
# C18 — tile rendering: the property as executable predicates on observed renderings (independent of Model/)

Observed for one text state and geometry `(w, h, shrink, border)`: the returned image's `Width`, `Height`, its byte
slice `A`, its RGB565 pixel/background colours, the slice `Ainv` of the same state rendered with `Inverted` flipped,
and whether every other rendering of an equal state gave the same bytes (`det`).  "Depends only on its inputs" is a
statement about the process the call runs in, so the observation `det` is made across calls: the state rendered again
after other states (the other font faces) were rendered, rendered by a fresh process, and rendered before and after a
*sibling* state with absent sub-messages was rendered and its owner then edited every field of the sub-messages the
renderer had filled in (a caller may do with its own message what it likes; a default object shared between filled
states would leak those edits into every later state with an absent sub-message).

Clauses: `size` (exact requested size), `deterministic`, `active` (outside the active area left by shrink and border
every pixel has the blank value), `inversion` (`Ainv` is the complement of `A` over the tile), `colours` (RGB export
colours are the requested ones; index colours through the repo's own table `Gen.buttonColors`), `centre` (formats 10/11,
proportional, no extra spacing, ink strictly inside the active area: left and right margins differ by at most 1),
`argument` (the text state after the call is the state before it, except that an absent optional sub-message may have been
replaced by an empty one — the same message in proto3), `export` (when the RGB565 export `GetImgSliceRGB` was observed:
`2·w·h` bytes, the big-endian word of pixel (x,y) is the requested pixel colour where the bit is set and the requested
background colour where it is clear), `bar` (scale type 1: the lit set never shrinks when the value grows).

The colour clauses are written from the protocol, not from the code: a channel value 0..255 falls into one of four
bands (0-84, 85-169, 170-254, 255 and above → 0,1,2,3: "RGB, 3x2 bits"); an index colour is the entry of the repo's
own table (read with `[k]?`, regenerated from the source on every run), an index beyond the table selects the `DEFAULT`
entry 0; the 2-bit fields expand to 5/6/5 bits by the documented table 0,10,20,31 / 0,21,42,63.
-/
namespace RawPanelVerif.Spec.Tile
open RawPanelVerif.Gen

inductive Col where
  | rgb (r g b : Int)
  | idx (i : Int)
  | empty
deriving Repr, DecidableEq

/-! the text state as an observation (before / after the call) -/

structure FontA where
  face : Int
  tw : Int
  th : Int
deriving Repr, DecidableEq

structure StyleA where
  fixedWidth : Bool
  titlePad : Int
  extraSp : Int
  unfSize : Int
  textFont : Option FontA
  titleFont : Option FontA
deriving Repr, DecidableEq

structure ScaleA where
  stype : Int
  rl : Int
  rh : Int
  ll : Int
  lh : Int
deriving Repr, DecidableEq

structure ArgA where
  inverted : Bool
  intVal : Int
  intVal2 : Int
  fmt : Int
  stateIcon : Int
  modIcon : Int
  solid : Bool
  pair : Int
  title : List Nat
  line1 : List Nat
  line2 : List Nat
  scale : Option ScaleA
  styling : Option StyleA
  pix : Option Col
  bg : Option Col
deriving Repr, DecidableEq

/-- the empty (all-default) sub-messages of proto3 -/
def emptyFont : FontA := { face := 0, tw := 0, th := 0 }
def emptyScale : ScaleA := { stype := 0, rl := 0, rh := 0, ll := 0, lh := 0 }
def emptyStyle : StyleA := { fixedWidth := false, titlePad := 0, extraSp := 0, unfSize := 0, textFont := none, titleFont := none }

/-- an optional sub-message after the call: unchanged, or (if it was absent) absent or empty -/
def keptOrEmpty {α : Type} [DecidableEq α] (empty : α) (pre post : Option α) : Bool :=
  match pre, post with
  | some a, some b => decide (a = b)
  | none, none => true
  | none, some b => decide (b = empty)
  | some _, none => false

def styleKept (pre post : StyleA) : Bool :=
  pre.fixedWidth == post.fixedWidth && pre.titlePad == post.titlePad && pre.extraSp == post.extraSp &&
  pre.unfSize == post.unfSize && keptOrEmpty emptyFont pre.textFont post.textFont &&
  keptOrEmpty emptyFont pre.titleFont post.titleFont

def stylingKept (pre post : Option StyleA) : Bool :=
  match pre, post with
  | some a, some b => styleKept a b
  | none, none => true
  | none, some b => styleKept emptyStyle b
  | some _, none => false

/-- clause `argument` -/
def argOk (pre post : ArgA) : Bool :=
  pre.inverted == post.inverted && pre.intVal == post.intVal && pre.intVal2 == post.intVal2 && pre.fmt == post.fmt &&
  pre.stateIcon == post.stateIcon && pre.modIcon == post.modIcon && pre.solid == post.solid && pre.pair == post.pair &&
  pre.title == post.title && pre.line1 == post.line1 && pre.line2 == post.line2 &&
  decide (pre.pix = post.pix) && decide (pre.bg = post.bg) &&
  keptOrEmpty emptyScale pre.scale post.scale && stylingKept pre.styling post.styling

structure Case where
  w : Nat
  h : Nat
  shrink : Int
  border : Int
  inverted : Bool
  fmt : Int
  proportional : Bool
  extraSp : Int
  noLF : Bool            -- the rendered strings contain no line feed
  edgeInk : Bool         -- first and last character of each rendered line are ASCII letters or digits (have ink)
  pix : Option Col
  bg : Option Col
deriving Repr

def wib (k : Case) : Nat := (k.w + 7) / 8

def bitAt (wibv : Nat) (bytes : Array UInt8) (X Y : Nat) : Bool :=
  ((bytes.getD (Y * wibv + X / 8) 0).toNat >>> (7 - X % 8)) % 2 == 1

/-- active area `[x0,x1) × [y0,y1)` -/
def active (k : Case) : Int × Int × Int × Int :=
  let ws : Int := if k.shrink.emod 2 = 1 then 1 else 0
  let hs : Int := if (k.shrink.emod 4) / 2 = 1 then 1 else 0
  if k.border > 0 then (k.border, k.border, (k.w : Int) - k.border, (k.h : Int) - k.border)
  else (0, 0, (k.w : Int) - ws, (k.h : Int) - hs)

def inActive (k : Case) (X Y : Nat) : Bool :=
  let (x0, y0, x1, y1) := active k
  x0 ≤ (X : Int) && (X : Int) < x1 && y0 ≤ (Y : Int) && (Y : Int) < y1

def pixels (k : Case) : List (Nat × Nat) :=
  (List.range k.h).flatMap (fun Y => (List.range k.w).map (fun X => (X, Y)))

/-- 8-bit channel → 2 bits: the band of 0..255 the value falls into (0-84, 85-169, 170-254, 255 and above) -/
def q2 (v : Int) : Int := (if 85 ≤ v then 1 else 0) + (if 170 ≤ v then 1 else 0) + (if 255 ≤ v then 1 else 0)

/-- entry `k` of the repo's colour table, if the table has one -/
def tableEntry (k : Nat) : Option Int := (buttonColors[k]?).map (fun b => (b.toNat : Int))

/-- the 6-bit code `rrggbb` of a colour; only the five low bits of an index are transmitted -/
def colour6 : Col → Int
  | .rgb r g b => q2 r * 16 + q2 g * 4 + q2 b
  | .idx i =>
    match tableEntry (i.emod 32).toNat with
    | some v => v
    | none => (tableEntry 0).getD 0        -- beyond the table: `DEFAULT`
  | .empty => 0

/-- documented expansion rr,gg,bb (2 bit) → 5/6/5 bit: 0,1,2,3 ↦ 0,10,20,31 and 0,21,42,63; layout bbbbbggg gggrrrrr -/
def c565 (c : Int) : Int :=
  let t5 : Int → Int := fun x => if x = 0 then 0 else if x = 1 then 10 else if x = 2 then 20 else 31
  let t6 : Int → Int := fun x => if x = 0 then 0 else if x = 1 then 21 else if x = 2 then 42 else 63
  t5 (c % 4) * 2048 + t6 (c / 4 % 4) * 32 + t5 (c / 16 % 4)

def expectedColours (k : Case) : Int × Int :=
  ((match k.pix with | some c => c565 (colour6 c) | none => 65535),
   (match k.bg with | some c => c565 (colour6 c) | none => 0))

/-- ink extent (min X, max X, min Y, max Y) of lit (≠ blank) pixels in rows `[ya, yb)`; `A` reads a pixel -/
def extent (k : Case) (A : Nat → Nat → Bool) (ya yb : Int) : Option (Nat × Nat × Nat × Nat) :=
  (pixels k).foldl (fun acc p =>
    if ya ≤ (p.2 : Int) ∧ (p.2 : Int) < yb ∧ A p.1 p.2 ≠ k.inverted then
      match acc with
      | none => some (p.1, p.1, p.2, p.2)
      | some (a, b, c, d) => some (min a p.1, max b p.1, min c p.2, max d p.2)
    else acc) none

def centredIn (k : Case) (A : Nat → Nat → Bool) (ya yb : Int) : Bool :=
  let (x0, y0, x1, y1) := active k
  match extent k A ya yb with
  | none => true
  | some (l, r, t, b) =>
    -- applies only when the ink is strictly inside the active area (so nothing was clipped)
    if x0 < (l : Int) ∧ (r : Int) < x1 - 1 ∧ y0 < (t : Int) ∧ (b : Int) < y1 - 1 then
      let left := (l : Int) - x0
      let right := x1 - 1 - (r : Int)
      (left - right).natAbs ≤ 1
    else true

/-! the clauses, each on its own (`A`, `Ainv` read a visible pixel of the observed images) -/

def sizeOk (k : Case) (W H : Int) (lenA lenAinv : Nat) : Bool :=
  W == k.w && H == k.h && lenA == wib k * k.h && lenAinv == lenA

def activeOk (k : Case) (A : Nat → Nat → Bool) : Bool :=
  (pixels k).all (fun p => inActive k p.1 p.2 || A p.1 p.2 == k.inverted)

def inversionOk (k : Case) (A Ainv : Nat → Nat → Bool) : Bool :=
  (pixels k).all (fun p => Ainv p.1 p.2 != A p.1 p.2)

def coloursOk (k : Case) (pc bc : Int) : Bool := (pc, bc) == expectedColours k

/-- clause `export`: `rgb = (length, byte at index)` of the observed RGB565 export, if it was observed -/
def exportPixelOk (k : Case) (A : Nat → Nat → Bool) (rgb : Nat → Nat) (p : Nat × Nat) : Bool :=
  let want := if A p.1 p.2 then (expectedColours k).1 else (expectedColours k).2
  let i := 2 * (p.2 * k.w + p.1)
  ((rgb i * 256 + rgb (i + 1) : Nat) : Int) == want

def exportOk (k : Case) (A : Nat → Nat → Bool) (rgb : Option (Nat × (Nat → Nat))) : Bool :=
  match rgb with
  | none => true
  | some (len, byte) => len == 2 * k.w * k.h && (pixels k).all (exportPixelOk k A byte)

/-- the line(s) fit the active area vertically: `lineH` = the renderer's own `LineHeight()` for the state (observed on the
returned image); one line for format 10, two lines for format 11 -/
def fitsV (k : Case) (lineH : Int) : Bool :=
  let (_, y0, _, y1) := active k
  if k.fmt = 10 then decide (lineH ≤ y1 - y0) else decide (2 * lineH ≤ y1 - y0)

def centreOk (k : Case) (A : Nat → Nat → Bool) (lineH : Int) : Bool :=
  -- a negative border is outside every documented range: the property does not say where the active area is then;
  -- the property speaks about texts that fit the active area vertically (`fitsV`; `Props/C18.lean`,
  -- `centre_needs_vertical_fit_counterexample`: two lines in a 4-pixel-high tile show only the dot of a "j")
  if (k.fmt = 10 ∨ k.fmt = 11) ∧ k.proportional ∧ k.extraSp.emod 4 = 0 ∧ k.noLF ∧ k.edgeInk ∧ 0 ≤ k.border ∧
      fitsV k lineH = true then
    let (_, y0, _, y1) := active k
    let mid := y0 + (y1 - y0) / 2
    if k.fmt = 10 then centredIn k A y0 y1 else centredIn k A y0 mid && centredIn k A mid y1
  else true

def check (k : Case) (W H : Int) (lenA lenAinv : Nat) (A Ainv : Nat → Nat → Bool) (pc bc : Int) (det : Bool)
    (pre post : ArgA) (rgb : Option (Nat × (Nat → Nat))) (lineH : Int) : Option String :=
  if !sizeOk k W H lenA lenAinv then some "size"
  else if !det then some "deterministic"
  else if !activeOk k A then some "active"
  else if !inversionOk k A Ainv then some "inversion"
  else if !coloursOk k pc bc then some "colours"
  else if !centreOk k A lineH then some "centre"
  else if !argOk pre post then some "argument"
  else if !exportOk k A rgb then some "export"
  else none

def checkBytes (k : Case) (W H : Int) (A Ainv : Array UInt8) (pc bc : Int) (det : Bool)
    (pre post : ArgA) (rgb : Option (Array UInt8)) (lineH : Int) : Option String :=
  check k W H A.size Ainv.size (bitAt (wib k) A) (bitAt (wib k) Ainv) pc bc det pre post
    (rgb.map (fun r => (r.size, fun i => (r.getD i 0).toNat))) lineH

/-- scale type 1, value `v1 ≤ v2`, everything else equal: nothing lit at `v1` goes dark at `v2` -/
def checkBar (k : Case) (A1 A2 : Array UInt8) : Option String :=
  if A1.size ≠ A2.size then some "size"
  else if (pixels k).any (fun p => (bitAt (wib k) A1 p.1 p.2 != k.inverted) && !(bitAt (wib k) A2 p.1 p.2 != k.inverted))
  then some "bar" else none

end RawPanelVerif.Spec.Tile
