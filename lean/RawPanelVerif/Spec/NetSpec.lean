/-!
# C08, C09, C10, C12 — the properties as executable monitors over an *observed* trace

Independent of `Model/`.  A record is one script run by the harness against the real client (or the stand-alone
detector) with a scripted TCP panel on loopback; the trace lists, with millisecond time stamps, what the panel did
and saw and what the client reported:

  acc k            panel accepted connection k            rx k bytes     bytes the panel received on connection k
  tx k i           panel performed write action i         cl k           panel closed connection k (script)
  eof k / rst k    panel saw the client close / reset     tmo k i        a wait of the panel script timed out
  con bin err      onconnect(errorMsg, binary)            dis arg        ondisconnect(arg)
  msg items        one slice received on msgsFromPanel (each message as canonical marshalled bytes)
  sub g i items    goroutine g hands over submission i (marshalled messages); lin g i items = converter lines
  dec i items      the decoder's output for vocabulary entry i (opaque: Unmarshal / ASCII decoder)
  dex i items      the same for the other mode's decoder (scripts whose connections negotiate different modes)
  big g i n size bf bb al ab   goroutine g hands over submission i: n graphics states of `size` image bytes; the bytes
                   are not listed, only what the list amounts to on the wire: bf frames of bb bytes in all (binary),
                   al lines of ab bytes in all, line feeds included (ASCII)
  det b            return value of the stand-alone detector
  cancel, ret, heap n, panic

The reference readers (`parse`, `splitLF`, `trim`) are written from the protocol description: a binary message is a
4-byte little-endian length followed by that many bytes; an ASCII message is a line terminated by LF or CRLF.

Timing clauses ("promptly", "within 2 s") use the tolerance `tol`; ordering and content clauses never do.

Scripts may have several connections.  Every connection is judged on its own (`checkConnC08`, `checkConnC10`,
`checkConnC12`); a connection outside the property's domain is left out alone (`Verdict.partly`), a script is skipped
only when all its connections are, and the clauses about the whole run (panic, never connected, memory, the probe on
every connection, …) are judged in any case (`combineBy`).
-/
namespace RawPanelVerif.Spec.Net

abbrev Bytes := List UInt8

/-! ## Reference readers -/

/-- little-endian value of a byte string -/
def u32le (h : Bytes) : Nat := h.foldr (fun x acc => x.toNat + 256 * acc) 0

inductive Tail
  | done                      -- the stream ends at a message boundary
  | incomplete (rest : Bytes)    -- an incomplete message (`rest` non-empty) is outstanding
  | over (len : Nat)          -- a length prefix ≥ limit was met; nothing after it is a message
  deriving DecidableEq, Repr

/-- messages of a length-prefixed stream, and how it ends -/
def parse (limit : Nat) (s : Bytes) : List Bytes × Tail :=
  if s.length < 4 then ([], if s.isEmpty then .done else .incomplete s)
  else
    let len := u32le (s.take 4)
    if len ≥ limit then ([], .over len)
    else if (s.drop 4).length < len then ([], .incomplete s)
    else
      let r := parse limit (s.drop (4 + len))
      ((s.drop 4).take len :: r.1, r.2)
termination_by s.length
decreasing_by
  rename_i h1
  simp only [List.length_drop]
  omega

/-- complete LF-terminated lines (LF removed) and the unterminated remainder -/
def splitLF : Bytes → List Bytes × Bytes
  | [] => ([], [])
  | b :: r =>
    let p := splitLF r
    if b = 10 then ([] :: p.1, p.2)
    else match p.1 with
      | [] => ([], b :: p.2)
      | l :: ls => ((b :: l) :: ls, p.2)

/-- blanks a line terminator / padding may consist of: space, TAB, LF, VT, FF, CR -/
def isBlank (b : UInt8) : Bool := b == 32 || (9 ≤ b && b ≤ 13)

def trim (l : Bytes) : Bytes := ((l.dropWhile isBlank).reverse.dropWhile isBlank).reverse

/-- ASCII messages of a stream: one per LF-terminated line, CR and padding removed -/
def lines (s : Bytes) : List Bytes := (splitLF s).1.map trim

/-- The protocol's lines are ASCII; it does not say whether a *non-ASCII* white-space character at the edge of a line
is padding or content.  The characters with the Unicode property White_Space outside ASCII are U+0085, U+00A0 (two
bytes in UTF-8: C2 85, C2 A0) and U+1680, U+2000…U+200A, U+2028, U+2029, U+202F, U+205F, U+3000 (three bytes). -/
def uni2 (a b : UInt8) : Bool := a == 0xC2 && (b == 0x85 || b == 0xA0)

def uni3 (a b c : UInt8) : Bool :=
  (a == 0xE1 && b == 0x9A && c == 0x80) ||
  (a == 0xE2 && b == 0x80 && ((0x80 ≤ c && c ≤ 0x8A) || c == 0xA8 || c == 0xA9 || c == 0xAF)) ||
  (a == 0xE2 && b == 0x81 && c == 0x9F) ||
  (a == 0xE3 && b == 0x80 && c == 0x80)

/-- `l` starts with the UTF-8 encoding of such a character (0 stands for "no byte there") -/
def uniBlankFront (l : Bytes) : Bool :=
  uni2 (l.getD 0 0) (l.getD 1 0) || uni3 (l.getD 0 0) (l.getD 1 0) (l.getD 2 0)

/-- the string whose reversal is `m` ends with such a character -/
def uniBlankBackRev (m : Bytes) : Bool :=
  uni2 (m.getD 1 0) (m.getD 0 0) || uni3 (m.getD 2 0) (m.getD 1 0) (m.getD 0 0)

/-- a line which, once the ASCII padding is removed, has no non-ASCII white space at either edge: its message is
fixed by the protocol -/
def edgeClean (l : Bytes) : Bool := !uniBlankFront (l.dropWhile isBlank) && !uniBlankBackRev (trim l).reverse

/-- wire constants of the protocol (proto: InboundMessage.FlowMessage = PING = 1 is field 1, varint) -/
def pingPayload : Bytes := [8, 1]
def ackPayload : Bytes := [8, 2]
def encodeFrame (p : Bytes) : Bytes :=
  [UInt8.ofNat (p.length % 256), UInt8.ofNat (p.length / 256 % 256), UInt8.ofNat (p.length / 65536 % 256),
   UInt8.ofNat (p.length / 16777216 % 256)] ++ p
def probe : Bytes := encodeFrame pingPayload

/-! ## The timing contract of the binary read loop (reference, over a time-stamped byte stream)

What the client promises in binary mode is promised to panels that keep this contract.  A frame is read in two
steps, each with its own limit, counted from an *absolute* instant (not from the previous byte): the remaining three
header bytes must arrive less than `timeout` ms after the frame's first byte, and the whole payload less than
`timeout` ms after the header's last byte.  Before the first byte of a frame any time may pass. -/

/-- a byte stream with arrival times (ms) -/
abbrev TBytes := List (Nat × UInt8)

/-- `tb` is a sequence of complete frames, each below the limit, each within the timing contract -/
def inContractT (limit timeout : Nat) : TBytes → Bool
  | [] => true
  | a :: b :: c :: d :: rest =>
    let len := u32le [a.2, b.2, c.2, d.2]
    decide (b.1 < a.1 + timeout) && decide (c.1 < a.1 + timeout) && decide (d.1 < a.1 + timeout) &&
    decide (len < limit) && decide (len ≤ rest.length) &&
    (rest.take len).all (fun p => decide (p.1 < d.1 + timeout)) && inContractT limit timeout (rest.drop len)
  | _ => false
termination_by tb => tb.length
decreasing_by
  simp only [List.length_drop, List.length_cons]
  omega

/-- arrival times never decrease, and start at or after `c` -/
def sortedFrom : Nat → TBytes → Prop
  | _, [] => True
  | c, p :: r => c ≤ p.1 ∧ sortedFrom p.1 r

/-! ## Scripts and traces -/

inductive Act
  | waitRx (n ms : Nat) | hs | write (b : Bytes) | sleep (ms : Nat) | close | reset | waitEof (ms : Nat)
  | pause | resume            -- the panel stops / resumes reading what the client writes
  deriving DecidableEq, Repr

inductive SubAct
  | hs (k : Nat)              -- wait for the k-th onconnect (1-based)
  | submit (items : List Bytes) | sleep (ms : Nat)
  | big (count size : Nat)    -- one list of `count` graphics states of `size` image bytes
  deriving DecidableEq, Repr

structure Script where
  binary : Bool := true
  /-- per connection: what that connection's script negotiates (empty: `binary` on every connection) -/
  modes : List Bool := []
  retryS : Nat := 1
  endMs : Nat := 300
  voc : List Bytes := []
  conns : List (List Act) := []
  subs : List (List SubAct) := []
  deriving Repr

inductive Ev
  | acc (k : Nat) | rx (k : Nat) (b : Bytes) | eof (k : Nat) | rst (k : Nat)
  | tx (k i : Nat) | txerr (k i : Nat) | cl (k : Nat) | tmo (k i : Nat)
  | con (bin : Bool) (err : Bytes) | dis (arg : Bool) | msg (items : List Bytes)
  | cancel | ret | noret | wg | nowg
  | sub (g i : Nat) (items : List Bytes) | lin (g i : Nat) (items : List Bytes)
  | heap (n : Nat) | panic | det (b : Bool) | dec (i : Nat) (items : List Bytes) | ping (b : Bytes)
  | dex (i : Nat) (items : List Bytes)
  | big (g i count size bframes bbytes alines abytes : Nat)
  | other
  deriving DecidableEq, Repr

structure TEv where
  e : Ev
  t : Nat
  deriving DecidableEq, Repr

abbrev Trace := List TEv

inductive Verdict
  | ok
  | skip (reason : String)     -- the script is outside the domain the property speaks about
  | fail (clause : String)
  | partly (skipped : List String)   -- some connections of the script are outside the domain (reasons), every other
                                     -- connection and every clause about the whole run was judged and holds
  deriving DecidableEq, Repr

/-- timing tolerance (ms) for "promptly" / "within" clauses -/
def tol : Nat := 400
/-- distance (ms) a script must keep from the 2 s contract for the timing-dependent clauses to apply -/
def margin : Nat := 300
/-- the numbers of the property texts (never taken from the code; `Props/C08`, `C10`, `C12` prove that the constants
regenerated from the source are these): "the 2 s in-frame timeout", "the 500000-byte limit", an acknowledge "however
long (below 2 s) it takes" -/
def frameTimeoutMs : Nat := 2000
def frameLimit : Nat := 500000
def probeWindowMs : Nat := 2000
/-- heap growth (bytes) tolerated during a run that contains an over-limit header -/
def heapBound : Nat := 67108864

/-! ### trace helpers -/

def isCon : Ev → Bool | .con _ _ => true | _ => false
def isDis : Ev → Bool | .dis _ => true | _ => false

/-- time of the first event satisfying `p` -/
def timeOf (p : Ev → Bool) : Trace → Option Nat
  | [] => none
  | e :: r => if p e.e then some e.t else timeOf p r

def txTime (tr : Trace) (k i : Nat) : Option Nat := timeOf (fun e => e == .tx k i) tr
def cancelTime (tr : Trace) : Option Nat := timeOf (fun e => e == .cancel) tr

/-- all bytes the panel received on connection k -/
def rxBytes (k : Nat) : Trace → Bytes
  | [] => []
  | e :: r => match e.e with
    | .rx k' b => if k' = k then b ++ rxBytes k r else rxBytes k r
    | _ => rxBytes k r

def msgsOf : Trace → List (List Bytes)
  | [] => []
  | e :: r => match e.e with
    | .msg items => items :: msgsOf r
    | _ => msgsOf r

/-- events strictly before the first `cancel` -/
def beforeCancel : Trace → Trace
  | [] => []
  | e :: r => if e.e == .cancel then [] else e :: beforeCancel r

/-- the client's k-th connection window: (con event, events up to and including its dis, rest) -/
def dropToCon : Trace → Option (TEv × Trace)
  | [] => none
  | e :: r => if isCon e.e then some (e, r) else dropToCon r

def takeToDis : Trace → Trace × Option TEv × Trace
  | [] => ([], none, [])
  | e :: r =>
    if isDis e.e then ([], some e, r)
    else let p := takeToDis r; (e :: p.1, p.2.1, p.2.2)

structure Window where
  con : TEv
  body : Trace            -- events between con and dis (or the end)
  dis : Option TEv
  deriving Repr

def windows : Nat → Trace → List Window
  | 0, _ => []
  | fuel + 1, tr =>
    match dropToCon tr with
    | none => []
    | some (c, r) =>
      let p := takeToDis r
      ⟨c, p.1, p.2.1⟩ :: windows fuel p.2.2

def decOf (tr : Trace) (i : Nat) : Option (List Bytes) :=
  match tr with
  | [] => none
  | e :: r => match e.e with
    | .dec j items => if i = j then some items else decOf r i
    | _ => decOf r i

def dexOf (tr : Trace) (i : Nat) : Option (List Bytes) :=
  match tr with
  | [] => none
  | e :: r => match e.e with
    | .dex j items => if i = j then some items else dexOf r i
    | _ => dexOf r i

/-- the `binary` flag of an `onconnect` event equals `bin` -/
def conIs (bin : Bool) : Ev → Bool
  | .con b _ => b == bin
  | _ => false

/-- the mode connection `k` of the script negotiates -/
def connBinary (sc : Script) (k : Nat) : Bool := (sc.modes[k]?).getD sc.binary

/-- the decoder's output (of the decoder of mode `bin`) for a payload / trimmed line, looked up through the vocabulary -/
def decodeM (sc : Script) (tr : Trace) (bin : Bool) (p : Bytes) : Option (List Bytes) :=
  match sc.voc.idxOf? p with
  | some i => if bin = sc.binary then decOf tr i else dexOf tr i
  | none => none

def decodeAllM (sc : Script) (tr : Trace) (bin : Bool) : List Bytes → Option (List (List Bytes))
  | [] => some []
  | p :: r => match decodeM sc tr bin p, decodeAllM sc tr bin r with
    | some a, some b => some (a :: b)
    | _, _ => none

def decode (sc : Script) (tr : Trace) (p : Bytes) : Option (List Bytes) := decodeM sc tr sc.binary p
def decodeAll (sc : Script) (tr : Trace) (ps : List Bytes) : Option (List (List Bytes)) := decodeAllM sc tr sc.binary ps

def anyEv (p : Ev → Bool) (tr : Trace) : Bool := tr.any (fun e => p e.e)

/-! ### what a connection script sends, and where it breaks its side of the contract -/

inductive Fault
  | none
  | over (i : Nat)                 -- write action i completed a length prefix ≥ limit
  | stall (i : Nat)                -- after write action i an incomplete message stays silent for > 2 s + margin
  | closed (i : Nat)               -- the panel closes at action i
  | unclear                        -- silence of an incomplete message within `margin` of 2 s, or a message
                                   -- trickling for longer than 2 s − margin: no clause applies
  deriving DecidableEq, Repr

structure Analysis where
  msgs : List Bytes := []          -- messages completely sent before the fault (all, if none)
  fault : Fault := .none
  stream : Bytes := []             -- bytes sent before the fault
  deriving Repr

/-- actions after the handshake marker `hs`, with their indices -/
def dataActs (acts : List Act) : List (Nat × Act) :=
  let idx := (List.range acts.length).zip acts
  match idx.dropWhile (fun p => p.2 != .hs) with
  | [] => []
  | _ :: r => r

def isIncomplete : Tail → Bool
  | .incomplete _ => true
  | _ => false

/-- binary mode: walk the actions; `silent` = ms of silence accumulated since the last write -/
def analyseB (limit : Nat) (endMs : Nat) : List (Nat × Act) → Bytes → Nat → Nat → Analysis
  | [], sofar, lastW, silent =>
    let p := parse limit sofar
    let total := silent + endMs
    if isIncomplete p.2 then
      if total ≥ frameTimeoutMs + margin then { msgs := p.1, fault := .stall lastW, stream := sofar }
      else if total + margin > frameTimeoutMs then { msgs := p.1, fault := .unclear, stream := sofar }
      else { msgs := p.1, fault := .none, stream := sofar }
    else { msgs := p.1, fault := .none, stream := sofar }
  | (i, a) :: rest, sofar, lastW, silent =>
    let p := parse limit sofar
    match a with
    | .write b =>
      if isIncomplete p.2 ∧ silent ≥ frameTimeoutMs + margin then { msgs := p.1, fault := .stall lastW, stream := sofar }
      else if isIncomplete p.2 ∧ silent + margin > frameTimeoutMs then { msgs := p.1, fault := .unclear, stream := sofar }
      else
        let sofar' := sofar ++ b
        let p' := parse limit sofar'
        match p'.2 with
        | .over _ => { msgs := p'.1, fault := .over i, stream := sofar' }
        | _ => analyseB limit endMs rest sofar' i 0
    | .sleep ms => analyseB limit endMs rest sofar lastW (silent + ms)
    | .close | .reset =>
      if isIncomplete p.2 ∧ silent ≥ frameTimeoutMs + margin then { msgs := p.1, fault := .stall lastW, stream := sofar }
      else if isIncomplete p.2 ∧ silent + margin > frameTimeoutMs then { msgs := p.1, fault := .unclear, stream := sofar }
      else { msgs := p.1, fault := .closed i, stream := sofar }
    | _ => analyseB limit endMs rest sofar lastW silent

/-- every message of the stream arrives within 2 s − margin of its first byte, judged by the *observed* send times:
for each write action the span from the earliest still-incomplete message start to this write. -/
def inContractB (limit : Nat) (tr : Trace) (k : Nat) : List (Nat × Act) → Bytes → Option Nat → Bool
  | [], _, _ => true
  | (i, a) :: rest, sofar, open? =>
    match a with
    | .write b =>
      match txTime tr k i with
      | none => false
      | some t =>
        let sofar' := sofar ++ b
        let p := parse limit sofar
        let p' := parse limit sofar'
        -- a message begun in an earlier write is continued / completed by this write: span since its first byte
        let late := match open? with | some t0 => decide (t - t0 + margin > frameTimeoutMs) | none => false
        if late then false
        else
          let open' := if isIncomplete p'.2 then
                         (if p'.1.length > p.1.length then some t else (match open? with | some t0 => some t0 | none => some t))
                       else none
          inContractB limit tr k rest sofar' open'
    | _ => inContractB limit tr k rest sofar open?

/-- ASCII mode: lines sent; the only fault is the panel closing -/
def analyseA : List (Nat × Act) → Bytes → Analysis
  | [], sofar => { msgs := lines sofar, fault := .none, stream := sofar }
  | (i, a) :: rest, sofar =>
    match a with
    | .write b => analyseA rest (sofar ++ b)
    | .close | .reset => { msgs := lines sofar, fault := .closed i, stream := sofar }
    | _ => analyseA rest sofar

def panelScriptIncomplete (tr : Trace) : Bool :=
  anyEv (fun e => match e with | .tmo _ _ => true | _ => false) tr

/-! ## C08 — receive framing is independent of segmentation and timing -/

/-- One connection of a C08 script.  The last connection of the script stays up until the harness cancels; every
earlier one ends with the panel closing at a message boundary (what the panel sent before is still "a sequence of
messages a panel sends").  Clauses: the negotiated mode is the one the panel speaks on *this* connection; the
deliveries inside the connection's window are exactly the messages; the client does not drop the connection before
the panel closed it (last connection: before the cancellation). -/
def checkConnC08 (limit : Nat) (sc : Script) (tr : Trace) (k : Nat) (acts : List Act) (w : Option Window)
    (isLast : Bool) : Verdict :=
  let bin := connBinary sc k
  let da := dataActs acts
  let an := if bin then analyseB limit (if isLast then sc.endMs else 0) da [] 0 0 else analyseA da []
  let faultOk := if isLast then an.fault == .none else (match an.fault with | .closed _ => true | _ => false)
  if ¬ faultOk then .skip "panel-breaks-contract"
  else if bin ∧ (parse limit an.stream).2 != .done then .skip "stream-not-a-message-sequence"
  else if ¬ bin ∧ (splitLF an.stream).2 != [] then .skip "stream-not-a-message-sequence"
  else if ¬ bin ∧ ¬ (splitLF an.stream).1.all edgeClean then .skip "non-ascii-white-space-at-a-line-edge"
  else if bin ∧ ¬ inContractB limit tr k da [] none then .skip "frame-slower-than-contract"
  else
    match decodeAllM sc tr bin an.msgs with
    | none => .fail "setup:decoder-table"
    | some expected =>
      match w with
      | none => .fail "never-connected"
      | some w =>
        if ¬ conIs bin w.con.e then .fail "mode"
        else if msgsOf w.body != expected then .fail "deliveries"     -- exactly those messages, each once, in order
        else if isLast then
          (if w.dis.isSome ∧ ¬ anyEv (· == .cancel) w.body then .fail "disconnect-inside-contract" else .ok)
        else
          -- dropped (if at all) only after the panel closed
          (if w.dis.isSome ∧ ¬ anyEv (· == .cl k) w.body then .fail "disconnect-inside-contract" else .ok)

/-- the verdict of every scripted connection, in order (connection number, verdict) -/
def connVerdictsC08 (limit : Nat) (sc : Script) (tr : Trace) : Nat → List (List Act) → List Window → List (Nat × Verdict)
  | _, [], _ => []
  | k, acts :: rest, ws =>
    (k, checkConnC08 limit sc tr k acts ws.head? rest.isEmpty) :: connVerdictsC08 limit sc tr (k + 1) rest ws.tail

def firstFailBy (suffix : Nat → Bool) : List (Nat × Verdict) → Option String
  | [] => none
  | (k, .fail c) :: _ => some (if suffix k then s!"{c}@conn{k}" else c)
  | _ :: r => firstFailBy suffix r

/-- `single`: the script has one connection, clause names carry no connection number -/
def firstFail (single : Bool) (vs : List (Nat × Verdict)) : Option String := firstFailBy (fun _ => !single) vs

def skipReasons : List (Nat × Verdict) → List String
  | [] => []
  | (k, .skip r) :: rest => s!"conn{k}:{r}" :: skipReasons rest
  | _ :: rest => skipReasons rest

/-- combine: a failing connection fails the script; connections outside the domain are left out one by one (a script
is skipped only when *every* connection is); the clauses about the whole run are judged in any case -/
def combineBy (suffix : Nat → Bool) (global : Option String) (vs : List (Nat × Verdict)) : Verdict :=
  match global with
  | some c => .fail c
  | none =>
    match firstFailBy suffix vs with
    | some c => .fail c
    | none =>
      let sk := skipReasons vs
      if sk.isEmpty then .ok
      else if sk.length = vs.length then
        (match vs with
         | [(_, .skip r)] => .skip r
         | _ => .skip (",".intercalate sk))
      else .partly sk

def combine (global : Option String) (vs : List (Nat × Verdict)) : Verdict :=
  combineBy (fun _ => decide (vs.length ≠ 1)) global vs

def checkC08 (limit : Nat) (sc : Script) (tr : Trace) : Verdict :=
  if sc.conns.isEmpty then .skip "no-connection-script" else
  let ws := windows (sc.conns.length + 2) tr
  let vs := connVerdictsC08 limit sc tr 0 sc.conns ws
  -- clauses about the whole run: judged whatever the connections are; they come first in the report (they explain
  -- the per-connection ones)
  let early : Option String :=
    if anyEv (· == .panic) tr then some "panic"
    else if panelScriptIncomplete tr then some "panel-script-incomplete"
    else if (timeOf isCon tr).isNone then some "never-connected"
    else none
  match early with
  | some c => .fail c
  | none =>
    match firstFail (vs.length = 1) vs with
    | some c => .fail c
    | none =>
      -- nothing else: every delivery lies inside a connection's window, and no connection beyond the scripted ones
      -- delivered anything
      let late : Option String :=
        if (msgsOf tr).length != ((ws.take sc.conns.length).map (fun w => (msgsOf w.body).length)).sum then
          some "delivery-outside-the-scripted-connections"
        else none
      combine late vs

/-! ## C10 — malformed or stalled streams are contained -/

def accTime (tr : Trace) (k : Nat) : Option Nat := timeOf (fun e => e == .acc k) tr

def checkConnC10 (limit : Nat) (sc : Script) (tr : Trace) (k : Nat) (acts : List Act) (w : Option Window)
    (isLast : Bool) : Verdict :=
  let da := dataActs acts
  let bin := connBinary sc k
  let an := if bin then analyseB limit (if isLast then sc.endMs else 0) da [] 0 0 else analyseA da []
  match w with
  | none => .fail "never-connected"
  | some w =>
    match decodeAllM sc tr bin an.msgs with
    | none => .fail "setup:decoder-table"
    | some expected =>
      let delivered := msgsOf w.body
      match an.fault with
      | .unclear => .skip "stall-within-margin"
      | .none =>
        -- garbage / empty payloads of correct length: every frame still delivered, connection kept
        if bin ∧ ¬ inContractB limit tr k da [] none then .skip "frame-slower-than-contract"
        else if delivered != expected then .fail "deliveries"
        else if w.dis.isSome ∧ ¬ anyEv (· == .cancel) w.body then .fail "disconnect-without-fault"
        else .ok
      | .closed _ => .skip "panel-closes"         -- loss of connection is C11's subject
      | .over i | .stall i =>
        let budget := match an.fault with | .stall _ => frameTimeoutMs | _ => 0
        match txTime tr k i, w.dis with
          | none, _ => .fail "panel-script-incomplete"
          | some _, none => .fail "not-dropped"
          | some tf, some d =>
            if anyEv (· == .cancel) w.body then .fail "not-dropped"     -- the disconnect is the one the final cancel causes
            else if d.e != .dis false then .fail "disconnect-reported-as-cancelled"
            else if d.t > tf + budget + tol then .fail "dropped-late"
            else if delivered != expected then .fail "broken-frame-delivered-or-frame-lost"
            else if isLast then .ok     -- the script ends here: reconnect not observable
            else match accTime tr (k + 1) with
              | none => .fail "no-reconnect"
              | some ta => if ta > d.t + sc.retryS * 1000 + tol then .fail "reconnect-late" else .ok

def connVerdictsC10 (limit : Nat) (sc : Script) (tr : Trace) : Nat → List (List Act) → List Window → List (Nat × Verdict)
  | _, [], _ => []
  | k, acts :: rest, ws =>
    (k, checkConnC10 limit sc tr k acts ws.head? rest.isEmpty) :: connVerdictsC10 limit sc tr (k + 1) rest ws.tail

def heapOf : Trace → Option Nat
  | [] => none
  | e :: r => match e.e with
    | .heap n => some n
    | _ => heapOf r

def checkC10 (limit : Nat) (sc : Script) (tr : Trace) : Verdict :=
  -- clauses about the whole run ("never panics, never reserves memory of attacker-chosen size") are judged in any case
  let global : Option String :=
    if anyEv (· == .panic) tr then some "panic"
    else if anyEv (· == .noret) tr then some "no-return-after-cancel"
    else if (match heapOf tr with | some n => decide (n > heapBound) | none => false) then some "memory-of-attacker-chosen-size"
    else none
  let vs := connVerdictsC10 limit sc tr 0 sc.conns (windows (sc.conns.length + 2) tr)
  match global with
  | some c => .fail c
  | none =>
    -- C10 has always named the connection of a failing clause
    combineBy (fun _ => true) none vs

/-! ## C09 — submitted messages reach the panel intact, in order, in the negotiated encoding -/

/-- one message list handed to the client, as the trace describes it -/
inductive Sub
  | listed (units : List Bytes)     -- its units on the wire (binary: payloads, ASCII: lines), byte for byte
  | sized (n bytes : Nat)           -- only how much it is: `n` units, `bytes` bytes on the wire in all (frame headers /
                                    -- line feeds included)
  deriving DecidableEq, Repr

def Sub.isEmpty : Sub → Bool
  | .listed u => u.isEmpty
  | .sized n _ => n == 0

/-- per goroutine, the submissions in the order they were handed over (units: payloads or lines) -/
def subsOf (ascii : Bool) (g : Nat) : Trace → List Sub
  | [] => []
  | e :: r => match e.e with
    | .sub g' _ items => if g' = g ∧ ¬ ascii then .listed items :: subsOf ascii g r else subsOf ascii g r
    | .lin g' _ items => if g' = g ∧ ascii then .listed items :: subsOf ascii g r else subsOf ascii g r
    | .big g' _ _ _ bf bb al ab => if g' = g then (if ascii then .sized al ab else .sized bf bb) :: subsOf ascii g r else subsOf ascii g r
    | _ => subsOf ascii g r

def stripPrefix : List Bytes → List Bytes → Option (List Bytes)
  | l, [] => some l
  | [], _ :: _ => none
  | a :: l, b :: p => if a = b then stripPrefix l p else none

/-- `units` begins with this submission: the listed units themselves, or — for a list whose bytes the trace does not
carry — the right number of units with the right number of bytes (`overhead` = bytes per unit besides the unit itself:
4 for a frame header, 1 for a line feed) -/
def stripSub (overhead : Nat) (units : List Bytes) : Sub → Option (List Bytes)
  | .listed s => stripPrefix units s
  | .sized n bytes =>
    if units.length < n then none
    else if ((units.take n).map (fun u => u.length + overhead)).sum = bytes then some (units.drop n) else none

/-- `units` is an interleaving of the goroutines' submission sequences that keeps every submission contiguous
and every goroutine's own order (depth-first search; fuel = number of submissions + 1) -/
def interleaves (overhead : Nat) : Nat → List Bytes → List (List Sub) → Bool
  | 0, _, _ => false
  | fuel + 1, units, pending =>
    let pending := pending.map (fun q => q.dropWhile (·.isEmpty))   -- an empty submission writes nothing
    if pending.all (·.isEmpty) then units.isEmpty
    else
      (List.range pending.length).any (fun g =>
        match pending[g]? with
        | some (s :: q) =>
          match stripSub overhead units s with
          | some rest => interleaves overhead fuel rest (pending.set g q)
          | none => false
        | _ => false)

/-- the trace after the n-th (1-based) `con` event -/
def afterNthCon : Nat → Trace → Trace
  | 0, tr => tr
  | _ + 1, [] => []
  | n + 1, e :: r => if isCon e.e then afterNthCon n r else afterNthCon (n + 1) r

def isBig : Ev → Bool | .big .. => true | _ => false

def stripPrefixB : Bytes → Bytes → Option Bytes
  | l, [] => some l
  | [], _ :: _ => none
  | a :: l, b :: p => if a = b then stripPrefixB l p else none

/-- The connection that is up at the end of the script (the last scripted one; earlier ones were lost): every list
handed over after its `onconnect` — "while connected" — must be on the wire of *that* connection, completely, in
order, in that connection's encoding, and nothing else (in particular nothing of lists handed over on an earlier
connection, and nothing missing because someone else took a list).  A list the trace describes only by its size
(`big`) must be there as that many frames / lines with that many bytes, contiguous, at its place in the order. -/
def checkC09 (sc : Script) (tr : Trace) : Verdict :=
  if sc.conns.isEmpty then .skip "no-connection-script" else
  let kLast := sc.conns.length - 1
  let bin := connBinary sc kLast
  if anyEv (· == .panic) tr then .fail "panic" else
  let ws := windows (sc.conns.length + 2) tr
  match ws[kLast]? with
  | none => .fail "never-connected"
  | some w =>
  if ¬ conIs bin w.con.e then .fail "mode" else
  let after := afterNthCon (kLast + 1) tr
  if panelScriptIncomplete tr then .fail "bytes-missing-at-panel" else
  let rx := rxBytes kLast tr
  match stripPrefixB rx probe with
  | none => .fail "probe"
  | some afterProbe =>
    let gs := List.range sc.subs.length
    let pending := gs.map (fun g => subsOf (!bin) g after)
    let nsub := (pending.map List.length).sum
    if bin then
      let p := parse 4294967296 afterProbe
      if p.2 != .done then .fail "stream-does-not-parse-into-frames"
      else if ¬ interleaves 4 (nsub + 1) p.1 pending then .fail "frames-not-the-submissions-in-order"
      else .ok
    else
      match afterProbe with
      | 10 :: data =>
        let p := splitLF data
        if p.2 != [] then .fail "line-not-terminated"
        else if ¬ interleaves 1 (nsub + 1) p.1 pending then .fail "lines-not-the-submissions-in-order"
        else .ok
      | _ => .fail "flush-linefeed"

/-! ## C12 — auto-detection -/

inductive ReplyClass
  | ack | otherFrame | silence | rdy | map | errorMsg (text : Bytes) | otherText | unnamed
  deriving DecidableEq, Repr

def startsWith : Bytes → Bytes → Bool
  | _, [] => true
  | [], _ :: _ => false
  | a :: l, b :: p => a == b && startsWith l p

def isText (b : Bytes) : Bool := b.all (fun c => (32 ≤ c && c < 127) || c == 10 || c == 13 || c == 9)

def upToLF : Bytes → Bytes
  | [] => []
  | b :: r => if b = 10 then [] else b :: upToLF r

def classOfReply (reply : Option Bytes) : ReplyClass :=
  match reply with
  | none => .silence
  | some b =>
    if b.isEmpty then .silence
    else match parse 4294967296 b with
      | ([p], .done) => if p = ackPayload then .ack else .otherFrame
      | _ =>
        if startsWith b "RDY\n".toUTF8.toList ∧ isText b then .rdy
        else if startsWith b "map=".toUTF8.toList ∧ isText b then .map
        else if startsWith b "ErrorMsg=".toUTF8.toList ∧ isText b then .errorMsg ((upToLF b).drop 9)
        else if isText b then .otherText
        else .unnamed

structure ProbeScript where
  delay : Nat            -- scheduled ms between receiving the probe and the first reply byte
  reply : Option Bytes   -- the panel's answer: all bytes it sends
  closes : Bool
  first : Option Bytes := reply   -- the bytes of its first write (what a single `Read` returns when the writes are
                                  -- far enough apart); equals `reply` for the replies the property names
  deriving Repr

def writesOf : List Act → List Bytes
  | [] => []
  | .write b :: r => b :: writesOf r
  | _ :: r => writesOf r

/-- the probe exchange of a connection script: `p6 [s<ms>] [w<reply> [s<ms> w<more> …]] [c]` -/
def probeScriptOf (acts : List Act) : ProbeScript :=
  let delay := (acts.map (fun a => match a with | .sleep ms => ms | _ => 0)).sum
  let first := acts.findSome? (fun a => match a with | .write b => some b | _ => none)
  let reply := match writesOf acts with | [] => none | ws => some ws.flatten
  let closes := acts.any (fun a => a == .close || a == .reset)
  let delayBeforeReply :=
    ((acts.takeWhile (fun a => match a with | .write _ => false | .close => false | .reset => false | _ => true)).map
      (fun a => match a with | .sleep ms => ms | _ => 0)).sum
  ⟨if reply.isSome ∨ closes then delayBeforeReply else delay, reply, closes, first⟩

/-- the n-th (0-based) observed verdict: `con` flag and error text (client) or `det` (detector) -/
def nthVerdict (client : Bool) : Nat → Trace → Option (Bool × Bytes)
  | _, [] => none
  | n, e :: r =>
    match e.e with
    | .con b err =>
      if client then (match n with | 0 => some (b, err) | m + 1 => nthVerdict client m r) else nthVerdict client n r
    | .det b =>
      if client then nthVerdict client n r else (match n with | 0 => some (b, []) | m + 1 => nthVerdict client m r)
    | _ => nthVerdict client n r

def observedVerdict (client : Bool) (tr : Trace) : Option (Bool × Bytes) := nthVerdict client 0 tr

def isPrefixB : Bytes → Bytes → Bool
  | [], _ => true
  | _ :: _, [] => false
  | a :: l, b :: m => a == b && isPrefixB l m

/-- a reply sent (as observed at the panel) within `guard` ms of the end of the 2 s window is not judged -/
def guard : Nat := 50

/-- observed reply delay on connection `k`: from the panel reading the probe to its reply (or its close) -/
def replyDelayObs (tr : Trace) (k : Nat) (scripted : Nat) : Nat :=
  let tProbe := timeOf (fun e => match e with | .rx k' _ => k' == k | _ => false) tr
  let tReply := timeOf (fun e => match e with | .tx k' _ => k' == k | .cl k' => k' == k | _ => false) tr
  match tProbe, tReply with | some a, some b => b - a | _, _ => scripted

/-- the class the property's clauses are chosen by, given the observed delay: a reply at or after the end of the window
is silence; one within `guard` ms of the end, and a close inside the window, are not judged -/
def effectiveClass (ps : ProbeScript) (delayObs : Nat) : ReplyClass :=
  if ps.reply.isSome ∧ delayObs + guard ≥ probeWindowMs then
    (if delayObs ≥ probeWindowMs + guard then ReplyClass.silence else .unnamed)   -- too close to the window's end
  else if ps.reply.isNone ∧ ps.closes ∧ delayObs < probeWindowMs + guard then .unnamed  -- closes inside the window
  else classOfReply ps.reply

/-- One connection of a C12 script (the `k`-th the entry point opens: the reconnecting client probes every new
connection; the stand-alone detector is called once per connection): the clauses of the property for the class of what
the panel replies on *this* connection, whatever happened on earlier ones. -/
def checkConnC12 (client : Bool) (tr : Trace) (k : Nat) (acts : List Act) : Verdict :=
  let ps := probeScriptOf acts
  let rx := rxBytes k tr
  match nthVerdict client k tr with
  | none => if k = 0 ∨ rx != [] then .fail "no-verdict" else .skip "connection-never-made"
  | some (bin, err) =>
    -- The property ranges over reply classes × delay × entry point, not over the TCP segmentation of the reply: a
    -- reply the panel sends in several writes is outside its domain (what a single `Read` returns then depends on
    -- the segmentation; the model's prediction is still compared)
    if (writesOf acts).length > 1 then .skip "reply-in-several-segments" else
    let delayObs := replyDelayObs tr k ps.delay
    let cls := effectiveClass ps delayObs
    let asciiRx := probe ++ [10]
    let rxOk (want : Bytes) : Bool := if ps.closes then isPrefixB rx want else rx == want
    match cls with
    | .ack =>
      if ¬ bin then .fail "ack-frame-not-binary"
      else if ¬ rxOk probe then .fail "binary-panel-gets-more-than-the-probe"
      else .ok
    | .silence | .rdy | .map =>
      if bin then .fail "ascii-panel-classified-binary"
      else if ¬ rxOk asciiRx then .fail "ascii-panel-not-exactly-one-linefeed"
      else .ok
    | .errorMsg text =>
      if ¬ client then .skip "detector:text-reply-unnamed"
      else if bin then .fail "text-reply-classified-binary"
      else if ¬ rxOk asciiRx then .fail "ascii-panel-not-exactly-one-linefeed"
      else if err != text then .fail "error-message-not-handed-to-onconnect"
      else .ok
    | .otherText =>
      if ¬ client then .skip "detector:text-reply-unnamed"
      else if bin then .fail "text-reply-classified-binary"
      else if ¬ rxOk asciiRx then .fail "ascii-panel-not-exactly-one-linefeed"
      else .ok
    | .otherFrame => .skip "reply-class-unnamed"
    | .unnamed => .skip "reply-class-unnamed"

def connVerdictsC12 (client : Bool) (tr : Trace) : Nat → List (List Act) → List (Nat × Verdict)
  | _, [] => []
  | k, acts :: rest => (k, checkConnC12 client tr k acts) :: connVerdictsC12 client tr (k + 1) rest

def checkC12 (client : Bool) (sc : Script) (tr : Trace) : Verdict :=
  if sc.conns.isEmpty then .skip "no-connection-script" else
  let rx := rxBytes 0 tr
  -- clauses about the whole run, judged whatever the reply classes are
  let global : Option String :=
    if anyEv (· == .panic) tr then some "panic"
    -- the probe is exactly one length-prefixed ping, and it comes first
    else if ¬ isPrefixB probe rx then some "probe"
    -- … on every connection the entry point opens, not only the first
    else if (List.range sc.conns.length).any (fun k => k > 0 && (rxBytes k tr) != [] && !isPrefixB probe (rxBytes k tr))
      then some "probe-on-reconnect"
    else if (match tr.findSome? (fun e => match e.e with | .ping b => some b | _ => none) with
        | some b => b != pingPayload | none => false) then some "setup:ping-marshal"
    else none
  -- clause names of the first connection carry no connection number (scripts with one connection are the rule)
  combineBy (fun k => decide (k > 0)) global (connVerdictsC12 client tr 0 sc.conns)

end RawPanelVerif.Spec.Net
