/-!
# C20 — text metrics bound the ink; rendering is translation- and scale-consistent
(executable predicate on observed renderings; independent of Model/)

One case = a string rendered three times on a blank canvas of `wib*8 × H` stored bits, text wrap off:
`A` at cursor `(cx,cy)` with size `(h,v)`, `B` at cursor `(cx+dx, cy+dy)` with size `(h,v)`, `C` at `(cx,cy)` with size `(1,1)`.

**Lines.**  Byte 10 is the renderer's new-line command (cursor to column 0 of the next line), not ink, so "the box that
starts at the cursor and spans the reported string width plus one size step and the reported line height" is read per
line: the string is cut at its line feeds into segments; segment `i` is rendered on line `i`, whose cursor is
`(cx, cy)` for `i = 0` and `(0, cy + i·lh)` for `i > 0`.  `segw` = the string widths the implementation reports for the
segments at size `(h,v)`, `segw1` at size `(1,1)`; `lh`, `lh1` = the reported line heights.  A string without line feed is
the single segment `segw = [StrWidth(str)]`, and the clauses below are then literally the property's:

* `box`         every lit pixel of `A` lies in the box of its line: `[x_i, x_i + segw_i + h) × [cy + i·lh, cy + (i+1)·lh)`;
                the same for `C` with `segw1`, `1`, `lh1`
* `translate`   `B` is `A` moved by `(dx,dy)` (lines after the first: by `(0,dy)` — their cursor column is 0 by command)
* `scale`       `A` is `C` with every pixel enlarged to `h × v` about the cursor of its line

**The recorded deviation `scale.spacing`** (finding C20.scale_with_spacing).  With extra character spacing `s > 0`, size
`h > 1` and at least two glyphs on a line the code advances the cursor by `h·w + s` after a glyph of width `w`, not by
`h·(w + s)`, so the `scale` clause is false of it.  A failure of `scale` in that class is *excused* only when the rendering
is exactly what that documented rule gives: with `cws` = the glyph widths the implementation reports (`GetCharWidth`, the
characters of each line other than CR, which is neither drawn nor advanced over), glyph `n` of a line starts at
`x + Σ_{m<n} (h·w_m + s)` in `A` and at `x + Σ_{m<n} (w_m + s)` in `C`; every glyph cell `[origin, origin + h·w_n)` of `A`
must be the cell of `C` enlarged exactly `h × v`, and everything between and after the cells must be blank (`scaleDevOk`).
Only the horizontal offsets between the glyphs are excused; a wrong glyph, a wrong vertical scale or ink in a gap in
that class is a plain `scale` violation.

**Stateful use.**  The clauses speak about a rendering "with a font, mode, spacing and size"; how the object got there (the
order of the setter calls, earlier texts, re-creation of the canvas, metric queries in between) is not part of them.  A
`Case` may therefore come from any call history on one image object: `A`, `B`, `C` are the renderings of three objects
with the same history, and the metrics are the ones the object reports in that state.  A direct `DrawChar(x, y, c, …, h, v)`
is the one-glyph case with cursor `(x,y)`, size `(h,v)` taken from the **arguments**, width `h·GetCharWidth(c)` (no
trailing advance: `segw = h·w − h`) and height `v ×` the cell height (`LineHeight()` at size 1).
-/
namespace RawPanelVerif.Spec.Text

structure Case where
  W : Nat          -- canvas width in pixels
  wib : Nat        -- row stride in bytes (`wib*8 ≥ W` stored bits per row)
  H : Nat
  cx : Int
  cy : Int
  dx : Int
  dy : Int
  h : Int
  v : Int
  lh : Int
  lh1 : Int
  segw : List Int
  segw1 : List Int
  spacing : Nat
  glyphs : Nat     -- largest number of characters other than CR on one line
  cws : List (List Int) := []   -- per line: reported `GetCharWidth` of its characters other than CR
deriving Repr

def bitAt (wib : Nat) (bytes : Array UInt8) (X Y : Int) : Bool :=
  if X < 0 ∨ Y < 0 then false else
  let Xn := X.toNat; let Yn := Y.toNat
  if Xn ≥ wib * 8 then false else
  ((bytes.getD (Yn * wib + Xn / 8) 0).toNat >>> (7 - Xn % 8)) % 2 == 1

def allPixels (k : Case) : List (Int × Int) :=
  (List.range k.H).flatMap (fun (Y : Nat) => (List.range (k.wib * 8)).map (fun (X : Nat) => ((X : Int), (Y : Int))))

/-- the line whose band `[cy + i·lh, cy + (i+1)·lh)` contains row `Y` (`n` lines) -/
def lineIdx (cy lh : Int) (n : Nat) (Y : Int) : Option Nat :=
  if lh ≤ 0 ∨ Y < cy then none
  else
    let i := ((Y - cy) / lh).toNat
    if i < n then some i else none

/-- cursor column of line `i` -/
def lineX (cx : Int) (i : Nat) : Int := if i = 0 then cx else 0

/-- `(X,Y)` lies in the box of its line -/
def inBoxes (cx cy h lh : Int) (segw : List Int) (X Y : Int) : Bool :=
  match lineIdx cy lh segw.length Y with
  | none => false
  | some i => lineX cx i ≤ X && X < lineX cx i + segw.getD i 0 + h

def boxOk (k : Case) (A : Array UInt8) : Bool :=
  (allPixels k).all (fun p => !bitAt k.wib A p.1 p.2 || inBoxes k.cx k.cy k.h k.lh k.segw p.1 p.2)

def boxOk1 (k : Case) (C : Array UInt8) : Bool :=
  (allPixels k).all (fun p => !bitAt k.wib C p.1 p.2 || inBoxes k.cx k.cy 1 k.lh1 k.segw1 p.1 p.2)

/-- horizontal offset line `i` moves by when the cursor moves by `dx` -/
def lineDx (dx : Int) (i : Nat) : Int := if i = 0 then dx else 0

def translateOk (k : Case) (A B : Array UInt8) : Bool :=
  (allPixels k).all (fun p =>
    -- B at p equals A at the pixel it came from (outside the canvas, and outside every line band, A reads as blank)
    let Ys := p.2 - k.dy
    match lineIdx k.cy k.lh k.segw.length Ys with
    | none => !bitAt k.wib B p.1 p.2
    | some i => bitAt k.wib B p.1 p.2 == (decide (0 ≤ Ys ∧ Ys < k.H) && bitAt k.wib A (p.1 - lineDx k.dx i) Ys))
  &&
  -- nothing of A is moved out of the canvas
  (allPixels k).all (fun p =>
    !bitAt k.wib A p.1 p.2 ||
      match lineIdx k.cy k.lh k.segw.length p.2 with
      | none => true
      | some i => 0 ≤ p.1 + lineDx k.dx i && p.1 + lineDx k.dx i < k.wib * 8 && 0 ≤ p.2 + k.dy && p.2 + k.dy < k.H)

def scaleOk (k : Case) (A C : Array UInt8) : Bool :=
  (allPixels k).all (fun p =>
    match lineIdx k.cy k.lh k.segw.length p.2 with
    | none => !bitAt k.wib A p.1 p.2
    | some i =>
      let x0 := lineX k.cx i
      let ii := p.1 - x0
      let jj := p.2 - (k.cy + i * k.lh)
      if ii < 0 then !bitAt k.wib A p.1 p.2
      else bitAt k.wib A p.1 p.2 == bitAt k.wib C (x0 + ii / k.h) (k.cy + i * k.lh1 + jj / k.v))

/-- the recorded genuine finding: with extra character spacing the advance is `h·w + s`, not `h·(w+s)` -/
def knownSpacingClass (k : Case) : Bool := k.spacing > 0 && k.h > 1 && k.glyphs ≥ 2

/-- the size-1 column that column `X` of the enlarged line shows under the documented advance rule: glyphs of widths `ws`,
the current one starting at `oA` in the enlarged rendering and at `oC` at size 1; `none` = `X` lies in no glyph cell
(left of the line, in the spacing between two glyphs, or right of the last one) -/
def devSource (h s : Int) : List Int → Int → Int → Int → Option Int
  | [], _, _, _ => none
  | w :: ws, oA, oC, X =>
    if X < oA then none
    else if X < oA + h * w then some (oC + (X - oA) / h)
    else devSource h s ws (oA + h * w + s) (oC + w + s) X

/-- `A` is what the documented deviation gives: every glyph cell of `C` enlarged `h × v` at the origin the advance
`h·w + s` puts it, nothing else lit -/
def scaleDevOk (k : Case) (A C : Array UInt8) : Bool :=
  (allPixels k).all (fun p =>
    match lineIdx k.cy k.lh k.segw.length p.2 with
    | none => !bitAt k.wib A p.1 p.2
    | some i =>
      let x0 := lineX k.cx i
      let jj := p.2 - (k.cy + i * k.lh)
      match devSource k.h k.spacing (k.cws.getD i []) x0 x0 p.1 with
      | none => !bitAt k.wib A p.1 p.2
      | some xc => bitAt k.wib A p.1 p.2 == bitAt k.wib C xc (k.cy + i * k.lh1 + jj / k.v))

/-- every line box with cursor `(cx,cy)` lies on the canvas ("a canvas large enough not to clip") -/
def boxesFit (k : Case) (cx cy h lh : Int) (segw : List Int) : Bool :=
  decide (0 ≤ cx ∧ 0 ≤ cy ∧ 0 < lh ∧ cy + segw.length * lh ≤ k.H) &&
  (List.range segw.length).all (fun i => 0 ≤ segw.getD i 0 + h && lineX cx i + segw.getD i 0 + h ≤ k.W)

/-- the three renderings are unclipped: the translation and scale clauses are demanded only then (the property
quantifies over "cursor positions on a canvas large enough not to clip"); the box clause is demanded always -/
def unclipped (k : Case) : Bool :=
  boxesFit k k.cx k.cy k.h k.lh k.segw && boxesFit k (k.cx + k.dx) (k.cy + k.dy) k.h k.lh k.segw &&
  boxesFit k k.cx k.cy 1 k.lh1 k.segw1 && decide (1 ≤ k.h ∧ 1 ≤ k.v)

def check (k : Case) (A B C : Array UInt8) : Option String :=
  if !boxOk k A then some "box"
  else if !boxOk1 k C then some "box1"
  else if !unclipped k then none
  else if !translateOk k A B then some "translate"
  else if !scaleOk k A C then some (if knownSpacingClass k && scaleDevOk k A C then "scale.spacing" else "scale")
  else none

end RawPanelVerif.Spec.Text
