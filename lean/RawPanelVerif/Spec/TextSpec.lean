/-!
# C20 — text metrics bound the ink; rendering is translation- and scale-consistent
(executable predicate on observed renderings; independent of Model/)

One case = a string rendered three times on a blank canvas of `wib*8 × H` stored bits, text wrap off:
`A` at cursor `(cx,cy)` with size `(h,v)`, `B` at cursor `(cx+dx, cy+dy)` with size `(h,v)`, `C` at `(cx,cy)` with size `(1,1)`.

**Lines.**  Byte 10 is the renderer's new-line command (cursor to column 0 of the next line), not ink, so "the box that
starts at the cursor and spans the reported string width plus one size step and the reported line height" is read per
line: the string is cut at its line feeds into segments; segment `i` is rendered on line `i`, whose cursor is
`(cx, cy)` for `i = 0` and `(0, cy + i·lh)` for `i > 0`.  `segw` = the string widths the implementation reports for the
segments at size `(h,v)`, `segw1` at size `(1,1)`; `lh`, `lh1` = the reported line heights.  A string without line feed is
the single segment `segw = [StrWidth(str)]`, and the clauses below are then literally the property's:

* `box`         every lit pixel of `A` lies in the box of its line: `[x_i, x_i + segw_i + h) × [cy + i·lh, cy + (i+1)·lh)`;
                the same for `C` with `segw1`, `1`, `lh1`
* `translate`   `B` is `A` moved by `(dx,dy)` (lines after the first: by `(0,dy)` — their cursor column is 0 by command)
* `scale`       `A` is `C` with every pixel enlarged to `h × v` about the cursor of its line
-/
namespace RawPanelVerif.Spec.Text

structure Case where
  W : Nat          -- canvas width in pixels
  wib : Nat        -- row stride in bytes (`wib*8 ≥ W` stored bits per row)
  H : Nat
  cx : Int
  cy : Int
  dx : Int
  dy : Int
  h : Int
  v : Int
  lh : Int
  lh1 : Int
  segw : List Int
  segw1 : List Int
  spacing : Nat
  glyphs : Nat     -- largest number of characters other than CR on one line
deriving Repr

def bitAt (wib : Nat) (bytes : Array UInt8) (X Y : Int) : Bool :=
  if X < 0 ∨ Y < 0 then false else
  let Xn := X.toNat; let Yn := Y.toNat
  if Xn ≥ wib * 8 then false else
  ((bytes.getD (Yn * wib + Xn / 8) 0).toNat >>> (7 - Xn % 8)) % 2 == 1

def allPixels (k : Case) : List (Int × Int) :=
  (List.range k.H).flatMap (fun (Y : Nat) => (List.range (k.wib * 8)).map (fun (X : Nat) => ((X : Int), (Y : Int))))

/-- the line whose band `[cy + i·lh, cy + (i+1)·lh)` contains row `Y` (`n` lines) -/
def lineIdx (cy lh : Int) (n : Nat) (Y : Int) : Option Nat :=
  if lh ≤ 0 ∨ Y < cy then none
  else
    let i := ((Y - cy) / lh).toNat
    if i < n then some i else none

/-- cursor column of line `i` -/
def lineX (cx : Int) (i : Nat) : Int := if i = 0 then cx else 0

/-- `(X,Y)` lies in the box of its line -/
def inBoxes (cx cy h lh : Int) (segw : List Int) (X Y : Int) : Bool :=
  match lineIdx cy lh segw.length Y with
  | none => false
  | some i => lineX cx i ≤ X && X < lineX cx i + segw.getD i 0 + h

def boxOk (k : Case) (A : Array UInt8) : Bool :=
  (allPixels k).all (fun p => !bitAt k.wib A p.1 p.2 || inBoxes k.cx k.cy k.h k.lh k.segw p.1 p.2)

def boxOk1 (k : Case) (C : Array UInt8) : Bool :=
  (allPixels k).all (fun p => !bitAt k.wib C p.1 p.2 || inBoxes k.cx k.cy 1 k.lh1 k.segw1 p.1 p.2)

/-- horizontal offset line `i` moves by when the cursor moves by `dx` -/
def lineDx (dx : Int) (i : Nat) : Int := if i = 0 then dx else 0

def translateOk (k : Case) (A B : Array UInt8) : Bool :=
  (allPixels k).all (fun p =>
    -- B at p equals A at the pixel it came from (outside the canvas, and outside every line band, A reads as blank)
    let Ys := p.2 - k.dy
    match lineIdx k.cy k.lh k.segw.length Ys with
    | none => !bitAt k.wib B p.1 p.2
    | some i => bitAt k.wib B p.1 p.2 == (decide (0 ≤ Ys ∧ Ys < k.H) && bitAt k.wib A (p.1 - lineDx k.dx i) Ys))
  &&
  -- nothing of A is moved out of the canvas
  (allPixels k).all (fun p =>
    !bitAt k.wib A p.1 p.2 ||
      match lineIdx k.cy k.lh k.segw.length p.2 with
      | none => true
      | some i => 0 ≤ p.1 + lineDx k.dx i && p.1 + lineDx k.dx i < k.wib * 8 && 0 ≤ p.2 + k.dy && p.2 + k.dy < k.H)

def scaleOk (k : Case) (A C : Array UInt8) : Bool :=
  (allPixels k).all (fun p =>
    match lineIdx k.cy k.lh k.segw.length p.2 with
    | none => !bitAt k.wib A p.1 p.2
    | some i =>
      let x0 := lineX k.cx i
      let ii := p.1 - x0
      let jj := p.2 - (k.cy + i * k.lh)
      if ii < 0 then !bitAt k.wib A p.1 p.2
      else bitAt k.wib A p.1 p.2 == bitAt k.wib C (x0 + ii / k.h) (k.cy + i * k.lh1 + jj / k.v))

/-- the recorded genuine finding: with extra character spacing the advance is `h·w + s`, not `h·(w+s)` -/
def knownSpacingClass (k : Case) : Bool := k.spacing > 0 && k.h > 1 && k.glyphs ≥ 2

/-- every line box with cursor `(cx,cy)` lies on the canvas ("a canvas large enough not to clip") -/
def boxesFit (k : Case) (cx cy h lh : Int) (segw : List Int) : Bool :=
  decide (0 ≤ cx ∧ 0 ≤ cy ∧ 0 < lh ∧ cy + segw.length * lh ≤ k.H) &&
  (List.range segw.length).all (fun i => 0 ≤ segw.getD i 0 + h && lineX cx i + segw.getD i 0 + h ≤ k.W)

/-- the three renderings are unclipped: the translation and scale clauses are demanded only then (the property
quantifies over "cursor positions on a canvas large enough not to clip"); the box clause is demanded always -/
def unclipped (k : Case) : Bool :=
  boxesFit k k.cx k.cy k.h k.lh k.segw && boxesFit k (k.cx + k.dx) (k.cy + k.dy) k.h k.lh k.segw &&
  boxesFit k k.cx k.cy 1 k.lh1 k.segw1 && decide (1 ≤ k.h ∧ 1 ≤ k.v)

def check (k : Case) (A B C : Array UInt8) : Option String :=
  if !boxOk k A then some "box"
  else if !boxOk1 k C then some "box1"
  else if !unclipped k then none
  else if !translateOk k A B then some "translate"
  else if !scaleOk k A C then some (if knownSpacingClass k then "scale.spacing" else "scale")
  else none

end RawPanelVerif.Spec.Text
