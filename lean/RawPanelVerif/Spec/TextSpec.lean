/-!
# C20 — text metrics bound the ink; rendering is translation- and scale-consistent
(executable predicate on observed renderings; independent of Model/)

One case = a string rendered three times on a blank canvas of `wib*8 × H` stored bits, text wrap off:
`A` at cursor `(cx,cy)` with size `(h,v)`, `B` at cursor `(cx+dx, cy+dy)` with size `(h,v)`, `C` at `(cx,cy)` with size `(1,1)`;
`sw` = reported string width at size `(h,v)`, `lh` = reported line height.

* `box`         every lit pixel of `A` lies in `[cx, cx+sw+h) × [cy, cy+lh)`
* `translate`   `B` is `A` moved by `(dx,dy)`
* `scale`       `A` is `C` with every pixel enlarged to `h × v` about the cursor
-/
namespace RawPanelVerif.Spec.Text

structure Case where
  wib : Nat
  H : Nat
  cx : Int
  cy : Int
  dx : Int
  dy : Int
  h : Int
  v : Int
  sw : Int
  lh : Int
  spacing : Nat
  glyphs : Nat     -- number of characters that are neither LF nor CR
deriving Repr

def bitAt (wib : Nat) (bytes : Array UInt8) (X Y : Int) : Bool :=
  if X < 0 ∨ Y < 0 then false else
  let Xn := X.toNat; let Yn := Y.toNat
  if Xn ≥ wib * 8 then false else
  ((bytes.getD (Yn * wib + Xn / 8) 0).toNat >>> (7 - Xn % 8)) % 2 == 1

def allPixels (k : Case) : List (Int × Int) :=
  (List.range k.H).flatMap (fun (Y : Nat) => (List.range (k.wib * 8)).map (fun (X : Nat) => ((X : Int), (Y : Int))))

def boxOk (k : Case) (A : Array UInt8) : Bool :=
  (allPixels k).all (fun p =>
    !bitAt k.wib A p.1 p.2 || (k.cx ≤ p.1 && p.1 < k.cx + k.sw + k.h && k.cy ≤ p.2 && p.2 < k.cy + k.lh))

def translateOk (k : Case) (A B : Array UInt8) : Bool :=
  (allPixels k).all (fun p =>
    -- B at p equals A at p - (dx,dy) (outside the canvas A reads as blank)
    let inA := 0 ≤ p.2 - k.dy && p.2 - k.dy < k.H
    bitAt k.wib B p.1 p.2 == (inA && bitAt k.wib A (p.1 - k.dx) (p.2 - k.dy)))
  &&
  -- nothing of A is moved out of the canvas
  (allPixels k).all (fun p =>
    !bitAt k.wib A p.1 p.2 ||
      (0 ≤ p.1 + k.dx && p.1 + k.dx < k.wib * 8 && 0 ≤ p.2 + k.dy && p.2 + k.dy < k.H))

def scaleOk (k : Case) (A C : Array UInt8) : Bool :=
  (allPixels k).all (fun p =>
    let i := p.1 - k.cx
    let j := p.2 - k.cy
    if i < 0 ∨ j < 0 then !bitAt k.wib A p.1 p.2
    else bitAt k.wib A p.1 p.2 == bitAt k.wib C (k.cx + i / k.h) (k.cy + j / k.v))

/-- the recorded genuine finding: with extra character spacing the advance is `h·w + s`, not `h·(w+s)` -/
def knownSpacingClass (k : Case) : Bool := k.spacing > 0 && k.h > 1 && k.glyphs ≥ 2

def check (k : Case) (A B C : Array UInt8) : Option String :=
  if !boxOk k A then some "box"
  else if !translateOk k A B then some "translate"
  else if !scaleOk k A C then some (if knownSpacingClass k then "scale.spacing" else "scale")
  else none

end RawPanelVerif.Spec.Text
