import RawPanelVerif.Spec.TopologySpec
import RawPanelVerif.Spec.SvgBaseSpec
/-!
# C15 — the composite panel SVG contains exactly the visible components, correctly placed

Executable predicate on the *observed* list of elements appended to the SVG root together with the text printed for
each of them (from the implementation or the model); independent of `Model/`.

The base document enters as an independent judgement made with `encoding/xml`: the kinds of its tokens (one letter per
token, `S` = start element) and whether the tokenizer reached the end of input without an error.  A base is *valid*
(`baseOk`) when it tokenizes to the end and contains an element.

Clauses of `checkSVG` (the clauses about what is ADDED are evaluated first, the observations last, so that a known
finding about the base part never hides another failure in the same record)
* `bad-base-not-empty`  an unparsable base SVG (does not tokenize, or no element) must give the empty result (`none`)
* `nil-for-valid-base`  a valid base must give a document
* `valid-base-rejected:encoding|version|entity`  the empty result for a document that is valid XML although the default
  `encoding/xml` decoder rejects it (`rej`, the harness's judgement: it tokenizes to the end and has an element once the
  decoder is given a reader for the declared 8-bit encoding / reads version 1.1 as 1.0 / knows the entities the
  internal DTD subset declares)
* `printed-tail`, `wellformed` / `not-wellformed:duplicate-attribute`, `base-content` / `base-content:comment` /
  `base-content:mixed-text` / `base-content:ns-prefix` / `base-content:pi`  **observations of the implementation**
  (`Observed`, reported by the harness): the printed documents end with the printed appended elements followed by the
  root's text and end tag (`tail`); the printed documents re-parse, have one root and no duplicate attribute names
  (`wellformed`); the base's own children and root attributes are unchanged in the tree (`kept`; always plain
  `base-content`); the `encoding/xml` token stream of the base is, in order, part of the token stream of the printed
  document, compact and pretty (`kept2` = `SvgBase.keepsContent`).  The suffix after the colon names the feature of the
  BASE document (`SvgBase.features`, computed from its token stream) under which the failure is a known finding; a
  failure on a base without such a feature keeps the plain name.  `keptMod` = `SvgBase.keepsContentMod`: the same
  containment after deleting from both streams exactly what the named features cover — when IT fails the clause is the
  plain `base-content` whatever the base looks like (a loss the known findings do not explain); it is checked before the
  clauses that carry a feature name, so a known finding on the same record cannot hide it.
* `argument-modified`, `not-repeatable` (`callOk`, observed per call, also for an empty result): the availability map the
  caller passed is unchanged after the call; the same argument objects passed again give the same document.
* `wf-names`, `wf-printed` (`appendedOk`)  every appended element is well-formed as printed: its name is `rect`, `circle`
  or `text`, its attribute names are XML names and pairwise distinct, and the printed text is
  `<name a1="v1" … />` or `<name a1="v1" …>content</name>` where every `vi` is an XML `AttValue` body and `content`
  XML `CharData`/references: no raw `<`, no raw `&` (only the five predefined entities and character references
  to XML `Char`s), no raw `"` inside a value, only valid UTF-8 encodings of XML `Char`s, no `]]>` in content
* the appended elements are, in component order and for the **visible** components only (no map, or non-zero map
  entry), one group per component — nothing for masked components, nothing else at all (`extra-nodes`,
  `missing-main`):
  * `main`   first element of the group: carries `id="HWc<id>"`; a `rect` with `x = X − W/2`, `y = Y − H/2`
             (Go integer division), `width = W`, `height = H` when the resolved type has `H > 0`, otherwise a `circle`
             with `cx = X`, `cy = Y`, `r = W/2`; it carries `transform="rotate(<r> X Y)"` exactly when the resolved
             rotation is not zero (`<r>` = the supplied `%03f` text of the rotation), no `transform` otherwise
  * `group`  then, in order: one `rect`/`circle` per sub element of kind `r`/`c` at the component's position plus
             offset, with the same `transform` rule and with `rx` / `ry` / `style` exactly when the sub element's
             Rx / Ry / Style is non-zero / non-empty; the label lines (when labels are shown or the type's render
             hints contain `txt`): one `text` per line of the label split at `|` — two lines when the second is
             non-empty, else one; optional type / display-size texts (development switches); the id text (when ids
             are shown or the render hints contain `hwcid`) whose content is the decimal id.  None of these carries
             an `id` attribute, so the main shape is the only element identified as the component.
-/
namespace RawPanelVerif.Spec.Svg
open RawPanelVerif.Topo

def bytes (s : String) : Str := s.toList.map (fun c => c.toNat.toUInt8)

/-- decimal text of an integer -/
def dec (n : Int) : Str :=
  (if n < 0 then [45] else []) ++ (Nat.toDigits 10 n.natAbs).map (fun c => c.toNat.toUInt8)

def attr (n : SvgNode) (k : String) : Option Str := (n.attrs.find? (fun a => a.1 == bytes k)).map (·.2)

/-- split at a separator byte (`fuel` ≥ length) -/
def parts (sep : UInt8) : Nat → Str → List Str
  | 0, s => [s]
  | fuel + 1, s =>
    match s.dropWhile (· != sep) with
    | [] => [s.takeWhile (· != sep)]
    | _ :: rest => s.takeWhile (· != sep) :: parts sep fuel rest

def split (sep : UInt8) (s : Str) : List Str := parts sep s.length s

/-- a render hint is one of the comma-separated words -/
def hasHint (render : Str) (hint : String) : Bool := (split 44 render).contains (bytes hint)

/-- the label lines shown: the text split at `|`; two lines when a second, non-empty one exists -/
def labelLines (txt : Str) : List Str :=
  match split 124 txt with
  | l1 :: l2 :: _ => if l2 ≠ [] then [l1, l2] else [l1]
  | l1 :: _ => [l1]
  | [] => [[]]

def visible (mask : Option (List (Nat × Nat))) (c : HWc) : Bool :=
  match mask with
  | none => true
  | some m =>
    match m.find? (fun e => e.1 == c.id) with
    | some e => e.2 != 0
    | none => false

/-- the `transform` a shape of component `c` must carry: `rotate(<r> X Y)` iff the resolved rotation is not zero -/
def wantTransform (fmt : Str → Str) (c : HWc) (td : TypeDef) : Option Str :=
  if rotIsZero td.rotate then none
  else some (bytes "rotate(" ++ fmt td.rotate ++ bytes " " ++ dec c.x ++ bytes " " ++ dec c.y ++ bytes ")")

/-- an optional integer attribute: present exactly when the value is not zero -/
def wantInt (v : Int) : Option Str := if v = 0 then none else some (dec v)

/-- an optional string attribute: present exactly when the value is not empty -/
def wantStr (v : Str) : Option Str := if v = [] then none else some v

/-- the main shape of a component -/
def mainOk (fmt : Str → Str) (c : HWc) (td : TypeDef) (n : SvgNode) : Bool :=
  attr n "id" == some (bytes "HWc" ++ dec c.id) && attr n "transform" == wantTransform fmt c td &&
  (if td.h > 0 then
    n.name == bytes "rect" && attr n "x" == some (dec (c.x - td.w.tdiv 2)) && attr n "y" == some (dec (c.y - td.h.tdiv 2)) &&
    attr n "width" == some (dec td.w) && attr n "height" == some (dec td.h)
  else
    n.name == bytes "circle" && attr n "cx" == some (dec c.x) && attr n "cy" == some (dec c.y) &&
    attr n "r" == some (dec (td.w.tdiv 2)))

/-- what follows the main shape, in order -/
inductive Slot where
  | subRect (s : SubEl)
  | subCircle (s : SubEl)
  | label (txt : Str)
  | devText                -- type number / display size (development switches): a text element
  | idText
deriving Repr, DecidableEq

def subSlots (s : SubEl) : List Slot :=
  if s.objType = bytes "r" then [.subRect s] else if s.objType = bytes "c" then [.subCircle s] else []

def slots (o : SvgOpts) (c : HWc) (td : TypeDef) : List Slot :=
  td.sub.flatMap subSlots ++
  (if o.showLabels || hasHint td.render "txt" then (labelLines c.txt).map .label else []) ++
  (if o.showType then [.devText] else []) ++
  (if o.showDisplaySize && td.disp.isSome then [.devText] else []) ++
  (if o.showHWCID || hasHint td.render "hwcid" then [.idText] else [])

/-- rotation and the optional `rx`/`ry`/`style` of a sub-shape -/
def subExtraOk (fmt : Str → Str) (c : HWc) (td : TypeDef) (s : SubEl) (n : SvgNode) : Bool :=
  attr n "transform" == wantTransform fmt c td && attr n "rx" == wantInt s.rx && attr n "ry" == wantInt s.ry &&
  attr n "style" == wantStr s.style

def slotOk (fmt : Str → Str) (c : HWc) (td : TypeDef) : Slot → SvgNode → Bool
  | .subRect s, n =>
    n.name == bytes "rect" && attr n "id" == none && attr n "x" == some (dec (c.x + s.x)) && attr n "y" == some (dec (c.y + s.y)) &&
    attr n "width" == some (dec s.w) && attr n "height" == some (dec s.h) && subExtraOk fmt c td s n
  | .subCircle s, n =>
    n.name == bytes "circle" && attr n "id" == none && attr n "cx" == some (dec (c.x + s.x)) && attr n "cy" == some (dec (c.y + s.y)) &&
    attr n "r" == some (dec s.r) && subExtraOk fmt c td s n
  | .label txt, n => n.name == bytes "text" && attr n "id" == none && n.text == txt && attr n "x" == some (dec c.x)
  | .devText, n => n.name == bytes "text" && attr n "id" == none
  | .idText, n => n.name == bytes "text" && attr n "id" == none && n.text == dec c.id

def allOk (fmt : Str → Str) (c : HWc) (td : TypeDef) : List Slot → List SvgNode → Bool
  | [], [] => true
  | s :: ss, n :: ns => slotOk fmt c td s n && allOk fmt c td ss ns
  | _, _ => false

def checkGroups (fmt : Str → Str) (o : SvgOpts) (t : Topology) : List HWc → List SvgNode → Option String
  | [], [] => none
  | [], _ :: _ => some "extra-nodes"
  | _ :: _, [] => some "missing-main"
  | c :: cs, m :: rest =>
    let td := Spec.Topo.resolved t c
    if !mainOk fmt c td m then some "main"
    else
      let sl := slots o c td
      if !allOk fmt c td sl (rest.take sl.length) then some "group"
      else checkGroups fmt o t cs (rest.drop sl.length)

/-! ## well-formedness of the appended elements as printed -/

/-- XML `Char` -/
def isChar (n : Nat) : Bool :=
  n = 9 || n = 10 || n = 13 || (0x20 ≤ n && n ≤ 0xD7FF) || (0xE000 ≤ n && n ≤ 0xFFFD) || (0x10000 ≤ n && n ≤ 0x10FFFF)

def isDigit (c : UInt8) : Bool := 48 ≤ c.toNat && c.toNat ≤ 57
def isHexDigit (c : UInt8) : Bool :=
  isDigit c || (65 ≤ c.toNat && c.toNat ≤ 70) || (97 ≤ c.toNat && c.toNat ≤ 102)
def hexVal (c : UInt8) : Nat := if isDigit c then c.toNat - 48 else if c.toNat ≤ 70 then c.toNat - 55 else c.toNat - 87

/-- the body of a reference (between `&` and `;`): one of the five predefined entities, or `#ddd` / `#xhhh` naming a `Char` -/
def refOk (acc : Str) : Bool :=
  [bytes "amp", bytes "lt", bytes "gt", bytes "quot", bytes "apos"].contains acc ||
  (match acc with
   | 35 :: 120 :: h => !h.isEmpty && h.all isHexDigit && isChar (h.foldl (fun v c => v * 16 + hexVal c) 0)
   | 35 :: d => !d.isEmpty && d.all isDigit && isChar (d.foldl (fun v c => v * 10 + (c.toNat - 48)) 0)
   | _ => false)

/-- states of the recogniser for attribute-value bodies / element content without child elements -/
inductive CS where
  | start                          -- between characters
  | ref (acc : Str)                -- after `&`, the reference body read so far
  | u (more : Nat) (lo hi : Nat)   -- inside a UTF-8 encoding: next byte in [lo, hi], then `more` continuation bytes
  | ef                             -- after 0xEF (U+F000…U+FFFF: U+FFFE and U+FFFF are not `Char`s)
  | efbf                           -- after 0xEF 0xBF
deriving Repr, DecidableEq

/-- one byte.  `none` = not well-formed: a raw `<`, a control character, a malformed reference, an invalid UTF-8
encoding or one of a non-`Char` (surrogates, U+FFFE, U+FFFF, > U+10FFFF, overlong forms) -/
def cstep : CS → UInt8 → Option CS
  | .start, c =>
    let n := c.toNat
    if n = 60 then none
    else if n = 38 then some (.ref [])
    else if n < 0x80 then (if isChar n then some .start else none)
    else if n < 0xC2 then none
    else if n < 0xE0 then some (.u 0 0x80 0xBF)
    else if n = 0xE0 then some (.u 1 0xA0 0xBF)
    else if n = 0xED then some (.u 1 0x80 0x9F)
    else if n = 0xEF then some .ef
    else if n < 0xF0 then some (.u 1 0x80 0xBF)
    else if n = 0xF0 then some (.u 2 0x90 0xBF)
    else if n < 0xF4 then some (.u 2 0x80 0xBF)
    else if n = 0xF4 then some (.u 2 0x80 0x8F)
    else none
  | .ref acc, c => if c.toNat = 59 then (if refOk acc then some .start else none) else some (.ref (acc ++ [c]))
  | .u more lo hi, c =>
    if lo ≤ c.toNat ∧ c.toNat ≤ hi then (match more with | 0 => some .start | m + 1 => some (.u m 0x80 0xBF)) else none
  | .ef, c => if c.toNat = 0xBF then some .efbf else if 0x80 ≤ c.toNat ∧ c.toNat ≤ 0xBE then some (.u 0 0x80 0xBF) else none
  | .efbf, c => if 0x80 ≤ c.toNat ∧ c.toNat ≤ 0xBD then some .start else none

/-- read a body up to the delimiter `stop` (`"` for attribute values, `<` for content): the body and what follows the
delimiter; `none` when the body is not well-formed or the delimiter is missing -/
def scanTo (stop : Nat) : CS → Str → Option (Str × Str)
  | _, [] => none
  | st, c :: r =>
    if st = .start ∧ c.toNat = stop then some ([], r)
    else match cstep st c with
      | none => none
      | some st' => (scanTo stop st' r).map (fun p => (c :: p.1, p.2))

/-- `pre` is a prefix: the rest -/
def eat : Str → Str → Option Str
  | [], s => some s
  | _ :: _, [] => none
  | a :: p, c :: s => if a = c then eat p s else none

/-- no `]]>` -/
def noCDEnd : Str → Bool
  | [] => true
  | c :: r => !(c == 93 && r.take 2 == [93, 62]) && noCDEnd r

/-- ` k="body"` for each expected attribute name in order: what follows -/
def eatAttrs : List Str → Str → Option Str
  | [], s => some s
  | k :: ks, s =>
    match eat ([32] ++ k ++ [61, 34]) s with
    | none => none
    | some s1 =>
      match scanTo 34 .start s1 with
      | none => none
      | some p => eatAttrs ks p.2

/-- the text printed for element `n` is `<name a1="…" … />` (no content) or `<name a1="…" …>content</name>` -/
def printedOk (n : SvgNode) (p : Str) : Bool :=
  match eat ([60] ++ n.name) p with
  | none => false
  | some s0 =>
    match eatAttrs (n.attrs.map (·.1)) s0 with
    | none => false
    | some rest =>
      if n.text = [] then rest == [32, 47, 62]
      else
        match eat [62] rest with
        | none => false
        | some s1 =>
          match scanTo 60 .start s1 with
          | none => false
          | some (body, rest2) => noCDEnd body && rest2 == [47] ++ n.name ++ [62]

/-- an XML `Name` (ASCII part of the production) -/
def isXmlName (s : Str) : Bool :=
  match s with
  | [] => false
  | c :: r =>
    let start (c : UInt8) : Bool := (65 ≤ c.toNat && c.toNat ≤ 90) || (97 ≤ c.toNat && c.toNat ≤ 122) || c.toNat = 95 || c.toNat = 58
    start c && r.all (fun c => start c || isDigit c || c.toNat = 45 || c.toNat = 46)

def distinct : List Str → Bool
  | [] => true
  | a :: r => !r.contains a && distinct r

/-- the element's name is one of the three shapes; its attribute names are names and pairwise distinct -/
def shapeOk (n : SvgNode) : Bool :=
  [bytes "rect", bytes "circle", bytes "text"].contains n.name &&
  (n.attrs.map (·.1)).all isXmlName && distinct (n.attrs.map (·.1))

/-- well-formedness of one appended element (the node and the text printed for it) -/
def appendedOk (np : SvgNode × Str) : Option String :=
  if !shapeOk np.1 then some "wf-names" else if !printedOk np.1 np.2 then some "wf-printed" else none

def firstErr : List (SvgNode × Str) → Option String
  | [] => none
  | np :: r => match appendedOk np with | some e => some e | none => firstErr r

/-- the part of the property about what is **added**: every appended element well-formed as printed, and the appended
elements are exactly the groups of the visible components -/
def checkAppended (fmt : Str → Str) (o : SvgOpts) (t : Topology) (mask : Option (List (Nat × Nat)))
    (nodes : List (SvgNode × Str)) : Option String :=
  match firstErr nodes with
  | some e => some e
  | none => checkGroups fmt o t (t.hwc.filter (visible mask)) (nodes.map (·.1))

/-- a valid base: `encoding/xml` tokenizes it to the end without error and it contains a start element (`S`) -/
def baseOk (kinds : Str) (endOk : Bool) : Bool := endOk && kinds.contains 83

/-- what the harness observes on the implementation's document (the base document is a parameter of the model) -/
structure Observed where
  kept : Bool        -- root attributes and the base's own children unchanged in the result tree
  kept2 : Bool       -- the base's `encoding/xml` token stream is, in order, contained in that of the printed documents
  keptMod : Bool     -- the same after deleting from both what the named features cover (`SvgBase.keepsContentMod`)
  wellformed : Bool  -- the printed documents re-parse (one root, matching tags, no duplicate attribute names)
  tail : Bool        -- the printed documents end with the printed appended elements, the root's text and end tag
deriving Repr, DecidableEq

/-- the observed clauses; `f` (the features of the base document) only chooses the NAME of a failing clause -/
def observedOk (f : SvgBase.Features) (ob : Observed) : Option String :=
  if !ob.tail then some "printed-tail"
  else if !ob.kept then some "base-content"
  else if !ob.keptMod then some "base-content"      -- a loss no feature of the base covers: never a known finding
  else if !ob.wellformed then some (SvgBase.wellformedClause f)
  else if !ob.kept2 then some (SvgBase.contentClause f)
  else none

/-- what the harness observes about a CALL (any result, also none): `args` = every argument object the callee could
modify (the availability map) equals a deep copy taken before; `again` = the same argument objects passed again give
the same document, and the string wrapper returns the printed document for the default render switches.  A function of
its arguments that leaves them alone — implicit in "for every base, topology and map, the generated document is …". -/
structure CallObs where
  args : Bool
  again : Bool
deriving Repr, DecidableEq

def callOk (c : CallObs) : Option String :=
  if !c.args then some "argument-modified" else if !c.again then some "not-repeatable" else none

/-- `ts` = the token stream of the base (`kinds` = its kinds); `rej` = `some class` when the base is a valid document
that the default decoder rejects (then `endOk = false`) -/
def checkSVG (fmt : Str → Str) (o : SvgOpts) (t : Topology) (mask : Option (List (Nat × Nat))) (kinds : Str) (endOk : Bool)
    (ts : List Xml.Tok) (rej : Option String) (out : Option (List (SvgNode × Str))) (ob : Observed) : Option String :=
  match out with
  | none =>
    if baseOk kinds endOk then some "nil-for-valid-base"
    else rej.map (fun c => "valid-base-rejected:" ++ c)
  | some nodes =>
    if !baseOk kinds endOk then (if rej.isSome then checkAppended fmt o t mask nodes else some "bad-base-not-empty")
    else match checkAppended fmt o t mask nodes with
      | some e => some e
      | none => observedOk (SvgBase.features ts) ob

end RawPanelVerif.Spec.Svg
