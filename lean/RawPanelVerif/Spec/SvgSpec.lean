import RawPanelVerif.Spec.TopologySpec
/-!
# C15 — the composite panel SVG contains exactly the visible components, correctly placed

Executable predicate on the *observed* list of elements appended to the SVG root (from the implementation or the
model); independent of `Model/`.

Clauses
* `bad-base-not-empty`  an unparsable base SVG must give the empty result (`none`)
* `nil-for-valid-base`  a parsable base must give a document
* `base-content` / `wellformed`  (implementation side only: the harness compares the base's own children before/after
  and re-parses the printed document with `encoding/xml`)
* the appended elements are, in component order and for the **visible** components only (no map, or non-zero map
  entry), one group per component — nothing for masked components, nothing else at all (`extra-nodes`,
  `missing-main`):
  * `main`   first element of the group: carries `id="HWc<id>"`; a `rect` with `x = X − W/2`, `y = Y − H/2`
             (Go integer division), `width = W`, `height = H` when the resolved type has `H > 0`, otherwise a `circle`
             with `cx = X`, `cy = Y`, `r = W/2`
  * `group`  then, in order: one `rect`/`circle` per sub element of kind `r`/`c` at the component's position plus
             offset; the label lines (when labels are shown or the type's render hints contain `txt`): one `text`
             per line of the label split at `|` — two lines when the second is non-empty, else one; optional
             type / display-size texts (development switches); the id text (when ids are shown or the render hints
             contain `hwcid`) whose content is the decimal id.  None of these carries an `id` attribute, so the main
             shape is the only element identified as the component.
-/
namespace RawPanelVerif.Spec.Svg
open RawPanelVerif.Topo

def bytes (s : String) : Str := s.toList.map (fun c => c.toNat.toUInt8)

/-- decimal text of an integer -/
def dec (n : Int) : Str :=
  (if n < 0 then [45] else []) ++ (Nat.toDigits 10 n.natAbs).map (fun c => c.toNat.toUInt8)

def attr (n : SvgNode) (k : String) : Option Str := (n.attrs.find? (fun a => a.1 == bytes k)).map (·.2)

/-- split at a separator byte (`fuel` ≥ length) -/
def parts (sep : UInt8) : Nat → Str → List Str
  | 0, s => [s]
  | fuel + 1, s =>
    match s.dropWhile (· != sep) with
    | [] => [s.takeWhile (· != sep)]
    | _ :: rest => s.takeWhile (· != sep) :: parts sep fuel rest

def split (sep : UInt8) (s : Str) : List Str := parts sep s.length s

/-- a render hint is one of the comma-separated words -/
def hasHint (render : Str) (hint : String) : Bool := (split 44 render).contains (bytes hint)

/-- the label lines shown: the text split at `|`; two lines when a second, non-empty one exists -/
def labelLines (txt : Str) : List Str :=
  match split 124 txt with
  | l1 :: l2 :: _ => if l2 ≠ [] then [l1, l2] else [l1]
  | l1 :: _ => [l1]
  | [] => [[]]

def visible (mask : Option (List (Nat × Nat))) (c : HWc) : Bool :=
  match mask with
  | none => true
  | some m =>
    match m.find? (fun e => e.1 == c.id) with
    | some e => e.2 != 0
    | none => false

/-- the main shape of a component -/
def mainOk (c : HWc) (td : TypeDef) (n : SvgNode) : Bool :=
  attr n "id" == some (bytes "HWc" ++ dec c.id) &&
  (if td.h > 0 then
    n.name == bytes "rect" && attr n "x" == some (dec (c.x - td.w.tdiv 2)) && attr n "y" == some (dec (c.y - td.h.tdiv 2)) &&
    attr n "width" == some (dec td.w) && attr n "height" == some (dec td.h)
  else
    n.name == bytes "circle" && attr n "cx" == some (dec c.x) && attr n "cy" == some (dec c.y) &&
    attr n "r" == some (dec (td.w.tdiv 2)))

/-- what follows the main shape, in order -/
inductive Slot where
  | subRect (s : SubEl)
  | subCircle (s : SubEl)
  | label (txt : Str)
  | devText                -- type number / display size (development switches): a text element
  | idText
deriving Repr, DecidableEq

def subSlots (s : SubEl) : List Slot :=
  if s.objType = bytes "r" then [.subRect s] else if s.objType = bytes "c" then [.subCircle s] else []

def slots (o : SvgOpts) (c : HWc) (td : TypeDef) : List Slot :=
  td.sub.flatMap subSlots ++
  (if o.showLabels || hasHint td.render "txt" then (labelLines c.txt).map .label else []) ++
  (if o.showType then [.devText] else []) ++
  (if o.showDisplaySize && td.disp.isSome then [.devText] else []) ++
  (if o.showHWCID || hasHint td.render "hwcid" then [.idText] else [])

def slotOk (c : HWc) : Slot → SvgNode → Bool
  | .subRect s, n =>
    n.name == bytes "rect" && attr n "id" == none && attr n "x" == some (dec (c.x + s.x)) && attr n "y" == some (dec (c.y + s.y)) &&
    attr n "width" == some (dec s.w) && attr n "height" == some (dec s.h)
  | .subCircle s, n =>
    n.name == bytes "circle" && attr n "id" == none && attr n "cx" == some (dec (c.x + s.x)) && attr n "cy" == some (dec (c.y + s.y)) &&
    attr n "r" == some (dec s.r)
  | .label txt, n => n.name == bytes "text" && attr n "id" == none && n.text == txt && attr n "x" == some (dec c.x)
  | .devText, n => n.name == bytes "text" && attr n "id" == none
  | .idText, n => n.name == bytes "text" && attr n "id" == none && n.text == dec c.id

def allOk (c : HWc) : List Slot → List SvgNode → Bool
  | [], [] => true
  | s :: ss, n :: ns => slotOk c s n && allOk c ss ns
  | _, _ => false

def checkGroups (o : SvgOpts) (t : Topology) : List HWc → List SvgNode → Option String
  | [], [] => none
  | [], _ :: _ => some "extra-nodes"
  | _ :: _, [] => some "missing-main"
  | c :: cs, m :: rest =>
    let td := Spec.Topo.resolved t c
    if !mainOk c td m then some "main"
    else
      let sl := slots o c td
      if !allOk c sl (rest.take sl.length) then some "group"
      else checkGroups o t cs (rest.drop sl.length)

def checkSVG (o : SvgOpts) (t : Topology) (mask : Option (List (Nat × Nat))) (baseOk : Bool)
    (out : Option (List SvgNode)) (kept wellformed : Bool) : Option String :=
  match out with
  | none => if baseOk then some "nil-for-valid-base" else none
  | some nodes =>
    if !baseOk then some "bad-base-not-empty"
    else if !kept then some "base-content"
    else if !wellformed then some "wellformed"
    else checkGroups o t (t.hwc.filter (visible mask)) nodes

end RawPanelVerif.Spec.Svg
