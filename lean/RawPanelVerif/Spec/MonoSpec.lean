/-!
# C16 — the property, as an executable predicate on *observed* canvases

Independent of `Model/`: it is given the canvas geometry, the operation, and the byte slices
observed before and after the operation (from the implementation or from the model) and says
whether the property's clauses hold for that step.

Clauses (property C16):
* `size`     the pixel buffer keeps its size
* `frame`    every stored bit (padding bits included) outside `clip ∩ footprint(op)` is unchanged; the footprint of a
             corner helper is the part of its radius box in the quadrants (half planes) its corner name selects
* `exact`    single pixels, straight lines and filled rectangles set every pixel of
             `clip ∩ footprint` to the drawing colour (xor inversion)
* `tail`     a buffer longer than the `wib·H` bytes of the canvas rows (installed by `CreateFromBytes`) keeps every
             byte beyond them
`clip` is canvas ∩ bounding box (all four sides).
-/
namespace RawPanelVerif.Spec.Mono

structure G where
  W : Nat
  H : Nat
  wib : Nat
  bx : Int
  byy : Int
  bw : Int
  bh : Int
  inv : Bool
deriving Repr, DecidableEq

/-- drawing operations, coordinates relative to the bounding-box origin (as the API takes them) -/
inductive Op where
  | px (x y : Int) (c : Bool)
  | hline (x y w : Int) (c : Bool)
  | vline (x y h : Int) (c : Bool)
  | frect (x y w h : Int) (c : Bool)
  | rrect (x y w h r : Int) (c : Bool)
  | frrect (x y w h r : Int) (c : Bool)
  | circ (x0 y0 r corner : Int) (c : Bool)
  | fcirc (x0 y0 r corner delta : Int) (c : Bool)
  | bitmap (x y w h : Int)
  | glyph (x y : Int) (cw bbH : Nat) (tsH tsV : Int)   -- DrawChar: cell of cw columns × bbH rows
  | text                                               -- RenderText: footprint left open here (see C20)
  | noop                                               -- state setters: nothing may change
deriving Repr

def inBox (x0 y0 x1 y1 X Y : Int) : Bool := x0 ≤ X && X < x1 && y0 ≤ Y && Y < y1

/-- clip rectangle in absolute canvas coordinates -/
def clip (g : G) (X Y : Int) : Bool :=
  inBox (max 0 g.bx) (max 0 g.byy) (min g.W (g.bx + g.bw)) (min g.H (g.byy + g.bh)) X Y

def fpCirc (x0 y0 r : Int) (X Y : Int) : Bool :=
  r ≥ 0 && inBox (x0 - r) (y0 - r) (x0 + r + 1) (y0 + r + 1) X Y

def fpFCirc (x0 y0 r delta : Int) (X Y : Int) : Bool :=
  r ≥ 0 && inBox (x0 - r) (y0 - r) (x0 + r + 1) (y0 + r + 1 + delta) X Y

/-- bit `m` (1, 2, 4 or 8) of a corner name (`cornername & m > 0`; two's complement for negative names) -/
def cbit (corner : Int) (m : Nat) : Bool := (corner.emod 16).toNat / m % 2 == 1

/-- `DrawCircleHelper`: the quarter arcs selected by the corner name — bit 1 upper left, 2 upper right, 4 lower right,
8 lower left of the centre — inside the radius box -/
def fpCircQ (x0 y0 r corner : Int) (X Y : Int) : Bool :=
  fpCirc x0 y0 r X Y &&
  ((cbit corner 4 && x0 ≤ X && y0 ≤ Y) || (cbit corner 2 && x0 ≤ X && Y ≤ y0) ||
   (cbit corner 8 && X ≤ x0 && y0 ≤ Y) || (cbit corner 1 && X ≤ x0 && Y ≤ y0))

/-- `FillCircleHelper`: bit 1 fills to the right of the centre column, bit 2 to the left -/
def fpFCircQ (x0 y0 r corner delta : Int) (X Y : Int) : Bool :=
  fpFCirc x0 y0 r delta X Y && ((cbit corner 1 && x0 ≤ X) || (cbit corner 2 && X ≤ x0))

/-- geometric footprint of an operation, in coordinates relative to the bounding-box origin -/
def footprintRel : Op → Int → Int → Bool
  | .px x y _, X, Y => X == x && Y == y
  | .hline x y w _, X, Y => inBox x y (x + w) (y + 1) X Y
  | .vline x y h _, X, Y => inBox x y (x + 1) (y + h) X Y
  | .frect x y w h _, X, Y => inBox x y (x + w) (y + h) X Y
  | .rrect x y w h r _, X, Y =>
      inBox (x + r) y (x + r + (w - 2 * r)) (y + 1) X Y ||
      inBox (x + r) (y + h - 1) (x + r + (w - 2 * r)) (y + h) X Y ||
      inBox x (y + r) (x + 1) (y + r + (h - 2 * r)) X Y ||
      inBox (x + w - 1) (y + r) (x + w) (y + r + (h - 2 * r)) X Y ||
      fpCircQ (x + r) (y + r) r 1 X Y || fpCircQ (x + w - r - 1) (y + r) r 2 X Y ||
      fpCircQ (x + w - r - 1) (y + h - r - 1) r 4 X Y || fpCircQ (x + r) (y + h - r - 1) r 8 X Y
  | .frrect x y w h r _, X, Y =>
      inBox (x + r) y (x + r + (w - 2 * r)) (y + h) X Y ||
      fpFCircQ (x + w - r - 1) (y + r) r 1 (h - 2 * r - 1) X Y ||
      fpFCircQ (x + r) (y + r) r 2 (h - 2 * r - 1) X Y
  | .circ x0 y0 r k _, X, Y => fpCircQ x0 y0 r k X Y
  | .fcirc x0 y0 r k delta _, X, Y => fpFCircQ x0 y0 r k delta X Y
  | .bitmap x y w h, X, Y => inBox x y (x + w) (y + h) X Y
  | .glyph x y cw bbH tsH tsV, X, Y => inBox x y (x + cw * tsH) (y + bbH * tsV) X Y
  | .text, _, _ => true
  | .noop, _, _ => false

def footprint (g : G) (op : Op) (X Y : Int) : Bool := footprintRel op (X - g.bx) (Y - g.byy)

/-- colour an *exact* operation must produce on `clip ∩ footprint` -/
def exactColour : Op → Option Bool
  | .px _ _ c => some c
  | .hline _ _ _ c => some c
  | .vline _ _ _ c => some c
  | .frect _ _ _ _ c => some c
  | _ => none

def bitAt (wib : Nat) (bytes : Array UInt8) (X Y : Nat) : Bool :=
  ((bytes.getD (Y * wib + X / 8) 0).toNat >>> (7 - X % 8)) % 2 == 1

/-- the pixel-wise clause for stored bit (X,Y); `before`/`after` read a stored bit of the observed buffers -/
def pixelOk (g : G) (op : Op) (before after : Nat → Nat → Bool) (X Y : Nat) : Bool :=
  let b := before X Y
  let a := after X Y
  if clip g X Y && footprint g op X Y then
    match exactColour op with
    | some c => a == (c != g.inv)
    | none => true
  else a == b

def allPixels (g : G) : List (Nat × Nat) :=
  (List.range g.H).flatMap (fun Y => (List.range (g.wib * 8)).map (fun X => (X, Y)))

/-- `none` = all clauses hold; `some clause` names the first violated clause -/
def check (g : G) (op : Op) (lenBefore lenAfter : Nat) (before after : Nat → Nat → Bool) : Option String :=
  if lenAfter ≠ lenBefore then some "size"
  else
    match (allPixels g).find? (fun p => !pixelOk g op before after p.1 p.2) with
    | none => none
    | some p =>
      let inFp := clip g p.1 p.2 && footprint g op p.1 p.2
      some s!"{if inFp then "exact" else "frame"}@{p.1},{p.2}"

/-- bytes beyond the canvas rows: `before`/`after` read a byte of the observed buffers -/
def tailOk (g : G) (lenBefore : Nat) (before after : Nat → Nat) : Bool :=
  (List.range (lenBefore - g.wib * g.H)).all (fun k => after (g.wib * g.H + k) == before (g.wib * g.H + k))

def checkBytes (g : G) (op : Op) (before after : Array UInt8) : Option String :=
  match check g op before.size after.size (bitAt g.wib before) (bitAt g.wib after) with
  | some cl => some cl
  | none =>
    if tailOk g before.size (fun i => (before.getD i 0).toNat) (fun i => (after.getD i 0).toNat) then none else some "tail"

end RawPanelVerif.Spec.Mono
