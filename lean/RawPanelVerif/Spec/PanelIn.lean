import RawPanelVerif.Base.MsgInTypes
/-!
# What system → panel traffic *means*: effects on an abstract panel (independent of Model/)

`Effect` is the vocabulary both sides of C01/C02 are compared in:
* `effectsOfIn m` — what a message describes, per component id, written from the proto field comments;
* `Spec.readInbound` (GrammarIn.lean) — what an independent reader of the ASCII grammar makes of lines.

Normal forms (the places where two different messages denote the same panel state, DESIGN.md "Common to C01–C04"):
* colours are 2 bits per channel (`ColorE.rgb` holds the three levels 0-3: level = ⌊c/85⌋, capped at 3) or a 5-bit
  index; in a text state the colour integer 0 (index 0 = "default") is the same as no colour;
* `normText`: header-bar flag meaningless without title or for formats 10/11; pair mode meaningless for formats
  10/11; integer value meaningless for formats 7/10/11; font size meaningful only for formats 10/11; scale ranges
  meaningless without a scale type;
* graphics: X/Y meaningless without the offset flag;
* FLAG registers: id is a number (written in decimal), value a Boolean;
* payload text (`SetCalibrationProfile`) is in the C07 normal form (white space at the edges of its lines removed).
-/
namespace RawPanelVerif.Spec.In
open RawPanelVerif RawPanelVerif.Bytes RawPanelVerif.MsgIn

inductive FlowE where
  | ping | ack | nack
  deriving DecidableEq, Repr

inductive EnvE where
  | normal | safemode | blocked
  deriving DecidableEq, Repr

inductive CmdE where
  | activatePanel | sendPanelInfo | reportHWCavailability | sendPanelTopology | sendBurninProfile
  | sendCalibrationProfile | sendNetworkConfig | sendRegisters | getConnections | getRunTimeStats
  | clearAll | clearLEDs | clearDisplays | getSleepTimeout | wakeUp | reboot
  | brightness (leds oleds : Nat)
  | setCalibrationProfile (text : Bytes)
  | setNetworkConfig (cfg : NetCfg)
  | simulateEnv (e : EnvE)
  | sleepTimer (n : Nat) | sleepMode (n : Nat) | sleepScreenSaver (n : Nat) | dimmedGain (n : Nat)
  | heartBeatTimer (n : Nat) | publishSystemStat (n : Nat) | loadCPU (n : Nat)
  | webserver (on : Bool) | jsonOnOutbound (on : Bool)
  deriving DecidableEq, Repr

structure ModeE where
  state : Nat
  output : Bool
  blink : Nat
  deriving DecidableEq, Repr

structure ExtE where
  interp : Nat
  value : Nat
  deriving DecidableEq, Repr

inductive ColorE where
  | rgb (r g b : Nat)      -- 2-bit levels
  | index (i : Nat)
  deriving DecidableEq, Repr

structure TextE where
  value : Int := 0
  format : Int := 0
  stateIcon : Nat := 0
  modIcon : Nat := 0
  title : Bytes := []
  solidBar : Bool := false
  line1 : Bytes := []
  line2 : Bytes := []
  value2 : Int := 0
  pairMode : Int := 0
  scaleType : Int := 0
  rangeLow : Int := 0
  rangeHigh : Int := 0
  limitLow : Int := 0
  limitHigh : Int := 0
  textFace : Nat := 0
  titleFace : Nat := 0
  fixedWidth : Bool := false
  textW : Nat := 0
  textH : Nat := 0
  titleW : Nat := 0
  titleH : Nat := 0
  padding : Nat := 0
  spacing : Nat := 0
  fontSize : Nat := 0
  inverted : Bool := false
  pixelColor : Option ColorE := none
  bgColor : Option ColorE := none
  deriving DecidableEq, Repr

inductive GfxKind where
  | mono | rgb | gray
  deriving DecidableEq, Repr

structure GfxE where
  kind : GfxKind
  w : Nat
  h : Nat
  xy : Option (Nat × Nat)
  data : Bytes
  deriving DecidableEq, Repr

inductive RegKind where
  | mem | flag | shift | state
  deriving DecidableEq, Repr

inductive Effect where
  | flow (f : FlowE)
  | cmd (c : CmdE)
  | setMode (id : Nat) (m : ModeE)
  | setColor (id : Nat) (c : ColorE)
  | setExt (id : Nat) (e : ExtE)
  | setText (id : Nat) (t : TextE)
  | setGfx (id : Nat) (g : GfxE)
  | setRawADC (id : Nat) (on : Bool)
  | reg (k : RegKind) (id : Bytes) (v : Nat)
  deriving DecidableEq, Repr

/-! ## normal forms -/

/-- 2-bit level of an 8-bit (or larger) channel value: the largest `k ≤ 3` with `85·k ≤ c` -/
def level2 (c : Nat) : Nat := min 3 (c / 85)

def is1011 (f : Int) : Bool := f == 10 || f == 11

def normText (t : TextE) : TextE :=
  { t with
    value := if t.format == 7 || is1011 t.format then 0 else t.value
    fontSize := if is1011 t.format then t.fontSize else 0
    solidBar := t.solidBar && t.title != [] && !is1011 t.format
    pairMode := if is1011 t.format then 0 else t.pairMode
    rangeLow := if t.scaleType == 0 then 0 else t.rangeLow
    rangeHigh := if t.scaleType == 0 then 0 else t.rangeHigh
    limitLow := if t.scaleType == 0 then 0 else t.limitLow
    limitHigh := if t.scaleType == 0 then 0 else t.limitHigh }

/-- C07 normal form of a payload: every LF-separated line with the white space at its edges removed, concatenated -/
def normPayload (s : Bytes) : Bytes := ((splitOn 10 s).map trimSpace).flatten

/-- a decimal numeral: non-empty, digits only -/
def digitsVal? (s : Bytes) : Option Nat := if s ≠ [] ∧ s.all isDigit then some (natOfDigits s) else none

/-- FLAG register id: a decimal number (empty = 0), denoted by its canonical numeral -/
def flagId? (s : Bytes) : Option Bytes :=
  if s = [] then some (digitsOf 0) else (digitsVal? s).map digitsOf

/-! ## what a message describes -/

def colorOf (c : Color) : Option ColorE :=
  match c.rgb, c.index with
  | some rgb, _ => some (.rgb (level2 rgb.red) (level2 rgb.green) (level2 rgb.blue))
  | none, some i => some (.index i.toNat)
  | none, none => none

/-- colour of a text state: index 0 ("default") is the same as none -/
def textColorOf (c : Option Color) : Option ColorE :=
  match c with
  | none => none
  | some c => match colorOf c with
    | some (.index 0) => none
    | o => o

def textOf (t : Text) : TextE :=
  let sc : Scale := t.scale.getD {}
  let ts : TextStyle := t.textStyling.getD {}
  let tf : Font := ts.textFont.getD {}
  let hf : Font := ts.titleFont.getD {}
  { value := t.integerValue, format := t.formatting, stateIcon := t.stateIcon.toNat, modIcon := t.modifierIcon.toNat,
    title := t.title, solidBar := t.solidHeaderBar, line1 := t.textline1, line2 := t.textline2,
    value2 := t.integerValue2, pairMode := t.pairMode,
    scaleType := sc.scaleType, rangeLow := sc.rangeLow, rangeHigh := sc.rangeHigh, limitLow := sc.limitLow, limitHigh := sc.limitHigh,
    textFace := tf.face.toNat, titleFace := hf.face.toNat, fixedWidth := ts.fixedWidth,
    textW := tf.width, textH := tf.height, titleW := hf.width, titleH := hf.height,
    padding := ts.titleBarPadding, spacing := ts.extraSpacing, fontSize := ts.unformattedFontSize,
    inverted := t.inverted, pixelColor := textColorOf t.pixelColor, bgColor := textColorOf t.backgroundColor }

def gfxKindOf (t : Int) : GfxKind := if t = 1 then .rgb else if t = 2 then .gray else .mono

def gfxOf (g : Gfx) : GfxE :=
  { kind := gfxKindOf g.imageType, w := g.w, h := g.h, xy := if g.xyOffset then some (g.x, g.y) else none, data := g.imageData }

def opt {α : Type} (o : Option α) (f : α → List Effect) : List Effect :=
  match o with
  | some a => f a
  | none => []

def flagE (b : Bool) (c : CmdE) : List Effect := if b then [.cmd c] else []

def envOf (m : Int) : List Effect :=
  if m = 0 then [.cmd (.simulateEnv .normal)] else if m = 1 then [.cmd (.simulateEnv .safemode)]
  else if m = 2 then [.cmd (.simulateEnv .blocked)] else []

/-- an enum-valued argument is the number the enum field holds, read as unsigned 32 bits (protobuf enums are int32 on
the Go side; the ASCII argument is a `num`) -/
def enumArg (v : Int) : Nat := (v % 4294967296).toNat

def effectsOfCmd (c : Command) : List Effect :=
  flagE c.activatePanel .activatePanel ++ flagE c.sendPanelInfo .sendPanelInfo ++
  flagE c.reportHWCavailability .reportHWCavailability ++ flagE c.sendPanelTopology .sendPanelTopology ++
  flagE c.sendBurninProfile .sendBurninProfile ++ flagE c.sendCalibrationProfile .sendCalibrationProfile ++
  flagE c.sendNetworkConfig .sendNetworkConfig ++ flagE c.sendRegisters .sendRegisters ++
  flagE c.getConnections .getConnections ++ flagE c.getRunTimeStats .getRunTimeStats ++
  flagE c.clearAll .clearAll ++ flagE c.clearLEDs .clearLEDs ++ flagE c.clearDisplays .clearDisplays ++
  flagE c.getSleepTimeout .getSleepTimeout ++ flagE c.wakeUp .wakeUp ++ flagE c.reboot .reboot ++
  opt c.panelBrightness (fun p => [.cmd (.brightness p.1 p.2)]) ++
  opt c.setCalibrationProfile (fun j => [.cmd (.setCalibrationProfile (normPayload j))]) ++
  opt c.setNetworkConfig (fun n => [.cmd (.setNetworkConfig n)]) ++
  opt c.simulateEnvironmentalHealth envOf ++
  opt c.setSleepTimeout (fun v => [.cmd (.sleepTimer v)]) ++
  opt c.setSleepMode (fun v => [.cmd (.sleepMode (enumArg v))]) ++
  opt c.setSleepScreenSaver (fun v => [.cmd (.sleepScreenSaver (enumArg v))]) ++
  opt c.setDimmedGain (fun v => [.cmd (.dimmedGain v)]) ++
  opt c.setHeartBeatTimer (fun v => [.cmd (.heartBeatTimer v)]) ++
  opt c.publishSystemStat (fun v => [.cmd (.publishSystemStat v)]) ++
  opt c.loadCPU (fun v => [.cmd (.loadCPU (enumArg v))]) ++
  opt c.setWebserverEnabled (fun v => [.cmd (.webserver v)]) ++
  opt c.jsonConfig (fun v => [.cmd (.jsonOnOutbound v)])

/-- what one state record means for one of its component ids.  A text or graphics sub-message equal to the
all-default message is not representable in ASCII and carries no effect (an image with header fields but no data
is expressible as a line with empty base64 — the encoder never writes it, so it is outside C01's domain). -/
def effectsOfStateId (s : State) (id : Nat) : List Effect :=
  opt s.mode (fun m => [.setMode id { state := m.state.toNat, output := m.output, blink := m.blink }]) ++
  opt s.color (fun c => opt (colorOf c) (fun ce => [.setColor id ce])) ++
  opt s.ext (fun e => [.setExt id { interp := e.interp.toNat, value := e.value }]) ++
  opt s.text (fun t => if t = {} then [] else [.setText id (normText (textOf t))]) ++
  opt s.gfx (fun g => if g = {} then [] else [.setGfx id (gfxOf g)]) ++
  opt s.rawADC (fun on => [.setRawADC id on])

def effectsOfState (s : State) : List Effect := s.ids.flatMap (effectsOfStateId s)

def effectsOfReg (r : Register) : List Effect :=
  if r.reg = 0 then [.reg .mem r.id r.value]
  else if r.reg = 1 then (match flagId? r.id with | some n => [.reg .flag n (if r.value > 0 then 1 else 0)] | none => [])
  else if r.reg = 2 then [.reg .shift r.id r.value]
  else if r.reg = 3 then [.reg .state r.id r.value]
  else []

def effectsOfFlow (f : Int) : List Effect :=
  if f = 1 then [.flow .ping] else if f = 2 then [.flow .ack] else if f = 3 then [.flow .nack] else []

/-- **what an inbound message describes**: flow signal, commands, per-id states (every id of a state record gets the
record's effects, ids in order), register writes. -/
def effectsOfIn (m : InMsg) : List Effect :=
  effectsOfFlow m.flow ++ opt m.command effectsOfCmd ++ m.states.flatMap effectsOfState ++ m.registers.flatMap effectsOfReg

/-! ## the ASCII-representable domain (the quantifier of C01), decidable -/

def u32ok (n : Nat) : Bool := n < 4294967296
def i32ok (n : Int) : Bool := -2147483648 ≤ n && n ≤ 2147483647
def enumOk (n : Int) (hi : Int) : Bool := 0 ≤ n && n ≤ hi
def noBarLF (s : Bytes) : Bool := !s.contains 124 && !s.contains 10
def isUpperDigit (b : UInt8) : Bool := (65 ≤ b && b ≤ 90) || isDigit b

def colorOk (c : Color) : Bool :=
  match c.rgb, c.index with
  | some rgb, none => u32ok rgb.red && u32ok rgb.green && u32ok rgb.blue
  | none, some i => enumOk i 31
  | none, none => true
  | some _, some _ => false          -- "one of"

def fontOk (f : Option Font) : Bool :=
  match f with
  | some f => enumOk f.face 7 && f.width < 4 && f.height < 4
  | none => true

def textOk (t : Text) : Bool :=
  i32ok t.integerValue && enumOk t.formatting 12 && enumOk t.stateIcon 3 && enumOk t.modifierIcon 7 &&
  noBarLF t.title && noBarLF t.textline1 && noBarLF t.textline2 && i32ok t.integerValue2 && enumOk t.pairMode 4 &&
  (match t.scale with
   | some s => enumOk s.scaleType 3 && i32ok s.rangeLow && i32ok s.rangeHigh && i32ok s.limitLow && i32ok s.limitHigh
   | none => true) &&
  (match t.textStyling with
   | some ts => fontOk ts.textFont && fontOk ts.titleFont && ts.titleBarPadding < 4 && ts.extraSpacing < 8 &&
                u32ok ts.unformattedFontSize
   | none => true) &&
  (match t.pixelColor with | some c => colorOk c | none => true) &&
  (match t.backgroundColor with | some c => colorOk c | none => true) &&
  -- a second line / second value is shown only in a pair mode (Appendix B: pair mode ≥ 1 is implied by them)
  (is1011 t.formatting || !(t.textline2 != [] || t.integerValue2 != 0) || t.pairMode ≥ 1)

def gfxOk (g : Gfx) : Bool :=
  enumOk g.imageType 2 && u32ok g.w && u32ok g.h && u32ok g.x && u32ok g.y && g.imageData.length ≥ 1 &&
  u32ok g.imageData.length          -- line indices are protocol numerals (< 2^32)

def stateOk (s : State) : Bool :=
  s.ids.all u32ok &&
  (match s.mode with | some m => enumOk m.state 5 && m.blink < 16 | none => true) &&
  (match s.color with | some c => colorOk c | none => true) &&
  (match s.ext with | some e => enumOk e.interp 15 && e.value < 4096 | none => true) &&
  (match s.text with | some t => t = {} || textOk t | none => true) &&
  (match s.gfx with | some g => g = {} || gfxOk g | none => true) &&
  s.processors.isNone

def regOk (r : Register) : Bool :=
  enumOk r.reg 3 && u32ok r.value && (if r.reg = 1 then r.id.all isDigit else r.id.all isUpperDigit)

def optOk {α : Type} (o : Option α) (p : α → Bool) : Bool := match o with | some a => p a | none => true

def cmdOk (O : Oracles) (c : Command) : Bool :=
  optOk c.panelBrightness (fun p => u32ok p.1 && u32ok p.2) &&
  optOk c.setNetworkConfig (fun n => O.parseNet (O.netJson n) == some n && !(O.netJson n).contains 10) &&
  optOk c.simulateEnvironmentalHealth (fun e => enumOk e 2) &&
  optOk c.setSleepTimeout u32ok && optOk c.setSleepMode (fun e => enumOk e 2147483647) &&
  optOk c.setSleepScreenSaver (fun e => enumOk e 2147483647) && optOk c.setDimmedGain u32ok &&
  optOk c.setHeartBeatTimer u32ok && optOk c.publishSystemStat u32ok && optOk c.loadCPU (fun e => enumOk e 2147483647)

def msgOk (O : Oracles) (m : InMsg) : Bool :=
  enumOk m.flow 3 && optOk m.command (cmdOk O) && m.states.all stateOk && m.registers.all regOk

/-- **InDomainIn**: the messages of the ASCII-representable domain -/
def inDomainIn (O : Oracles) (ms : List InMsg) : Bool := ms.all (msgOk O)

/-! ## outside the representable domain: what the wire format can carry of a message (C01 `enc_sound_masked`)

The packed integers of the ASCII grammar have fixed widths: state 3 bits, blink mask 4, interpretation 4, value 12,
colour index 5, icons 2 + 3, font faces 3, font sizes 2, padding 2, spacing 3.  `maskMsg m` is the message whose
fields are reduced to what those widths carry (two's complement for signed fields: `x % 2^k` is the non-negative
remainder), with the other places where the ASCII form is coarser than the message made explicit:
* a colour with both alternatives set is an RGB colour ("one of": RGB is looked at first);
* a negative formatting / pair mode counts as 0 (only positive values are written), icons are written only if one of
  them is positive;
* a second line or second value without a pair mode implies pair mode 1;
* a scale without positive type is no scale; a non-default text record stays non-default (its `Scale` sub-message is
  made explicit: the wire distinguishes "no text line" from "a text line of defaults");
* an image without data is not carried at all;
* a negative `SleepMode` / `SleepScreenSaver` / `LoadCPU` argument is no `num`: the command is not carried.
`inWireDomain` asks only what is needed for the lines to be lines of the grammar at all: fields within the range of
their Go types where they are printed verbatim, strings free of `|` / LF, register ids in their alphabet, the oracle law
of `SetNetworkConfig`, no `Processors`. -/

def maskMode (m : Mode) : Mode := { state := m.state % 8, output := m.output, blink := m.blink % 16 }
def maskExt (e : Ext) : Ext := { interp := e.interp % 16, value := e.value % 4096 }

def maskColor (c : Color) : Color :=
  match c.rgb with
  | some rgb => { rgb := some rgb, index := none }
  | none => { rgb := none, index := c.index.map (fun i => i % 32) }

def maskFont (f : Font) : Font := { face := f.face % 8, height := f.height % 4, width := f.width % 4 }

def maskStyle (ts : TextStyle) : TextStyle :=
  { titleFont := ts.titleFont.map maskFont, textFont := ts.textFont.map maskFont, fixedWidth := ts.fixedWidth,
    titleBarPadding := ts.titleBarPadding % 4, extraSpacing := ts.extraSpacing % 8,
    unformattedFontSize := ts.unformattedFontSize }

def maskScale (s : Scale) : Scale := if s.scaleType > 0 then s else { s with scaleType := 0 }

def iconsOn (t : Text) : Bool := t.stateIcon > 0 || t.modifierIcon > 0
def secondPresent (t : Text) : Bool := t.textline2 != [] || t.integerValue2 != 0

def maskText (t : Text) : Text :=
  if t = {} then t else
  { integerValue := t.integerValue
    formatting := if t.formatting < 0 then 0 else t.formatting
    stateIcon := if iconsOn t then t.stateIcon % 4 else 0
    modifierIcon := if iconsOn t then t.modifierIcon % 8 else 0
    title := t.title, solidHeaderBar := t.solidHeaderBar, textline1 := t.textline1, textline2 := t.textline2
    integerValue2 := t.integerValue2
    pairMode := if secondPresent t && t.pairMode < 1 then 1 else if t.pairMode < 0 then 0 else t.pairMode
    scale := some (maskScale (t.scale.getD {}))
    textStyling := t.textStyling.map maskStyle
    inverted := t.inverted
    pixelColor := t.pixelColor.map maskColor
    backgroundColor := t.backgroundColor.map maskColor }

def maskGfx (g : Gfx) : Gfx := if g.imageData = [] then {} else g

def maskState (s : State) : State :=
  { s with mode := s.mode.map maskMode, color := s.color.map maskColor, ext := s.ext.map maskExt,
           text := s.text.map maskText, gfx := s.gfx.map maskGfx }

def nonNegArg (o : Option Int) : Option Int := match o with | some v => if 0 ≤ v then some v else none | none => none

def maskCmd (c : Command) : Command :=
  { c with setSleepMode := nonNegArg c.setSleepMode, setSleepScreenSaver := nonNegArg c.setSleepScreenSaver,
           loadCPU := nonNegArg c.loadCPU }

/-- **the message the wire format carries** -/
def maskMsg (m : InMsg) : InMsg := { m with command := m.command.map maskCmd, states := m.states.map maskState }

def textWire (t : Text) : Bool :=
  i32ok t.integerValue && i32ok t.formatting && noBarLF t.title && noBarLF t.textline1 && noBarLF t.textline2 &&
  i32ok t.integerValue2 && i32ok t.pairMode &&
  (match t.scale with
   | some s => i32ok s.scaleType && i32ok s.rangeLow && i32ok s.rangeHigh && i32ok s.limitLow && i32ok s.limitHigh
   | none => true) &&
  (match t.textStyling with | some ts => u32ok ts.unformattedFontSize | none => true)

def gfxWire (g : Gfx) : Bool := u32ok g.w && u32ok g.h && u32ok g.x && u32ok g.y && u32ok g.imageData.length

def stateWire (s : State) : Bool :=
  s.ids.all u32ok &&
  (match s.text with | some t => t = {} || textWire t | none => true) &&
  (match s.gfx with | some g => gfxWire g | none => true) &&
  s.processors.isNone

def regWire (r : Register) : Bool :=
  u32ok r.value && (if r.reg = 1 then r.id.all isDigit else r.id.all isUpperDigit)

def cmdWire (O : Oracles) (c : Command) : Bool :=
  optOk c.panelBrightness (fun p => u32ok p.1 && u32ok p.2) &&
  optOk c.setNetworkConfig (fun n => O.parseNet (O.netJson n) == some n && !(O.netJson n).contains 10) &&
  optOk c.setSleepTimeout u32ok && optOk c.setSleepMode i32ok && optOk c.setSleepScreenSaver i32ok &&
  optOk c.setDimmedGain u32ok && optOk c.setHeartBeatTimer u32ok && optOk c.publishSystemStat u32ok && optOk c.loadCPU i32ok

def msgWire (O : Oracles) (m : InMsg) : Bool :=
  optOk m.command (cmdWire O) && m.states.all stateWire && m.registers.all regWire

/-- the messages whose encoder output consists of grammar lines: no enum / bit-field range is asked -/
def inWireDomain (O : Oracles) (ms : List InMsg) : Bool := ms.all (msgWire O)

end RawPanelVerif.Spec.In
