/-!
# C07 — the property as executable predicates (independent of Model/)

* `oneLine o`            : the produced string contains no line feed
* `contentEq s o`        : `o` has exactly the non-white-space content of `s`, in order
                           (white space = Go/Unicode `IsSpace` runes in UTF-8; both strings are scanned forward
                           and every white-space rune is deleted before comparing)
* `framing lines`        : writing each string + LF and splitting the stream at LF recovers the strings
-/
namespace RawPanelVerif.Spec.Strip

abbrev Bytes := List UInt8

/-- length in bytes of the white-space rune at the head of `s` (0 = none) -/
def wsLen : Bytes → Nat
  | 9 :: _ => 1 | 10 :: _ => 1 | 11 :: _ => 1 | 12 :: _ => 1 | 13 :: _ => 1 | 32 :: _ => 1
  | 0xC2 :: 0x85 :: _ => 2
  | 0xC2 :: 0xA0 :: _ => 2
  | 0xE1 :: 0x9A :: 0x80 :: _ => 3
  | 0xE2 :: 0x80 :: b :: _ => if (0x80 ≤ b ∧ b ≤ 0x8A) ∨ b = 0xA8 ∨ b = 0xA9 ∨ b = 0xAF then 3 else 0
  | 0xE2 :: 0x81 :: 0x9F :: _ => 3
  | 0xE3 :: 0x80 :: 0x80 :: _ => 3
  | _ => 0

def content : (fuel : Nat) → Bytes → Bytes
  | 0, _ => []
  | _, [] => []
  | n+1, b :: r =>
    match wsLen (b :: r) with
    | 0 => b :: content n r
    | k => content n ((b :: r).drop k)

def contentOf (s : Bytes) : Bytes := content (s.length + 1) s

def oneLine (o : Bytes) : Bool := !o.contains 10
def contentEq (s o : Bytes) : Bool := contentOf s == contentOf o

/-- split a byte stream at LF -/
def splitLF : Bytes → List Bytes
  | [] => [[]]
  | c :: cs =>
    if c = 10 then [] :: splitLF cs
    else match splitLF cs with
      | [] => [[c]]
      | h :: t => (c :: h) :: t

def framing (lines : List Bytes) : Bool :=
  splitLF (lines.flatMap (fun l => l ++ [10])) == lines ++ [[]]

/-- payload record (JSON / message / SVG flattening): one line, content kept -/
def checkPayload (s o : Bytes) : Option String :=
  if !oneLine o then some "lf-in-output"
  else if !contentEq s o then some "content-lost"
  else none

/-- pass-through field record: every returned string is one line, framing works, and the strings equal those
produced for the same message with the field's line feeds already replaced by spaces -/
def checkField (outS outFlat : List Bytes) : Option String :=
  if outS.any (fun o => !oneLine o) then some "lf-in-output"
  else if !framing outS then some "framing"
  else if outS != outFlat then some "differs-from-flattened-field"
  else none

/-- wire record: `received` = the byte stream a panel in ASCII mode got from a writer, split at line feeds;
`produced` = the strings the encoder returned for the same messages. The property's stream clause: the produced
strings are single lines, they frame, and the panel's lines are exactly the produced strings. -/
def checkWire (received produced : List Bytes) : Option String :=
  if produced.any (fun o => !oneLine o) then some "lf-in-output"
  else if !framing produced then some "framing"
  else if received != produced then some "wire-differs-from-produced"
  else none

end RawPanelVerif.Spec.Strip
