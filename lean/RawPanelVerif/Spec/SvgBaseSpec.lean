import RawPanelVerif.Base.XmlTok
/-!
# C15 — "the generated document is well-formed XML that keeps the base document's content", at the level of tokens

Independent of `Model/`.  Everything here is said about token streams as `encoding/xml` delivers them
(`Base/XmlTok.lean`): the base document's, and the printed result's.

* `keepsContent base printed`  the content of the base — every token but white space: start tags with their names as
  written (prefix and local part) and all attributes in order, end tags, trimmed character data, comments, processing
  instructions, directives — occurs, in order, within the tokens of the printed document (`List.isSublist`).  The
  harness evaluates the same relation with `encoding/xml` on the real documents (`kept2`).
* `noDupAttrs printed`         no start tag of the printed document carries an attribute name twice (the part of
  "well-formed" that can fail when a tree is printed; the harness adds: tokenizes, one root, nothing outside it).
* `XmlDoc ts`                  what a well-formed document's token stream looks like beyond what `encoding/xml`
  enforces (it enforces matching tags): exactly one element at the top level, no character data outside it,
  directives only before it.  Domain of the statements about base documents.
* **Features of a base document** (`features`): the classes of valid documents on which the library is known NOT to
  keep the content (known findings, caused by the `go-xmldom` parse/print round trip); they only *name* the failing
  clause — whether a clause fails is decided on the implementation's output alone:
  * `comment`    there is a comment
  * `mixed`      non-blank character data that is not the last thing in its element: the next start tag, end tag or
                 character data after it (comments and processing instructions skipped) is not an end tag
  * `pfx`        an element or attribute name is written with a prefix (`xlink:href`, `xml:space`, `xmlns:xlink`, `s:svg`)
  * `pi`         a processing instruction that is not the first non-blank token of the document
  * `dup`        a start tag with two attributes of the same local name (`href` and `xlink:href`)
* `keepsContentMod base printed`  **content kept modulo the named features**: base and printed document are compared
  after deleting from BOTH exactly what the features above cover (`normal`): every comment; the prefix of every element
  and attribute name; every processing instruction when the base has one that is not its first token; every non-blank
  character data that is not the last thing in its element.  What remains of the base must occur, in order, in what
  remains of the printed document.  This is the part of "keeps the base document's content" that no known finding
  excuses: when it fails the clause is the plain `base-content`, whatever features the base has.  The harness evaluates
  the same relation with `encoding/xml` on the real documents (`keptMod`).
-/
namespace RawPanelVerif.Spec.SvgBase
open RawPanelVerif.Xml
open RawPanelVerif.Topo (Str)

/-- what is compared: every token but white space -/
def content (ts : List Tok) : List Tok := ts.filter (fun t => !t.isBlank)

/-- the content of the base occurs, in order, in the printed document -/
def keepsContent (base printed : List Tok) : Bool := (content base).isSublist (content printed)

def distinct : List Str → Bool
  | [] => true
  | a :: r => !r.contains a && distinct r

/-- the attribute names of a tag, as written: prefix and local part -/
def attrNames : Tok → List (Str × Str)
  | .start _ _ as => as.map (fun a => (a.1, a.2.1))
  | _ => []

def distinctP : List (Str × Str) → Bool
  | [] => true
  | a :: r => !r.contains a && distinctP r

/-- no attribute name twice in any start tag -/
def noDupAttrs (ts : List Tok) : Bool := ts.all (fun t => distinctP (attrNames t))

/-! ## the shape of a document -/

/-- `st` = the open elements (innermost first), `seen` = the top-level element has started -/
def docShape : List (Str × Str) → Bool → List Tok → Bool
  | [], seen, [] => seen
  | _ :: _, _, [] => false
  | [], seen, .start p l _ :: r => !seen && docShape [(p, l)] true r
  | o :: st, _, .start p l _ :: r => docShape ((p, l) :: o :: st) true r
  | [], _, .stop _ _ :: _ => false
  | o :: st, seen, .stop p l :: r => (o == (p, l)) && docShape st seen r
  | [], seen, .text s :: r => s.isEmpty && docShape [] seen r
  | o :: st, seen, .text _ :: r => docShape (o :: st) seen r
  | [], seen, .dir _ :: r => !seen && docShape [] seen r
  | _ :: _, _, .dir _ :: _ => false
  | st, seen, .comment _ :: r => docShape st seen r
  | st, seen, .pi _ _ :: r => docShape st seen r

/-- a document: matching tags, one top-level element, no character data outside it, directives only in the prolog,
and no attribute written twice in a tag -/
def XmlDoc (ts : List Tok) : Bool := docShape [] false ts && noDupAttrs ts

/-! ## features of the base -/

def hasComment (ts : List Tok) : Bool := ts.any Tok.isComment

def prefixed : Tok → Bool
  | .start p _ as => !p.isEmpty || as.any (fun a => !a.1.isEmpty)
  | .stop p _ => !p.isEmpty
  | _ => false

def hasPrefix (ts : List Tok) : Bool := ts.any prefixed

/-- a processing instruction anywhere but at the very front -/
def piMoved (ts : List Tok) : Bool := ((content ts).drop 1).any Tok.isPI

/-- start tag, end tag or character data (also blank) -/
def structural : Tok → Bool
  | .start .. => true
  | .stop .. => true
  | .text _ => true
  | _ => false

/-- the next structural token is an end tag -/
def closesNext (r : List Tok) : Bool := ((r.find? structural).map Tok.isStop).getD false

def mixedText : List Tok → Bool
  | [] => false
  | .text s :: r => (!s.isEmpty && !closesNext r) || mixedText r
  | _ :: r => mixedText r

def dupLocal : Tok → Bool
  | .start _ _ as => !distinct (as.map (fun a => a.2.1))
  | _ => false

def attrCollision (ts : List Tok) : Bool := ts.any dupLocal

structure Features where
  comment : Bool := false
  mixed : Bool := false
  pfx : Bool := false
  pi : Bool := false
  dup : Bool := false
deriving Repr, DecidableEq

def features (ts : List Tok) : Features :=
  { comment := hasComment ts, mixed := mixedText ts, pfx := hasPrefix ts, pi := piMoved ts, dup := attrCollision ts }

/-! ## content modulo the features -/

/-- a name's prefix is not compared -/
def unprefix : Tok → Tok
  | .start _ l as => .start [] l (as.map (fun a => ([], a.2.1, a.2.2)))
  | .stop _ l => .stop [] l
  | t => t

/-- comments deleted, processing instructions deleted when `dropPI`, character data that is not the last thing in
its element deleted (the judgement is made on the stream as it stands, comments and instructions skipped) -/
def dropCovered (dropPI : Bool) : List Tok → List Tok
  | [] => []
  | .comment _ :: r => dropCovered dropPI r
  | .pi t i :: r => if dropPI then dropCovered dropPI r else .pi t i :: dropCovered dropPI r
  | .text s :: r => if !s.isEmpty && !closesNext r then dropCovered dropPI r else .text s :: dropCovered dropPI r
  | t :: r => t :: dropCovered dropPI r

/-- the normal form of a token stream: what no named feature covers -/
def normal (dropPI : Bool) (ts : List Tok) : List Tok := (dropCovered dropPI ts).map unprefix

/-- the content of the base that no named feature covers occurs, in order, in the printed document's -/
def keepsContentMod (base printed : List Tok) : Bool :=
  (content (normal (piMoved base) base)).isSublist (content (normal (piMoved base) printed))

/-- none of the features that make the round trip lose content -/
def lossFree (ts : List Tok) : Bool := !hasComment ts && !mixedText ts && !hasPrefix ts && !piMoved ts

/-- the names the harness writes into the `F:` token of a record, in its order -/
def Features.names (f : Features) : List String :=
  (if f.comment then ["comment"] else []) ++ (if f.mixed then ["mixed-text"] else []) ++
  (if f.pfx then ["ns-prefix"] else []) ++ (if f.pi then ["pi"] else []) ++ (if f.dup then ["dup-attr"] else [])

/-- name of the clause "keeps the base document's content" when it fails on a base with these features -/
def contentClause (f : Features) : String :=
  if f.comment then "base-content:comment"
  else if f.mixed then "base-content:mixed-text"
  else if f.pfx then "base-content:ns-prefix"
  else if f.pi then "base-content:pi"
  else "base-content"

/-- name of the clause "well-formed XML" when it fails on a base with these features -/
def wellformedClause (f : Features) : String :=
  if f.dup then "not-wellformed:duplicate-attribute" else "wellformed"

end RawPanelVerif.Spec.SvgBase
