module vextract

go 1.19
