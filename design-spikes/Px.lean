/-! Spike for C16: the single write path `DrawPixel`. -/
namespace Px

structure Img where
  W : Nat
  H : Nat
  wib : Nat
  bx : Int
  by' : Int
  bw : Int
  bh : Int
  inv : Bool
  bytes : List (BitVec 8)

def Img.WF (g : Img) : Prop := g.W ≤ g.wib * 8 ∧ g.bytes.length = g.wib * g.H

def wMax (g : Img) : Int := if g.bw + g.bx > g.W then g.W else g.bw + g.bx
def hMax (g : Img) : Int := if g.bh + g.by' > g.H then g.H else g.bh + g.by'

def setBit (old : BitVec 8) (s : Nat) (on : Bool) : BitVec 8 :=
  if on then old ||| (1#8 <<< s) else old &&& ((1#8 <<< s) ^^^ 0xFF#8)

/-- Go `DrawPixel` as written in the pinned tree (no lower-bound guard). -/
def drawPixelRaw (g : Img) (x y : Int) (c : Bool) : Img :=
  let X := x + g.bx
  let Y := y + g.by'
  if X < wMax g ∧ Y < hMax g then
    let index : Int := Y * g.wib + X.tdiv 8
    if 0 ≤ index ∧ index < g.bytes.length then
      let s : Nat := (7 - X.tmod 8).toNat
      let i := index.toNat
      { g with bytes := g.bytes.set i (setBit (g.bytes.getD i 0) s (c != g.inv)) }
    else g
  else g

/-- with the lower-bound guard (intended repair). -/
def drawPixel (g : Img) (x y : Int) (c : Bool) : Img :=
  let X := x + g.bx
  let Y := y + g.by'
  if 0 ≤ X ∧ 0 ≤ Y ∧ X < wMax g ∧ Y < hMax g then
    let index : Int := Y * g.wib + X.tdiv 8
    if 0 ≤ index ∧ index < g.bytes.length then
      let s : Nat := (7 - X.tmod 8).toNat
      let i := index.toNat
      { g with bytes := g.bytes.set i (setBit (g.bytes.getD i 0) s (c != g.inv)) }
    else g
  else g

def getPx (g : Img) (X Y : Nat) : Bool := (g.bytes.getD (Y * g.wib + X / 8) 0).getLsbD (7 - X % 8)

/-- the defect: x = -8 on row 1 sets pixel (8,0) of a 16x2 canvas -/
def g0 : Img := { W := 16, H := 2, wib := 2, bx := 0, by' := 0, bw := 16, bh := 2, inv := false,
                  bytes := List.replicate 4 0 }
theorem raw_row_wrap : getPx (drawPixelRaw g0 (-8) 1 true) 8 0 = true := by decide
theorem guarded_no_wrap : getPx (drawPixel g0 (-8) 1 true) 8 0 = false := by decide

theorem setBit_get (b : BitVec 8) (s k : Nat) (hs : s < 8) (hk : k < 8) (on : Bool) :
    (setBit b s on).getLsbD k = (if k = s then on else b.getLsbD k) := by
  have : s = 0 ∨ s = 1 ∨ s = 2 ∨ s = 3 ∨ s = 4 ∨ s = 5 ∨ s = 6 ∨ s = 7 := by omega
  have : k = 0 ∨ k = 1 ∨ k = 2 ∨ k = 3 ∨ k = 4 ∨ k = 5 ∨ k = 6 ∨ k = 7 := by omega
  unfold setBit
  cases on <;>
  rcases ‹s = 0 ∨ _› with h|h|h|h|h|h|h|h <;> subst h <;>
  rcases ‹k = 0 ∨ _› with h|h|h|h|h|h|h|h <;> subst h <;> simp <;> bv_omega

theorem idx_inj (w y y' a a' : Nat) (ha : a < w) (ha' : a' < w) (h : y * w + a = y' * w + a') :
    y = y' ∧ a = a' := by
  have h1 : (y * w + a) / w = y := by
    rw [Nat.mul_comm, Nat.mul_add_div (by omega)]; simp [Nat.div_eq_of_lt ha]
  have h2 : (y' * w + a') / w = y' := by
    rw [Nat.mul_comm, Nat.mul_add_div (by omega)]; simp [Nat.div_eq_of_lt ha']
  have : y = y' := by rw [← h1, ← h2, h]
  subst this
  exact ⟨rfl, by omega⟩

def inClip (g : Img) (X Y : Int) : Prop := 0 ≤ X ∧ 0 ≤ Y ∧ X < wMax g ∧ Y < hMax g
instance (g : Img) (X Y : Int) : Decidable (inClip g X Y) := by unfold inClip; infer_instance

theorem wMax_le (g : Img) : wMax g ≤ g.W := by unfold wMax; split <;> omega
theorem hMax_le (g : Img) : hMax g ≤ g.H := by unfold hMax; split <;> omega

theorem drawPixel_len (g : Img) (x y : Int) (c : Bool) :
    (drawPixel g x y c).bytes.length = g.bytes.length := by
  unfold drawPixel; simp only []; split
  · split <;> simp
  · rfl

/-- Frame theorem: only the addressed, in-clip pixel changes (padding bits included in X' range). -/
theorem drawPixel_frame (g : Img) (hwf : g.WF) (x y : Int) (c : Bool) (X' Y' : Nat)
    (hX' : X' < g.wib * 8) (hY' : Y' < g.H) :
    getPx (drawPixel g x y c) X' Y' =
      if inClip g (x + g.bx) (y + g.by') ∧ (X' : Int) = x + g.bx ∧ (Y' : Int) = y + g.by'
      then (c != g.inv) else getPx g X' Y' := by
  obtain ⟨hw, hl⟩ := hwf
  unfold drawPixel
  simp only []
  by_cases hc : inClip g (x + g.bx) (y + g.by')
  · have hc' := hc
    obtain ⟨hX0, hY0, hXm, hYm⟩ := hc'
    have hcond : 0 ≤ x + g.bx ∧ 0 ≤ y + g.by' ∧ x + g.bx < wMax g ∧ y + g.by' < hMax g :=
      ⟨hX0, hY0, hXm, hYm⟩
    rw [if_pos hcond]
    generalize x + g.bx = Xi at *
    generalize y + g.by' = Yi at *
    obtain ⟨X, hX⟩ := Int.eq_ofNat_of_zero_le hX0
    obtain ⟨Y, hY⟩ := Int.eq_ofNat_of_zero_le hY0
    subst hX hY
    have hXW : X < g.W := by have := wMax_le g; omega
    have hYH : Y < g.H := by have := hMax_le g; omega
    have htd : (X : Int).tdiv 8 = ((X / 8 : Nat) : Int) := by
      rw [Int.tdiv_eq_ediv_of_nonneg (by omega)]; rfl
    have htm : (X : Int).tmod 8 = ((X % 8 : Nat) : Int) := by
      rw [Int.tmod_eq_emod_of_nonneg (by omega)]; rfl
    have hidx : (Y : Int) * g.wib + (X:Int).tdiv 8 = ((Y * g.wib + X / 8 : Nat) : Int) := by
      rw [htd]; simp
    have hX8 : X / 8 < g.wib := by omega
    have hlt : Y * g.wib + X / 8 < g.bytes.length := by
      rw [hl]
      calc Y * g.wib + X / 8 < Y * g.wib + g.wib := by omega
        _ = (Y + 1) * g.wib := by rw [Nat.add_mul]; simp
        _ ≤ g.H * g.wib := Nat.mul_le_mul_right _ (by omega)
        _ = g.wib * g.H := Nat.mul_comm _ _
    rw [hidx]
    have hin : (0:Int) ≤ ((Y * g.wib + X / 8 : Nat) : Int) ∧
        ((Y * g.wib + X / 8 : Nat) : Int) < (g.bytes.length : Int) := by
      constructor <;> omega
    rw [if_pos hin]
    simp only [Int.toNat_natCast, hc, true_and]
    rw [htm]
    have hs : (7 - ((X % 8 : Nat) : Int)).toNat = 7 - X % 8 := by omega
    rw [hs]
    unfold getPx
    simp only []
    by_cases hsame : Y' * g.wib + X' / 8 = Y * g.wib + X / 8
    · have hX'8 : X' / 8 < g.wib := by omega
      obtain ⟨hyy, hxx⟩ := idx_inj g.wib Y' Y (X'/8) (X/8) hX'8 hX8 hsame
      subst hyy
      rw [hsame, List.getD_eq_getElem?_getD, List.getElem?_set_self hlt]
      simp only [Option.getD_some]
      rw [setBit_get _ _ _ (by omega) (by omega)]
      by_cases hbit : X' % 8 = X % 8
      · have : X' = X := by omega
        subst this; simp
      · have h1 : ¬ (7 - X' % 8 = 7 - X % 8) := by omega
        have h2 : ¬ ((X':Int) = X) := by omega
        simp [h1, h2, List.getD_eq_getElem?_getD]
    · have hne : ¬ ((X':Int) = X ∧ (Y':Int) = Y) := by
        rintro ⟨h1, h2⟩
        have : X' = X := by omega
        have : Y' = Y := by omega
        subst_vars; exact hsame rfl
      rw [if_neg hne, List.getD_eq_getElem?_getD, List.getElem?_set_ne (Ne.symm hsame),
        ← List.getD_eq_getElem?_getD]
  · have hcond : ¬ (0 ≤ x + g.bx ∧ 0 ≤ y + g.by' ∧ x + g.bx < wMax g ∧ y + g.by' < hMax g) := hc
    rw [if_neg hcond]; simp [hc]

#print axioms drawPixel_frame
#print axioms raw_row_wrap
end Px
