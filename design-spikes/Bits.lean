namespace Bits
def encX (value interp : Nat) : Nat := (value &&& 0xFFF) ||| ((interp &&& 0xF) <<< 12)
def decX (v : Nat) : Nat × Nat := ((v >>> 12) &&& 0xF, v &&& 0xFFF)

theorem mask12 (v : Nat) : v &&& 0xFFF = v % 4096 := Nat.and_two_pow_sub_one_eq_mod v 12
theorem mask4 (v : Nat) : v &&& 0xF = v % 16 := Nat.and_two_pow_sub_one_eq_mod v 4
theorem or_shl (a b k : Nat) (h : a < 2^k) : a ||| (b <<< k) = b * 2^k + a := by
  rw [Nat.or_comm, ← Nat.shiftLeft_add_eq_or_of_lt h, Nat.shiftLeft_eq]

theorem decX_encX (value interp : Nat) :
    decX (encX value interp) = (interp % 16, value % 4096) := by
  unfold decX encX
  rw [mask12, mask4, or_shl _ _ 12 (by omega), mask4, mask12, Nat.shiftRight_eq_div_pow]
  apply Prod.ext <;> simp <;> omega
end Bits
