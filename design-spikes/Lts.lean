/-! Spike: lifecycle LTS of ConnectToPanel (callbacks, exit flag, wait group) -/
namespace Lts

inductive Phase | dial | wait | conn | tear | sleep | ret
  deriving DecidableEq, Repr
inductive WSt | spawned | running | exited
  deriving DecidableEq, Repr
inductive Cb | connect | disconnect (cancelled : Bool)
  deriving DecidableEq, Repr

structure Conn where
  w : WSt
  quit : Bool
  exit : Bool
  closed : Bool
  deriving DecidableEq, Repr

structure St where
  phase : Phase
  conns : List Conn      -- head = current connection
  cancelled : Bool
  wg : Int
  cbs : List Cb          -- newest first
  deriving DecidableEq, Repr

def init : St := ⟨.dial, [], false, 1, []⟩   -- wg.Add(1) at entry

inductive Lbl
  | cancel | dialFail | dialOk | waitTimer | waitCancel
  | writerStart (i : Nat) | writerCancel (i : Nat) | writerQuit (i : Nat)
  | readerFail | teardown | sleepDone
  deriving DecidableEq, Repr

def updConn (cs : List Conn) (i : Nat) (f : Conn → Conn) : List Conn :=
  match cs[i]? with
  | some c => cs.set i (f c)
  | none => cs

/-- `addEarly = true` models the repaired code (wg.Add before `go`). -/
def step (addEarly : Bool) (s : St) : Lbl → Option St
  | .cancel => some { s with cancelled := true }
  | .dialFail => if s.phase = .dial then some { s with phase := .wait } else none
  | .waitTimer => if s.phase = .wait then some { s with phase := .dial } else none
  | .waitCancel => if s.phase = .wait ∧ s.cancelled then some { s with phase := .ret, wg := s.wg - 1 } else none
  | .dialOk =>
      if s.phase = .dial then
        some { s with phase := .conn, conns := ⟨.spawned, false, false, false⟩ :: s.conns,
                      wg := if addEarly then s.wg + 1 else s.wg,
                      cbs := .connect :: s.cbs }
      else none
  | .writerStart i =>
      match s.conns[i]? with
      | some c => if c.w = .spawned then
          some { s with conns := s.conns.set i { c with w := .running }, wg := if addEarly then s.wg else s.wg + 1 }
        else none
      | none => none
  | .writerCancel i =>
      match s.conns[i]? with
      | some c => if c.w = .running ∧ s.cancelled then
          some { s with conns := s.conns.set i { c with w := .exited, exit := true, closed := true }, wg := s.wg - 1 }
        else none
      | none => none
  | .writerQuit i =>
      match s.conns[i]? with
      | some c => if c.w = .running ∧ c.quit then
          some { s with conns := s.conns.set i { c with w := .exited }, wg := s.wg - 1 }
        else none
      | none => none
  | .readerFail => if s.phase = .conn then some { s with phase := .tear } else none
  | .teardown =>
      if s.phase = .tear then
        match s.conns with
        | c :: rest =>
          let c' := { c with quit := true, closed := true }
          if c.exit then some { s with phase := .ret, conns := c' :: rest, wg := s.wg - 1, cbs := .disconnect true :: s.cbs }
          else some { s with phase := .sleep, conns := c' :: rest, cbs := .disconnect false :: s.cbs }
        | [] => none
      else none
  | .sleepDone => if s.phase = .sleep then some { s with phase := .dial } else none

def run (addEarly : Bool) (s : St) : List Lbl → Option St
  | [] => some s
  | l :: ls => (step addEarly s l).bind (fun s' => run addEarly s' ls)

/-- the property clause: when the call has returned and the wait group has drained, no writer goroutine is unfinished -/
def drainedOK (s : St) : Bool := !(s.phase = .ret ∧ s.wg = 0) || s.conns.all (fun c => c.w = .exited)

-- current code: a writer that starts late is not counted
def badTrace : List Lbl := [.dialOk, .readerFail, .teardown, .sleepDone, .dialOk, .writerStart 0, .cancel, .writerCancel 0, .readerFail, .teardown]
theorem late_add_counterexample : (run false init badTrace).map drainedOK = some false := by decide
theorem late_add_fixed_on_trace : (run true init badTrace).map drainedOK = some true := by decide

/-! Invariant for the callbacks clause, all executions -/
def alt : List Cb → Bool        -- newest first; must alternate and start (oldest) with connect
  | [] => true
  | [.connect] => true
  | .connect :: .disconnect b :: r => alt (.disconnect b :: r)
  | .disconnect _ :: .connect :: r => alt (.connect :: r)
  | _ => false

def Inv (s : St) : Prop :=
  alt s.cbs = true ∧
  ((s.phase = .conn ∨ s.phase = .tear) → s.cbs.head? = some .connect) ∧
  ((s.phase = .dial ∨ s.phase = .wait ∨ s.phase = .sleep) → (s.cbs = [] ∨ ∃ r, s.cbs = .disconnect false :: r)) ∧
  (∀ r, s.cbs = .disconnect true :: r → s.cancelled = true ∧ s.phase = .ret) ∧
  (∀ c ∈ s.conns, c.exit = true → s.cancelled = true) ∧
  ((s.phase = .tear ∨ s.phase = .conn) → s.conns ≠ [])

theorem inv_init : Inv init := by
  refine ⟨rfl, ?_, ?_, ?_, ?_, ?_⟩ <;> simp [init]

theorem alt_connect_cons (r : List Cb) (h : alt r = true) (h2 : r = [] ∨ ∃ t, r = .disconnect false :: t) :
    alt (.connect :: r) = true := by
  rcases h2 with h2 | ⟨t, h2⟩ <;> subst h2 <;> simp_all [alt]

theorem alt_disc_cons (b : Bool) (r : List Cb) (h : alt r = true) (h2 : r.head? = some .connect) :
    alt (.disconnect b :: r) = true := by
  cases r with
  | nil => simp at h2
  | cons x t => simp at h2; subst h2; simpa [alt] using h

theorem mem_set_conn {cs : List Conn} {i : Nat} {c d : Conn} (h : d ∈ cs.set i c) : d = c ∨ d ∈ cs := by
  rcases List.mem_or_eq_of_mem_set h with h | h
  · exact Or.inr h
  · exact Or.inl h

theorem inv_step (ae : Bool) (s s' : St) (l : Lbl) (hi : Inv s) (hs : step ae s l = some s') : Inv s' := by
  obtain ⟨h1, h2, h3, h4, h5, h6⟩ := hi
  cases l with
  | cancel =>
    simp [step] at hs; subst hs
    exact ⟨h1, h2, h3, fun r hr => ⟨rfl, (h4 r hr).2⟩, fun c hc he => rfl, h6⟩
  | dialFail =>
    simp [step] at hs; obtain ⟨hp, hs⟩ := hs; subst hs
    refine ⟨h1, by simp, fun _ => h3 (Or.inl hp), fun r hr => ?_, h5, by simp⟩
    have := h4 r hr; simp_all
  | waitTimer =>
    simp [step] at hs; obtain ⟨hp, hs⟩ := hs; subst hs
    refine ⟨h1, by simp, fun _ => h3 (Or.inr (Or.inl hp)), fun r hr => ?_, h5, by simp⟩
    have := h4 r hr; simp_all
  | sleepDone =>
    simp [step] at hs; obtain ⟨hp, hs⟩ := hs; subst hs
    refine ⟨h1, by simp, fun _ => h3 (Or.inr (Or.inr hp)), fun r hr => ?_, h5, by simp⟩
    have := h4 r hr; simp_all
  | waitCancel =>
    simp [step] at hs; obtain ⟨⟨hp, hc⟩, hs⟩ := hs; subst hs
    refine ⟨h1, by simp, by simp, fun r hr => ⟨hc, rfl⟩, h5, by simp⟩
  | readerFail =>
    simp [step] at hs; obtain ⟨hp, hs⟩ := hs; subst hs
    refine ⟨h1, fun _ => h2 (Or.inl hp), by simp, fun r hr => ?_, h5, fun _ => h6 (Or.inr hp)⟩
    have := h4 r hr; simp_all
  | dialOk =>
    simp [step] at hs; obtain ⟨hp, hs⟩ := hs; subst hs
    refine ⟨alt_connect_cons _ h1 (h3 (Or.inl hp)), by simp, by simp, by simp, ?_, by simp⟩
    intro c hc he
    simp at hc
    rcases hc with hc | hc
    · subst hc; simp at he
    · exact h5 c hc he
  | writerStart i =>
    simp only [step] at hs
    split at hs
    · rename_i c hc
      split at hs
      · simp at hs; subst hs
        refine ⟨h1, h2, h3, h4, ?_, ?_⟩
        · intro d hd he
          rcases mem_set_conn hd with hd | hd
          · subst hd; exact h5 c (List.mem_of_getElem? hc) he
          · exact h5 d hd he
        · intro hp; have := h6 hp; intro hnil; apply this
          have := congrArg List.length hnil; simp at this; exact this
      · simp at hs
    · simp at hs
  | writerCancel i =>
    simp only [step] at hs
    split at hs
    · rename_i c hc
      split at hs
      · rename_i hcond
        simp at hs; subst hs
        refine ⟨h1, h2, h3, h4, ?_, ?_⟩
        · intro d hd he
          rcases mem_set_conn hd with hd | hd
          · exact hcond.2
          · exact h5 d hd he
        · intro hp; have := h6 hp; intro hnil; apply this
          have := congrArg List.length hnil; simp at this; exact this
      · simp at hs
    · simp at hs
  | writerQuit i =>
    simp only [step] at hs
    split at hs
    · rename_i c hc
      split at hs
      · simp at hs; subst hs
        refine ⟨h1, h2, h3, h4, ?_, ?_⟩
        · intro d hd he
          rcases mem_set_conn hd with hd | hd
          · subst hd; exact h5 c (List.mem_of_getElem? hc) he
          · exact h5 d hd he
        · intro hp; have := h6 hp; intro hnil; apply this
          have := congrArg List.length hnil; simp at this; exact this
      · simp at hs
    · simp at hs
  | teardown =>
    simp only [step] at hs
    split at hs
    · rename_i hp
      split at hs
      · rename_i c rest hcs
        have hhead := h2 (Or.inr hp)
        split at hs
        · rename_i hex
          simp at hs; subst hs
          have hcanc : s.cancelled = true := h5 c (by rw [hcs]; simp) hex
          refine ⟨alt_disc_cons _ _ h1 hhead, by simp, by simp, fun r hr => ⟨hcanc, rfl⟩, ?_, by simp⟩
          intro d hd he
          simp at hd
          rcases hd with hd | hd
          · subst hd; exact hcanc
          · exact h5 d (by rw [hcs]; simp [hd]) he
        · rename_i hex
          simp at hs; subst hs
          refine ⟨alt_disc_cons _ _ h1 hhead, by simp, by simp, by simp, ?_, by simp⟩
          intro d hd he
          simp at hd
          rcases hd with hd | hd
          · subst hd; simp at he; exact absurd he hex
          · exact h5 d (by rw [hcs]; simp [hd]) he
      · simp at hs
    · simp at hs

theorem inv_run (ae : Bool) (ls : List Lbl) : ∀ s0 s, Inv s0 → run ae s0 ls = some s → Inv s := by
  induction ls with
  | nil => intro s0 s h0 hr; simp [run] at hr; subst hr; exact h0
  | cons l ls ih =>
    intro s0 s h0 hr
    simp only [run] at hr
    cases hst : step ae s0 l with
    | none => simp [hst] at hr
    | some s1 => simp [hst] at hr; exact ih s1 s (inv_step ae s0 s1 l h0 hst) hr

theorem inv_reachable (ae : Bool) (ls : List Lbl) (s : St) (h : run ae init ls = some s) : Inv s :=
  inv_run ae ls init s inv_init h

/-- property clauses as corollaries, for every execution of either version -/
theorem callbacks_alternate (ae : Bool) (ls : List Lbl) (s : St) (h : run ae init ls = some s) : alt s.cbs = true :=
  (inv_reachable ae ls s h).1
theorem cancelled_disconnect_only_after_cancel_and_final (ae : Bool) (ls : List Lbl) (s : St)
    (h : run ae init ls = some s) (r : List Cb) (hr : s.cbs = .disconnect true :: r) :
    s.cancelled = true ∧ s.phase = .ret :=
  (inv_reachable ae ls s h).2.2.2.1 r hr
#print axioms callbacks_alternate
#print axioms late_add_counterexample
end Lts
