/-! Spike for C01: `|`-join with trailing-empty trimming, re-split recovers every field. -/
namespace Sp
abbrev Bytes := List UInt8

def splitOn (sep : UInt8) : Bytes → List Bytes
  | [] => [[]]
  | c :: cs =>
    if c = sep then [] :: splitOn sep cs
    else match splitOn sep cs with
      | [] => [[c]]
      | h :: t => (c :: h) :: t

def join (sep : UInt8) : List Bytes → Bytes
  | [] => []
  | [f] => f
  | f :: g :: fs => f ++ sep :: join sep (g :: fs)

theorem splitOn_nosep (sep : UInt8) (f : Bytes) (h : sep ∉ f) : splitOn sep f = [f] := by
  induction f with
  | nil => rfl
  | cons c cs ih =>
    have hc : c ≠ sep := by intro e; apply h; simp [e]
    have hcs : sep ∉ cs := by intro e; apply h; simp [e]
    simp [splitOn, hc, ih hcs]

theorem splitOn_append_sep (sep : UInt8) (f rest : Bytes) (h : sep ∉ f) :
    splitOn sep (f ++ sep :: rest) = f :: splitOn sep rest := by
  induction f with
  | nil => simp [splitOn]
  | cons c cs ih =>
    have hc : c ≠ sep := by intro e; apply h; simp [e]
    have hcs : sep ∉ cs := by intro e; apply h; simp [e]
    simp [splitOn, hc, ih hcs]

theorem splitOn_join (sep : UInt8) (fs : List Bytes) (hne : fs ≠ []) (h : ∀ f ∈ fs, sep ∉ f) :
    splitOn sep (join sep fs) = fs := by
  induction fs with
  | nil => exact absurd rfl hne
  | cons f rest ih =>
    cases rest with
    | nil => simpa [join] using splitOn_nosep sep f (h f (by simp))
    | cons g gs =>
      simp only [join]
      rw [splitOn_append_sep sep f _ (h f (by simp))]
      rw [ih (by simp) (fun x hx => h x (by simp [hx]))]

/-- Go: su.StringImplodeRemoveTrailingEmpty (the list part) -/
def dropTE : List Bytes → List Bytes
  | [] => []
  | f :: fs => if dropTE fs = [] ∧ f = [] then [] else f :: dropTE fs
def implodeRTE (sep : UInt8) (fs : List Bytes) : Bytes := join sep (dropTE fs)
/-- Go: su.IndexValueToString -/
def idxStr (fs : List Bytes) (i : Nat) : Bytes := fs.getD i []

theorem idx_dropTE (fs : List Bytes) (i : Nat) : idxStr (dropTE fs) i = idxStr fs i := by
  unfold idxStr
  induction fs generalizing i with
  | nil => simp [dropTE]
  | cons f fs ih =>
    unfold dropTE
    split
    · rename_i h
      obtain ⟨h1, h2⟩ := h
      subst h2
      cases i with
      | zero => simp
      | succ j =>
        have := ih j
        rw [h1] at this
        simpa using this
    · cases i with
      | zero => simp
      | succ j => simpa using ih j

theorem mem_dropTE (fs : List Bytes) (f : Bytes) (h : f ∈ dropTE fs) : f ∈ fs := by
  induction fs with
  | nil => simp [dropTE] at h
  | cons g gs ih =>
    unfold dropTE at h
    split at h
    · simp at h
    · simp at h ⊢
      rcases h with h | h
      · exact Or.inl h
      · exact Or.inr (ih h)

/-- every field (any count, any presence pattern) is read back from the trimmed join -/
theorem text_fields (sep : UInt8) (fs : List Bytes) (h : ∀ f ∈ fs, sep ∉ f) (i : Nat) :
    idxStr (splitOn sep (implodeRTE sep fs)) i = idxStr fs i := by
  unfold implodeRTE
  by_cases hd : dropTE fs = []
  · have := idx_dropTE fs i
    rw [hd] at this ⊢
    simp [join, splitOn, idxStr] at this ⊢
    cases i <;> simp_all
  · rw [splitOn_join sep _ hd]
    · exact idx_dropTE fs i
    · intro f hf
      exact h f (mem_dropTE fs f hf)

#print axioms text_fields
end Sp
