#!/bin/sh
# leancheck.sh: independent re-check of the compiled property modules with Lean's leanchecker (not part of ./check;
# run after `./setup.sh` or any check). Exit 0 iff every Props module re-checks.
cd "$(dirname "$0")/../lean" || exit 2
RC=0
for i in 01 02 03 04 05 06 07 08 09 10 11 12 13 14 15 16 17 18 19 20; do
  if lake env leanchecker RawPanelVerif.Props.C$i >/dev/null 2>&1; then echo "C$i ok"; else echo "C$i FAILED"; RC=1; fi
done
exit $RC
