from props import CLAIMS
NOT_YET = {}
