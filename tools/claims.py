"""What MANIFEST.json claims per property (text kept next to the code so it stays true)."""
TB = "Trusted: Lean kernel (axioms propext, Classical.choice, Quot.sound only, audited per theorem), the correspondence check (sampled unless stated exhaustive), the harness printers and Lean driver runtime, the extractor for regenerated tables. "
CLAIMS = {
 "C16": dict(
   text="Lean theorems C16.step_holds / all_steps_hold: for every canvas size, bounding box, inversion flag and every sequence of operations with arbitrary integer arguments, each step keeps the buffer size, leaves every stored bit (padding included) outside clip ∩ footprint unchanged, and pixels/lines/filled rectangles set exactly the clipped footprint. The statement is the executable predicate Spec.Mono.check, which the run also evaluates on the real library's before/after buffers; model = code is checked by running both on generated operation sessions.",
   note=TB + "Go int taken as unbounded (no 64-bit overflow).",
   technique="Lean 4 proof (frame/paint calculus over DrawPixel, induction over loops and operation lists) + model/implementation correspondence"),
}
NOT_YET = {}
