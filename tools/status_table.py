#!/usr/bin/env python3
"""status_table.py: markdown table of what is audited and run per property, from Audit/Cxx.lean and evidence/Cxx.json."""
import json, re, os
V = "/verif"
print("| id | audited theorems | quick-tier records (last run) | theorem names (Audit/Cxx.lean) |\n|---|---|---|---|")
for i in range(1, 21):
    pid = f"C{i:02d}"
    names = re.findall(r"^#print axioms\s+(\S+)", open(f"{V}/lean/RawPanelVerif/Audit/{pid}.lean").read(), re.M)
    ev = {}
    try: ev = json.load(open(f"{V}/evidence/{pid}.json"))
    except Exception: pass
    cov = ev.get("coverage", {})
    print(f"| {pid} | {len(names)} | {cov.get('evaluations','?')} ({ev.get('tier','?')}) | " + ", ".join(f"`{n.split('.')[-1]}`" for n in names) + " |")
