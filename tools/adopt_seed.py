#!/usr/bin/env python3
"""adopt_seed.py <Cxx> <k> <name> <demo-dest-relpath> <go test pkg> [-run regex]
Confirms a seeded change myself in the seeder's scratch worktree ($SEED_ROOT/Cxx/repo, default /tmp/seed): applies, builds, runs the pinned
suite, runs the demonstration with and without the change; then runs my check against it in /repo (apply, check, undo)
and stores everything under /verif/seeded/<name>/."""
import json, os, shutil, subprocess, sys
pid, k, name, dest, pkg = sys.argv[1:6]
run = sys.argv[7] if len(sys.argv) > 7 and sys.argv[6] == "-run" else "Demo"
ROOT = os.environ.get("SEED_ROOT", "/tmp/seed")
src = f"{ROOT}/{pid}/out/{k}"
wt = f"{ROOT}/{pid}/repo"
env = dict(os.environ, GOFLAGS="-mod=mod", GOPROXY="off", GOSUMDB="off", GOTOOLCHAIN="local")
def sh(cmd, cwd=wt):
    p = subprocess.run(cmd, shell=True, cwd=cwd, env=env, stdout=subprocess.PIPE, stderr=subprocess.STDOUT, text=True, errors="replace")
    return p.returncode, p.stdout
def clean():
    sh("git checkout -- . && git clean -fdq")
clean()
log = {}
demo = [f for f in os.listdir(src) if f.endswith(".go")]
demo_src = os.path.join(src, demo[0]) if demo else None
rc, out = sh(f"git apply {src}/patch.diff"); assert rc == 0, out
rc, out = sh("go build . ./ibeam_lib_monogfx ./topology ./gorwp"); log["build_with_change"] = rc
rc, out = sh("go test -vet=off -count=1 ."); log["suite_with_change"] = out.strip().splitlines()[-1]
os.makedirs(os.path.dirname(os.path.join(wt, dest)), exist_ok=True)
shutil.copy(demo_src, os.path.join(wt, dest))
rc, out = sh(f"go test -vet=off -count=1 -run '{run}' {pkg}"); log["demo_with_change_rc"] = rc; log["demo_with_change_tail"] = out.strip().splitlines()[-6:]
sh(f"git apply -R {src}/patch.diff")
rc, out = sh(f"go test -vet=off -count=1 -run '{run}' {pkg}"); log["demo_without_change_rc"] = rc; log["demo_without_change_tail"] = out.strip().splitlines()[-2:]
clean()
ok = log["build_with_change"] == 0 and log["suite_with_change"].startswith("ok") and log["demo_with_change_rc"] != 0 and log["demo_without_change_rc"] == 0
log["confirmed"] = ok
# my checks against it
checks = {}
for tier in ["quick"]:
    p = subprocess.run(f"/verif/tools/run_seeded.sh {src}/patch.diff {pid} {tier}", shell=True, stdout=subprocess.PIPE, stderr=subprocess.STDOUT, text=True, errors="replace")
    checks[tier] = {"exit": p.returncode, "lines": [l for l in p.stdout.splitlines() if l.startswith(("VIOLATION", "[", "exit"))][:4]}
log["my_check"] = checks
meta = json.load(open(os.path.join(src, "meta.json")))
out_dir = f"/verif/seeded/{name}"
os.makedirs(out_dir, exist_ok=True)
shutil.copy(f"{src}/patch.diff", out_dir)
shutil.copy(demo_src, out_dir)
meta_out = {"property": pid, "summary": meta.get("summary"), "needs": meta.get("needs"), "clause": meta.get("clause"),
            "demo": {"file": os.path.basename(demo_src), "place_at": dest, "run": f"go test -vet=off -count=1 -run '{run}' {pkg}"},
            "confirmed_by_me": log, "caught_by_check": checks["quick"]["exit"] == 1}
json.dump(meta_out, open(f"{out_dir}/meta.json", "w"), indent=1)
print(name, "confirmed" if ok else "NOT CONFIRMED", "| caught" if meta_out["caught_by_check"] else "| MISSED", checks["quick"]["lines"][:2])
