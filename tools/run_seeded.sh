#!/bin/sh
# run_seeded.sh <patch.diff> <Cxx> [tier]: apply a seeded change to /repo, run the property's check, undo it.
P="$1"; ID="$2"; T="${3:-quick}"
cd /repo || exit 2
if ! git apply --check "$P" 2>/dev/null; then echo "patch does not apply: $P"; exit 3; fi
git apply "$P"
cd /verif && ./check "$ID" "$T" > /tmp/seeded_run.$$ 2>&1; RC=$?
grep -E "^VIOLATION|^\[" /tmp/seeded_run.$$ | head -6
rm -f /tmp/seeded_run.$$
git -C /repo checkout -- . && git -C /repo clean -fdq -e rawpanel-lib-c/rawpanel-lib-c
echo "exit=$RC"
exit $RC
