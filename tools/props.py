"""Per-property configuration: one module per property under tools/propcfg/ (PROP = run config, CLAIM = manifest text)."""
import importlib, os, pkgutil, sys
sys.path.insert(0, os.path.dirname(os.path.abspath(__file__)))
import propcfg
PROPS, CLAIMS = {}, {}
for mi in pkgutil.iter_modules(propcfg.__path__):
    mod = importlib.import_module("propcfg." + mi.name)
    if hasattr(mod, "PROP"):
        PROPS[mi.name] = mod.PROP
    if hasattr(mod, "CLAIM"):
        CLAIMS[mi.name] = mod.CLAIM
