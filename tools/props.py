"""Per-property configuration for tools/verif.py."""

def mono_nontrivial(cmd, inp, impl, prev):
    return prev is not None and impl != prev

PROPS = {
    "C16": dict(
        family="c16", session_start={"mono.new"}, trivial=mono_nontrivial,
        n=dict(quick=700, thorough=6000),
        exhaustive=dict(quick=False, thorough=False),
        rule="sessions of 8-24 random drawing/geometry/text operations on canvases 0..64x0..64 (thorough: every "
             "size once, then random), coordinates in a window 3 canvas sizes beyond every edge; a record is "
             "non-trivial when the operation changed the implementation's buffer; distinct = distinct record text",
        trusted_base=["Go int modelled as unbounded Int (no 64-bit overflow in the explored/proved domain)"],
        assumptions=["coordinates and sizes small enough that Go int arithmetic does not overflow"],
    ),
}
