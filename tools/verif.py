#!/usr/bin/env python3
"""Orchestrator: ./check <Cxx> <quick|thorough> [--replay file]

1. regenerate Gen/*.lean from /repo (extractor), 2. build the property's theorems + audit + driver,
3. build the Go harness against /repo (-tags verif), run generators, run the driver,
4. decide (see DESIGN.md section 4), write evidence, print VIOLATION / KNOWN-FINDING lines.
"""
import fcntl, hashlib, json, os, re, shutil, subprocess, sys, time

VERIF = os.path.dirname(os.path.dirname(os.path.abspath(__file__)))
REPO = os.environ.get("VERIF_REPO", "/repo")
LEAN = os.path.join(VERIF, "lean")
BIN = os.path.join(VERIF, "bin")
WORK = os.path.join(VERIF, "work")
REPLAYS = os.path.join(VERIF, "replays")
EVID = os.path.join(VERIF, "evidence")
ALLOWED_AXIOMS = {"propext", "Classical.choice", "Quot.sound"}
FORBIDDEN = re.compile(r"\b(sorry|admit|native_decide|bv_decide|implemented_by|unsafe|maxHeartbeats 0)\b|^\s*axiom\s")

GOENV = dict(os.environ, GOFLAGS="-mod=mod", GOPROXY="off", GOSUMDB="off", GOTOOLCHAIN="local",
             CGO_ENABLED="0")

sys.path.insert(0, os.path.dirname(os.path.abspath(__file__)))
from props import PROPS  # per-property configuration


def sh(cmd, cwd=None, env=None, timeout=None, stdin=None, stdout=subprocess.PIPE):
    p = subprocess.run(cmd, cwd=cwd, env=env, timeout=timeout, stdin=stdin, stdout=stdout,
                       stderr=subprocess.STDOUT, text=True)
    return p.returncode, (p.stdout or "")


class Lock:
    def __enter__(self):
        os.makedirs(WORK, exist_ok=True)
        self.f = open(os.path.join(WORK, ".buildlock"), "w")
        fcntl.flock(self.f, fcntl.LOCK_EX)
        return self

    def __exit__(self, *a):
        fcntl.flock(self.f, fcntl.LOCK_UN)
        self.f.close()


# ------------------------------------------------------------------------------------------------
# build steps
# ------------------------------------------------------------------------------------------------

def build_tools(race=False):
    """extractor + harness, always rebuilt from the current sources (/verif and /repo)."""
    os.makedirs(BIN, exist_ok=True)
    notes = []
    rc, out = sh(["go", "build", "-o", os.path.join(BIN, "extract"), "."], cwd=os.path.join(VERIF, "extract"), env=GOENV)
    if rc != 0:
        notes.append("extractor build failed: " + out[-2000:])
    shutil.copyfile(os.path.join(REPO, "go.sum"), os.path.join(VERIF, "harness", "go.sum"))
    sh(["go", "mod", "edit", "-replace=github.com/SKAARHOJ/rawpanel-lib=" + REPO], cwd=os.path.join(VERIF, "harness"), env=GOENV)
    # build under a temporary name and rename: a concurrently running check never finds the binary missing, and a
    # failed build leaves no stale binary behind (it is removed)
    hb = os.path.join(BIN, "harness")
    tmp = hb + f".new{os.getpid()}"
    rc, out = sh(["go", "build", "-tags", "verif", "-o", tmp, "."], cwd=os.path.join(VERIF, "harness"), env=GOENV)
    harness_ok = rc == 0
    if rc != 0:
        notes.append("harness build failed (does /repo still compile with -tags verif?): " + out[-3000:])
        for f in (tmp, hb):
            if os.path.exists(f):
                os.remove(f)
    else:
        os.replace(tmp, hb)
    hr = os.path.join(BIN, "harness-race")
    race_ok = True
    if race and harness_ok:
        tmp = hr + f".new{os.getpid()}"
        rc, out = sh(["go", "build", "-race", "-tags", "verif", "-o", tmp, "."], cwd=os.path.join(VERIF, "harness"),
                     env=dict(GOENV, CGO_ENABLED="1"))
        if rc != 0:
            race_ok = False
            notes.append("race-instrumented harness did not build: " + out[-1500:])
            for f in (tmp, hr):
                if os.path.exists(f):
                    os.remove(f)
        else:
            os.replace(tmp, hr)
    return harness_ok, notes, race_ok


def regenerate():
    rc, out = sh([os.path.join(BIN, "extract"), REPO, os.path.join(LEAN, "RawPanelVerif", "Gen")])
    missing = [l.split("MISSING:", 1)[1].strip() for l in out.splitlines() if "MISSING:" in l]
    return rc == 0, missing, out


def theorems_of(audit_file):
    names = []
    if os.path.exists(audit_file):
        for l in open(audit_file):
            m = re.match(r"\s*#print axioms\s+(\S+)", l)
            if m:
                names.append(m.group(1))
    return names


def lean_build(pid):
    """returns dict(driver_ok, props_ok, failing=[...], obligations=[...], discharged=[...], log)"""
    res = dict(driver_ok=False, props_ok=False, failing=[], obligations=[], discharged=[], log="", axioms={})
    rc, out = sh(["lake", "build", "driver"], cwd=LEAN)
    res["driver_ok"] = rc == 0
    res["log"] += out[-4000:] if rc != 0 else ""
    mod = f"RawPanelVerif.Props.{pid}"
    src = os.path.join(LEAN, "RawPanelVerif", "Props", f"{pid}.lean")
    audit = os.path.join(LEAN, "RawPanelVerif", "Audit", f"{pid}.lean")
    res["obligations"] = theorems_of(audit)
    if not os.path.exists(src):
        res["log"] += f"\nno property module {src}"
        return res
    rc, out = sh(["lake", "build", mod], cwd=LEAN)
    res["props_ok"] = rc == 0
    if rc != 0:
        res["log"] += out[-6000:]
        # map error positions to theorem names
        decls = []
        for root, _, files in os.walk(os.path.join(LEAN, "RawPanelVerif")):
            for fn in files:
                if fn.endswith(".lean"):
                    p = os.path.join(root, fn)
                    for i, l in enumerate(open(p), 1):
                        m = re.match(r"\s*(?:private\s+|protected\s+)?(?:theorem|lemma|def|instance|example)\s+(\S+)", l)
                        if m:
                            decls.append((os.path.relpath(p, LEAN), i, m.group(1)))
        for m in re.finditer(r"error: (\S+?\.lean):(\d+):\d+", out):
            f, ln = m.group(1), int(m.group(2))
            best = None
            for (df, dl, dn) in decls:
                if df == f and dl <= ln and (best is None or dl > best[0]):
                    best = (dl, dn)
            res["failing"].append(f"{f}:{ln} ({best[1] if best else '?'})")
        if not res["failing"]:
            res["failing"].append("build of " + mod + " failed")
        return res
    # audit: #print axioms of every property theorem
    rc, out = sh(["lake", "env", "lean", audit], cwd=LEAN)
    cur = None
    text = out.replace("\n  ", " ")
    for m in re.finditer(r"'([^']+)' (depends on axioms: \[([^\]]*)\]|does not depend on any axioms)", text):
        name = m.group(1)
        axs = set(a.strip() for a in (m.group(3) or "").split(",") if a.strip())
        res["axioms"][name] = sorted(axs)
    for th in res["obligations"]:
        hit = [k for k in res["axioms"] if k == th or k.endswith("." + th)]
        if hit and all(set(res["axioms"][k]) <= ALLOWED_AXIOMS for k in hit):
            res["discharged"].append(th)
        else:
            res["failing"].append(f"audit: {th} axioms={[res['axioms'][k] for k in hit] if hit else 'not found'}")
    if rc != 0:
        res["failing"].append("audit file did not check: " + out[-500:])
    # forbidden constructs anywhere in the Lean sources (comments stripped)
    for root, _, files in os.walk(os.path.join(LEAN, "RawPanelVerif")):
        for fn in files:
            if fn.endswith(".lean"):
                p = os.path.join(root, fn)
                txt = open(p).read()
                txt = re.sub(r"/-.*?-/", "", txt, flags=re.S)
                for i, l in enumerate(txt.splitlines(), 1):
                    l2 = l.split("--")[0]
                    if FORBIDDEN.search(l2):
                        res["failing"].append(f"forbidden construct in {os.path.relpath(p, LEAN)}: {l2.strip()[:80]}")
    res["props_ok"] = res["props_ok"] and not res["failing"]
    return res


# ------------------------------------------------------------------------------------------------
# running harness + driver
# ------------------------------------------------------------------------------------------------

def run_harness(fam, seed, n, tier, outpath, replay=None, timeout=3600, extra=None):
    cmd = [os.path.join(BIN, "harness"), fam, "-seed", str(seed), "-n", str(n), "-tier", tier]
    if replay:
        cmd += ["-replay", replay]
    if extra:
        cmd += extra
    env = dict(os.environ, GOMEMLIMIT="6GiB")
    errpath = outpath + ".stderr"
    rc_to = None
    with open(outpath, "w") as f, open(errpath, "w") as fe:
        try:
            p = subprocess.run(cmd, stdout=f, stderr=fe, text=True, timeout=timeout, env=env)
        except subprocess.TimeoutExpired:
            rc_to = -9
    if rc_to is not None:
        return rc_to, f"harness did not finish within {timeout} s (hang?)"
    tail = ""
    try:
        with open(errpath, "rb") as fe:
            fe.seek(max(0, os.path.getsize(errpath) - 3000))
            tail = fe.read().decode("utf-8", "replace")
    except OSError:
        pass
    return p.returncode, tail


def run_driver(inpath, outpath, timeout=3600, shards=1):
    """shards > 1: records are independent of each other (no session state in the driver): split the record file
    into contiguous parts, run one driver process per part concurrently, concatenate the answers in order."""
    exe = os.path.join(LEAN, ".lake", "build", "bin", "driver")
    if shards <= 1:
        with open(inpath) as fi, open(outpath, "w") as fo:
            try:
                p = subprocess.run([exe], stdin=fi, stdout=fo, stderr=subprocess.PIPE, text=True, timeout=timeout)
            except subprocess.TimeoutExpired:
                return -9, f"driver did not finish within {timeout} s"
        return p.returncode, p.stderr[-2000:]
    size = os.path.getsize(inpath)
    cuts = [0]
    with open(inpath, "rb") as f:
        for k in range(1, shards):
            f.seek(size * k // shards)
            f.readline()
            cuts.append(min(f.tell(), size))
    cuts.append(size)
    cuts = sorted(set(cuts))
    procs = []
    for k in range(len(cuts) - 1):
        part_in, part_out = f"{inpath}.part{k}", f"{outpath}.part{k}"
        with open(inpath, "rb") as f, open(part_in, "wb") as g:
            f.seek(cuts[k])
            g.write(f.read(cuts[k + 1] - cuts[k]))
        procs.append((subprocess.Popen([exe], stdin=open(part_in), stdout=open(part_out, "w"),
                                       stderr=subprocess.PIPE, text=True), part_in, part_out))
    rc, err = 0, ""
    with open(outpath, "w") as fo:
        for (p, part_in, part_out) in procs:
            try:
                _, e = p.communicate(timeout=timeout)
            except subprocess.TimeoutExpired:
                p.kill()
                _, e = p.communicate()
                e = (e or "") + f" driver shard did not finish within {timeout} s"
                rc = rc or -9
            rc = rc or p.returncode
            err += (e or "")[-500:]
            with open(part_out) as g:
                shutil.copyfileobj(g, fo)
            os.remove(part_in)
            os.remove(part_out)
    return rc, err[-2000:]


def split_record(line):
    if " | " in line:
        a, b = line.split(" | ", 1)
    else:
        a, b = line, ""
    return a.strip(), b.strip()


class Analysis:
    def __init__(self):
        self.n = 0
        self.eq = 0
        self.ne = []          # (session_records, idx_in_session, answer)
        self.h0 = []          # same
        self.err = []
        self.kinds = {}
        self.branches = {}
        self.distinct = set()
        self.samples = []


def analyze(cfg, recpath, anspath, an=None, keep_samples=4):
    an = an or Analysis()
    sess = []
    start = cfg.get("session_start")
    triv = cfg.get("trivial")
    with open(recpath) as fr, open(anspath) as fa:
        prev_out = None
        for line, ans in zip(fr, fa):
            line = line.rstrip("\n")
            ans = ans.rstrip("\n")
            inp, impl = split_record(line)
            cmd = inp.split(" ", 1)[0]
            if start is None or cmd in start:
                sess = []
                prev_out = None
            sess.append(inp)
            an.n += 1
            an.kinds[cmd] = an.kinds.get(cmd, 0) + 1
            toks = ans.split(" ")
            tag = toks[0]
            h = toks[1] if len(toks) > 1 else ""
            for t in toks[2:]:
                if t.startswith("B:"):
                    an.branches[t[2:]] = an.branches.get(t[2:], 0) + 1
            nontrivial = triv(cmd, inp, impl, prev_out) if triv else (impl != prev_out)
            if nontrivial:
                an.distinct.add(hashlib.blake2b(inp.encode(), digest_size=8).digest())
                if len(an.samples) < keep_samples and an.n % 97 in (1, 3, 11, 50):
                    an.samples.append({"record": inp[:300], "impl": impl[:200], "answer": " ".join(toks[:2])})
            prev_out = impl
            if tag == "EQ":
                an.eq += 1
            elif tag == "NE":
                an.ne.append((list(sess), inp, impl, ans[:400]))
            else:
                an.err.append((list(sess), inp, impl, ans[:400]))
            if h.startswith("H0"):
                an.h0.append((list(sess), inp, impl, h))
    return an


def eval_session(cfg, fam, records, tag):
    """re-run a list of input records on implementation + model; returns list of (inp, impl, answer)"""
    d = os.path.join(WORK, tag)
    os.makedirs(d, exist_ok=True)
    rp = os.path.join(d, "shrink.in")
    with open(rp, "w") as f:
        f.write("\n".join(records) + "\n")
    rc, _ = run_harness(fam, 0, 0, "quick", os.path.join(d, "shrink.rec"), replay=rp, timeout=300)
    run_driver(os.path.join(d, "shrink.rec"), os.path.join(d, "shrink.ans"), timeout=300)
    res = []
    with open(os.path.join(d, "shrink.rec")) as fr, open(os.path.join(d, "shrink.ans")) as fa:
        for l, a in zip(fr, fa):
            inp, impl = split_record(l.rstrip("\n"))
            res.append((inp, impl, a.rstrip("\n")))
    return res


def shrink(cfg, fam, sess, pred, tag, budget=60):
    """ddmin over the records of a session (first record kept when it is a session start)."""
    keep_first = 1 if cfg.get("session_start") else 0
    head, body = sess[:keep_first], sess[keep_first:]

    def fails(b):
        r = eval_session(cfg, fam, head + b, tag)
        return any(pred(a) for (_, _, a) in r)

    if not fails(body):
        return sess  # not reproducible in isolation: keep as is
    n = 2
    steps = 0
    while len(body) >= 2 and steps < budget:
        chunk = max(1, len(body) // n)
        reduced = False
        for i in range(0, len(body), chunk):
            cand = body[:i] + body[i + chunk:]
            steps += 1
            if cand and fails(cand):
                body = cand
                n = max(n - 1, 2)
                reduced = True
                break
        if not reduced:
            if chunk == 1:
                break
            n = min(n * 2, len(body))
    return head + body


# ------------------------------------------------------------------------------------------------

def load_known():
    p = os.path.join(VERIF, "known_findings.json")
    if not os.path.exists(p):
        return []
    return json.load(open(p)).get("findings", [])


def classify_known(pid, clause, records, known):
    text = "\n".join(records)
    for k in known:
        if k.get("property") != pid or k.get("status") != "known":
            continue
        if k.get("clause") and not re.search(k["clause"], clause):
            continue
        if k.get("match") and not re.search(k["match"], text, re.M):
            continue
        return k
    return None


def write_replay(pid, seed, idx, payload):
    os.makedirs(REPLAYS, exist_ok=True)
    p = os.path.join(REPLAYS, f"{pid}-{seed}-{idx}.json")
    with open(p, "w") as f:
        json.dump(payload, f, indent=1)
    return p


def main():
    args = sys.argv[1:]
    if len(args) < 2:
        print("usage: check <Cxx> <quick|thorough> [--replay file]")
        return 2
    pid, tier = args[0], args[1]
    replay = None
    if "--replay" in args:
        replay = args[args.index("--replay") + 1]
    cfg = PROPS[pid]
    replay_note = None
    if replay:
        # the file named by a VIOLATION line is a JSON report: replay its records; a report without records
        # (proof obligation / correspondence no longer checks, no failing input) is re-decided by the normal check
        try:
            rep_json = json.load(open(replay))
        except (ValueError, OSError):
            rep_json = None
        if isinstance(rep_json, dict):
            recs = rep_json.get("records") or (rep_json.get("smallest_disagreement") or {}).get("records") or []
            if rep_json.get("kind") == "no-longer-shown-to-hold" or not recs:
                replay_note = "replay file carries no failing input: running the normal check"
                replay = None
            else:
                os.makedirs(os.path.join(WORK, pid), exist_ok=True)
                rp_in = os.path.join(WORK, pid, "replay.in")
                with open(rp_in, "w") as f:
                    f.write("\n".join(recs) + "\n")
                replay = rp_in
    is_replay = replay is not None
    seed = int(os.environ.get("VERIF_SEED", "1"))
    tier = os.environ.get("VERIF_TIER", tier)
    t0 = time.time()
    os.makedirs(WORK, exist_ok=True)
    os.makedirs(EVID, exist_ok=True)
    wd = os.path.join(WORK, pid)
    os.makedirs(wd, exist_ok=True)
    broken = []      # things that no longer check (proof obligations / extractor / correspondence)
    notes = []
    if replay_note:
        notes.append(replay_note)

    with Lock():
        harness_ok, n1, race_ok = build_tools(race=cfg.get("race_binary", False))
        notes += n1
        gen_ok, missing, gout = regenerate()
        if not gen_ok:
            broken.append("extractor: " + ("; ".join(missing) if missing else gout[-500:]))
        lb = lean_build(pid)
    if not lb["props_ok"]:
        broken += ["proof obligation: " + f for f in lb["failing"]] or ["proof obligations did not build"]
    if not harness_ok:
        # /repo does not compile: not a property verdict we can give; report as broken correspondence
        broken.append("harness does not build against /repo")
    if cfg.get("race_binary") and harness_ok and not race_ok:
        broken.append("race-instrumented harness does not build: the 'without racing' clause cannot be checked")

    if cfg.get("custom"):
        # properties with their own runner (network trace validation etc.)
        return cfg["custom"](pid, tier, seed, cfg, lb, broken, notes, t0, replay)

    an = Analysis()
    fam = cfg["family"]
    hard_fail = []
    if harness_ok and lb["driver_ok"]:
        # corpus first
        cdir = os.path.join(VERIF, "corpus", pid)
        runs = []
        if replay:
            runs.append(("replay", replay))
        else:
            if os.path.isdir(cdir):
                for fn in sorted(os.listdir(cdir)):
                    runs.append(("corpus:" + fn, os.path.join(cdir, fn)))
            runs.append(("gen", None))
        for i, (what, path) in enumerate(runs):
            rp = os.path.join(wd, f"run{i}.rec")
            ap = os.path.join(wd, f"run{i}.ans")
            n = cfg["n"][tier]
            rc, err = run_harness(fam, seed, n, tier, rp, replay=path, timeout=cfg.get("timeout", 3000))
            if rc != 0:
                hard_fail.append(f"harness {what} exited {rc}: {err[-800:]}")
            rc, err = run_driver(rp, ap, shards=cfg.get("driver_shards", 1))
            if rc != 0:
                hard_fail.append(f"driver on {what} exited {rc}: {err[-800:]}")
            nrec = sum(1 for _ in open(rp))
            nans = sum(1 for _ in open(ap))
            if nrec != nans:
                hard_fail.append(f"{what}: {nrec} records but {nans} answers")
            analyze(cfg, rp, ap, an)
        if not is_replay and an.n < cfg.get("min_records", {}).get(tier, 10):
            hard_fail.append(f"only {an.n} records were produced and answered (expected at least {cfg.get('min_records', {}).get(tier, 10)})")
        for tag, cnt in an.branches.items():
            if tag.startswith("skip:no"):
                hard_fail.append(f"{cnt} records could not be run ({tag}): a child binary or temporary directory is missing")
    else:
        if not lb["driver_ok"]:
            broken.append("driver does not build: " + lb["log"][-800:])

    if cfg.get("confirm_rerun") and an.ne:
        # timed scripts: believe a disagreement only if it shows again when the record is re-run alone
        kept = []
        for t in an.ne:
            if len(kept) < 3:
                r = eval_session(cfg, fam, t[0], f"{pid}/confirm")
                if not any(a.startswith("NE") for (_, _, a) in r):
                    notes.append("not reproduced when re-run alone: " + t[1][:200] + " -> " + t[3][:120])
                    continue
            kept.append(t)
        an.ne = kept
    for (s, inp, impl, ans) in an.err[:3]:
        hard_fail.append(f"driver rejected record: {inp[:200]} -> {ans}")
    if an.ne:
        broken.append(f"correspondence: model and implementation differ on {len(an.ne)} of {an.n} records, first: {an.ne[0][1][:200]}")

    unfiltered = {"h0": len(an.h0), "ne": len(an.ne)}
    if cfg.get("confirm_rerun") and an.h0:
        # timed scripts: a failure is believed if it shows again when the record is re-run alone (up to three
        # re-runs of up to four different records of the class), or if the class showed on at least three
        # independent records of this run (an intermittent, schedule-dependent defect need not reproduce at will)
        confirmed, state = [], {}
        by_class = {}
        for t in an.h0:
            clause = t[3][3:] if t[3].startswith("H0:") else t[3]
            by_class.setdefault((clause.split("@")[0], t[1].split(" ")[0]), set()).add(t[1])
        for t in an.h0:
            clause = t[3][3:] if t[3].startswith("H0:") else t[3]
            key = (clause.split("@")[0], t[1].split(" ")[0])
            st = state.get(key, 0)
            if st == "ok":
                confirmed.append(t)
                continue
            if len(by_class[key]) >= 3:
                state[key] = "ok"
                confirmed.append(t)
                notes.append(f"class {key} seen on {len(by_class[key])} independent records: believed without re-run")
                continue
            if st >= 4:
                continue
            ok = False
            for attempt in range(3):
                r = eval_session(cfg, fam, t[0], f"{pid}/confirm")
                if any(" H0" in a for (_, _, a) in r):
                    ok = True
                    break
            if ok:
                state[key] = "ok"
                confirmed.append(t)
            else:
                state[key] = st + 1
                notes.append("not reproduced in three re-runs alone: " + t[1][:200] + " -> " + t[3][:120])
        an.h0 = confirmed

    known = load_known()
    violations = []
    known_hits = []
    # 1. property false on the implementation's own output: genuine violations with replay
    seen_classes = {}
    for (sess, inp, impl, h) in an.h0:
        clause = h[3:] if h.startswith("H0:") else h
        k0 = classify_known(pid, clause, sess, known)
        key = (clause.split("@")[0], inp.split(" ")[0], k0["id"] if k0 else None)
        if seen_classes.get(key, 0) >= 1:
            seen_classes[key] += 1
            continue
        seen_classes[key] = 1
        if k0:
            # a listed finding: no shrinking needed (its class is defined on the record itself)
            known_hits.append((k0, clause, sess))
            continue
        if clause.startswith("hang"):
            # re-running a record that does not return costs the full per-record deadline each time: keep the session as it is
            small, res = sess, [(inp, impl, h)]
        else:
            small = shrink(cfg, fam, sess, lambda a: (" H0" in a), f"{pid}/shrink") if cfg.get("shrink", True) else sess
            res = eval_session(cfg, fam, small, f"{pid}/shrink")
        k = classify_known(pid, clause, small, known)
        payload = {"property": pid, "kind": "property-false-on-implementation", "clause": clause,
                   "records": small, "implementation_and_model": [{"record": a, "impl": b[:2000], "answer": c[:2000]} for a, b, c in res],
                   "seed": seed, "how_to_replay": f"./check {pid} quick --replay <file with the records, one per line>"}
        if k:
            known_hits.append((k, clause, small))
        elif len(violations) < 3:
            violations.append((write_replay(pid, seed, len(violations), payload), ""))
        else:
            notes.append(f"further violation class {key} not reported separately")
    for key, cnt in seen_classes.items():
        if cnt > 1:
            notes.append(f"{cnt} violations of class {key} (first one reported)")

    # 2. something no longer checks but no failing input so far: search harder, then report
    # (a property-false record that is a listed known finding does not excuse a broken proof / correspondence elsewhere)
    h0_unknown = [t for t in an.h0 if not classify_known(pid, t[3][3:] if t[3].startswith("H0:") else t[3], t[0], known)]
    if (broken or hard_fail) and not violations and not h0_unknown:
        found = None
        if harness_ok and lb["driver_ok"] and not replay:
            for extra_seed in range(seed + 1000, seed + 1000 + cfg.get("search_rounds", 3)):
                rp = os.path.join(wd, "search.rec")
                ap = os.path.join(wd, "search.ans")
                run_harness(fam, extra_seed, cfg["n"]["thorough"], "quick", rp, timeout=cfg.get("timeout", 3000))
                run_driver(rp, ap)
                a2 = analyze(cfg, rp, ap)
                for cand in a2.h0:
                    c_clause = cand[3][3:] if cand[3].startswith("H0:") else cand[3]
                    kk = classify_known(pid, c_clause, cand[0], known)
                    if kk:
                        if kk["id"] not in [x[0]["id"] for x in known_hits]:
                            known_hits.append((kk, c_clause, cand[0]))
                        continue
                    if cfg.get("confirm_rerun"):
                        r = eval_session(cfg, fam, cand[0], f"{pid}/confirm")
                        if not any(" H0" in a for (_, _, a) in r):
                            continue
                    found = cand
                    break
                if found:
                    break
        if found:
            sess, inp, impl, h = found
            clause = h[3:] if h.startswith("H0:") else h
            small = shrink(cfg, fam, sess, lambda a: (" H0" in a), f"{pid}/shrink")
            res = eval_session(cfg, fam, small, f"{pid}/shrink")
            payload = {"property": pid, "kind": "property-false-on-implementation", "clause": clause, "records": small,
                       "implementation_and_model": [{"record": a, "impl": b[:2000], "answer": c[:2000]} for a, b, c in res],
                       "no_longer_checks": broken + hard_fail, "seed": seed}
            violations.append((write_replay(pid, seed, len(violations), payload), ""))
        if not found:
            smallest = None
            if an.ne:
                sess, inp, impl, ans = min(an.ne, key=lambda t: len(t[0]))
                smallest = {"records": sess, "impl": impl[:2000], "answer": ans}
            payload = {"property": pid, "kind": "no-longer-shown-to-hold", "no_longer_checks": broken + hard_fail,
                       "smallest_disagreement": smallest, "lean_log": lb["log"][-3000:], "seed": seed,
                       "searched": f"{an.n} records + {cfg.get('search_rounds', 3)} rounds at thorough budget; no input makes the property false on the implementation"}
            violations.append((write_replay(pid, seed, len(violations), payload), " no-failing-input-found"))

    wall = time.time() - t0
    nob = len(lb["obligations"])
    ev = {
        "property_id": pid, "tier": tier if tier in ("quick", "thorough") else "quick", "seed": seed,
        "level": cfg.get("level", "proof"),
        "coverage": {
            "obligations": nob, "discharged": len(lb["discharged"]),
            "theorems": lb["obligations"],
            "axioms": lb["axioms"],
            "checker_cmd": f"cd /verif/lean && lake build RawPanelVerif.Props.{pid} && lake env lean RawPanelVerif/Audit/{pid}.lean",
            "trusted_base": cfg.get("trusted_base", []) + [
                "Lean 4.33 kernel; axioms allowed: propext, Classical.choice, Quot.sound (audited per theorem)",
                "/verif/extract (data tables regenerated from /repo on this run)",
                "correspondence check model vs implementation (sampled unless exhaustive=true) incl. harness printers and the Lean driver runtime"],
            "evaluations": an.n, "distinct_nontrivial": len(an.distinct),
            "rule": cfg.get("rule", ""), "samples": an.samples[:6] or [{"note": "no records run"}],
            "exhaustive": bool(cfg.get("exhaustive", {}).get(tier, False)),
            "model_equals_impl": an.eq, "model_differs": len(an.ne),
            "property_false_on_impl": len(an.h0),
            "record_kinds": an.kinds, "branches": an.branches,
            "known_findings_seen": sorted(set(k["id"] for (k, _, _) in known_hits)),
            "before_confirmation": unfiltered,
            "no_longer_checks": broken + hard_fail, "notes": notes,
        },
        "assumptions": cfg.get("assumptions", []),
        "wall_s": round(wall, 2), "violations": len(violations),
    }
    # a replay run describes one input, not what the check covers: it does not replace the evidence file
    evpath = os.path.join(EVID, f"{pid}.json") if not is_replay else os.path.join(wd, "replay_evidence.json")
    with open(evpath, "w") as f:
        json.dump(ev, f, indent=1)

    seen = set()
    for (k, clause, small) in known_hits:
        if k["id"] not in seen:
            seen.add(k["id"])
            print(f"KNOWN-FINDING: property={pid} {k['id']}: {k.get('what', '')}")
    for (path, suffix) in violations:
        print(f"VIOLATION property={pid} replay={path}{suffix}")
    print(f"[{pid} {tier}] records={an.n} eq={an.eq} ne={len(an.ne)} h0={len(an.h0)} obligations={nob} discharged={len(lb['discharged'])} wall={wall:.1f}s")
    if broken or hard_fail:
        for b in (broken + hard_fail)[:8]:
            print("  no-longer-checks:", b[:300])
    return 1 if violations else 0


if __name__ == "__main__":
    sys.exit(main())
