#!/bin/sh
# regress_seeds.sh [ids…]: run every kept seeded change against its property's quick check (apply to /repo, check, undo);
# one line per change: "<id> caught|MISSED <first result line>". Leaves /repo clean. Evidence must be refreshed afterwards.
cd /verif || exit 2
IDS="${*:-$(ls seeded | sort -V)}"
for s in $IDS; do
  P=$(echo $s | cut -d- -f1)
  O=$(sh tools/run_seeded.sh /verif/seeded/$s/patch.diff $P quick 2>&1)
  if echo "$O" | grep -q "^VIOLATION"; then R=caught; else R=MISSED; fi
  echo "$s $R $(echo "$O" | grep -E '^VIOLATION|^\[' | head -1 | cut -c1-120)"
done
git -C /repo status --short | grep -v rawpanel-lib-c/rawpanel-lib-c
