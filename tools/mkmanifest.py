#!/usr/bin/env python3
"""Regenerates /verif/MANIFEST.json from tools/propcfg/Cxx.py (via props.py / claims.py); run by hand after changing a CLAIM."""
import json, os, sys
sys.path.insert(0, os.path.dirname(os.path.abspath(__file__)))
from claims import CLAIMS, NOT_YET
ALL = [f"C{n:02d}" for n in range(1, 21)]
checks = []
for pid in ALL:
    if pid in CLAIMS:
        c = CLAIMS[pid]
        checks.append({
            "property_id": pid,
            "quick_cmd": f"./check {pid} quick",
            "thorough_cmd": f"./check {pid} thorough",
            "evidence_file": f"evidence/{pid}.json",
            "replay_cmd_template": f"./check {pid} quick --replay {{path}}",
            "engine": "lean-model-and-proofs",
            "level_claimed": {"category": c.get("category", "proof"), "text": c["text"], "design_ref": f"DESIGN.md section 6, {pid}"},
            "level_note": c["note"],
            "technique": c["technique"],
        })
na = [{"property_id": p, "reason": NOT_YET.get(p, "check not built yet in this round; see DESIGN.md section 11 (status)")} for p in ALL if p not in CLAIMS]
served = sorted(CLAIMS)
m = {
    "version": 1,
    "setup_cmd": "./setup.sh",
    "hooks": {
        "guard": "verif",
        "enable": "go build -tags verif (the harness module /verif/harness replaces github.com/SKAARHOJ/rawpanel-lib by /repo)",
        "baseline_off_cmd": "for m in . ./rawpanel-lib-c; do (cd /repo/$m && GOFLAGS=-mod=mod go test -json -vet=off -count=1 -timeout 25m ./...); done",
        "source_commits": ["adc0469"],
        "add_only": True,
    },
    "engines": [
        {"name": "lean-model-and-proofs", "path": "lean/", "serves_properties": served, "kind_free_text": "Lean 4 executable models + theorems (core only), compiled driver for the line protocol"},
        {"name": "go-harness", "path": "harness/", "serves_properties": served, "kind_free_text": "generators and in-process execution of the real library; prints records `cmd args | implementation output`"},
        {"name": "extractor", "path": "extract/", "serves_properties": served, "kind_free_text": "go/ast data extractor regenerating lean/RawPanelVerif/Gen/*.lean from /repo on every run"},
    ],
    "checks": checks,
    "not_applicable": na,
    "notes": "Every check: extractor -> lake build of the property's theorems + axiom audit -> go build of the harness against /repo -> correspondence + property predicate on the implementation's outputs. See DESIGN.md.",
}
json.dump(m, open(os.path.join(os.path.dirname(os.path.dirname(os.path.abspath(__file__))), "MANIFEST.json"), "w"), indent=1)
print("wrote MANIFEST.json:", len(checks), "checks,", len(na), "not claimed")
