#!/bin/sh
# runall.sh [tier] [ids…]: run every registered check in sequence against /repo; summary on stdout, exit 1 if any fails
T="${1:-quick}"; shift 2>/dev/null
IDS="${*:-C01 C02 C03 C04 C05 C06 C07 C08 C09 C10 C11 C12 C13 C14 C15 C16 C17 C18 C19 C20}"
cd "$(dirname "$0")/.." || exit 2
RC=0
for i in $IDS; do
  ./check "$i" "$T" > work/runall.$i.log 2>&1; r=$?
  grep -E "^VIOLATION|^KNOWN-FINDING|^\[" work/runall.$i.log | cut -c1-200
  [ $r -ne 0 ] && { echo "exit=$r for $i"; RC=1; }
done
exit $RC
