#!/usr/bin/env python3
"""seeded_table.py: markdown table of /verif/seeded/*/meta.json (id, change, needs, outcome of my quick check)."""
import json, glob, os, re
rows = []
def key(p):
    m = re.match(r"C(\d+)-(\d+)", os.path.basename(os.path.dirname(p))); return (int(m.group(1)), int(m.group(2)))
for f in sorted(glob.glob("/verif/seeded/*/meta.json"), key=key):
    m = json.load(open(f)); name = os.path.basename(os.path.dirname(f))
    q = m["confirmed_by_me"]["my_check"]["quick"]
    lines = " ".join(q["lines"])
    if q["exit"] != 1: out = "MISSED"
    elif "no-failing-input-found" in lines: out = "no-failing-input-found"
    else: out = "failing input"
    cl = lambda s: (s or "").replace("|", "/").replace("\n", " ")
    rows.append(f"| {name} | {cl(m.get('summary'))[:150]} | {cl(m.get('needs'))[:110]} | {out} |")
print("| id | change | needs | caught as |\n|---|---|---|---|")
print("\n".join(rows))
