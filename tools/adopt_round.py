#!/usr/bin/env python3
"""adopt_round.py <seed_root> <offset> Cxx…: adopt every out/<k> of the given properties as Cxx-(k+offset)."""
import os, re, subprocess, sys, json
root, off = sys.argv[1], int(sys.argv[2])
pkgdir = {"rawpanellib": ".", "gorwp": "./gorwp", "topology": "./topology", "monogfx": "./ibeam_lib_monogfx", "ibeam_lib_monogfx": "./ibeam_lib_monogfx"}
for pid in sys.argv[3:]:
    for k in sorted(os.listdir(f"{root}/{pid}/out")):
        src = f"{root}/{pid}/out/{k}"
        if not os.path.exists(f"{src}/patch.diff"): continue
        only = os.environ.get("ONLY")
        if only and f"{pid}:{k}" not in only.split(","): continue
        gos = [f for f in os.listdir(src) if f.endswith("_test.go")]
        if not gos:
            print(pid, k, "NO _test.go demo:", os.listdir(src)); continue
        txt = open(f"{src}/{gos[0]}").read()
        pkg = re.search(r"^package (\w+)", txt, re.M).group(1).replace("_test", "")
        tests = re.findall(r"^func (Test\w+)\(", txt, re.M)
        d = pkgdir.get(pkg)
        if d is None: print(pid, k, "unknown package", pkg); continue
        dest = os.path.normpath(f"{d}/{pid.lower()}_r{off}_demo{k}_test.go")
        name = f"{pid}-{int(k)+off}"
        env = dict(os.environ, SEED_ROOT=root)
        p = subprocess.run(["python3", "/verif/tools/adopt_seed.py", pid, k, name, dest, d, "-run", "^(" + "|".join(tests) + ")$"],
                           env=env, stdout=subprocess.PIPE, stderr=subprocess.STDOUT, text=True)
        print(p.stdout.strip().splitlines()[-1] if p.stdout.strip() else f"{name}: no output", flush=True)
