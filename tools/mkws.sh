#!/bin/sh
# scratch workspace for a builder: /tmp/ws/<name>/{verif,repo}; remove with tools/rmws.sh <name>
set -e
N="$1"; [ -n "$N" ] || { echo "usage: mkws.sh <name>"; exit 2; }
mkdir -p /tmp/ws/$N
rsync -a --exclude .git --exclude work --exclude replays /verif/ /tmp/ws/$N/verif/
git -C /repo worktree add --detach /tmp/ws/$N/repo HEAD >/dev/null 2>&1
echo "workspace /tmp/ws/$N ready; use: export VERIF_REPO=/tmp/ws/$N/repo; cd /tmp/ws/$N/verif"
