#!/bin/sh
N="$1"; [ -n "$N" ] || exit 2
git -C /repo worktree remove --force /tmp/ws/$N/repo 2>/dev/null || true
rm -rf /tmp/ws/$N
git -C /repo worktree prune
