from propcfg.C16 import TB

def nontrivial(cmd, inp, impl, prev):
    # the encoder produced at least one line (a message with an expressible effect)
    return not impl.startswith("0") and not impl.startswith("panic")

PROP = dict(
    family="c03", session_start=None, trivial=nontrivial,
    n=dict(quick=6000, thorough=150000),
    exhaustive=dict(quick=False, thorough=False),
    rule="OutboundMessage values built from the repo's protobuf types: every flow value; every event kind x 8 ids x "
         "edges {0,1,2,4,8,16} + 12 other edge values x pressed, Enc/Speed at 19 int32 boundary values, Abs/Raw at 19 uint32 "
         "boundary values; capability subsets (quick: empty, full, all single, all complements, 300 random; thorough: all 8192); "
         "panel types -1..7; 24 text samples incl. non-ASCII / key-looking strings in every identity field; all 20 SysStat "
         "fields with 28 float boundary values; multi-entry maps; lists; multi-line payloads; random sparse/dense messages, "
         "2-6 messages per call; the same through proto.Marshal -> proto.Unmarshal -> encoder -> Join(LF) as the C binding "
         "does, incl. the C.CString cut at the first NUL (mode c; 15 % of these with a NUL byte in a string field: tag B:c.nul-truncated, correspondence only); values outside the ASCII-representable domain for the correspondence only (tag B:ood). "
         "Scenario classes (after the random stream, every run; x10 in the thorough tier): (d) eout.msgsx = messages whose fields "
         "WITHOUT ASCII form are set — HWCEvent.Timestamp, AbsoluteEvent.PrevValue, SpeedEvent.PrevValue, BusStatus — to arbitrary "
         "values and to values coinciding with carried ones (PrevValue = Value, = Value+1, 0, 2^32-1 at the 19 boundary values; "
         "Timestamp = id) in every event kind, plus random messages (half of them with 60 % coinciding values): the lines must be "
         "those of the same messages without these fields (model encOutX) and carry every event; eout.fields = the Message.field "
         "names of the real protobuf descriptors reachable from OutboundMessage equal EncOut.protoFieldsRead ++ "
         "protoFieldsNotCarried; (a) eout.seq = 2-5 calls on different message lists, every returned slice kept and snapshotted at "
         "return time, the record reports the snapshots and the kept slices AS READ AFTER THE LAST CALL; eout.par = the same with the "
         "calls of even / odd index in two goroutines, 12 repetitions each; (b) the same message / event / register more than once in "
         "one call with others in between (A B A, A A, A ping A B A; events A B A for one id); (e) eout.reuse = a message list is "
         "converted, its message OBJECTS are overwritten in place with a second list (sub-messages such as SysStat, PanelInfo keep "
         "their addresses wherever both lists have one; lists with every section present) and the same pointers are converted again; "
         "(f) payloads, message texts, names and list items of 201-6000 bytes; (g) payloads with ONE physical line of exactly 65535 / 65536 / "
         "70000 bytes, alone and after a short first line, in the topology JSON + SVG, one of burn-in / calibration / default calibration "
         "profile and one of Msg / ErrorMsg each, every payload field in one two-message call, the C binding, and one 300 000-byte line; every record whose input or output carries a byte string "
         "longer than 200 bytes (and every third other record) is executed a second time with DebugRWPhelpers on: a differing result "
         "is what the record reports. Every result of a multi-call record is judged like an eout.msgs record of its call (clause "
         "suffix @part<j>). non-trivial = at least one line produced; distinct = distinct record text",
    trusted_base=["strconv float formatting (%.1f / %.2f) and encoding/json of NetworkConfig enter as oracle values computed by the harness (strconv.FormatFloat 'f' 32 / json.Marshal), never compared numerically",
                  "Go map iteration order: the map= lines of one message are compared as a set",
                  "fmt %d / %s, strings.Join, strings.Split/TrimSpace modelled (Base/Bytes.lean) and validated by the correspondence"],
    assumptions=["messages contain no nil elements in repeated fields (proto.Unmarshal never produces them)",
                 "payload strings (SVG/JSON/messages) are valid UTF-8 (guaranteed by protobuf-go); text fields may be arbitrary bytes without LF (LF is C07)"],
)

CLAIM = dict(
    text="Lean theorems over the encoder model EncOut.encOut read by the independent grammar reader Spec.Out.readOutbound (Appendix B; never imports Model/). "
         "FULL STRENGTH, all values: event_line (every 32-bit id x edge in {0,1,2,4,8,16} x pressed), value_ranges + enc/speed/abs/raw_line (%d of every "
         "signed / unsigned 32-bit value incl. boundaries re-reads to the same value), caps_all_subsets (all 2^13 capability sets, generic over the "
         "capability table) + caps_table_tie (that table — order, names, Go fields — equals the tables the extractor regenerates from the encoder's "
         "and the decoder's source), map_line, register_line, encOut_no_lf (every input). "
         "encOut_sound_full: for every list of messages in the decidable ASCII-representable domain Spec.Out.inDomainOut (any number of messages / events / "
         "registers / map entries, every section: flow, identity, capability list, topology, profiles, network config, sleep, heartbeat, dimming, "
         "connections, run-time statistics, messages, map, health, 20-field SysStat) readOutbound(encOut ms) = ms.flatMap effectsOfOut exactly, in "
         "message order, hence the executable comparison approx holds (encOut_sound_full_approx); non-vacuity examples by decide. "
         "Payloads: JSON profiles, topology JSON and message texts are compared in the normal form normLines (lines without the white space at their "
         "two ends, concatenated) — everything except line feeds and white space at line edges must survive, interior white space included — for EVERY "
         "valid-UTF-8 value with any line structure (Lemmas/StripIdem.lean strip_trimmed: the flattening of valid UTF-8 is trimmed again); "
         "msg_line_verbatim / errormsg_line_verbatim / profile_lines_verbatim / topology_lines_verbatim: a payload without LF and outer white space is on the "
         "line byte for byte; payload_exact_noLF: the Spec's effect of such a payload is the payload itself. The topology SVG is compared by "
         "white-space-free content (its flattening inserts blanks), for every byte string. "
         "Fields without ASCII form: proto_fields_partition (the field names of the proto definitions split into those the encoder model reads and five it "
         "has no line for: OutboundMessage.BusStatus, BusStatus.Fault, HWCEvent.Timestamp, AbsoluteEvent.PrevValue, SpeedEvent.PrevValue), "
         "enc_ignores_noncarried (message lists that differ only there encode equally), encOutX_sound (whatever they hold, the reader gets the "
         "effects of the carried part). "
         "C binding: cbinding_lines (no NUL in the returned strings => the C caller, reading to the first NUL and splitting at LF, gets exactly the strings), "
         "encOut_no_nul (no NUL in the message's strings => none in the output), cbinding_nul_truncates_counterexample (a NUL cuts the C string: observation, "
         "NUL is not printable). "
         "Rests on correspondence: model = OutboundMessagesToRawPanelASCIIstrings (sampled; all 8192 capability subsets in the thorough tier), in particular "
         "that it is a FUNCTION of the carried part of its argument (no state kept between calls, no result storage shared with later calls or other "
         "goroutines, nothing cached by object address, non-carried fields never read: eout.seq / eout.par / eout.reuse / eout.msgsx / eout.fields "
         "records) and unaffected by DebugRWPhelpers, "
         "float formatting and JSON of NetworkConfig (oracle values), Go map order (map lines compared as a set), C.CString = bytes + NUL (emulated in mode c).",
    note=TB,
    technique="Lean 4 proof (list induction, decimal round trip, generic capability-table argument, UTF-8 white-space rune analysis) + model/implementation correspondence incl. the C-binding path",
)
