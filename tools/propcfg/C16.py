def mono_nontrivial(cmd, inp, impl, prev):
    return prev is not None and impl != prev

TB = "Trusted: Lean kernel (axioms propext, Classical.choice, Quot.sound only, audited per theorem), the correspondence check (sampled unless stated exhaustive), the harness printers and Lean driver runtime, the extractor for regenerated tables. "

PROP = dict(
    family="c16", session_start={"mono.new"}, trivial=mono_nontrivial,
    n=dict(quick=700, thorough=6000),
    exhaustive=dict(quick=False, thorough=False),
    rule="sessions of 8-24 random drawing/geometry/text operations on canvases 0..64x0..64 (thorough: every "
         "size once, then random), coordinates in a window 3 canvas sizes beyond every edge and, now and then, at the edge of "
         "int32 (+-2^31-1; extents huge only on the negative side: a huge positive extent is a loop of that many iterations, "
         "outside the no-hang domain of C16.work_bound); the buffer is replaced now and then through CreateFromBytes with a "
         "slice shorter than, equal to or longer than ceil(w/8)*h (bytes beyond the canvas rows must survive every later "
         "operation: clause `tail`); a record is non-trivial when the operation changed the implementation's buffer; "
         "distinct = distinct record text",
    trusted_base=["Go int = int64: proved exact for geometry and arguments below 2^31 (C16.int64_safe); beyond that the "
                  "model's unbounded Int is not claimed faithful"],
    assumptions=["canvas sizes, bounding-box fields and arguments below 2^31 in magnitude, strings of at most 2^22 characters "
                 "(domain of int64_safe); loop extents small enough to terminate in reasonable time (work_bound)"],
)

CLAIM = dict(
    text="Lean theorems C16.step_holds / step_tail_holds / all_steps_hold / all_steps_hold_cmds: for every canvas size, bounding box, inversion flag and every sequence of drawing operations, NewImage and CreateFromBytes calls (slices shorter, equal or longer than the canvas needs) with arbitrary integer arguments, each step keeps the buffer size, leaves every stored bit (padding included) outside clip ∩ footprint and every byte beyond the canvas rows unchanged, and pixels/lines/filled rectangles set exactly the clipped footprint; the footprint of corner helpers and rounded rectangles is quadrant-exact (circ_quadrant, fcirc_side), DrawBitmap's effect is characterised exactly (drawBitmap_exact). The statement is the executable predicate Spec.Mono.checkBytes, which the run also evaluates on the real library's before/after buffers; model = code is checked by running both on generated operation sessions. C16.no_panic / no_panic_seq / strWidth_no_panic: in the panic-carrying form of the model (every slice access checked, negative shift counts panic) no operation on any canvas with any arguments fails. C16.work_bound: at most (L+1)*(82+72*E*(E+1)) loop iterations for extents <= E and L characters, whatever the coordinates. C16.int64_safe: with geometry and arguments below 2^31 every Go int value stays inside (-2^62, 2^62), so the Int model is exact on that domain.",
    note=TB + "Go int: exact below 2^31 (int64_safe); nothing claimed beyond. No-hang is a bound on loop iterations in terms of the extents (work_bound), not a wall-clock statement.",
    technique="Lean 4 proof (frame/paint calculus over DrawPixel, induction over loops and operation lists) + model/implementation correspondence",
)
