def mono_nontrivial(cmd, inp, impl, prev):
    return prev is not None and impl != prev

TB = "Trusted: Lean kernel (axioms propext, Classical.choice, Quot.sound only, audited per theorem), the correspondence check (sampled unless stated exhaustive), the harness printers and Lean driver runtime, the extractor for regenerated tables. "

PROP = dict(
    family="c16", session_start={"mono.new"}, trivial=mono_nontrivial,
    n=dict(quick=700, thorough=6000),
    exhaustive=dict(quick=False, thorough=False),
    rule="sessions of 8-24 random drawing/geometry/text operations on canvases 0..64x0..64 (thorough: every "
         "size once, then random), coordinates in a window 3 canvas sizes beyond every edge; a record is "
         "non-trivial when the operation changed the implementation's buffer; distinct = distinct record text",
    trusted_base=["Go int modelled as unbounded Int (no 64-bit overflow in the explored/proved domain)"],
    assumptions=["coordinates and sizes small enough that Go int arithmetic does not overflow"],
)

CLAIM = dict(
    text="Lean theorems C16.step_holds / all_steps_hold: for every canvas size, bounding box, inversion flag and every sequence of operations with arbitrary integer arguments, each step keeps the buffer size, leaves every stored bit (padding included) outside clip ∩ footprint unchanged, and pixels/lines/filled rectangles set exactly the clipped footprint. The statement is the executable predicate Spec.Mono.check, which the run also evaluates on the real library's before/after buffers; model = code is checked by running both on generated operation sessions.",
    note=TB + "Go int taken as unbounded (no 64-bit overflow).",
    technique="Lean 4 proof (frame/paint calculus over DrawPixel, induction over loops and operation lists) + model/implementation correspondence",
)
