def net_nontrivial(cmd, inp, impl, prev):
    return (" msg:" in impl) or (" dis:0" in impl) or (" rx:" in impl)

TB = "Trusted: Lean kernel (axioms propext, Classical.choice, Quot.sound only, audited per theorem); the trace validation (scripts run against the real client on loopback: enumerated fault spaces + sampled long streams), the harness' scripted panel / trace printer and the Lean driver runtime; the extractor for the regenerated constants (frame limit 500000, deadlines 2000 ms, probe buffer 1000). Outside the model: the Go scheduler, kernel TCP, real time (timing clauses are checked on traces with a 400 ms tolerance, never proved); io.ReadFull / bufio.ReadString / net.Conn deadlines / channels enter by their documented contracts. "

PROP = dict(
    family="c08", session_start=None, trivial=net_nontrivial, shrink=False, confirm_rerun=True, level="proof",
    n=dict(quick=285, thorough=900), timeout=1500,
    exhaustive=dict(quick=False, thorough=False),
    rule='one record = one script run against the real ConnectToPanel on loopback: every single (and in thorough every double; quick: a third of the double) cut point of a 3-frame 23-byte stream, 1-byte dribble, ASCII streams with LF / CRLF / padded terminators at every single cut point + random double cuts, random cuts of streams holding payloads of 0, 1, 2, 999, 1000, 1001, 65536 and 499999 bytes, idle gaps of 2.5 s and 4.5 s between messages (both modes), header split from payload by 1.5 s; a record is non-trivial when the client delivered messages, dropped a connection or wrote bytes; distinct = distinct record text',
    trusted_base=["io.ReadFull, bufio.ReadString, strings.TrimSpace (ASCII blanks), net.Conn read deadlines, Go channels and proto.Marshal/Unmarshal enter the model by their contracts (opaque where possible)",
                  "scripted TCP panel on loopback (harness/netpanel.go): what it sent and when is taken from its own trace"],
    assumptions=["atomicity of the LTS labels (one label = one Go statement group)", "timing clauses hold with a tolerance of 400 ms; scripts keep >= 300 ms from every deadline (others are tagged tight-margin and judged by the monitor alone)"],
)

CLAIM = dict(
    category="proof",
    text="Lean theorems over the client's read loop as a state machine, for every byte stream and every cut into segments (induction, no bound on stream length or frame count): C08.delivered_eq_parse (the deliveries are exactly the messages of the reference parser Spec.Net.parse, each once, in order), C08.feed_segmentation_independent, C08.delivered_prefix, C08.quiescent_complete, C08.idle_gap_harmless (with the deadline as explicit state: no deadline is armed while the client waits for a header, in every reachable state of the LTS arrive/expire/peerClose), C08.expire_only_outside_contract / in_contract_never_expires (the timeout can fire only inside a frame and only 2 s or more after that frame's first byte), and the ASCII analogues (lines_eq_reference, lines_segmentation_independent, crlf_eq_lf). The model is tied to the code by trace validation: the real ConnectToPanel runs in-process against a scripted TCP panel; the Spec monitor checkC08 (deliveries = the reference parse of what the panel sent, nothing after a disconnect, no disconnect while the panel keeps its timing contract) is evaluated on every trace and the model's deterministic outcome is compared with the observed one. Partial: Go scheduler, kernel TCP and real time are outside the model; byte-wise consumption stands for io.ReadFull/bufio by their contracts.",
    note=TB,
    technique="Lean 4 proof (state machines / LTS of the protocol logic, induction over streams and executions) + trace validation of the real client against a scripted TCP panel (Spec monitors on every trace, deterministic model outcome on margin-safe scripts)",
)
