from propcfg.C16 import TB

def nontrivial(cmd, inp, impl, prev):
    # an output that carries pixels / bytes (not the empty image or slice) and no panic
    if impl.startswith("panic"):
        return True
    if cmd == "pix.color":
        return True
    if cmd == "pix.obj":
        return any(len(t) > 12 for t in impl.split(" "))
    return any(len(t) > 8 for t in impl.split(" "))

PROP = dict(
    family="c17", session_start=None, trivial=nontrivial,
    n=dict(quick=600, thorough=6000),
    exhaustive=dict(quick=False, thorough=False),
    rule="pix.color: every colour code 0..255 (all 64 six-bit colours x the two don't-care bits) through both setters; "
         "pix.export: all 64x64 pixel/background pairs, canvas size walking over every size 0..24 x 0..12 (thorough 0..64 x 0..64, "
         "every size at least once), random/constant bit patterns incl. padding bits, RGB565 and grey export; "
         "pix.rt: every size x both invert values, ConvertToImage then CreateFromImage into a fresh object and into used ones "
         "(96x80 all lit; exactly the same size all lit; another shape of exactly the same byte size all lit); pix.fromimg: random "
         "RGBA images with red values around the threshold, same destinations; pix.obj: n/2 call sequences on ONE object, 3-9 calls "
         "in any order out of {SetOLEDPixelColor, SetOLEDBckgColor, NewImage, CreateFromBytes short/exact/long, FillRect, "
         "CreateFromImage of a converted mono image / of an RGBA image / of the object's own ConvertToImage, export}, every second "
         "(re)creation with exactly the byte size the object already holds (same size, same byte column count, transposed), "
         "colour fields, canvas and both exports printed call by call; pix.seq: n/2 sequences of 2-4 conversions in a row, the caller "
         "keeping every result (CreateImgObjectFrom*Bytes / RwpImgToImage image objects and the ConvertGfxStateToPngBytes bytes of "
         "a state in any of the three formats; GetImgSlice / GetImgSliceRGB / GetImgSliceGray slices and the ConvertToImage object "
         "of a mono image, on a fresh object or on the object of the step before), a later step mostly of the same format and "
         "declared size with flatter (one constant byte) / other / shorter data or of a smaller size, every result printed right "
         "after its call and again after the last call (PNG decoded then), 25% with two goroutines running the sequence at the "
         "same time; pix.gfx / pix.gfxo (30% of the states: XYoffset, X, Y "
         "set to non-default values): the three formats, for every size 0..6 x 0..3 (mono also widths +6, +14; thorough "
         "0..10 x 0..5) every data length 0..needed+2, then n random states up to 24x12 (thorough 64x64) with data shorter / equal / "
         "longer, then declared sizes up to 320 pixels per side; each through CreateImgObjectFrom*Bytes, RwpImgToImage at the declared "
         "size and on a random smaller/larger target canvas, and ConvertGfxStateToPngBytes decoded with image/png; "
         "non-trivial = output carries pixels; distinct = distinct record text",
    trusted_base=["Go image.RGBA (NewRGBA, Set ignoring out-of-rectangle points, At = zero colour outside), image/draw fill with a "
                  "uniform colour, color.RGBA.RGBA() = 8-bit value x 0x101: modelled by Model/Pix.lean `Img`",
                  "image/png encode+decode is the identity on RGBA pixels and refuses images without pixels (decoded in the harness "
                  "with image/png; the run compares the decoded PNG with the direct routine's image on every gfx record)",
                  "math.Ceil(float64(w)/8) = (w+7)/8 for the sizes in question",
                  "Go int modelled as unbounded; HWCGfx.W/H are uint32 so sizes are natural numbers; target canvas sizes >= 0"],
    assumptions=["declared and target sizes whose image.NewRGBA buffer length 4*w*h fits an int and whose ceil(W/8)*H-byte slice can "
                 "be made (guards of short_data_no_panic; a state declaring 2^31 x 2^31 pixels panics in ConvertGfxStateToPngBytes, "
                 "65536 x 65536 asks for 16 GiB, RwpImgToImage then loops W*H times: outside the property's 'few hundred pixels')",
                 "target canvas width/height of RwpImgToImage are non-negative",
                 "graphics format is one of MONO, RGB16bit, Gray4bit",
                 "grey export: pixel clause for even widths only (odd widths: no panic, size and content outside the clause)",
                 "PNG path: for declared width or height 0 no PNG image exists (encoder refuses); outside the clause"],
)

CLAIM = dict(
    text="Lean theorems over Model/Pix.lean, where every Go slice access is modelled as panicking (none) when out of range: "
         "for every canvas size (0 and odd included), bit pattern and 16-bit colour pair the RGB565 export has 2wh bytes and every pixel "
         "is the big-endian pixel/background colour by its bit, the grey export has wh/2 bytes and (even widths) every nibble is the top "
         "nibble of the luma (sliceRGB_size/pixel, sliceGray_size/pixel, export_holds through Spec.checkExport); sixbit_to_565: all colour "
         "codes map to the documented RGB565 table (64 by decide + closed form for all naturals); mono_image_roundtrip: ConvertToImage then "
         "CreateFromImage reproduces every visible pixel (complement for invert), any size; expansion_mono/rgb/gray, routines_agree, "
         "rwp_centering, gfx_holds: for all declared sizes, all data lengths (shorter, equal, longer) and all target canvas sizes every "
         "pixel covered by the data is the documented expansion in CreateImgObjectFrom*Bytes, RwpImgToImage and the PNG path, images have "
         "exactly the declared / target size, the centred copy sits at offset (tw-W)/2 truncated; short_data_no_panic: no modelled function "
         "ever indexes outside a slice, and no allocation panics when 4*W*H fits an int (huge_size_panics_counterexample: W=H=2^31 "
         "panics); rwp_uncovered_black: the rest of RwpImgToImage's canvas is black; sliceGray_content: every byte of the grey export "
         "for every width (odd widths pair the last pixel of a row with the padding bit); export_of_long: a CreateFromBytes slice "
         "longer than needed is installed as is and the exports ignore the surplus. "
         "One object used more than once (Model/Pix.lean Obj / ObjCall): applyObj_good / runObj_good - no call of any history of "
         "colour setters, (re)creations from sizes, byte slices and image objects, drawing and exports panics and the canvas stays "
         "well-formed; obj_export_holds - after ANY such history both exports satisfy clause (1) for the colours the object shows at "
         "that moment; obj_roundtrip_holds / obj_self_roundtrip_holds - a conversion into a used object does not depend on what it "
         "held and satisfies clause (3). The placement fields XYoffset/X/Y of a graphics message are parameters of no conversion "
         "(Spec and model): routines agree, centred placement (rwp_centering). "
         "The same Spec predicates are evaluated on the real library's outputs and model = code is checked on "
         "generated records (all 64x64 colour pairs, all sizes of the grid, every truncation length for small images, call sequences on one object in every order of set colours / (re)create / draw / export incl. re-creation with exactly the byte size already held, sequences of conversions whose results the caller keeps - every result is compared right after its call and again after the later calls (clause `retained`: a later conversion changes nothing an earlier one returned; the model's conversions are functions of their arguments), graphics messages with the placement fields set). Finding fixed by the "
         "patch: with mono data shorter than declared the PNG path rendered all black while RwpImgToImage expanded the bytes present "
         "(short_mono_png_black_counterexample).",
    note=TB + "image.RGBA / image/draw / image/png are trusted as modelled (PNG identity additionally compared on every run). Go int unbounded.",
    technique="Lean 4 proof (loop invariants over Option-monadic loops: out-of-range index = none; arithmetic for bit fields; decide for the "
              "64-colour table) + model/implementation correspondence",
)
