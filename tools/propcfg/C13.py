def topo_nontrivial(cmd, inp, impl, prev):
    """a look-up that hit something: not a load, not a not-found / empty answer"""
    if cmd == "topo.load":
        return False
    for dull in ("err ", "xy -1 -1 ", "txt - ", "td 0 0 - - - - 0 0 - ~ 0 ", "ids 0 ", "hwc 0 0 0 - 0 0 0 ~ ", "panic"):
        if impl.startswith(dull):
            return False
    return True

TB = "Trusted: Lean kernel (axioms propext, Classical.choice, Quot.sound only, audited per theorem), the correspondence check (sampled), the harness printers and Lean driver runtime, the extractor for the regenerated tag table. "

PROP = dict(search_rounds=1, 
    family="c13", session_start={"topo.load"}, trivial=topo_nontrivial,
    n=dict(quick=220, thorough=4000),
    exhaustive=dict(quick=False, thorough=False),
    rule="sessions = one generated topology (0-8 components, 0-12 types; duplicate ids, id 0 / 2^32-1, type 0, types missing "
         "from the index, index key 0, every override attribute alone and all-but-one, random subsets, non-positive numbers in "
         "overrides, comma lists in the input kind) followed by every getter for every present id and several absent ones, every "
         "slice index -1..len+1, free-standing components, wrapped int ids; every record carries ToJSON() after the call; a record "
         "is non-trivial when the look-up returned something other than the not-found/empty answer; distinct = distinct record text, "
         "where every record carries a fingerprint (`#xxxxxxxx`, ignored by executor and driver) of the topology it runs on",
    trusted_base=["encoding/json text layer (ToJSON output is re-tokenised by Go's own json.Decoder before comparison)",
                  "float32 Rotate carried as the decimal token encoding/json prints; only compared with \"0\" and copied",
                  "fmt.Sprint(ptr) != fmt.Sprint(struct{}) in GetHWCTypeDefinition modelled as true for every non-nil override (tied by correspondence incl. all-zero overrides)"],
    assumptions=["component ids / type numbers are uint32, coordinates and sizes Go ints (no 64-bit overflow involved: values are only copied and compared)"],
)

CLAIM = dict(
    text="Lean theorem C13.lookup_holds: for every topology (any component list incl. duplicate ids, type 0, types missing from the index; any type index; every combination of the 11 override attributes) and every look-up of the interface (GetHWCs, GetHWCxy, GetHWCtext, GetHWCtype, GetHWCsWithDisplay, GetTypeDefWithOverride, GetHWCTypeDefinition[FromHWCid], GetHWCDefinitionFromHWCid, the predicates) the answer satisfies Spec.Topo.checkLookup: resolved definition = attribute-wise overlay of the override on the indexed base type, documented not-found results for unknown ids, both resolvers agree on the nine shared attributes when the type is indexed, and the topology (hence its serialised form) is unchanged; C13.predicates_depend_only_on_resolved: equal resolved definitions give equal predicate values. The same predicates are evaluated on the real library's answers (incl. ToJSON() after every call); model = code is checked by running both on generated topologies.",
    note=TB + "encoding/json text layer and float printing trusted; negative slice indices (the second resolver panics) and int ids outside uint32 are outside the property's domain (modelled and compared, not claimed).",
    technique="Lean 4 proof (induction over the component list / type index, per-attribute overlay lemmas) + model/implementation correspondence",
)
