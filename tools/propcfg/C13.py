def topo_nontrivial(cmd, inp, impl, prev):
    """a look-up that hit something: not a load, not a not-found / empty answer"""
    if cmd == "topo.load":
        return False
    if cmd == "topo.jsonraw":
        return False
    for dull in ("err ", "xy -1 -1 ", "txt - ", "td 0 0 - - - - 0 0 - ~ 0 ", "ids 0 ", "hwc 0 0 0 - 0 0 0 ~ ", "panic", "alias 0 "):
        if impl.startswith(dull):
            return False
    return True

TB = "Trusted: Lean kernel (axioms propext, Classical.choice, Quot.sound only, audited per theorem), the correspondence check (sampled), the harness printers and Lean driver runtime, the extractor for the regenerated tag table. "

PROP = dict(search_rounds=1, 
    family="c13", session_start={"topo.load"}, trivial=topo_nontrivial,
    n=dict(quick=220, thorough=4000),
    exhaustive=dict(quick=False, thorough=False),
    rule="sessions = one generated topology (0-8 components, 0-12 types; duplicate ids, id 0 / 2^32-1, type 0, types missing "
         "from the index, index key 0, every override attribute alone and all-but-one, random subsets, non-positive numbers in "
         "overrides, comma lists in the input kind) followed by every getter for every present id and several absent ones, every "
         "slice index -1..len+1, free-standing components, wrapped int ids; every record carries ToJSON() after the call; "
         "topo.alias records: after a getter the harness writes through the returned value (Sub[0].X++ / Disp.W++ / TypeOverride.W++), records whether "
         "ToJSON() changed, undoes the write — the store-of-cells model predicts each outcome (shared base-type array, shared override cell, "
         "free-standing override = not topology storage); HISTORIES on the same Topology object: after the look-ups of a session 1-3 steps, each followed by all "
         "look-ups again (every id, every index): topo.assign - a changed value (a component's override set / altered / removed, a component removed / inserted / "
         "retyped / renumbered onto another id / moved / swapped with another, an index entry altered / removed / added, the title, two changes in a row, the "
         "session's first topology again, rarely a different topology) is written into the EXISTING object through its exported fields, with new cells or reusing "
         "the existing ones; topo.wedit - a getter is called and the caller edits what it was handed without undoing it (own: every field of the returned struct "
         "overwritten; ownrefs: its Disp/Sub pointed at new cells; sub/disp/ov: through the shared references), the record carries the topology read back "
         "through the exported fields, which the store-of-cells model predicts and against which every later answer is judged; CleanSections / RandomizeTypes "
         "between look-ups; topo.pred2: the predicates twice on ONE definition object whose fields are assigned in between; every argument OBJECT passed to the "
         "library (free-standing component, the definition the predicates are asked about) is compared with a deep copy taken before the call (argmod); topo.jsonraw: the raw bytes of ToJSON() against the model's text layer; rotations incl. negative zero; a record "
         "is non-trivial when the look-up returned something other than the not-found/empty answer (alias: something to write through); distinct = distinct record text, "
         "where every record carries a fingerprint (`#xxxxxxxx`, ignored by executor and driver) of the topology it runs on",
    trusted_base=["ToJSON() after each call is compared as re-tokenised by Go's own json.Decoder (canonical text); the raw bytes are compared with the model's text layer on topo.jsonraw records (valid UTF-8 strings)",
                  "float32 Rotate carried as the decimal token encoding/json prints ('0' / '-0' for the zeros); only tested for being a zero (either sign, as Go's != 0 and omitempty do) and copied",
                  "store-of-cells model: slices cover their whole backing array (true of topologies built by json.Unmarshal or field by field); mutexes are not data",
                  "fmt.Sprint(ptr) != fmt.Sprint(struct{}) in GetHWCTypeDefinition modelled as true for every non-nil override (tied by correspondence incl. all-zero overrides)"],
    assumptions=["component ids / type numbers are uint32, coordinates and sizes Go ints (no 64-bit overflow involved: values are only copied and compared)"],
)

CLAIM = dict(
    text="Lean theorems (Props/C13.lean, 32 audited). Value level - C13.lookup_holds: for every topology (any component list incl. duplicate ids, type 0, types missing from the index; any type index; every combination of the 11 override attributes) and every look-up of the interface (GetHWCs, GetHWCxy, GetHWCtext, GetHWCtype, GetHWCsWithDisplay, GetTypeDefWithOverride, GetHWCTypeDefinition[FromHWCid], GetHWCDefinitionFromHWCid, the predicates) the answer satisfies Spec.Topo.checkLookup: resolved definition = attribute-wise overlay of the override on the indexed base type, documented not-found results for unknown ids, both resolvers agree on the nine shared attributes when the type is indexed, and the topology (hence its serialised form) is unchanged; C13.preds_meet_spec: every derived predicate has the value of the Spec's independent reading (input kind = first comma-separated token, characterised relationally; kind lists; LED on whole strings; steps = index span; LED-bar steps on 'contains'), C13.predicates_depend_only_on_resolved: equal resolved definitions give equal predicate values. C13.resolveB_eq states exactly what the second resolver returns (overlay with description/render hints of the base type), resolvers_on_unindexed + counterexample pin the divergence for unindexed types, resolveBid_wraps / resolveBid_minus_one say what int ids outside uint32 do (-1 is id 4294967295), not_found_results gives the exact not-found answers incl. the error text. Reference level (store-of-cells model of the TypeOverride/Disp pointers and Sub backing arrays): execR_refines (the value model is its abstraction), lookups_write_no_cell + lookups_do_not_mutate_heap (a look-up only allocates; every existing cell and hence ToJSON() unchanged), returned_refs_alias_storage + alias_hazard_* (the returned definition shares Disp/Sub cells with the topology: a caller writing through it changes ToJSON() - documented hazard, observed on the implementation and predicted record by record), caller_edit_of_own_copy_keeps_topology (whatever a caller writes into the struct a look-up handed it - every field, or new Disp/Sub cells - changes no cell of the topology: serialised form and every later answer unchanged). HISTORIES are checked on the implementation: on ONE Topology object look-ups, then a change (through the exported fields, through CleanSections / RandomizeTypes, or an edit of a value handed out earlier), then all look-ups again - each answer is judged by Spec.Topo.checkLookup against the topology as it then stands (read back through the exported fields), so an answer that reflects an earlier look-up instead of a fresh resolution is an overlay / notfound / withdisplay / preds violation. The same predicates are evaluated on the real library's answers (incl. ToJSON() after every call); model = code is checked by running both on generated topologies.",
    note=TB + "float printing trusted (tokens); negative slice indices (the second resolver panics: resolveB_negative_index_panics) are outside the Spec's domain; int ids outside uint32 are covered through resolveBid_wraps (looked up as their residue).",
    technique="Lean 4 proof (induction over the component list / type index, per-attribute overlay lemmas, heap-extension frame lemmas for the store-of-cells refinement) + model/implementation correspondence incl. aliasing observations",
)
