def svg_nontrivial(cmd, inp, impl, prev):
    """a document with at least one appended element; for the printer records: a non-empty string printed"""
    t = impl.split(" ")
    if cmd == "svg.esc":
        return len(t) == 1 and len(t[0]) > len("3c74657874207374796c653d2222202f3e")   # more than `<text style="" />`
    # OUT := PR doc strEmpty kept kept2 keptMod wellformed tail args again n NODE^n ; svg.seq: several OUT separated by ';'
    for out in impl.split(" ; "):
        t = out.split(" ")
        if len(t) > 11 and t[1] == "doc" and t[10] != "0":
            return True
    return False

TB = "Trusted: Lean kernel (axioms propext, Classical.choice, Quot.sound only, audited per theorem), the correspondence check (sampled), the harness printers and Lean driver runtime. "

PROP = dict(search_rounds=1,
    family="c15", session_start=None, trivial=svg_nontrivial,
    n=dict(quick=2500, thorough=15000),
    exhaustive=dict(quick=False, thorough=False),
    rule="per generated topology (as for C13; labels none / one line / two lines / empty second line / three parts; "
         "sub-element styles with quotes, <, >, &, control bytes, non-ASCII, U+FFFE/U+FFFF) two svg.gen records, each = GenerateCompositeSVGdoc twice with the SAME argument objects "
         "+ GenerateCompositeSVG + the default-switch document (flags: args = the availability map equals a deep copy taken before, after every call; again = the second call gives the same "
         "document, the first document still prints the same, the wrapper's string is XMLPretty() of the default document), with: "
         "render switches default (labels+ids) or random; base SVG: 30% one of 10 fixed valid documents without lossy feature (minimal, namespaced, nested with "
         "text and entities, multi-line attributes, style block, CDATA + character references, DOCTYPE + quotes/control characters in attribute values, internal "
         "DTD subset + text in the root + standalone declaration, self-closing root), 15% any of 27 fixed documents incl. 17 invalid (empty, blank, unclosed, "
         "mismatched, plain text, unquoted attribute, trailing garbage; no element at all: declaration only, newline, comments, DOCTYPE only - ParseXML returns "
         "err==nil with Root==nil; unknown entity), 12% one of 19 fixed valid documents with a lossy feature (comments inside/before/after the root, mixed "
         "content, text + CDATA, prefixed attributes and elements, xlink:href + href, xml:space, processing instructions inside/after/behind the DOCTYPE, two "
         "instructions), 5% one of 7 valid documents the decoder rejects (8-bit encodings, XML 1.1, internal entities), 38% a document from a grammar of valid "
         "XML (harness/svgbase.go: optional declaration in 3 spellings or a leading stylesheet instruction, misc, optional DOCTYPE plain / PUBLIC / with "
         "internal subset, root with xmlns / xmlns:p declarations, elements nested to depth 3 with 0-3 attributes (entities, character references, both quote "
         "styles, line breaks, non-ASCII; with probability 1/4 prefixed by a declared prefix or xml:), content items element / character data with entities and "
         "surrounding blanks / comment / processing instruction / CDATA / blanks; 35% of them 'clean': no comment, prefix, inner instruction, and character data "
         "or one CDATA section only as the last thing in an element) - each combined with visible components; availability map nil / empty / all non-zero / all "
         "zero / random subset incl. foreign ids; the record carries the encoding/xml token stream of the base (Token() with the names of RawToken(): input of "
         "model and Spec; the harness refuses a record whose summary is not the one encoding/xml gives for its base), the harness's lossy-feature flags F: "
         "(comment, mixed-text, ns-prefix, pi, dup-attr, rej-*; the driver answers NE H0:feature-flags when they differ from the Spec's features of the token "
         "stream), what the real xmldom.ParseXML returned, every appended element (name, ordered attributes, text, printed text), and five observed flags (tree "
         "comparison of the base part; encoding/xml token stream of the base contained in order in that of doc.XML() and doc.XMLPretty(); keptMod: the same containment after deleting from BOTH "
         "streams what the named features cover - comments, name prefixes, the processing instructions when one is not the first token, character data that is not last in its element - "
         "computed by an independent Go normaliser on the real RawToken streams; both printed documents "
         "re-parse with one root and no duplicate attribute; both end with the printed appended elements), which the model predicts too (EQ includes them; keptMod = 1 is a theorem). "
         "With probability 35% per topology a svg.seq record: 3-4 renderings that share ONE availability map object and ONE Topology object (each topology assigned into it in place, its ToJSON() "
         "is the argument): (T, base), then one or two changed topologies (the C13 field edits) and / or other bases / switches, then (T, base) again - every call judged like a svg.gen record "
         "(bases without lossy feature only, the known findings being classified on svg.gen records). Plus "
         "svg.esc records: the go-xmldom printer on a node whose attribute value and text are arbitrary bytes. Corpus: the 26 fixed lossy / rejected documents, "
         "the rootless bases, printer bytes. Non-trivial = a document with at least one appended element / a non-empty printed string; distinct = distinct record text",
    trusted_base=["encoding/xml's tokenizer (Decoder.Token / RawToken): the token stream of the base document enters model and Spec as data (incl. that Token() "
                  "never delivers an end tag without an open element); the harness refuses a record whose token summary is not the one encoding/xml gives for its base",
                  "go-xmldom at byte level: the model of its parse/print round trip (Model/XmldomBase.lean) works on token streams; that the printed bytes "
                  "re-tokenize to the modelled tokens (escaping/unescaping of values and text, <?target inst?>, <!directive>) is checked by correspondence of the "
                  "observed flags kept2 / wellformed on every record, not proved; flags kept (tree comparison) and tail are observed only",
                  "the harness's judgement 'valid document that the default decoder rejects' (rej-encoding / rej-version / rej-entity): encoding/xml with a "
                  "Latin-1 CharsetReader / version 1.1 read as 1.0 / Decoder.Entity filled from the <!ENTITY name \"value\"> declarations of the internal subset",
                  "json.Unmarshal of the topology text (C14: the text is ToJSON() output, parsed back to the same topology)",
                  "fmt.Sprintf(\"%03f\") of the float32 rotation and of rotation+90 enter model and Spec as a table supplied with each record"],
    assumptions=["coordinates and sizes small enough that Go int arithmetic does not overflow",
                 "base documents that encoding/xml tokenizes although they are not well-formed XML (two top-level elements, character data outside the root, a "
                 "directive inside it, an attribute written twice) are outside the domain (Spec.SvgBase.XmlDoc) and are not generated; the model covers them "
                 "(a second top-level element is not printed)"],
)

CLAIM = dict(
    text="Lean theorems (Props/C15.lean, 39 audited). PROVED for every topology, availability map (nil, empty, any entries), render switches, rotation-format "
         "table, base token stream and ALL byte strings as labels/styles: (1) C15.svg_appended_holds - the elements GenerateCompositeSVGdoc appends satisfy "
         "Spec.Svg.checkAppended: each is well-formed as printed (name rect/circle/text; attribute names XML names and pairwise distinct; the printed text is "
         "<name a=\"v\".. /> or <name a=\"v\"..>content</name> whose values/content contain no raw <, no raw & (only the five predefined entities and "
         "character references to XML Chars), no raw quote in a value, only valid UTF-8 of XML Chars, no ]]> - C15.appended_wellformed, "
         "printed_wellformed_any_node (the modelled printer = xml.EscapeText with utf8.DecodeRune, for any node), attr_names_distinct), and they are exactly one "
         "group per visible component in order and nothing else: a main shape carrying id=HWc<id> (rect with x=X-W/2, y=Y-H/2, width, height when the resolved "
         "height is > 0, else circle at (X,Y) with r=W/2) with transform=rotate(<%03f> X Y) exactly when the resolved rotation is not zero (neither 0 nor -0), "
         "then one rect/circle per r/c sub element at its offset with the same transform rule and rx/ry/style exactly when the sub element's Rx/Ry/Style is "
         "non-zero/non-empty, one text per label line (1 or 2), optional development texts, the id text - no other element carrying an id; masked components "
         "contribute nothing (masked_contribute_nothing, one_main_shape_per_visible, main_shape_geometry, shape_rotation, transform_present_iff, label_count_*, "
         "id_text_present). (2) C15.bad_svg_gives_empty - when the encoding/xml token stream of the base ends in an error, is empty, or contains no start "
         "element the modelled xmldom.Parse returns err or noRoot and the result is none (the string wrapper returns \"\"); parse_root_iff_valid, "
         "valid_base_gives_document; rejected_valid_gives_empty: the same for a valid document the decoder rejects, where the predicate then says "
         "valid-base-rejected:<class>. (3) THE BASE DOCUMENT through the go-xmldom parse/print round trip, modelled on encoding/xml token streams "
         "(Model/XmldomBase.lean: prefixes dropped, every character-data token overwrites the element's text which is printed after the children, only the last "
         "processing instruction kept and printed first, comments ignored, a second top-level element unreachable): C15.kept_iff_no_lossy_feature - for every "
         "token stream that is a document (matching tags, one top-level element, no character data outside it, directives in the prolog) the base printed back "
         "alone keeps its content (Spec.SvgBase.keepsContent: the base's non-blank tokens, names as written, in order within the printed tokens) IF AND ONLY IF "
         "it has none of four features: a comment, a prefixed element/attribute name, a processing instruction behind another token, non-blank character data "
         "that is not the last thing in its element; lossless_roundtrip - then the printed token stream equals the base's content; kept_of_no_lossy_feature - "
         "and it stays kept whatever elements are appended; comment_lost, prefix_lost, pi_lost - with any appended elements the content is NOT kept when the "
         "feature is present; mixed_text_lost - the same for mixed text when nothing is appended, and mixed_text_kept_by_coincidence: a concrete witness that "
         "with an appended element the token-containment test can be satisfied although text moved (exact guard: nothing appended); "
         "kept_modulo_features - for EVERY document and whatever is appended, after deleting from the base and from the printed document what the four features cover "
         "(Spec.SvgBase.normal) the rest of the base is, in order, within the rest of the printed document (Spec.SvgBase.keepsContentMod = the observed flag keptMod): a loss beyond "
         "the named features is never predicted; the Spec names it plain base-content and checks it BEFORE the clauses that carry a feature name "
         "(extra_loss_not_hidden_by_known_finding), so a known finding on the same record cannot hide it; "
         "wellformed_iff_no_attr_collision - the printed document has an attribute name twice in a start tag exactly when a base tag has two attributes with "
         "the same local name (attr_collision_needs_prefix: only possible with prefixes). (4) C15.svg_model_verdict / model_failure_is_classified / "
         "svg_model_holds_of_no_feature - the verdict of the whole predicate Spec.Svg.checkSVG on the model's output with the model's own flags is "
         "not-wellformed:duplicate-attribute / holds / base-content:<feature>; it is never the plain base-content or wellformed, and it is 'holds' for every "
         "document without the five features; svg_verdict_is_observation / svg_holds - for arbitrary observed flags the verdict is exactly the verdict on the "
         "flags; model_call_ok - the per-call clauses argument-modified / not-repeatable (Spec.Svg.callOk: the availability map equals a deep copy taken before the call; the same "
         "argument objects passed again give the same document) hold of the model, which is a function of its arguments. (5) label_positions, label_spacing, text_transform - not fixed by the property text but by the code. CHECKED on the real library (every "
         "record): model = code incl. parser outcome, every element, attribute order, text, every printed byte of the appended elements AND the flags kept2 / keptMod / "
         "wellformed computed with encoding/xml on the real documents, args / again observed per call; the Spec evaluated on the implementation's output. KNOWN FINDINGS (known_findings.json, "
         "8 classes, status known): on the unchanged library the property is FALSE for valid base documents with a comment, mixed content, a namespace prefix, "
         "a processing instruction that is not first (content lost), two attributes with one local name (output not well-formed), and three kinds of valid "
         "documents are rejected (8-bit encoding, XML 1.1, internal entity): the check prints KNOWN-FINDING for exactly these classes (clause name derived by the "
         "Spec from the base's token stream AND the harness's feature flag of the record must both match) and reports every other violation, in particular "
         "content lost on a base without these features (plain base-content), content lost on a base WITH such a feature that the feature does not explain (keptMod = 0: plain "
         "base-content), a modified argument, a call that is not repeatable, and any difference between code and model.",
    note=TB + "The go-xmldom round trip is modelled at token level; that printed bytes re-tokenize to the modelled tokens rests on correspondence (flags on every "
         "record), not proof. 'kept' (tree comparison) and 'tail' are observed only. The eight known-finding classes are caused by the third-party XML "
         "library (go-xmldom over encoding/xml); no repair short of replacing it.",
    technique="Lean 4 proof (attribute calculus over SetAttributeValue, induction over components / sub elements / label lines; byte-level recogniser of "
              "XML attribute values and content vs. the escape function; stack-transducer model of the xmldom round trip on token streams with an "
              "invariant-carrying induction and a length/sublist argument) + model/implementation correspondence",
)
