def svg_nontrivial(cmd, inp, impl, prev):
    """a document with at least one appended element"""
    t = impl.split(" ")
    return len(t) > 5 and t[0] == "doc" and t[4] != "0"

TB = "Trusted: Lean kernel (axioms propext, Classical.choice, Quot.sound only, audited per theorem), the correspondence check (sampled), the harness printers and Lean driver runtime. "

PROP = dict(search_rounds=1, 
    family="c15", session_start=None, trivial=svg_nontrivial,
    n=dict(quick=2500, thorough=15000),
    exhaustive=dict(quick=False, thorough=False),
    rule="per generated topology (as for C13; labels none / one line / two lines / empty second line / three parts) two calls of "
         "GenerateCompositeSVGdoc + GenerateCompositeSVG with: render switches default (labels+ids) or random; base SVG from 15 documents "
         "(minimal, namespaced, nested with text and entities, multi-line attributes, comments, style block; invalid: empty, blank, unclosed, "
         "mismatched, plain text, comment only, unquoted attribute, trailing garbage); availability map nil / empty / all non-zero / all zero / "
         "random subset incl. foreign ids; the record carries every appended element (name, ordered attributes, text), whether the base's own "
         "children and root attributes are unchanged, and whether the printed document re-parses; non-trivial = a document with at least one "
         "appended element; distinct = distinct record text",
    trusted_base=["go-xmldom / encoding/xml: parsing of the base document, printing and escaping (well-formedness and 'keeps the base content' are "
                  "checked on the implementation by re-parsing / comparing, not proved)",
                  "json.Unmarshal of the topology text (C14: the text is ToJSON() output, parsed back to the same topology)",
                  "fmt.Sprintf(\"%03f\") of the float32 rotation and of rotation+90 enter the model as a table supplied with each record",
                  "the harness decides 'base SVG parsable' with encoding/xml (reads to EOF, at least one element)"],
    assumptions=["coordinates and sizes small enough that Go int arithmetic does not overflow"],
)

CLAIM = dict(
    text="Lean theorem C15.svg_holds: for every topology, availability map (nil, empty, any entries), render switches and rotation-format table, the list of elements GenerateCompositeSVGdoc appends to the base document satisfies Spec.Svg.checkSVG: nothing for an unparsable base; otherwise exactly one group per visible component in order and nothing else - a main shape carrying id=HWc<id> (rect with x=X-W/2, y=Y-H/2, width, height when the resolved height is > 0, else circle at (X,Y) with r=W/2), then one rect/circle per r/c sub element at its offset, one text per label line (1 or 2), optional development texts, the id text - with no other element carrying an id; masked components contribute nothing (C15.masked_contribute_nothing, one_main_shape_per_visible, main_shape_geometry, label_count_*, id_text_present). The same predicate is evaluated on the real library's documents; model = code (every element, attribute order and text) is checked on generated cases.",
    note=TB + "Well-formedness of the printed XML and preservation of the base document's content rest on go-xmldom/encoding/xml and are checked on the implementation only (re-parse, before/after comparison of the base's children).",
    technique="Lean 4 proof (attribute calculus over SetAttributeValue, induction over components / sub elements / label lines) + model/implementation correspondence",
)
