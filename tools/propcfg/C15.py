def svg_nontrivial(cmd, inp, impl, prev):
    """a document with at least one appended element; for the printer records: a non-empty string printed"""
    t = impl.split(" ")
    if cmd == "svg.esc":
        return len(t) == 1 and len(t[0]) > len("3c74657874207374796c653d2222202f3e")   # more than `<text style="" />`
    return len(t) > 8 and t[1] == "doc" and t[7] != "0"

TB = "Trusted: Lean kernel (axioms propext, Classical.choice, Quot.sound only, audited per theorem), the correspondence check (sampled), the harness printers and Lean driver runtime. "

PROP = dict(search_rounds=1,
    family="c15", session_start=None, trivial=svg_nontrivial,
    n=dict(quick=2500, thorough=15000),
    exhaustive=dict(quick=False, thorough=False),
    rule="per generated topology (as for C13; labels none / one line / two lines / empty second line / three parts; "
         "sub-element styles with quotes, <, >, &, control bytes, non-ASCII, U+FFFE/U+FFFF) two calls of GenerateCompositeSVGdoc + GenerateCompositeSVG with: "
         "render switches default (labels+ids) or random; base SVG from 28 documents - 10 valid (minimal, namespaced, nested with text and entities, "
         "multi-line attributes, style block, CDATA + character references, DOCTYPE + quotes/control characters in attribute values + attribute order, "
         "internal DTD subset + text in the root + standalone declaration, self-closing root), 18 invalid (empty, blank, unclosed, mismatched, plain text, "
         "unquoted attribute, trailing garbage; no element at all: XML declaration only, declaration + newline, newline, one / two comments, declaration + "
         "comment, DOCTYPE only - ParseXML returns err==nil with Root==nil; unknown entity, XML 1.1) - each combined with visible components; availability "
         "map nil / empty / all non-zero / all zero / random subset incl. foreign ids; the record carries the encoding/xml token kinds of the base (input of "
         "model and Spec), what the real xmldom.ParseXML returned (err / noroot / root), every appended element (name, ordered attributes, text, and the "
         "text node.XML() printed for it), and four observed flags (tree comparison of the base part; encoding/xml token stream of the base contained in "
         "order in that of doc.XML() and doc.XMLPretty(); both printed documents re-parse with one root and no duplicate attribute; both end with the "
         "printed appended elements). Plus svg.esc records: the go-xmldom printer on a node whose attribute value and text are arbitrary bytes (invalid "
         "UTF-8, control bytes, non-characters). Non-trivial = a document with at least one appended element / a non-empty printed string; distinct = "
         "distinct record text",
    trusted_base=["encoding/xml's tokenizer (Decoder.Token / RawToken): the token kinds of the base document enter model and Spec as data; the harness "
                  "refuses a record whose token summary is not the one encoding/xml gives for its base",
                  "go-xmldom's parsing of the base document into a tree and its printing of the base part: 'keeps the base content' and well-formedness of "
                  "the WHOLE printed document are observed on the implementation (flags kept, kept2, wellformed, tail), not proved",
                  "json.Unmarshal of the topology text (C14: the text is ToJSON() output, parsed back to the same topology)",
                  "fmt.Sprintf(\"%03f\") of the float32 rotation and of rotation+90 enter model and Spec as a table supplied with each record"],
    assumptions=["coordinates and sizes small enough that Go int arithmetic does not overflow",
                 "base documents on which the unchanged library loses content (comments, mixed content, namespace prefixes, processing instructions; list "
                 "lossyBases in harness/svgicon.go, `bin/harness c15 -tier findings`) are reported as findings and are not generated"],
)

CLAIM = dict(
    text="Lean theorems (Props/C15.lean, 22 audited). PROVED for every topology, availability map (nil, empty, any entries), render switches, rotation-format "
         "table, base token stream and ALL byte strings as labels/styles: (1) C15.svg_appended_holds - the elements GenerateCompositeSVGdoc appends satisfy "
         "Spec.Svg.checkAppended: each is well-formed as printed (name rect/circle/text; attribute names XML names and pairwise distinct; the printed text is "
         "<name a=\"v\".. /> or <name a=\"v\"..>content</name> whose values/content contain no raw <, no raw & (only the five predefined entities and "
         "character references to XML Chars), no raw quote in a value, only valid UTF-8 of XML Chars, no ]]> - C15.appended_wellformed, "
         "printed_wellformed_any_node (the modelled printer = xml.EscapeText with utf8.DecodeRune, for any node), attr_names_distinct), and they are exactly one "
         "group per visible component in order and nothing else: a main shape carrying id=HWc<id> (rect with x=X-W/2, y=Y-H/2, width, height when the resolved "
         "height is > 0, else circle at (X,Y) with r=W/2) with transform=rotate(<%03f> X Y) exactly when the resolved rotation is not zero (neither 0 nor -0), "
         "then one rect/circle per r/c sub element at its offset with the same transform rule and rx/ry/style exactly when the sub element's Rx/Ry/Style is "
         "non-zero/non-empty, one text per label line (1 or 2), optional development texts, the id text - no other element carrying an id; masked components "
         "contribute nothing (masked_contribute_nothing, one_main_shape_per_visible, main_shape_geometry, shape_rotation, transform_present_iff, label_count_*, "
         "id_text_present). (2) C15.bad_svg_gives_empty - when the encoding/xml token stream of the base ends in an error, is empty, or contains no start "
         "element (only a declaration / comments / white space: ParseXML returns err==nil, Root==nil) the modelled xmldom.Parse returns err or noRoot and the "
         "result is none (the string wrapper returns \"\"); parse_root_iff_valid, valid_base_gives_document: a root is found exactly for the valid bases. "
         "(3) C15.svg_verdict_is_observation / svg_holds - the verdict of the whole predicate Spec.Svg.checkSVG on the model's output is, for a valid base, "
         "exactly the verdict on the four OBSERVED flags, and 'holds' for an invalid base. (4) label_positions, label_spacing, text_transform - not fixed by "
         "the property text but by the code: label line a of cnt at x=X, y=Y+27+30a-(cnt*30)/2, lines 30 apart, texts rotate with the component (labels of "
         "tall types by 90 degrees more). OBSERVED on the implementation only (every record): the base document's content is kept (tree comparison and "
         "encoding/xml token-stream containment), the whole printed documents re-parse with one root and no duplicate attribute, and end with the printed "
         "appended elements. The same predicate is evaluated on the real library's documents; model = code (parser outcome, every element, attribute order, "
         "text and every printed byte) is checked on generated cases.",
    note=TB + "'Keeps the base document's content' and well-formedness of the part of the document that comes from the base rest on go-xmldom/encoding/xml and "
         "are observed, not proved; on the unchanged library they FAIL for valid base documents with comments, mixed content, namespace prefixes "
         "(xlink:href, xml:space; duplicate attributes can result) or several processing instructions - reported findings, excluded from the generator.",
    technique="Lean 4 proof (attribute calculus over SetAttributeValue, induction over components / sub elements / label lines; byte-level recogniser of "
              "XML attribute values and content vs. the escape function, by units per decoded rune) + model/implementation correspondence",
)
