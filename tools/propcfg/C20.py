from propcfg.C16 import TB

def nontrivial(cmd, inp, impl, prev):
    # some ink was drawn: the A canvas (6th token of the output `sw lh lh1 segw segw1 A B C`) is not all zero
    t = impl.split(" ")
    if cmd == "text.sess" and " D:" in inp:
        # final case = a direct DrawChar: `cw cell A B C …`
        return len(t) >= 5 and t[2].strip("0") not in ("", "-")
    return len(t) >= 8 and t[5].strip("0") not in ("", "-")

PROP = dict(
    family="c20", session_start=None, trivial=nontrivial,
    n=dict(quick=1500, thorough=30000),
    exhaustive=dict(quick=False, thorough=False),
    rule="every byte(rune) value 0..255 (except LF) x 3 fonts x proportional/fixed as single glyphs (runes U+0000..U+00FF, UTF-8 "
         "encoded) at 2 (quick) / 5 (thorough) sizes with random spacing, cursor and offset; runes >= U+0100 (RenderText keeps "
         "byte(rune): U+010A is a line feed) and malformed UTF-8 (RuneError -> 0xFD); n/4 clipped cases (negative and +-2^31 "
         "cursors, canvases smaller than the text: box clause + model comparison only); then random strings (printable, "
         "control, Latin-1, runes >= U+0100, stray / truncated / overlong / surrogate byte sequences, CR, LF: up to 3+ lines) x "
         "font numbers -1..3 x mode x spacing 0-3 x sizes 1-4 (v=0 included) on a canvas large enough not to clip; each case "
         "renders at (cx,cy), at (cx+dx,cy+dy) and at size 1 and reports StrWidth of the whole string and of every "
         "LF-separated segment at both sizes and GetCharWidth of every glyph; then n/3 sessions on ONE image object (text.sess: "
         "2-9 calls in any order out of SetFont / SetTextSize / SetCharSpacingCompensation / SetTextWrap / SetCursor / "
         "SetTextColor / NewImage / CreateFromBytes / StrWidth / LineHeight / GetCharWidth+GetCharStart / RenderText / DrawChar; "
         "30% two texts with a font or mode change in between, 30% size before font; 65% of the final strings start with the "
         "character the object handled last; 4 in 14 sessions ask the SAME metric queries - StrWidth of one string of 2-5 "
         "characters, LineHeight, GetCharWidth+GetCharStart of one byte - before and after each of 1-3 single setter calls "
         "out of SetFont / SetTextSize / SetCharSpacingCompensation / SetTextWrap / SetCursor / SetTextColor / SetBoundingBox / "
         "InvertPixels / NewImage / CreateFromBytes, each with a value different from the one in force, and mostly render that "
         "same string in the final case) followed by a final case on three objects with that history: RenderText with the "
         "metrics asked before or after the rendering, or a direct DrawChar whose size arguments are not the object's text size; "
         "non-trivial = some ink drawn; distinct = distinct record text",
    trusted_base=["Go `range string` decoding is modelled (Model/GoRunes.lean) and compared on every record; the harness only cuts "
                  "the string at runes whose byte is 10 to ask StrWidth for each line",
                  "Go int: see C16.int64_safe"],
    assumptions=["sizes and coordinates below 2^31 (no Go int overflow, C16.int64_safe)",
                 "translation / scale clauses are demanded of unclipped renderings only (Spec.Text.unclipped, evaluated on the "
                 "implementation's reported metrics); the box clauses always"],
)

CLAIM = dict(
    text="Lean theorems over Model/Mono.lean (strings as byte(rune) lists; Model/GoRunes.lean models Go's range decoding and the truncation). C20.ink_in_box / ink_in_box_lines: for every string (line feeds included: renderText_lf, one box per LF-separated line, first line at the cursor, the others at column 0), every font number, mode, spacing, size h>=0 and any v, any canvas, bounding box and cursor, with wrapping off, RenderText changes no stored bit outside the clipped line boxes [x, x+StrWidth(line)+h) x [y, y+v*cellHeight) (= LineHeight by lineHeight_eq). Font tables regenerated from /repo: no table index used for any byte is out of range (drawChar_index_in_range, font_tables_sized, glyph_facts), glyphs are at most 9 columns wide. C20.translation_any / translation_lines: on any starting canvas and bounding box, background = text colour, wrapping off, no glyph rejected by DrawChar's whole-glyph test, the rendering at (cx+dx, cy+dy) read at (X+dx, Y+dy) and the rendering at (cx, cy) read at (X, Y) are both painted or both untouched (line feeds: first line moves by (dx,dy), the others by (0,dy)); translation / translation_fits are the blank-canvas instances. C20.scale_general: size (h,v) with extra spacing h*k equals size 1 with extra spacing k enlarged h x v (scale_zero_spacing: k=0; scale_single_glyph: one glyph, any spacings). C20.wrap_irrelevant (text box + 8h fits => wrap on = wrap off; wrap_box_fits_counterexample shows a mere fit is not enough), strWidth_append. C20.spec_check_lines_state (spec_check_lines = its instance for the fixed setter order; spec_check_holds_state / spec_check_holds = the older one-line, width-multiple-of-8 instances): the executable predicate Spec.Text.check itself answers `none` on the model's three renderings for every text state with spacing 0, EVERY string (any number of line feeds: one segment per line, lines after the first at column 0 as the code puts them - renderText_lf, lineSt_eq), sizes >= 1, any cursor and offset, blank canvases of ANY width (row stride ceil(W/8) bytes; the padding bits the Spec also scans are never written); box clauses always, translation and scale clauses under the Spec's own gate `unclipped` (every line box of A, B and C on the canvas). C20.sess_final_lines (sess_final_holds = one-line instance) / runCalls_bg: the same after ANY call history on one image object (Mono.TextCall: setters in any order incl. SetBoundingBox / InvertPixels, queries, earlier texts, re-creations, direct DrawChar) - the model's object has no state besides canvas and text state. C20.spec_check_spacing: for every text state with any extra spacing, one-line strings, canvas width a multiple of 8, in the class of the recorded finding Spec.Text.check answers `none` or `scale.spacing`, never `scale` (the glyph cells at the advance h*w+s are the size-1 cells enlarged exactly h x v, nothing lit between them: Lemmas/MonoTextDev.textR0_dev); by kernel evaluation the recorded example gives `scale.spacing` and the same case with one extra pixel `scale`. All clauses (per line for strings with line feeds) are also evaluated on the real renderer's output for every byte x font x mode and random strings incl. multi-byte and malformed UTF-8 (model = implementation, Spec on the implementation's renderings). The same clauses are evaluated after arbitrary call histories on one image object (text.sess: setters in any order, metric queries - also the same queries before and after every single setter call, each answered by the model from the state at that moment -, earlier texts, re-creation, direct DrawChar with its own size arguments; the theorems quantify over every text state, so over every history). Known finding C20.scale_with_spacing (scale_with_spacing_counterexample): with the same extra character spacing > 0 on both sides, size h > 1 and >= 2 glyphs on a line the scaling clause is false of the code; a failure of the scale clause in that class is excused (clause scale.spacing) only if the rendering is exactly what the documented advance h*w+s gives - every glyph cell the size-1 cell enlarged h x v at that origin, nothing lit between the cells (Spec.Text.scaleDevOk, from the reported GetCharWidth of every glyph); anything else there is a plain `scale` violation.",
    note=TB + "spec_check_lines_state / spec_check_lines / sess_final_lines (spacing 0) hold for strings with any number of line feeds on canvases of any width. spec_check_spacing (extra spacing > 0: `none` or `scale.spacing`) is still for one-line strings on canvases whose width is a multiple of 8; for strings with line feeds that statement is checked on every run (per-line scaleDevOk), the model-level per-line theorem is Lemmas/MonoTextDev.textR0_dev. Clipped renderings (negative cursors etc.): box clauses and model comparison only.",
    technique="Lean 4 proof (induction over the string with generalised cursor on top of the C16 frame/paint calculus; kernel decide over regenerated font tables; executable Spec connected to the model by a bit-level bridge) + model/implementation correspondence",
)
