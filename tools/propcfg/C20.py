from propcfg.C16 import TB

def nontrivial(cmd, inp, impl, prev):
    # some ink was drawn: the A canvas (6th token of the output `sw lh lh1 segw segw1 A B C`) is not all zero
    t = impl.split(" ")
    return len(t) >= 8 and t[5].strip("0") not in ("", "-")

PROP = dict(
    family="c20", session_start=None, trivial=nontrivial,
    n=dict(quick=1500, thorough=30000),
    exhaustive=dict(quick=False, thorough=False),
    rule="every byte(rune) value 0..255 (except LF) x 3 fonts x proportional/fixed as single glyphs (runes U+0000..U+00FF, UTF-8 "
         "encoded) at 2 (quick) / 5 (thorough) sizes with random spacing, cursor and offset; runes >= U+0100 (RenderText keeps "
         "byte(rune): U+010A is a line feed) and malformed UTF-8 (RuneError -> 0xFD); n/4 clipped cases (negative and +-2^31 "
         "cursors, canvases smaller than the text: box clause + model comparison only); then random strings (printable, "
         "control, Latin-1, runes >= U+0100, stray / truncated / overlong / surrogate byte sequences, CR, LF: up to 3+ lines) x "
         "font numbers -1..3 x mode x spacing 0-3 x sizes 1-4 (v=0 included) on a canvas large enough not to clip; each case "
         "renders at (cx,cy), at (cx+dx,cy+dy) and at size 1 and reports StrWidth of the whole string and of every "
         "LF-separated segment at both sizes; non-trivial = some ink drawn; distinct = distinct record text",
    trusted_base=["Go `range string` decoding is modelled (Model/GoRunes.lean) and compared on every record; the harness only cuts "
                  "the string at runes whose byte is 10 to ask StrWidth for each line",
                  "Go int: see C16.int64_safe"],
    assumptions=["sizes and coordinates below 2^31 (no Go int overflow, C16.int64_safe)",
                 "translation / scale clauses are demanded of unclipped renderings only (Spec.Text.unclipped, evaluated on the "
                 "implementation's reported metrics); the box clauses always"],
)

CLAIM = dict(
    text="Lean theorems over Model/Mono.lean (strings as byte(rune) lists; Model/GoRunes.lean models Go's range decoding and the truncation). C20.ink_in_box / ink_in_box_lines: for every string (line feeds included: renderText_lf, one box per LF-separated line, first line at the cursor, the others at column 0), every font number, mode, spacing, size h>=0 and any v, any canvas, bounding box and cursor, with wrapping off, RenderText changes no stored bit outside the clipped line boxes [x, x+StrWidth(line)+h) x [y, y+v*cellHeight) (= LineHeight by lineHeight_eq). Font tables regenerated from /repo: no table index used for any byte is out of range (drawChar_index_in_range, font_tables_sized, glyph_facts), glyphs are at most 9 columns wide. C20.translation_any / translation_lines: on any starting canvas and bounding box, background = text colour, wrapping off, no glyph rejected by DrawChar's whole-glyph test, the rendering at (cx+dx, cy+dy) read at (X+dx, Y+dy) and the rendering at (cx, cy) read at (X, Y) are both painted or both untouched (line feeds: first line moves by (dx,dy), the others by (0,dy)); translation / translation_fits are the blank-canvas instances. C20.scale_general: size (h,v) with extra spacing h*k equals size 1 with extra spacing k enlarged h x v (scale_zero_spacing: k=0; scale_single_glyph: one glyph, any spacings). C20.wrap_irrelevant (text box + 8h fits => wrap on = wrap off; wrap_box_fits_counterexample shows a mere fit is not enough), strWidth_append. C20.spec_check_holds: the executable predicate Spec.Text.check itself answers `none` on the model's three renderings for every string without line feed, spacing 0, sizes >= 1, any cursor and offset, blank canvases of width a multiple of 8. All clauses (per line for strings with line feeds) are also evaluated on the real renderer's output for every byte x font x mode and random strings incl. multi-byte and malformed UTF-8 (model = implementation, Spec on the implementation's renderings). Known finding C20.scale_with_spacing (scale_with_spacing_counterexample): with the same extra character spacing > 0 on both sides, size h > 1 and >= 2 glyphs on a line the scaling clause is false of the code.",
    note=TB + "spec_check_holds is for one-line strings on canvases whose width is a multiple of 8; for strings with line feeds the Spec-level statement is checked on every run, the model-level per-line theorems are ink_in_box_lines / translation_lines / scale_general. Clipped renderings (negative cursors etc.): box clauses and model comparison only.",
    technique="Lean 4 proof (induction over the string with generalised cursor on top of the C16 frame/paint calculus; kernel decide over regenerated font tables; executable Spec connected to the model by a bit-level bridge) + model/implementation correspondence",
)
