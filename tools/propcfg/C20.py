from propcfg.C16 import TB

def nontrivial(cmd, inp, impl, prev):
    # some ink was drawn: the A canvas (4th token of the output) is not all zero
    t = impl.split(" ")
    return len(t) >= 3 and t[2].strip("0") not in ("", "-")

PROP = dict(
    family="c20", session_start=None, trivial=nontrivial,
    n=dict(quick=1500, thorough=30000),
    exhaustive=dict(quick=False, thorough=False),
    rule="every byte 0..255 (except LF) x 3 fonts x proportional/fixed as single glyphs at 2 (quick) / 5 (thorough) sizes with "
         "random spacing, cursor and offset; then random strings (printable, control, >=0x80, CR, few LF) x font numbers -1..3 x "
         "mode x spacing 0-3 x sizes 1-4 (v=0 included) on a canvas large enough not to clip; each case renders at (cx,cy), at "
         "(cx+dx,cy+dy) and at size 1; non-trivial = some ink drawn; distinct = distinct record text",
    trusted_base=["Go `range string` rune decoding and byte(rune) truncation are done by the harness (language runtime)",
                  "Go int modelled as unbounded Int"],
    assumptions=["sizes and coordinates small enough that Go int arithmetic does not overflow"],
)

CLAIM = dict(
    text="Lean theorem C20.ink_in_box: for every string without line feed, every font number, mode, spacing, size h>=0 and any v, any canvas, bounding box and cursor, with wrapping off, RenderText changes no stored bit outside clip ∩ [cx, cx+StrWidth+h) x [cy, cy+v*cellHeight) (= LineHeight by lineHeight_eq); drawChar_index_in_range / font_tables_sized / glyph_facts: over the font tables regenerated from /repo, no table index used for any byte is out of range. C20.translation / translation_fits: on a blank canvas with wrapping off and background = text colour, when no glyph is rejected by DrawChar's whole-glyph off-canvas test (implied by the text box lying on the canvas, noEarly_of_fits), the rendering at cursor (cx+dx, cy+dy) read at (X+dx, Y+dy) equals the rendering at (cx, cy) read at (X, Y), for every string, font, mode, spacing and size. C20.scale_zero_spacing: with extra spacing 0, the size-(h,v) rendering read at (cx+h*I+p, cy+v*J+q), 0<=p<h, 0<=q<v, equals the size-1 rendering read at (cx+I, cy+J). Both are also checked on the real renderer for every byte x font x mode and random strings (model = implementation, and the Spec predicate on the implementation's three renderings). Known finding C20.scale_with_spacing (scale_with_spacing_counterexample): with extra character spacing > 0, size h > 1 and >= 2 glyphs the scaling clause is false of the code.",
    note=TB + "Translation/scale theorems are about a blank canvas with background = text colour and wrapping off; clipped/partially off-canvas renderings are covered by ink_in_box and the correspondence only.",
    technique="Lean 4 proof (induction over the string with generalised cursor on top of the C16 frame calculus; kernel decide over regenerated font tables) + model/implementation correspondence",
)
