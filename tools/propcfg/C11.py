def life_nontrivial(cmd, inp, impl, prev):
    # a script is non-trivial when the client got at least one callback or returned from the no-connection wait
    return ":con:" in impl or ":ret" in impl

TB = "Trusted: Lean kernel (axioms propext, Classical.choice, Quot.sound only, audited per theorem), the trace recorder of the harness (scripted loopback panel, timestamps, pprof-label goroutine scan) and the Lean driver runtime. "

PROP = dict(
    family="c11", session_start=None, trivial=life_nontrivial, level="proof",
    n=dict(quick=30, thorough=400),
    exhaustive=dict(quick=False, thorough=False),
    confirm_rerun=True, shrink=False, timeout=1500, search_rounds=1,
    rule="one record = one scripted run of the real ConnectToPanel against an in-process loopback panel "
         "(48 scripts at a time): panel absent / closing right after accept / silent / binary / ASCII / appearing late; "
         "panel dropping at every byte offset 0..N of a 3-frame binary (thorough: and every, quick: every second offset of a "
         "4-line ASCII) stream; 3 loss/reconnect cycles; retry periods default, 1, 2 s; cancellation before the dial, in the "
         "no-connection wait, during the 2 s probe, 0/50 ms after onconnect, idle, mid-header, mid-payload, mid-line, in the "
         "ASCII 1 s EOF sleep, in the retry sleep, twice; message lists offered on msgsToPanel during the retry wait after a loss (100/400/800 ms into it, periods default, 2, 3 s, both modes, unbuffered and buffered channel, 3-30 lists), during the ASCII EOF sleep, across the reconnect and with cancellation inside the wait; plus n random scripts. EQ = the observed trace is accepted by the "
         "LTS (set-of-states simulation); H = the monitors of Spec/LifecycleSpec.lean on the trace; distinct = distinct script text",
    trusted_base=["Go scheduler, memory model, kernel TCP and the wall clock are outside the model (LTS labels / trace timestamps with tolerances)",
                  "atomicity of one LTS label = one Go statement group"],
    assumptions=["the panel speaks only after the probe (frames arriving during the probe are C12's business)",
                 "net.Dial terminates (its duration is an environment step)"],
)

CLAIM = dict(
    category="proof",
    text="Lean theorems over ALL executions (induction on Reachable, any number of reconnect cycles and any interleaving of the main "
         "loop, every writer goroutine, cancellation, panel drops and frame arrivals) of a labelled transition system of ConnectToPanel: "
         "callbacks alternate starting with connect; a cancelled disconnect occurs only after cancel, at most once and is the last callback, "
         "and the call returns directly after a disconnect callback exactly when it was reported cancelled; frames completed before a panel drop "
         "are delivered exactly once and in order, nothing else is delivered; a new dial happens only after the retry sleep; every program-only "
         "path is bounded and after cancel it can only stop in `returned` or waiting for the dial result; every socket opened is closed at return. "
         "For the repaired wait-group accounting (wg.Add before `go`): returned and wg = 0 imply every writer goroutine has exited; for the "
         "pinned accounting (wg.Add inside the goroutine) the negation is proved on a concrete execution (C11.late_wg_add_counterexample). "
         "Tie to the code: trace validation - the real client is run against scripted loopback panels (crash at every byte offset, every "
         "cancellation phase, 3 reconnect cycles, retry periods), every observed trace must be accepted by the LTS and satisfy the independent "
         "monitors (callbacks, deliveries, retry timing, bounded return, wg.Wait, no library goroutine left, every accepted socket closed).",
    note=TB + "PARTIAL: proof of the lifecycle logic as an LTS over all interleavings + trace validation against the real client. Outside the "
         "model: the Go scheduler (the traces show only the schedules the runtime took; the late-start schedule needs the verif parking hook), "
         "the Go memory model, kernel TCP (FIN/RST), real time (timing clauses are checked on traces with tolerances, not proved), the byte-level "
         "data path (C08/C10) and the probe (C12). Atomicity of a label is an assumption.",
    technique="Lean 4 LTS + inductive invariants over Reachable; decide counterexample; trace validation (LTS acceptance + monitors) on the real client",
)
