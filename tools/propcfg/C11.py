def life_nontrivial(cmd, inp, impl, prev):
    # a script is non-trivial when the client got at least one callback or returned from the no-connection wait
    return ":con:" in impl or ":ret" in impl

TB = "Trusted: Lean kernel (axioms propext, Classical.choice, Quot.sound only, audited per theorem), the trace recorder of the harness (scripted loopback panel, timestamps, pprof-label goroutine scan) and the Lean driver runtime. "

PROP = dict(
    family="c11", session_start=None, trivial=life_nontrivial, level="proof",
    n=dict(quick=30, thorough=400),
    exhaustive=dict(quick=False, thorough=False),
    confirm_rerun=True, shrink=False, timeout=1500, search_rounds=1,
    rule="one record = one scripted run of the real ConnectToPanel against an in-process loopback panel "
         "(48 scripts at a time): panel absent / closing right after accept / silent / binary / ASCII / appearing late; "
         "panel dropping at every byte offset 0..N of a 4-frame binary and of a 4-line ASCII stream (quick and thorough: every offset, "
         "so every partial header / payload / line at an orderly close); 3 loss/reconnect cycles; retry periods default, 1, 2 s; "
         "the panel going silent inside a frame (client's in-frame deadline) at 6 offsets and announcing an over-limit frame at 4 "
         "boundaries, 2 such cycles, cancellation during the stall, silence at a boundary / inside an ASCII line (no fault); "
         "cancellation before the dial, in the no-connection wait, during the 2 s probe, 0/50 ms after onconnect, idle, mid-header, "
         "mid-payload, mid-line, in the ASCII 1 s EOF sleep, in the retry sleep, twice; the consumer of msgsFromPanel pausing "
         "(500-2600 ms) while the stream arrives, across a panel drop, across a reader fault, with the cancellation inside the pause; "
         "message lists offered on msgsToPanel during the retry wait after a loss (100/400/800 ms into it, periods default, 2, 3 s, "
         "both modes, unbuffered and buffered channel, 3-30 lists), during the ASCII EOF sleep, across the reconnect, with cancellation "
         "inside the wait, and 40-60 lists of 20-50 kB across two losses (writer inside conn.Write when the connection goes); "
         "every way an ASCII panel answers the probe (script key reply=: silence, RDY, map line, other text, ErrorMsg line "
         "handing an error text to onconnect) x loss before any byte / at a line boundary / inside a line, 1-3 cycles, cancellation while "
         "connected, at onconnect, in the EOF sleep, in the retry sleep, traffic in the retry wait, pausing consumer (all of them for ErrorMsg, "
         "three for the others; random scripts draw the reply class); ASCII streams with a line of 4094/4095/4096/4097/9000 bytes and binary "
         "streams with a frame of 4092/4096/9000 bytes (reader-buffer boundaries; 64 KiB lines are sent by C08/C10: the LTS simulation is fed "
         "byte by byte) held, dropped after the stream, dropped right after and one byte before the end of the long frame; "
         "successive connections of ONE call negotiating different modes (script key modes=, one letter per connection: ASCII then binary, "
         "binary then ASCII, three and four sessions, every ASCII handshake - silence, RDY, map, text, ErrorMsg + close - followed by a "
         "binary session; each session streams in its own encoding, is dropped before any byte / at a boundary / inside a frame / after "
         "the stream, the next one must deliver from its first frame; cancellation at the second connect, in the second probe, in the "
         "retry sleep; the binary argument of every connect callback is compared with the mode negotiated on that connection); "
         "plus n "
         "random scripts (loss kind, pause, traffic, a mode per connection drawn at random). EQ = the observed trace is accepted by the LTS (set-of-states "
         "simulation; the panel's bytes fed one by one, the model clock following the trace timestamps; the goroutine census taken "
         "just before the cancellation is bounded by the goroutines the model has alive, and the panel sees connection k closing no "
         "later than 300 ms after the k-th disconnect callback - the model closes before it calls back; both are comparisons with "
         "the model, no longer clauses of the monitor: the property speaks of goroutines and sockets AFTER cancellation only); "
         "H = the monitors of Spec/LifecycleSpec.lean on the trace (only what the property text states); distinct = distinct script text. The garbage collector is held back while scripts "
         "run (a forgotten socket is not closed by a finalizer behind the monitor's back)",
    trusted_base=["Go scheduler, memory model, kernel TCP and the wall clock are outside the model (LTS labels / trace timestamps with tolerances)",
                  "atomicity of one LTS label = one Go statement group"],
    assumptions=["the panel speaks only after the probe (frames arriving during the probe are C12's business)",
                 "net.Dial terminates (no dial timeout in the code; its duration is an environment step; `Waiting.dial`)",
                 "someone receives from msgsFromPanel (documented API precondition, connecttopanel.go line 28): the delivery is a bare channel send, so "
                 "while nobody receives the client blocks - it drops nothing, but it cannot honour a cancellation either "
                 "(C11.cancel_blocked_while_consumer_stopped; observed on the unchanged tree). Scripts pause the consumer for a bounded "
                 "time only; the return bound then counts from the later of cancel and the consumer's resumption, and frames sent "
                 "during a pause that contains the cancellation are not demanded",
                 "a panel that stays connected reads what is written to it: a writer goroutine inside conn.Write on a socket open at both ends "
                 "does not see the cancellation (C11.cancel_blocked_while_writer_in_write; observed on the unchanged tree with a panel "
                 "that never reads and ~5 MB of lists); all scripted panels read",
                 "the retry period is promised after panel loss only: in the NO-connection wait any list on msgsToPanel ends the wait at "
                 "once (C11.traffic_ends_noconn_wait); scripts offer no traffic while the panel is absent",
                 "between a failed dial and the evaluation of the select behind it no clock tick is assumed in the return-after-cancel "
                 "bound (program steps are fast relative to the >= 1 s periods)"],
)

CLAIM = dict(
    category="proof",
    text="Lean theorems over ALL executions (induction on Reachable: any retry periods, any number of reconnect cycles, any interleaving of "
         "the main loop, every writer goroutine, cancellation, panel drops after any number of bytes, single-byte arrivals with frame "
         "boundaries anywhere, msgsToPanel traffic, a pausing consumer, the clock) of a labelled transition system of ConnectToPanel: "
         "callbacks alternate starting with connect, also when the reader ends the connection itself (in-frame deadline, over-limit header: "
         "label readFault, binary only, only inside a started frame); a cancelled disconnect occurs only after cancel, at most once and is "
         "the last callback, and the call returns directly after a disconnect callback exactly when it was reported cancelled; for every "
         "frame-length script and EVERY drop offset d in both modes exactly the Spec's completeBefore(lens, d) frames are delivered, each "
         "once and in order, the partial one never (C11.drop_at_every_offset), and never more than the complete ones at any time; "
         "a connection is established no earlier than the configured reconnect retry period after every earlier disconnect callback "
         "(clock in the LTS, C11.redial_not_before_period), whereas the no-connection wait also ends at once on msgsToPanel traffic "
         "(documented, with counterexample to the period); every socket opened is closed at return; the number of connect callbacks is at "
         "most 1 + the number of connections lost by drop or fault; a failed conn.Write changes nothing but the writer's own state. "
         "Return after cancel: program-only runs are bounded by an explicit measure; a cancelled call can rest only in returned or in "
         "four waiting states (dial pending, sleep not over, reader blocked on the consumer, writer blocked in conn.Write: each a declared "
         "assumption, the last two with counterexample theorems); along any run the environment does not disturb at most crank(s) helpful "
         "steps happen and a helpful step stays enabled until returned (C11.return_after_cancel), likewise after a loss until connected "
         "again (C11.reconnect_after_drop). Wait group: after the return every maximal program-only run ends with all writers exited and "
         "the counter 0 (C11.wg_drains, both accountings); for the repaired accounting (wg.Add before `go`) returned and wg = 0 imply "
         "every writer goroutine has exited; for the pinned accounting the negation is proved on a concrete execution "
         "(C11.late_wg_add_counterexample). Tie to the code: trace validation - the real client is run against scripted loopback panels, "
         "every observed trace must be accepted by the LTS (bytes, clock and all) and satisfy the independent monitors (callbacks, "
         "deliveries, retry timing, bounded return, wg.Wait, no library goroutine left, every accepted socket closed). The numbers the "
         "monitors use (default retry periods 3 s / 1 s, 2 s probe window and 1 s ASCII wind-down in the return bound) are their own; "
         "C11.constants_are_those_of_the_monitor proves by decide that the constants regenerated from the source are these and "
         "C11.model_periods_are_the_monitors that the model's periods are the monitor's for every configuration, so a changed default "
         "in the source breaks an obligation instead of shifting the monitor.",
    note=TB + "PARTIAL: proof of the lifecycle logic as an LTS over all interleavings + trace validation against the real client. Outside the "
         "model: the Go scheduler (the traces show only the schedules the runtime took; the late-start schedule needs the verif parking hook), "
         "the Go memory model, kernel TCP (FIN/RST), real time beyond the two retry waits (the 2 s probe, the 1 s ASCII EOF sleep and the 2 s "
         "in-frame deadline are not on the model clock; timing clauses are checked on traces with tolerances), payload contents (C08/C10) "
         "and the probe (C12). Atomicity of a label is an assumption. Liveness is stated as rank + progress (no temporal logic): "
         "fairness = 'helpful steps keep being taken'.",
    technique="Lean 4 LTS with clock and byte-level reader + inductive invariants over Reachable; ranking functions for bounded return / reconnect / wg drain; decide counterexamples; trace validation (LTS acceptance + monitors) on the real client",
)
