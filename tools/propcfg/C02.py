from propcfg.C16 import TB

def nontrivial(cmd, inp, impl, prev):
    # at least one decoded message carries something (not only empty fall-through messages)
    return "( " in impl or " C " in impl or " R " in impl or "M 1" in impl or "M 2" in impl or "M 3" in impl

PROP = dict(
    family="c02", session_start=None, trivial=nontrivial,
    n=dict(quick=12000, thorough=400000),
    exhaustive=dict(quick=True, thorough=True),
    rule="records din.lines = one call of RawPanelASCIIstringsToInboundMessages on 1-12 lines generated from the grammar "
         "(canonical and alternative spellings: text lines with any prefix/subset of the 21 fields, colour values with/"
         "without readability bit, one/two-argument brightness, simple three-line and advanced graphics with chunk size "
         "40..170, JSON state lines and message arrays produced by json.Marshal of generated states; non-grammar lines "
         "interleaved). Exhaustive part (every run): all 65 536 values of each packed HWC#, HWCx#, HWCc# integer "
         "through the real decoder, all 256 values of both text colour fields, every prefix length 0..21 of a full text "
         "line, every non-grammar sample alone and between state lines. EQ = Lean model decIn equals the decoded "
         "messages (canonical text incl. nil); H1 = effects(decoded messages) = Spec.readInbound(lines) for sequences "
         "in Spec.inDomainLines (others tagged B:outdom: checked for nil message / panic only)",
    trusted_base=["regexp: replaced by hand-written byte matchers (Model/DecIn.lean) for the six patterns; equivalence is "
                  "correspondence-tested incl. near-miss lines ('.' excludes LF, '$' end of text, leftmost-first alternation)",
                  "strconv.Atoi incl. the overflow-before-syntax-error behaviour (Base/Bytes.lean scanU), encoding/base64 "
                  "DecodeString incl. partial output on corrupt input (Base/B64.lean quantum model)",
                  "encoding/json: parsed states / message arrays / NetworkConfig enter as harness-supplied parameters"],
    assumptions=["a JSON line's meaning is what encoding/json parses it to (oracle parameter)"],
)

CLAIM = dict(
    text="Lean theorems: packed_total_mode/ext/color (for EVERY value < 2^32, in particular the whole 16-bit space, and any "
         "id list, the decoded message's effects equal the reference reading — arithmetic, not enumeration); "
         "colour_readability_bit_irrelevant; brightness_one_two (model and Spec); nongrammar_silent (any line whose "
         "keyword/key is not in the grammar yields at most the empty message and no effect, decoder and reader, pinned and "
         "repaired tree); dec_sound: for line sequences of ANY length in the domain Spec.inDomainLines (every line non-grammar or "
         "well-formed, every family incl. 21-field HWCt# text lines and HWCg*# graphics transfers interleaved with other lines), "
         "effects(decIn ls) = Spec.readInbound ls, one effect group per line in line order, under the explicit decidable guard "
         "noBlankImage (no delivered image is the all-default 0x0 mono image with empty data, to which the Spec assigns no "
         "effect); dec_sound_guard_exact: the guard is the weakest possible; dec_sound_blank_image_counterexample: the unguarded "
         "statement is false of model and Spec on HWCg#1=0/0,0x0: (a Spec limitation, not a decoder defect: the decoder "
         "reassembles that image exactly); dec_sound_nb: unguarded form with the reader's output minus such deliveries; "
         "text_total: decText agrees with the reference reader on every well-formed text value.",
    note=TB + "Lines with a grammar keyword and malformed arguments are outside the domain (C06 covers them: no panic, no "
         "nil message). Enum-valued command arguments are read modulo 2^32 (protobuf enums are int32).",
    technique="Lean 4 proof (shape lemmas for the byte matchers, numeral/Atoi lemmas, bit-field arithmetic) + "
              "model/implementation correspondence with exhaustive 16-bit sweeps through the real decoder",
)
