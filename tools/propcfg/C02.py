from propcfg.C16 import TB

def nontrivial(cmd, inp, impl, prev):
    # at least one decoded message carries something (not only empty fall-through messages)
    return "( " in impl or " C " in impl or " R " in impl or "M 1" in impl or "M 2" in impl or "M 3" in impl

PROP = dict(
    family="c02", session_start=None, trivial=nontrivial,
    n=dict(quick=12000, thorough=400000),
    exhaustive=dict(quick=False, thorough=False),  # kernels are swept exhaustively, the message generator is sampled: the run as a whole is not an enumeration
    rule="records din.lines = one call of RawPanelASCIIstringsToInboundMessages on 1-12 lines generated from the grammar "
         "(canonical and alternative spellings: text lines with any prefix/subset of the 21 fields, colour values with/"
         "without readability bit, one/two-argument brightness, simple three-line and advanced graphics with chunk size "
         "40..170, JSON state lines and message arrays produced by json.Marshal of generated states; non-grammar lines "
         "interleaved; 15% of the graphics groups are two transfers woven into each other - outside Spec.inDomainLines, "
         "correspondence only). Exhaustive part (every run): all 65 536 values of each packed HWC#, HWCx#, HWCc# integer "
         "through the real decoder, all 256 values of both text colour fields, every prefix length 0..21 of a full text "
         "line, every non-grammar sample alone and between state lines, the witnesses of the *_out_of_domain_behaviour / "
         "foreign_part_divergence theorems. Records din.rx (6) = pattern text of the library's compiled regexp objects "
         "(reached through go:linkname) equals the extracted Gen.regex_*_src; records din.match = the six hand-written "
         "byte matchers against those real regexp objects, bounded-exhaustive: every string of length <= 3 (thorough 4) "
         "over 19 significant bytes (digits, , = / x : - A Z a space LF CR # @ [ | and a non-ASCII byte) against all six, "
         "every string of length <= 2 (thorough 3) after each of 200 stems (prefixes of valid lines at every structural "
         "position of each pattern), every valid line against all six patterns, ALL single edits (delete/replace/insert "
         "over the alphabet) of 34 valid lines, 300 (thorough 5000) random double edits per line and in the thorough tier "
         "all double edits of the shortest valid line of each pattern. EQ = Lean model decIn equals the decoded "
         "messages (canonical text incl. nil) / matcher result equals FindStringSubmatch; H1 = effects(decoded messages) "
         "= Spec.readInbound(lines) for sequences in Spec.inDomainLines (others tagged B:outdom: checked for nil message "
         "/ panic only). Scenario classes (after the random stream, every run; x10 in the thorough tier): (a) din.seq = 2-5 calls on "
         "different batches, the returned message lists kept and printed at return time and again after the last call (a later call "
         "must not change an earlier result), every fourth as din.par = the calls of even / odd index in two goroutines, 12 repetitions "
         "each; (b) the same line (group) more than once in one call with commands, registers, blank / "
         "non-grammar lines, a one-line graphics transfer or a JSON state in between: A X A, A A, A B A, A X A Y A for each of the 19 "
         "line families, identical complete graphics transfers A B A / A A / A Clear A for one id list in each of the 3 formats; (c) "
         "every numeric position of every line family (36 templates: ids, packed values, all 17 numeric text fields, graphics index / "
         "last index / W / H / X / Y, the ten key=num commands, both brightness arguments, register ids and values) re-spelled with 1, "
         "2, 7 and 25 leading zeros, '+' and '-0' where the position is free-form text, one position at a time (all spellings) and all "
         "positions at once (random), alone and in batches; a 10-part transfer with re-spelled part indices; digit strings of 30-80 "
         "characters; canonical values 8, 9, 10, 18, 100, 255 so that an octal / base-prefix reading shows; (g) din.ctx = 29 lines with a "
         "known keyword and an enumerated value outside its enumeration or an argument that does not parse "
         "(SimulateEnvironmentalHealth=Weird, HWCrawADCValues#5=2, ActivePanel=0, Webserver=yes ...) alone, directly after each of 12 "
         "message-producing lines, between two state lines, repeated, and in random batches with well-formed, malformed and non-grammar "
         "lines: the record carries what the decoder returns for every distinct line alone, H1 = effects(batch) = "
         "Spec.In.readInboundWith (the grammar's reading of every line it reads, the line's own effects for every outside line, in "
         "line order; tag B:ctx; batches with a malformed graphics part stay B:outdom); (f) lines of 201-2000 bytes (title, text "
         "lines, calibration payload, non-grammar line, register id); every record whose input or output carries a byte string longer "
         "than 200 bytes (and every third other record) is executed a second time with DebugRWPhelpers on; (h) JSON-carrying lines ('{' state, "
         "'[' message list, SetNetworkConfig=) that are a complete valid JSON value followed by one of 28 trailers (stray bracket, comma, "
         "colon, quote, garbage, blanks / TAB / CR / BOM, a protocol line with and without a separating blank or LF, a second JSON value, "
         "NUL, a high byte) or preceded by a blank / TAB / CR / BOM, two values glued ({..}{..}, {..}[..], [..][..]), a JSON value with a "
         "random grammar line run on: 6 fixed values x all trailers / leaders / second values alone and between two state lines + 150 "
         "random ones (the oracle entry computed with encoding/json.Unmarshal says what the unchanged code yields: only trailing blanks "
         "keep the line one JSON value). "
         "(Family c01 additionally runs ein.rt = decoder(encoder(msgs)) on every random message list and "
         "checks C02.roundtrip_in's conclusion on the implementation.)",
    trusted_base=["regexp: replaced by hand-written byte matchers (Model/DecIn.lean) for the six patterns; the pattern sources are "
                  "pinned and their keyword alternations proved equal to the matchers' tables (regex_sources_tie, "
                  "regex_keywords_tie, regex_gfx_optional_groups: sources, keyword and optional-group alternation lists); the matching semantics of the rest of each pattern ('.' excludes LF, '$' end of text, classes) is "
                  "compared bounded-exhaustively with the library's real regexp objects (din.match), not proved",
                  "strconv.Atoi incl. the overflow-before-syntax-error behaviour (Base/Bytes.lean scanU), encoding/base64 "
                  "DecodeString incl. partial output on corrupt input (Base/B64.lean quantum model)",
                  "encoding/json: parsed states / message arrays / NetworkConfig enter as harness-supplied parameters"],
    assumptions=["a JSON line's meaning is what encoding/json parses it to: reference reader and decoder model consult the SAME "
                 "oracle value (computed by the harness with encoding/json), so for JSON lines only 'the parsed state is passed "
                 "on unchanged, in place' is checked"],
)

CLAIM = dict(
    text="Lean theorems: packed_total_mode/ext/color (for EVERY value < 2^32, in particular the whole 16-bit space, and any "
         "id list, the decoded message's effects equal the reference reading — arithmetic, not enumeration); "
         "colour_readability_bit_irrelevant; brightness_one_two_model/_spec; nongrammar_silent (any line whose "
         "keyword/key is not in the grammar yields at most the empty message and no effect, decoder and reader, pinned and "
         "repaired tree); dec_sound: for line sequences of ANY length in the domain Spec.inDomainLines (every line non-grammar or "
         "well-formed, every family incl. 21-field HWCt# text lines and HWCg*# graphics transfers interleaved with other lines), "
         "effects(decIn ls) = Spec.readInbound ls, one effect group per line in line order, under the explicit decidable guard "
         "noBlankImage (no delivered image is the all-default 0x0 mono image with empty data, to which the Spec assigns no "
         "effect); dec_sound_guard_exact: the guard is the weakest possible; dec_sound_blank_image_counterexample: the unguarded "
         "statement is false of model and Spec on HWCg#1=0/0,0x0: (a Spec limitation, not a decoder defect: the decoder "
         "reassembles that image exactly); dec_sound_nb: unguarded form with the reader's output minus such deliveries; "
         "text_total: decText agrees with the reference reader on every well-formed text value; text_prefixes (all 22 prefixes "
         "of a full text value); simple_vs_advanced_gfx_model/_spec (a header-less part 0 opens the transfer that /2,64x32 "
         "opens, for every keyword, id list, payload, previous state). "
         "dec_context_free (+ _nb, line_decoded_alone, ctx_domain_contains_domain): on Spec.inDomainLinesCtx — every line well-formed, "
         "non-grammar, or OUTSIDE the domain without being a graphics part (an enumerated value outside its enumeration, a malformed "
         "number ...), transfers in order, same guard — effects(decIn ls) = Spec.readInboundWith: the reader's effects for the lines "
         "the grammar reads and, for every outside line, exactly the effects of that line decoded alone, in line order (no line "
         "repeats, drops or alters the message of a neighbour); what the decoder appends for a line not accepted by regex_gfx depends "
         "on nothing but the line. "
         "For JSON lines ({...}, [...]) reader and decoder "
         "consult the same encoding/json oracle, so dec_sound says for them only that the parsed state / messages are passed "
         "on unchanged, in place and in order. Round trip (C01 and C02 composed): enc_in_domain and roundtrip_in — for messages of "
         "InDomainIn with the decidable roundtripGuard (FLAG register ids are numerals < 2^32, a calibration payload is stable "
         "under the C07 normal form: true of valid UTF-8) the encoder's lines lie in inDomainLines, deliver no all-default "
         "image, and decode to messages with exactly the effects of the original messages (compared as effects: modulo message "
         "grouping, 2-bit colour levels, normText, canonical FLAG ids/values, C07 payload form, enum arguments mod 2^32); without "
         "the guard both statements are false (enc_in_domain_flag_counterexample, roundtrip_in_unguarded_counterexample, "
         "roundtrip_in_calibration_counterexample). Outside the domain the model's behaviour is pinned, not judged: "
         "foreign_part_divergence / foreign_format_divergence (interleaved transfers A0 B0 A1 B1: the decoder ignores foreign parts "
         "and delivers B, the reference reader abandons and delivers nothing; the protocol is silent), "
         "flag_letter_id_out_of_domain_behaviour (Flag#A=1 writes flag 0), uint32_/int32_arg_wrap_out_of_domain_behaviour (all "
         "values up to MaxInt64: mod 2^32 / signed wrap), numeric_overflow_out_of_domain_behaviour (Atoi clamp), "
         "noncanonical_base64_out_of_domain_behaviour. Regex tie: regex_sources_tie (six literal sources), regex_keywords_tie and "
         "regex_gfx_optional_groups (alternation lists inside the regenerated sources = the matchers' keyword tables, same order); "
         "everything else about the six patterns rests on the bounded-exhaustive din.match correspondence with the library's "
         "real regexp objects.",
    note=TB + "Lines with a grammar keyword and malformed arguments are outside the domain (C06 covers them: no panic, no "
         "nil message). Enum-valued command arguments are read modulo 2^32 (protobuf enums are int32).",
    technique="Lean 4 proof (shape lemmas for the byte matchers, numeral/Atoi lemmas, bit-field arithmetic) + "
              "model/implementation correspondence with exhaustive 16-bit sweeps through the real decoder",
)
