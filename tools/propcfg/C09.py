def net_nontrivial(cmd, inp, impl, prev):
    return (" msg:" in impl) or (" dis:0" in impl) or (" rx:" in impl)

TB = "Trusted: Lean kernel (axioms propext, Classical.choice, Quot.sound only, audited per theorem); the trace validation (scripts run against the real client on loopback: enumerated fault spaces + sampled long streams), the harness' scripted panel / trace printer and the Lean driver runtime; the extractor for the regenerated constants (frame limit 500000, deadlines 2000 ms, probe buffer 1000). Outside the model: the Go scheduler, kernel TCP, real time (timing clauses are checked on traces with a 400 ms tolerance, never proved); io.ReadFull / bufio.ReadString / net.Conn deadlines / channels enter by their documented contracts. "

PROP = dict(
    family="c09", session_start=None, trivial=net_nontrivial, shrink=False, confirm_rerun=True, level="proof",
    n=dict(quick=24, thorough=160), timeout=1500,
    exhaustive=dict(quick=False, thorough=False),
    rule='one record = one script: 1-4 submitter goroutines each handing 1-6 message lists (empty lists, 1-50 messages, graphics states of 1-12 kB) to the real ConnectToPanel while the scripted panel sends 0-200 events, both protocol modes, channel capacity 0 and 10; loss/reconnect scripts: the first connection is lost (over-limit header, stalled frame, panel close; thorough: also reset) while its writer is blocked in conn.Write (the panel stopped reading, a 16 MB list is being written) or idle, the client reconnects by itself in the same or the other mode, and 1-2 goroutines hand 30+10 lists over on the new connection (what is handed over after the k-th onconnect must be on the wire of connection k); the panel records every byte it receives; non-trivial when bytes were written; distinct = distinct record text',
    trusted_base=["io.ReadFull, bufio.ReadString, strings.TrimSpace (ASCII blanks), net.Conn read deadlines, Go channels and proto.Marshal/Unmarshal enter the model by their contracts (opaque where possible)",
                  "scripted TCP panel on loopback (harness/netpanel.go): what it sent and when is taken from its own trace"],
    assumptions=["atomicity of the LTS labels (one label = one Go statement group)", "timing clauses hold with a tolerance of 400 ms; scripts keep >= 300 ms from every deadline (others are tagged tight-margin and judged by the monitor alone)"],
)

CLAIM = dict(
    category="proof",
    text="Lean theorems over the writer goroutine as an LTS (labels submit / take / panelTraffic; all interleavings, any number of submissions): C09.written_is_concat (bytes written = concatenation, in channel order, of one length-prefixed frame per message resp. converter line + one LF), C09.reads_do_not_affect_writes, C09.frames_of_written (the panel-side reference parse of what was written returns exactly the submitted payloads in order, nothing left over), C09.ascii_one_lf_per_line. Tied to the code by trace validation: real ConnectToPanel against a scripted panel with concurrent submitters and concurrent panel traffic; the Spec monitor checkC09 (received bytes after the probe parse completely; the frames/lines are an interleaving of the submissions that keeps each submission contiguous and each goroutine's order) runs on every trace. Partial: marshalled bytes and converter lines are opaque inputs (payload equality is byte equality with proto.Marshal of the submitted message); single-writer atomicity of conn.Write, channel FIFO order and the scheduler are assumptions of the LTS, validated only on the schedules that occurred.",
    note=TB,
    technique="Lean 4 proof (state machines / LTS of the protocol logic, induction over streams and executions) + trace validation of the real client against a scripted TCP panel (Spec monitors on every trace, deterministic model outcome on margin-safe scripts)",
)
