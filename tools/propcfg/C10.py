def net_nontrivial(cmd, inp, impl, prev):
    return (" msg:" in impl) or (" dis:0" in impl) or (" rx:" in impl)

TB = "Trusted: Lean kernel (axioms propext, Classical.choice, Quot.sound only, audited per theorem); the trace validation (scripts run against the real client on loopback: enumerated fault spaces + sampled long streams), the harness' scripted panel / trace printer and the Lean driver runtime; the extractor for the regenerated constants (frame limit 500000, deadlines 2000 ms, probe buffer 1000). Outside the model: the Go scheduler, kernel TCP, real time (timing clauses are checked on traces with a 400 ms tolerance, never proved); io.ReadFull / bufio.ReadString / net.Conn deadlines / channels enter by their documented contracts. "

PROP = dict(
    family="c10", session_start=None, trivial=net_nontrivial, shrink=False, confirm_rerun=True, level="proof",
    n=dict(quick=90, thorough=400), timeout=1500,
    exhaustive=dict(quick=False, thorough=False),
    rule='one record = one script with reconnects: header values {0,1,499999,500000,500001,2^31,2^32-1} at positions {first, after a valid frame, after a 2.5 s idle gap} followed by two valid frames (same and later segment), heap growth measured alone for over-limit headers; a 40-byte frame truncated at offsets 1..39 (quick: 1-5,20,39) followed by a 3 s stall then resume or close, first or after a valid frame; 15+ garbage payloads of correct length followed by two valid frames; combinations over-limit/stall/garbage across two reconnects; non-trivial when the client delivered, dropped or wrote; distinct = distinct record text',
    trusted_base=["io.ReadFull, bufio.ReadString, strings.TrimSpace (ASCII blanks), net.Conn read deadlines, Go channels and proto.Marshal/Unmarshal enter the model by their contracts (opaque where possible)",
                  "scripted TCP panel on loopback (harness/netpanel.go): what it sent and when is taken from its own trace"],
    assumptions=["atomicity of the LTS labels (one label = one Go statement group)", "timing clauses hold with a tolerance of 400 ms; scripts keep >= 300 ms from every deadline (others are tagged tight-margin and judged by the monitor alone)"],
)

CLAIM = dict(
    category="proof",
    text="Lean theorems over the read loop with the read deadline as explicit state (LTS arrive/expire/peerClose, all executions): C10.limit_before_alloc (a length prefix >= the regenerated limit stops the loop with no allocation and no delivery then or later; every allocation is below the limit), C10.stall_drops (inside a frame - from its second byte on - a deadline is armed and is at most 2000 ms after the last byte, so silence > 2 s enables the timeout, which ends the connection with ondisconnect(false)), C10.garbage_payload_keeps_sync (replacing payload bytes by any bytes of equal length changes no frame boundary and no other delivery), C10.pinned_header_stall_counterexample (the pinned code never times out a frame that stalls inside its header). Tied to the code by trace validation against the real client; Spec monitor checkC10 on every trace (disconnect(false) within 2 s + 400 ms of the fault, nothing of the broken frame delivered, new accept after the retry period, heap growth < 64 MiB, never a panic; garbage payloads leave the following frames intact). Partial: timing is checked on traces with a tolerance, not proved; liveness is 'expire is enabled' plus the runtime firing deadlines.",
    note=TB,
    technique="Lean 4 proof (state machines / LTS of the protocol logic, induction over streams and executions) + trace validation of the real client against a scripted TCP panel (Spec monitors on every trace, deterministic model outcome on margin-safe scripts)",
)
