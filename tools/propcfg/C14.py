def topo14_nontrivial(cmd, inp, impl, prev):
    """a transformation record (renumbering / section removal / JSON round trip) on a non-empty topology"""
    return cmd in ("topo.randomize", "topo.clean", "topo.roundtrip") and not impl.startswith("- ") and impl != "err"

TB = "Trusted: Lean kernel (axioms propext, Classical.choice, Quot.sound only, audited per theorem), the correspondence check (sampled), the harness printers and Lean driver runtime, the extractor for the regenerated tag table and section-marker constant. "

PROP = dict(search_rounds=1, 
    family="c14", session_start={"topo.load"}, trivial=topo14_nontrivial,
    n=dict(quick=260, thorough=4000),
    exhaustive=dict(quick=False, thorough=False),
    rule="sessions = one generated topology (as for C13; section markers none / all / adjacent pair / first / last / first+last / random; "
         "type 250 indexed or not; a few out-of-domain topologies with index key 0 or unindexed types) followed by a JSON round trip and "
         "2-5 transformations (RandomizeTypes(true/false), CleanSections, round trip) interleaved with look-ups on the transformed "
         "topology; a record is non-trivial when it is a transformation of a non-empty topology; distinct = distinct record text, every record carrying a fingerprint (`#xxxxxxxx`, ignored by executor and driver) of the topology it runs on. "
         "RandomizeTypes: the driver recovers from the implementation's result an iteration order / random stream and requires the model, "
         "run with them, to reproduce the result exactly",
    trusted_base=["encoding/json text layer: json.Marshal output is re-tokenised by Go's own json.Decoder; json.Unmarshal is fed Go's own output "
                  "(the tree-level fromJSON model is tied to it only on such inputs); strings restricted to valid UTF-8 (Marshal coerces invalid bytes to U+FFFD)",
                  "float32 Rotate carried as the decimal token encoding/json prints (assumed: Unmarshal∘Marshal is the identity on finite float32)",
                  "Go map iteration order and math/rand are parameters of the model (every order / every stream is covered by the theorems)",
                  "uint32 wrap-around of typeMapping[typeNum]++ not modelled (needs 2^32 types)"],
    assumptions=["type index has no entry for type number 0 (0 = disabled component): otherwise 'resolved definition unchanged' and 'ids exactly 1..n' contradict each other (C14.index_key_zero_counterexample)",
                 "random mode: the random source never returns 0 (it can, with probability 1e-6 per draw: C14.random_zero_draw_counterexample, model level only) and the collision loop ends within the fuel"],
)

CLAIM = dict(
    text="Lean theorems C14.randomize_seq_holds / randomize_random_holds: for every topology whose component types are 0 or indexed (0 not a type number), every iteration order of the type map and every random stream, RandomizeTypes keeps the component list up to the type numbers, the number of types and every component's resolved definition; sequential mode always terminates and yields exactly the ids 1..n (random mode: whenever the collision loop ends, for streams without the value 0). C14.cleanSections_eq_filter: the index-collecting loop followed by reverse-order slices.Delete never panics and equals filter(type != 250) with order kept, for any number and position of markers. C14.json_roundtrip / json_fixpoint: at JSON-tree level, with the struct tags regenerated from topology.go, parsing the serialised topology gives back the topology and re-serialising gives the same tree. The statements are the executable predicates Spec.Topo.checkRandomize / checkClean / checkRoundTrip, also evaluated on the real library's before/after topologies; model = code is checked on generated sessions.",
    note=TB + "encoding/json text layer trusted (valid UTF-8 strings, finite floats); random mode termination under fuel; a zero draw of the random source (p = 1e-6) breaks the property at model level and is reported, not replayable.",
    technique="Lean 4 proof (loop invariants over every map iteration order; sorted-association-list map extensionality; tag-table-driven encoder/decoder round trip) + model/implementation correspondence",
)
