from propcfg.C16 import TB

def nontrivial(cmd, inp, impl, prev):
    # some content was drawn: the image is neither all zero nor all one
    t = impl.split(" ")
    if cmd == "tile.bar":
        return len(t) == 2 and t[0] != t[1]
    return len(t) >= 3 and t[2].strip("0") not in ("", "-") and t[2].strip("f") != ""

PROP = dict(
    family="c18", session_start=None, trivial=nontrivial,
    n=dict(quick=2500, thorough=40000), search_rounds=1,
    exhaustive=dict(quick=False, thorough=False),
    rule="text states generated field by field from the repo's protobuf types (formatting 0-12 and beyond incl. random int32, "
         "pair modes, icons, scale types with sane/degenerate/reversed/extreme ranges, fonts 0-3 and random, sizes, padding 0-3, "
         "spacing, empty/long/non-ASCII strings, extreme integers, 0-40 index colours and RGB colours, absent sub-messages) x tile "
         "geometries 0x0..256x64 x shrink 0-3 x border 0-3; each state is rendered twice (determinism) and once with Inverted "
         "flipped; 12% of the cases are bar-monotonicity pairs, 25% centring cases; non-trivial = the image has both lit and dark "
         "pixels; distinct = distinct record text",
    trusted_base=["IEEE-754 double division/multiplication and fmt %.Nf are modelled with integers (Base/Dbl.lean) and validated by the correspondence",
                  "Go `range string` rune decoding done by the harness (language runtime)"],
    assumptions=["TitleBarPadding within its documented 2-bit range 0-3 (it is used unmasked: 2^32-1 rows would loop for hours; outside the property's domain 'fields in their documented ranges')",
                 "tile width/height >= 0"],
)

CLAIM = dict(
    text="The complete layout logic of WriteDisplayTileNew is modelled as a pure function to a list of canvas operations (Model/Tile.lean) and agrees with the real renderer on every generated state (bytes, colours, inverted twin, bar pairs). Lean theorems for every text state and geometry: tile_size_ok (exact size), tile_active_ok (no pixel outside the active area left by shrink and border differs from the blank value — from the C16 frame theorem applied to every emitted operation), tile_colours_ok (RGB565 export colours are the requested ones), tile_inversion_ok (the inverted rendering is exactly the complement: the operation list does not depend on Inverted and every primitive maps complementary canvases to complementary canvases), box_centred_within_one (centring arithmetic), total/deterministic by construction with the table-index guards proved. bar_monotone: for every text state, geometry, range with 0 < int32(high-low) and values v <= v2, Spec.Tile.checkBar holds of the two renderings (every lit pixel stays lit; from monotonicity of the correctly rounded double division, multiplication and truncation, Lemmas/DblMono.lean, and a lit-subset relation preserved by every primitive, Lemmas/MonoSub.lean); bar_length_in_extent; bar_reversed_range_counterexample shows the range guard is needed. centre_ok_partial: the ink-based centring clause (Spec.Tile.centreOk) for formats 10/11 when every text box lies inside the active area (TileTextFits; per-glyph edge-ink facts over the regenerated fonts); for clipped texts the clause is checked on the real renderer's output on every run but not proved.",
    note=TB + "Float formatting and bar arithmetic modelled with exact integer arithmetic, trusted to equal Go's IEEE-754 behaviour as far as the correspondence shows.",
    technique="Lean 4 proof (layout as pure function to an operation list + C16 frame calculus) + model/implementation correspondence",
)
