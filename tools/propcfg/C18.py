from propcfg.C16 import TB

def nontrivial(cmd, inp, impl, prev):
    # some content was drawn: the image is neither all zero nor all one
    t = impl.split(" ")
    if cmd == "tile.bar":
        return len(t) == 2 and t[0] != t[1]
    return len(t) >= 3 and t[2].strip("0") not in ("", "-") and t[2].strip("f") != ""

PROP = dict(
    family="c18", session_start=None, trivial=nontrivial,
    n=dict(quick=2500, thorough=40000), search_rounds=1,
    exhaustive=dict(quick=False, thorough=False),
    rule="text states generated field by field from the repo's protobuf types (formatting 0-12 and beyond incl. random int32, "
         "pair modes, icons, scale types with sane/degenerate/reversed/extreme ranges, fonts 0-3 and random, sizes, padding 0-3, "
         "spacing, empty/long/non-ASCII strings, extreme integers, 0-40 index colours and RGB colours, absent sub-messages) x tile "
         "geometries 0x0..256x64 and beyond (up to 320x100) x shrink 0-3 and arbitrary integers (negative, > 3, +-2^31) x border 0-3, "
         "large (4..1000, half the tile) and negative; every state is rendered in the order A, B, A, B (B = the same state in the "
         "other font face of the same cell width; both A's and both B's must agree: images, RGB exports, colours) and once with "
         "Inverted flipped; the argument after the call is printed and compared with the model's filled form; every 6th state "
         "and every small tile also prints the RGB565 export; 8% of the states are also rendered by a fresh process; 10% are "
         "rendered before and after a sibling state with absent sub-messages (any subset of TextStyling, TextFont, TitleFont, "
         "Scale) was rendered and every field of what the renderer filled in was edited by its owner - mostly the state itself "
         "has the same sub-messages absent - and must come out the same (40% of these also against a fresh process); 12% of the cases are bar-monotonicity pairs (hidden value or a "
         "float format whose printed text is the same at both values; any pair mode, icons, limits), 25% centring cases; "
         "non-trivial = the image has both lit and dark pixels; distinct = distinct record text",
    trusted_base=["IEEE-754 double division/multiplication and fmt %.Nf are modelled with integers (Base/Dbl.lean) and validated by the correspondence",
                  "Go `range string` rune decoding done by the harness (language runtime)"],
    assumptions=["TitleBarPadding within its documented 2-bit range 0-3 (it is used unmasked: tile_work_padding_witness proves that 10^9 costs more than 10^11 loop iterations; outside the property's domain 'fields in their documented ranges')",
                 "tile width/height >= 0 (renderTileC_negative: `make` panics for a negative size)",
                 "the centring clause is demanded for border >= 0 and for line(s) that fit the active height only (a negative border is outside every documented range; the property text speaks of texts that fit vertically; centre_needs_vertical_fit_counterexample); the other clauses are checked for all cases"],
)

CLAIM = dict(
    text="The complete layout logic of WriteDisplayTileNew is modelled as a pure function to a list of canvas operations (Model/Tile.lean) and agrees with the real renderer on every generated state (bytes, colours, inverted twin, bar pairs, the argument after the call, the RGB565 export where printed). Lean theorems for every text state and geometry: tile_total (the checked form of the whole call - every slice access of the layout and of the drawing is `[i]?`: colour table, icon table, font tables, canvas bytes, bitmap slices - returns the plain model's canvas and colours, i.e. no panic; with tile_layout_total, colour_index_guarded, icon_index_guarded; colour_index_pinned_counterexample for the pinned tree), tile_work_bound (no hang: at most w(1+h)+1522L+62w+900 loop iterations when TitleBarPadding <= 3; tile_work_padding_witness: more than 10^11 iterations for the legal uint32 value 10^9 - the field is used unmasked), tile_size_ok (exact size), tile_active_ok (no pixel outside the active area left by shrink and border differs from the blank value - from the C16 frame theorem applied to every emitted operation), tile_inversion_ok (the inverted rendering is exactly the complement), tile_colours_ok (RGB565 colours are the requested ones; the Spec side is a band table / a `[k]?` look-up in the regenerated colour table / the documented 5-6-5 expansion, proved equal to the code's arithmetic: mapConstrain_q2, color6_idx, color565_eq), tile_export (the same on the bytes GetImgSliceRGB returns, composed with C17's sliceRGB_size/sliceRGB_pixel), tile_argument_ok (after the call the argument differs from before only by absent -> empty sub-messages; tile_argument_idempotent; tile_second_call_same), box_centred_within_one, centre_ok (the ink-based centring clause Spec.Tile.centreOk with no hypothesis beyond the Spec's own domain - strings without LF/CR and with alphanumeric ends: the Spec's guard [formats 10/11, proportional, spacing 0, border >= 0, the line(s) fit the active height measured with the renderer's own LineHeight()] gives linesFit on the inputs; a text that fits horizontally is centred by fits_of_arith/text_ink_extent, a too-wide text starts at the left edge and shows nothing or ink in the left-most active column, text_left_touch; centre_needs_vertical_fit_counterexample: without the vertical-fit guard the clause is false of a 64x4 two-line tile whose second line is 'j', on the model and on the real renderer; tile_check = all clauses of Spec.Tile.check together), deterministic by construction (function of its inputs; harness renders A,B,A,B). bar_monotone: for every text state, geometry, range with 0 < int32(high-low) and values v <= v2 with the same value text, Spec.Tile.checkBar holds of the two renderings; bar_covered: for a value text that changes, everything the scale section draws at v is lit in the image at v2 (bar_layer_monotone + bar_layer_in_image, no late drawAllPixels icon); bar_span_monotone: for scale types 1, 2, 3 both edges of the filled rectangle are monotone in the value (bar_span_drawn ties it to the model's operation list); bar_reversed_range_counterexample shows the range guard is needed.",
    note=TB + "Float formatting and bar arithmetic modelled with exact integer arithmetic, trusted to equal Go's IEEE-754 behaviour as far as the correspondence shows.",
    technique="Lean 4 proof (layout as pure function to an operation list + C16 frame calculus + checked/tick-counting mono model) + model/implementation correspondence",
)
