def gorwp_nontrivial(cmd, inp, impl, prev):
    # non-trivial: the client connected and at least one handler was invoked, or the initialisation failed as scripted
    return ("init=ok" in impl and "inv=-" not in impl) or "init=err" in impl or impl.startswith("fatal:")

TB = "Trusted: Lean kernel (axioms propext, Classical.choice, Quot.sound only, audited per theorem), the harness (scripted loopback panel, handler log, reflection read of the unexported state fields under the state's lock) and the Lean driver runtime. "

PROP = dict(race_binary=True, 
    family="c19", session_start=None, trivial=gorwp_nontrivial, level="proof",
    n=dict(quick=40, thorough=600),
    exhaustive=dict(quick=False, thorough=False),
    confirm_rerun=True, shrink=False, timeout=1500, search_rounds=1,
    rule="one record = one scripted run of the real gorwp.Connect + handlers against an in-process loopback panel (32 at a time): "
         "initial answers complete / one item missing / SVG 2.5 s late, both protocol modes; every event kind x bound/unbound id x each "
         "binding kind alone and all together; n random histories of events interleaved with pings and identity/topology/map updates, "
         "one write per message / one byte per write / random cuts; bursts of 50-500 events without and with SetLEDColor feedback from the "
         "handlers; over-limit headers {500000, 500001, 2^31, 2^32-1} and truncated frames at first / middle position followed by valid "
         "frames; topology updates of varying shape (a later, smaller topology after a richer one: GetTopology() must equal a fresh parse of the last JSON); "
         "back-pressure (the panel stops reading while a handler's 24-40 x 1 MiB feedback fills the outgoing queue, pings in that window, reads again: "
         "one ack per ping); Bind* from a second goroutine during a burst (child process; thorough: also race-instrumented). EQ = invocation log, ack "
         "count and final state equal the model's (Gorwp.dispatch / acks / finalState; the reader variant and a stall are reported as branch "
         "tags); H = Spec/GorwpSpec.lean on the observation; distinct = distinct script text",
    trusted_base=["Go scheduler, memory model (data races are looked for with the runtime's map check and, thorough, -race: supporting evidence only), "
                  "kernel TCP and the wall clock are outside the model",
                  "library converters between the ASCII protocol and messages (C02/C04) are used as they are; scripts whose messages "
                  "do not survive the ASCII round trip are skipped"],
    assumptions=["uint32/int32 event values stay in range (no wrap-around modelled)"],
)

CLAIM = dict(
    category="proof",
    text="Lean theorems: for every binding set and every history of messages, the invocation log of the dispatch function "
         "(Gorwp.dispatch, mirroring procesMessagesFromPanel) is exactly, event by event in panel order, one invocation per bound handler "
         "whose kind matches a component of the event, with the event's id, press state, edge or value (C19.dispatch_exactly_once_in_order, "
         "stated with the independent checker Spec.Gorwp.checkLog); one ack per ping; the stored model / serial / name / topology JSON / SVG "
         "are the latest non-empty values, the parsed topology is built from the latest JSON only (C19.topology_getter_from_latest_json; JSON parsing itself is not modelled) and the availability map holds the latest value per key; IsInitialized holds exactly when model, "
         "serial, topology JSON and SVG have all arrived. For an LTS of the reader and the single select loop with its two bounded queues: "
         "with the over-limit branch returning (repair 1) nothing after a broken frame is ever dispatched and every message before it is "
         "dispatched at most once in order; with the writer decoupled from the dispatcher (repair 2) the loop is never blocked for good. For "
         "the pinned code both are refuted by concrete executions (C19.overlimit_keeps_parsing_counterexample, "
         "C19.queue_self_deadlock_counterexample) and the blocked state is shown permanent. Tie to the code: the real client is run against "
         "scripted loopback panels; invocation log, acks on the wire, getters and Connect's result are compared with the model and judged by "
         "the independent monitors.",
    note=TB + "PARTIAL: proof of the dispatch logic and of the queue/reader LTS over all interleavings + trace validation against the real "
         "client. Outside the model: the Go scheduler, the Go memory model (the Bind*/dispatch data race is invisible to the LTS; it shows as "
         "a runtime crash `concurrent map read and map write` in a child process and under -race), kernel TCP, real time (2 s window and 5 s "
         "burst bound are checked on runs with tolerances), JSON parsing of the topology, the ASCII converters.",
    technique="Lean 4 pure model + induction over histories; LTS with inductive invariants; decide counterexamples; trace validation on the real client",
)
