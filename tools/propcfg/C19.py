def gorwp_nontrivial(cmd, inp, impl, prev):
    # non-trivial: the client connected and at least one handler was invoked, or the initialisation failed as scripted
    return ("init=ok" in impl and "inv=-" not in impl) or "init=err" in impl or impl.startswith("fatal:")

TB = "Trusted: Lean kernel (axioms propext, Classical.choice, Quot.sound only, audited per theorem), the harness (scripted loopback panel, handler log, reflection read of the unexported state fields under the state's lock) and the Lean driver runtime. "

PROP = dict(race_binary=True, 
    family="c19", session_start=None, trivial=gorwp_nontrivial, level="proof",
    n=dict(quick=40, thorough=600),
    exhaustive=dict(quick=False, thorough=False),
    confirm_rerun=True, shrink=False, timeout=1500, search_rounds=1,
    rule="one record = one scripted run of the real gorwp.Connect + handlers against an in-process loopback panel (32 at a time): "
         "initial answers complete / one item missing / SVG 2.5 s late, both protocol modes, and (ASCII) a line that never gets its line feed; "
         "every event kind x bound/unbound id x each "
         "binding kind alone and all together; n random histories of events interleaved with pings, bare acknowledges and identity/topology/map updates, "
         "one write per message / one byte per write / random cuts; bursts of 50-500 events without and with SetLEDColor feedback from the "
         "handlers; over-limit headers {500000, 500001, 2^31, 2^32-1} and truncated frames at first / middle position followed by valid "
         "frames; topology updates of varying shape (a later, smaller topology after a richer one: GetTopology() must equal a fresh parse of the last JSON); "
         "back-pressure (the panel stops reading while a handler's 24-40 x 1 MiB feedback fills the outgoing queue, pings in that window, reads again: "
         "one ack per ping); Bind* from a second goroutine during a burst (child process; thorough: also race-instrumented); Bind* calls at "
         "scripted points between events (K items: earlier events are not delivered to the new handler, later ones exactly once). "
         "the connection lost inside the initialisation window (init=close0|close2|overlimit|stall: the panel closes / sends a 500000 header / stalls a frame; "
         "Connect must fail), the complete answer followed at once by the close (init=fullclose, compare-only: either result accepted), messages with flow "
         "field ACK that carry an event / identity / a ping (must be processed). "
         "QUIET PERIODS (class 12): 2.2-4 s of silence from the panel (longer than the reader's 2 s payload deadline and two heartbeat periods) right after the "
         "initial answer / after an event / after a ping-ack exchange / after handler feedback / twice in a row / at the very end / at random places of random "
         "histories, both modes, with a panel that leaves the client's 1 s heartbeat pings unanswered (pa=0: real silence on the socket) and one that acknowledges "
         "them (pa=1); what follows the silence must be dispatched exactly once and the client must not end the connection (Spec clause "
         "connection_dropped_without_cause on the panel-side observation closed=1). "
         "Stopping rule of one run (harness, no verdict): listen until the log and the ack count reach what a loss-free run produces and 700 ms of quiet show "
         "nothing extra follows, or the client has closed the connection, or nothing at all happened for 3 s, or 12 s have passed (cut=count|closed|quiet|deadline; "
         "the last two are tagged B:cut=...). Acceptances that go either way are tagged in the evidence: B:undecided (all four items sent and the panel closed at once), "
         "B:prefix-accepted=<n> (n events sent right before an over-limit header, without a pause >= 250 ms, were not dispatched; at most the incoming queue's capacity "
         "may be missing, everything before a truncated frame is demanded), B:tol:slow (last invocation later than the scripted pauses + 5 s; no verdict). "
         "EQ = Connect's result, invocation log, ack "
         "count and final state equal the model's and the connection is still open (Gorwp.connect true / dispatchDyn over readerView / acks / finalState of the code as it is; "
         "when a broken frame ends the connection: a prefix of the model's log that contains everything but the last gorwpFromPanelCap event messages, "
         "everything if the frame was truncated; VERIF_C19_MODEL=pinned selects the model of the "
         "pinned code for replays of the old findings); H = Spec/GorwpSpec.lean on the observation; distinct = distinct script text",
    trusted_base=["Go scheduler, memory model (data races are looked for with the runtime's map check and, thorough, -race: supporting evidence only), "
                  "kernel TCP and the wall clock are outside the model",
                  "library converters between the ASCII protocol and messages (C02/C04) are used as they are; scripts whose messages "
                  "do not survive the ASCII round trip are skipped"],
    assumptions=["uint32/int32 event values stay in range (no wrap-around modelled)"],
)

CLAIM = dict(
    category="proof",
    text="Lean theorems. (a) For every binding set and every history of messages, the invocation log of the dispatch function "
         "(Gorwp.dispatch, mirroring procesMessagesFromPanel) is, event by event in panel order, exactly what the event owes: for every kind of "
         "handler one invocation if it is bound to the event's id and the event matches, none otherwise, with the event's id, press state, edge or value "
         "(C19.dispatch_exactly_once_in_order; the specification side Spec.Gorwp.checkLog/groupOk states this by counting per handler kind and membership and "
         "does not compute an expected log); the same for runs interleaving Bind* calls with events (C19.dispatchDyn_exactly_once_in_order: a handler bound "
         "before an event sees it; C19.rebinding_does_not_change_dispatch); one ack per ping; the stored model / serial / name / topology JSON / SVG "
         "are the latest non-empty values, the parsed topology is built from the latest JSON only (C19.topology_getter_from_latest_json, under the model's "
         "assumption of a fresh object per update, which the harness checks on the implementation by comparing digests; JSON parsing itself is not modelled) and the "
         "availability map holds the latest value per key; IsInitialized holds exactly when model, serial, topology JSON and SVG have all arrived; the reader's "
         "ACK filter (a bare acknowledge only) loses nothing (C19.reader_filter_transparent). Connect as it should be (cancelled context during "
         "initialisation = error unless initialised) succeeds exactly when the four items arrive within the window, for every course of the window "
         "(C19.connect_succeeds_iff_four_items_in_window). (b) For an LTS of reader, dispatcher and writer goroutines (code as it is; the pinned code had one select "
         "loop) around the two bounded queues, for all queue capacities >= 1 (instantiated with the capacities extracted from the source): "
         "with the over-limit branch returning nothing after a broken frame is ever dispatched and every message before it is "
         "dispatched at most once in order; with the writer decoupled from the dispatcher a blocked dispatcher is always released, no state with pending events is stuck, "
         "every non-ticker step decreases a progress measure, and every run that is strongly fair to reader, dispatcher and writer eventually has dispatched exactly the "
         "messages before the first broken frame (C19.all_dispatched_eventually); when the reader has stopped at a broken frame at most the incoming queue's capacity of "
         "messages is undispatched (C19.at_most_queue_capacity_lost_at_broken_frame). (c) For a timed LTS of the reader's read deadlines with every SetReadDeadline call "
         "site as configuration (the configuration `coded` and the constants - 2 s payload deadline, 1 s heartbeat, 2 s initialisation window, probe deadline - are "
         "regenerated from the source by the extractor, including WHERE the resets sit): in every reachable state in which the reader waits for a header or line no deadline "
         "is armed, so no silence of the panel ends the connection (C19.quiet_period_harmless for every configuration with the header reset, "
         "C19.quiet_period_harmless_coded with C19.coded_resets_in_place for the code); the timeout fires only inside a frame whose payload is 2 s late "
         "(C19.expire_only_inside_late_frame); with the reset hoisted out of the frame loop 2 s of silence after a frame end the connection "
         "(C19.reset_hoisted_counterexample) but only a real silence does - a panel acknowledging the 1 s heartbeat hides it (C19.hoisted_reset_needs_silence); the initialisation "
         "window of the property text equals the constant of init (C19.init_window_is_the_documented_one). Refuted by concrete executions for the pinned code "
         "(C19.overlimit_keeps_parsing_counterexample, C19.queue_self_deadlock_counterexample with the blocked state permanent, "
         "C19.connect_pinned_success_on_lost_connection_counterexample: Connect returned success whenever the connection was lost inside the initialisation window, "
         "C19.ack_message_with_event_dropped_counterexample: the binary reader dropped an ACK message together with an event it carried; all four repaired by fix: commits). Tie to the code: the real client is run against "
         "scripted loopback panels; Connect's result, invocation log, acks on the wire and getters are compared with the model and judged by "
         "the independent monitors.",
    note=TB + "PARTIAL: proof of the dispatch logic and of the queue/reader LTS over all interleavings + trace validation against the real "
         "client. Outside the model: the Go scheduler (liveness is proved under strong fairness of the three goroutines), the Go memory model (the Bind*/dispatch data race is invisible to the LTS; it shows as "
         "a runtime crash `concurrent map read and map write` in a child process and under -race), kernel TCP, JSON parsing of the topology, the ASCII converters. Real time: the read deadlines are modelled at the granularity of whole headers / payloads / lines "
         "(c) and exercised by the quiet-period scripts; the 2 s initialisation window is checked on runs (Connect must not fail earlier; an item 2.5 s late must not count); the 10 ms poll "
         "is outside; harness tolerances (250 ms settle margin before an over-limit header, 700 ms / 3 s listening rule, 5 s slowness tag) cannot turn into a verdict against a library that loses nothing.",
    technique="Lean 4 pure model + induction over histories; LTS with inductive invariants, progress measure and fair infinite runs; decide counterexamples; trace validation on the real client",
)
