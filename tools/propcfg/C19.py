def gorwp_nontrivial(cmd, inp, impl, prev):
    # non-trivial: the client connected and at least one handler was invoked, or the initialisation failed as scripted
    return ("init=ok" in impl and "inv=-" not in impl) or "init=err" in impl or impl.startswith("fatal:")

TB = "Trusted: Lean kernel (axioms propext, Classical.choice, Quot.sound only, audited per theorem), the harness (scripted loopback panel, handler log, reflection read of the unexported state fields under the state's lock) and the Lean driver runtime. "

PROP = dict(race_binary=True, 
    family="c19", session_start=None, trivial=gorwp_nontrivial, level="proof",
    n=dict(quick=40, thorough=600),
    exhaustive=dict(quick=False, thorough=False),
    confirm_rerun=True, shrink=False, timeout=1500, search_rounds=1,
    rule="one record = one scripted run of the real gorwp.Connect + handlers against an in-process loopback panel (32 at a time): "
         "initial answers complete / one item missing / SVG 2.5 s late, both protocol modes, and (ASCII) a line that never gets its line feed; "
         "every event kind x bound/unbound id x each "
         "binding kind alone and all together; n random histories of events interleaved with pings, bare acknowledges and identity/topology/map updates, "
         "one write per message / one byte per write / random cuts; bursts of 50-500 events without and with SetLEDColor feedback from the "
         "handlers; over-limit headers {500000, 500001, 2^31, 2^32-1} and truncated frames at first / middle position followed by valid "
         "frames; topology updates of varying shape (a later, smaller topology after a richer one: GetTopology() must equal a fresh parse of the last JSON); "
         "back-pressure (the panel stops reading while a handler's 24-40 x 1 MiB feedback fills the outgoing queue, pings in that window, reads again: "
         "one ack per ping); Bind* from a second goroutine during a burst (child process; thorough: also race-instrumented); Bind* calls at "
         "scripted points between events (K items: earlier events are not delivered to the new handler, later ones exactly once). "
         "the connection lost inside the initialisation window (init=close0|close2|overlimit|stall: the panel closes / sends a 500000 header / stalls a frame; "
         "Connect must fail), the complete answer followed at once by the close (init=fullclose, compare-only: either result accepted), messages with flow "
         "field ACK that carry an event / identity / a ping (must be processed). "
         "EQ = Connect's result, invocation log, ack "
         "count and final state equal the model's (Gorwp.connect true / dispatchDyn over readerView / acks / finalState of the code as it is; VERIF_C19_MODEL=pinned selects the model of the "
         "pinned code for replays of the old findings); H = Spec/GorwpSpec.lean on the observation; distinct = distinct script text",
    trusted_base=["Go scheduler, memory model (data races are looked for with the runtime's map check and, thorough, -race: supporting evidence only), "
                  "kernel TCP and the wall clock are outside the model",
                  "library converters between the ASCII protocol and messages (C02/C04) are used as they are; scripts whose messages "
                  "do not survive the ASCII round trip are skipped"],
    assumptions=["uint32/int32 event values stay in range (no wrap-around modelled)"],
)

CLAIM = dict(
    category="proof",
    text="Lean theorems. (a) For every binding set and every history of messages, the invocation log of the dispatch function "
         "(Gorwp.dispatch, mirroring procesMessagesFromPanel) is, event by event in panel order, exactly what the event owes: for every kind of "
         "handler one invocation if it is bound to the event's id and the event matches, none otherwise, with the event's id, press state, edge or value "
         "(C19.dispatch_exactly_once_in_order; the specification side Spec.Gorwp.checkLog/groupOk states this by counting per handler kind and membership and "
         "does not compute an expected log); the same for runs interleaving Bind* calls with events (C19.dispatchDyn_exactly_once_in_order: a handler bound "
         "before an event sees it; C19.rebinding_does_not_change_dispatch); one ack per ping; the stored model / serial / name / topology JSON / SVG "
         "are the latest non-empty values, the parsed topology is built from the latest JSON only (C19.topology_getter_from_latest_json, under the model's "
         "assumption of a fresh object per update, which the harness checks on the implementation by comparing digests; JSON parsing itself is not modelled) and the "
         "availability map holds the latest value per key; IsInitialized holds exactly when model, serial, topology JSON and SVG have all arrived; the reader's "
         "ACK filter (a bare acknowledge only) loses nothing (C19.reader_filter_transparent). Connect as it should be (cancelled context during "
         "initialisation = error unless initialised) succeeds exactly when the four items arrive within the window, for every course of the window "
         "(C19.connect_succeeds_iff_four_items_in_window). (b) For an LTS of reader, dispatcher and writer goroutines (code as it is; the pinned code had one select "
         "loop) around the two bounded queues, for all queue capacities >= 1 (instantiated with the capacities extracted from the source): "
         "with the over-limit branch returning nothing after a broken frame is ever dispatched and every message before it is "
         "dispatched at most once in order; with the writer decoupled from the dispatcher a blocked dispatcher is always released, no state with pending events is stuck, "
         "every non-ticker step decreases a progress measure, and every run that is strongly fair to reader, dispatcher and writer eventually has dispatched exactly the "
         "messages before the first broken frame (C19.all_dispatched_eventually). Refuted by concrete executions for the pinned code "
         "(C19.overlimit_keeps_parsing_counterexample, C19.queue_self_deadlock_counterexample with the blocked state permanent, "
         "C19.connect_pinned_success_on_lost_connection_counterexample: Connect returned success whenever the connection was lost inside the initialisation window, "
         "C19.ack_message_with_event_dropped_counterexample: the binary reader dropped an ACK message together with an event it carried; all four repaired by fix: commits). Tie to the code: the real client is run against "
         "scripted loopback panels; Connect's result, invocation log, acks on the wire and getters are compared with the model and judged by "
         "the independent monitors.",
    note=TB + "PARTIAL: proof of the dispatch logic and of the queue/reader LTS over all interleavings + trace validation against the real "
         "client. Outside the model: the Go scheduler (liveness is proved under strong fairness of the three goroutines), the Go memory model (the Bind*/dispatch data race is invisible to the LTS; it shows as "
         "a runtime crash `concurrent map read and map write` in a child process and under -race), kernel TCP, real time (2 s window, 10 ms poll and 5 s "
         "burst bound are checked on runs with tolerances), JSON parsing of the topology, the ASCII converters.",
    technique="Lean 4 pure model + induction over histories; LTS with inductive invariants, progress measure and fair infinite runs; decide counterexamples; trace validation on the real client",
)
