def gfx_nontrivial(cmd, inp, impl, prev):
    # a record is non-trivial when the implementation delivered at least one image (or, for gfx.match, matched)
    if cmd == "gfx.match":
        return impl != "-"
    return " G " in impl

TB = "Trusted: Lean kernel (axioms propext, Classical.choice, Quot.sound only, audited per theorem), the correspondence check (sampled unless stated exhaustive), the harness printers and Lean driver runtime, the extractor for regenerated tables. "

PROP = dict(
    family="c05", session_start=None, trivial=gfx_nontrivial,
    n=dict(quick=100, thorough=600),
    exhaustive=dict(quick=False, thorough=False),
    driver_shards=8,  # gfx.* records carry no driver state: answer them with 8 driver processes
    shrink=False,   # every record is a whole history; generators emit histories shortest first
    rule="gfx.rt: every image length 0..1100 (quick: one of 18 format/offset/id-count configurations per length, thorough: all 18) "
         "and random lengths to 6000 through the real encoder, then the lines (one third with non-graphics lines woven in) through "
         "the batch decoder, ASCIIreader.Parse line by line, and Parse with json.Marshal/Unmarshal of the reader between lines; "
         "gfx.multi: ONE encoder call carrying several graphics states - every ordered pair and triple over the six image kinds "
         "{MONO, RGB16bit, Gray4bit} x {without, with offset}, each tuple with its states all in one InboundMessage, one message per "
         "state, and (triples) split 2+1 and 1+2 over the messages of the call (936 records per pass; thorough 4 passes), sizes "
         "1..511 around the chunk size (now and then 0), 0-3 targets per state (equal and different ids), own dimensions per "
         "state, every third record with non-graphics lines woven in; model = code on the whole call (encodeMsgs) and "
         "Spec.Gfx.checkEncAll / checkCleanAll per image in message order on the encoder's lines and on what the batch decoder, "
         "the streaming reader and the serialised reader deliver; "
         "gfx.hist: ALL histories of length 1-3 (thorough 4) over the 29-symbol alphabet {2 targets x 2 formats x (chunk 0 simple, "
         "chunk 0 with /0 /1 /2 header, chunks 1 2 3), ping}, all of length 4 (thorough 5) over a 13-symbol sub-alphabet (one target "
         "complete, chunk 0 + chunk 1 of the other target and of the other format, ping, one undecodable payload), all of length 6 "
         "(thorough 7) over the 7-symbol single-target alphabet, plus random near-clean histories of 10-200 lines (white space around "
         "lines incl. U+0085 U+00A0 U+1680 U+2000-200A U+2028/9 U+202F U+205F U+3000 and look-alike bytes that TrimSpace keeps); "
         "edge histories (genEdge): Unicode white space at line ends, invalid UTF-8 in held chunk lines (the final S/J reader state "
         "lists the held lines, so the U+FFFD rewriting of the JSON hop is compared byte for byte), ids / dimensions / offsets / "
         "indices at 2^32-1, 2^32, 2^63-1, 2^63, 2^64 and with up to 26 digits of leading zeros; gfx.match: the "
         "hand-written matcher and the Spec's line grammar against the real regular expression on 40 crafted and 20n mutated near-miss lines. "
         "non-trivial = at least one image delivered (gfx.match: line matched); distinct = distinct record text",
    trusted_base=[
        "encoding/json on the five exported ASCIIreader fields: ints exact, []string nil <-> null, strings come back with every invalid UTF-8 byte replaced by U+FFFD (modelled: jsonFix; proved harmless: serial_stream; compared on every record incl. the held lines)",
        "encoding/base64.StdEncoding modelled in Lean (Base/B64.lean, decode(encode b) = b proved; proved equal on EVERY text to the second, independently written decoder Base/B64In.lean: b64_same); its behaviour on malformed text (CR/LF skipped, quantum-wise partial output) transcribed from the Go 1.23 source and exercised by records with damaged payloads",
        "regexp: regex_gfx / ASCIIreader_gfx replaced by a hand-written matcher; the pattern text is extracted on every run and proved equal to the one the matcher was written for; matcher vs real regexp compared on near-miss lines (gfx.match); proved equal on every byte string to the Spec's grammar (spec_reading_agrees) and to the matcher of the full decoder model (matchers_agree)",
        "strconv.Atoi / fmt %d / strings.Split modelled; strings.TrimSpace modelled rune-aware (Base/Bytes.lean: ASCII white space and U+0085, U+00A0, U+1680, U+2000-200A, U+2028/9, U+202F, U+205F, U+3000; invalid UTF-8 is not white space), exercised by the white-space records",
        "the non-graphics part of the decoder is an opaque per-line function in the C05 model (its value on each line is taken from the implementation); C06.batch_models_agree identifies it with the full decoder model's value on that line",
        "Go int modelled as unbounded Int (a counter overflow needs 2^63 lines)",
    ],
    assumptions=["domain of the safety theorems (Spec.Gfx.inDomain): target ids, dimensions and offsets below 2^32 (the uint32 message fields), chunk indices and declared last indices below 2^63 (Go int) - values, not digit counts; beyond it su.Intval clamps to MaxInt64 and uint32() wraps (numbers_as_the_code_reads_them), the driver tags such records ood and checks model = code only"],
)

CLAIM = dict(
    text="Lean theorems C05.* about the model of the repaired chunk decoder (fix: 87cf381): (chunking) for every image and target list the encoder emits ceil(len/170) numbered lines of at most 170 payload bytes whose payloads concatenate to the image, none for an empty image, and each line is read back by the decoder's matcher as that index/format/target/payload/header; (clean runs) for every image with uint32 metadata and every id list of uint32 ids, the encoder's whole output (one transfer per id) - in one batch call, line by line through the streaming reader, with the reader state serialised/restored between any two lines, or with unrelated non-graphics lines woven in anywhere, from ANY state of the decoder's locals / ANY reader state / ANY JSON state document (hence after any earlier history) - yields exactly one image per id, in order, equal to what was sent, returned at the last chunk line of its run (clean_run_spec_multi_any_state, clean_run_spec_multi; single-transfer forms clean_run_*); (several images in one call) for every list of messages, each with any number of states, each state with its own format, dimensions, offset, bytes and uint32 target ids, the encoder's lines for the whole call (encodeMsgs: message after message, state after state, the line prefix chosen per image) pass the Spec's whole-call check checkEncAll (per image in message order and per id one clean run of THAT image; encoder_call_clean), and - woven with unrelated lines, from any decoder/reader/JSON state, under the three disciplines - yield exactly one delivery per image and id, in order, equal to its own image incl. format, at the last line of its run (clean_run_spec_call_any_state, clean_run_spec_call); on a single image the whole-call predicates are the single-image ones (call_checks_generalise), and they reject a MONO image emitted or delivered with the prefix/format of the image before it (carried_prefix_rejected); (safety) for EVERY history of lines (no length bound; ids, dimensions, offsets < 2^32 and chunk indices < 2^63, any number of digits) under the three feeding disciplines the Spec's check passes: every delivered image is legitimate where it was returned (chunks 0..N in order of one transfer started by its chunk 0, same target list and format, header metadata, no chunk 0 between, payloads valid base64), no transfer is delivered twice; and for every history whatsoever no delivered image object is altered afterwards - batch: never_altered (objects are store cells), streaming: stream_never_altered (object identity across Parse calls in a session heap; Parse returns nil or what one batch call returns; the reader struct holds no pointer: reader_fields_are_values, regenerated). base64 decode(encode b) = b is proved. The same Spec predicates (with the Spec's own independently written line grammar) are evaluated on the real library's deliveries; model = code is checked on generated and exhaustively enumerated histories.",
    note=TB + "spec_reading_agrees: the Spec's independent line grammar (Spec.Gfx.parseLine) equals the decoder's matcher (readLine) on EVERY byte string. safety_spec_batch is stated on batchObserved = the returned message list WITHOUT line positions, images read after the call (what the driver builds from the implementation's output); it follows from the positions form by safety_erase_pos (deliveries in line order that pass with positions pass without; the order hypothesis is needed: safety_erase_pos_needs_order) and batchObserved_eq. safety_spec_stream carries the positions of the Parse calls, which the driver observes. Domain: safety_id_domain_counterexample shows the 2^32 bound on ids is needed (the decoder stores ids as uint32). The JSON hop rewrites invalid UTF-8 in held lines to U+FFFD; serial_stream proves the serialised reader returns at every line what the plain reader returns. C06.batch_models_agree / parse_models_agree: this model and the full inbound decoder model of C01/C02/C06 return the same messages on every line sequence.",
    technique="Lean 4 proof (induction over the chunk index / the id list for clean runs; invariant over the history with ghost positions of accepted chunks and a reachability argument for the Spec's legitimacy search; greedy-exchange argument for erasing positions; simulation for the JSON hop and between the two decoder models) + model/implementation correspondence incl. exhaustive short histories",
)
