def gfx_nontrivial(cmd, inp, impl, prev):
    # a record is non-trivial when the implementation delivered at least one image (or, for gfx.match, matched)
    if cmd == "gfx.match":
        return impl != "-"
    return " G " in impl

TB = "Trusted: Lean kernel (axioms propext, Classical.choice, Quot.sound only, audited per theorem), the correspondence check (sampled unless stated exhaustive), the harness printers and Lean driver runtime, the extractor for regenerated tables. "

PROP = dict(
    family="c05", session_start=None, trivial=gfx_nontrivial,
    n=dict(quick=100, thorough=600),
    exhaustive=dict(quick=False, thorough=False),
    driver_shards=8,  # gfx.* records carry no driver state: answer them with 8 driver processes
    shrink=False,   # every record is a whole history; generators emit histories shortest first
    rule="gfx.rt: every image length 0..1100 (quick: one of 18 format/offset/id-count configurations per length, thorough: all 18) "
         "and random lengths to 6000 through the real encoder, then the lines (one third with non-graphics lines woven in) through "
         "the batch decoder, ASCIIreader.Parse line by line, and Parse with json.Marshal/Unmarshal of the reader between lines; "
         "gfx.hist: ALL histories of length 1-3 (thorough 4) over the 29-symbol alphabet {2 targets x 2 formats x (chunk 0 simple, "
         "chunk 0 with /0 /1 /2 header, chunks 1 2 3), ping}, all of length 4 (thorough 5) over a 13-symbol sub-alphabet (one target "
         "complete, chunk 0 + chunk 1 of the other target and of the other format, ping, one undecodable payload), all of length 6 "
         "(thorough 7) over the 7-symbol single-target alphabet, plus random near-clean histories of 10-200 lines; gfx.match: the "
         "hand-written matcher and the Spec's line grammar against the real regular expression on 40 crafted and 20n mutated near-miss lines. "
         "non-trivial = at least one image delivered (gfx.match: line matched); distinct = distinct record text",
    trusted_base=[
        "encoding/json round-trips the five exported ASCIIreader fields (ints exact, strings valid UTF-8; []string nil <-> null) - modelled as identity, exercised by the J discipline on every record",
        "encoding/base64.StdEncoding modelled in Lean (Base/B64.lean, decode(encode b) = b proved); its behaviour on malformed text (CR/LF skipped, quantum-wise partial output) transcribed from the Go 1.23 source and exercised by records with damaged payloads",
        "regexp: regex_gfx / ASCIIreader_gfx replaced by a hand-written matcher; the pattern text is extracted on every run and proved equal to the one the matcher was written for; matcher vs real regexp compared on near-miss lines (gfx.match)",
        "strconv.Atoi / fmt %d / strings.Split / strings.TrimSpace (ASCII white space only) modelled; lines are ASCII in all generated histories",
        "the non-graphics part of the decoder is an opaque per-line function (its value on each line is taken from the implementation)",
        "Go int modelled as unbounded Int (a counter overflow needs 2^63 lines)",
    ],
    assumptions=["numbers in chunk lines have at most 9 digits (fit the uint32 message fields); lines are ASCII"],
)

CLAIM = dict(
    text="Lean theorems C05.* about the model of the repaired chunk decoder (fix-C05.patch): (chunking) for every image and target list the encoder emits ceil(len/170) numbered lines of at most 170 payload bytes whose payloads concatenate to the image, none for an empty image, and each line is read back by the decoder's matcher as that index/format/target/payload/header; (clean runs) for every non-empty image with uint32 metadata and every valid target list, the encoder's lines - in one batch call (from any state of the locals), line by line through the streaming reader (from any reader state), with the reader state serialised/restored between any two lines, or with unrelated non-graphics lines woven in anywhere - yield exactly one image equal to what was sent, returned at the last chunk line; (safety) for EVERY history of lines (no length bound; numbers of at most 9 digits) under the three feeding disciplines Spec.Gfx.safetyOn = none: every delivered image is legitimate where it was returned (chunks 0..N in order of one transfer started by its chunk 0, same target list and format, header metadata, no chunk 0 between, payloads valid base64), no transfer is delivered twice, and (for every history whatsoever) a delivered image object is never written again. base64 decode(encode b) = b is proved. The same Spec predicates (with the Spec's own independently written line grammar) are evaluated on the real library's deliveries; model = code is checked on generated and exhaustively enumerated histories.",
    note=TB + "spec_reading_agrees: the Spec's independent line grammar (Spec.Gfx.parseLine) equals the decoder's matcher (readLine) on EVERY byte string; encoder_lines_clean, clean_run_spec (ids < 2^32: the decoder stores ids as uint32, clean_run_spec_id_domain_counterexample), safety_spec_batch/stream are the Spec-level forms (Spec.Gfx.checkEnc/checkClean/checkSafety = none) of the encoder, clean-run and safety theorems, i.e. exactly what the driver evaluates on the implementation's output. clean_run_spec is stated for a single target id.",
    technique="Lean 4 proof (induction over the chunk index for clean runs; invariant over the history with ghost positions of accepted chunks and a reachability argument for the Spec's legitimacy search) + model/implementation correspondence incl. exhaustive short histories",
)
