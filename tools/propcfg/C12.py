def net_nontrivial(cmd, inp, impl, prev):
    return (" msg:" in impl) or (" dis:0" in impl) or (" rx:" in impl)

TB = "Trusted: Lean kernel (axioms propext, Classical.choice, Quot.sound only, audited per theorem); the trace validation (scripts run against the real client on loopback: enumerated fault spaces + sampled long streams), the harness' scripted panel / trace printer and the Lean driver runtime; the extractor for the regenerated constants (frame limit 500000, deadlines 2000 ms, probe buffer 1000). Outside the model: the Go scheduler, kernel TCP, real time (timing clauses are checked on traces with a 400 ms tolerance, never proved); io.ReadFull / bufio.ReadString / net.Conn deadlines / channels enter by their documented contracts. "

PROP = dict(
    family="c12", session_start=None, trivial=net_nontrivial, shrink=False, confirm_rerun=True, level="proof",
    n=dict(quick=216, thorough=480), timeout=1500,
    exhaustive=dict(quick=False, thorough=False),
    rule='one record = one probe exchange: 16 reply classes (ack frame, other frames, RDY, map=, ErrorMsg=, other text, short / mismatching binary, two frames) x delays {0, 0.5, 1.9 s} (thorough: 7 delays) x {followed by close or not} x {ConnectToPanel, AutoDetectIfPanelEncodingIsBinary}, plus silence for the whole window (then nothing / late ack / late RDY / close) and close inside the window; non-trivial always; distinct = distinct record text',
    trusted_base=["io.ReadFull, bufio.ReadString, strings.TrimSpace (ASCII blanks), net.Conn read deadlines, Go channels and proto.Marshal/Unmarshal enter the model by their contracts (opaque where possible)",
                  "scripted TCP panel on loopback (harness/netpanel.go): what it sent and when is taken from its own trace"],
    assumptions=["atomicity of the LTS labels (one label = one Go statement group)", "timing clauses hold with a tolerance of 400 ms; scripts keep >= 300 ms from every deadline (others are tagged tight-margin and judged by the monitor alone)"],
)

CLAIM = dict(
    category="proof",
    text='Lean theorems about the decision logic of both entry points, for every reply (any bytes): C12.probe_bytes (= 02 00 00 00 08 01 given marshal(ping) = 08 01, which the harness observes), C12.classifyClient_iff, C12.ack_frame_is_binary_both, C12.silence_rdy_map_are_ascii_both (ASCII and exactly one LF written), C12.client_any_other_text_is_ascii, C12.errormsg_extracted, C12.detector_iff. Tied to the code by trace validation of both real entry points against a scripted panel; Spec monitor checkC12 on every trace (probe is exactly one ping frame; ack below 2 s -> binary and nothing more written; silence / RDY / map= -> ASCII and exactly one LF; client: any other text -> ASCII, ErrorMsg text handed to onconnect). Partial: a reply is what one Read returns (one segment); replies within 100 ms of the 2 s deadline are not constrained; timing outside the model.',
    note=TB,
    technique="Lean 4 proof (state machines / LTS of the protocol logic, induction over streams and executions) + trace validation of the real client against a scripted TCP panel (Spec monitors on every trace, deterministic model outcome on margin-safe scripts)",
)
