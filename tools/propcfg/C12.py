def net_nontrivial(cmd, inp, impl, prev):
    return (" msg:" in impl) or (" dis:0" in impl) or (" rx:" in impl)


def _c12_conn_unchecked(client, toks, k, impl_toks):
    """a connection of a C12 script that is neither compared with the model (its reply lies within 300 ms of the end of
    the 2 s window: the driver's B:tight-margin) nor judged by the monitor (outside the property's domain): mirrors
    Driver/Net.compareConnC12 + Spec.Net.checkConnC12, which tag such a record B:unchecked"""
    writes = [bytes.fromhex(t[1:]) for t in toks if t.startswith("w")]
    closes = any(t in ("c", "r") for t in toks)
    sched = 0
    for t in toks:
        if t[0] in "wcr":
            break
        if t[0] == "s":
            sched += int(t[1:])
    if not writes and not closes:
        sched = sum(int(t[1:]) for t in toks if t[0] == "s")
    t_probe = t_reply = None
    for t in impl_toks:
        body, _, ms = t.rpartition("@")
        f = body.split(":")
        if t_probe is None and f[0] in ("rx", "rxn") and len(f) > 1 and f[1] == str(k):
            t_probe = int(ms)
        if t_reply is None and ((f[0] == "tx" and len(f) > 1 and f[1] == str(k)) or (f[0] == "cl" and f[1:] == [str(k)])):
            t_reply = int(ms)
    delay = (t_reply - t_probe) if (t_probe is not None and t_reply is not None and t_reply >= t_probe) else (0 if t_probe is not None and t_reply is not None else sched)
    tight = (bool(writes) or closes) and abs(delay - 2000) < 300
    if not tight:
        return False
    if len(writes) > 1:
        return True
    reply = b"".join(writes) if writes else None
    if reply is not None and delay + 50 >= 2000:
        return delay < 2050
    if reply is None and closes and delay < 2050:
        return True
    if not reply:
        return False      # silence: judged
    if len(reply) >= 4 and int.from_bytes(reply[:4], "little") + 4 == len(reply):
        return reply[4:] != b"\x08\x02"      # a well-formed frame other than the acknowledge: no verdict fixed
    text = all(32 <= c < 127 or c in (9, 10, 13) for c in reply)
    if text and (reply.startswith(b"RDY\n") or reply.startswith(b"map=")):
        return False
    if text:
        return not client      # other text / ErrorMsg: named for the reconnecting client only
    return True


def c12_nontrivial(cmd, inp, impl, prev):
    if not net_nontrivial(cmd, inp, impl, prev):
        return False
    # records with a connection that is neither compared nor judged (driver tag B:unchecked) are not counted
    try:
        toks = inp.split(" ")
        conns, cur = [], None
        for t in toks[1:]:
            if t == "conn":
                cur = []
                conns.append(cur)
            elif cur is not None:
                cur.append(t)
        it = impl.split(" ")
        return not any(_c12_conn_unchecked(cmd == "net.c12c", c, k, it) for k, c in enumerate(conns))
    except Exception:
        return True

TB = "Trusted: Lean kernel (axioms propext, Classical.choice, Quot.sound only, audited per theorem); the trace validation (scripts run against the real client on loopback: enumerated fault spaces + sampled long streams), the harness' scripted panel / trace printer and the Lean driver runtime; the extractor for the regenerated constants (frame limit 500000, deadlines 2000 ms, probe buffer 1000) and for the ordered list of Set...Deadline call sites of ConnectToPanel (Gen/NetSites.lean: function, loop depth, branch path, first-in-loop, reads before; interpreted by Net.cfgOfSites). Outside the model: the Go scheduler, kernel TCP, real time (timing clauses are checked on traces with a 400 ms tolerance, never proved); io.ReadFull / bufio.ReadString / net.Conn deadlines / channels enter by their documented contracts. "

PROP = dict(
    family="c12", session_start=None, trivial=c12_nontrivial, shrink=False, confirm_rerun=True, level="proof",
    n=dict(quick=176, thorough=560), timeout=1500,
    exhaustive=dict(quick=False, thorough=False),
    rule='one record = one call of an entry point against a scripted panel with 1-3 connections, every connection judged by what the panel replies on THAT connection. (A) reconnects: the reconnecting client probes every new connection (the panel drops the earlier ones: binary after an ack, ASCII by RDY, ASCII by silence for the whole window, ErrorMsg + close), the stand-alone detector is called once per connection; on the 2nd / 3rd connection reply class (ack, RDY, map=, ErrorMsg=) x delay {0.6, 1.2, 1.8 s} (thorough: full cross product with delay 0) after every kind of earlier connection, both entry points. (B) one probe exchange: the reply classes the property names - ack frame, RDY (alone / with more behind it), map= (one / several lines), and for the client ErrorMsg= (4 forms) and other text (3) - x delays {0, 0.6, 1.2, 1.8 s} (thorough: 8 delays up to 1.8 s; nothing is scheduled within 100 ms of the end of the window, the monitor does not judge within 50 ms of it) x {followed by close or not} x {ConnectToPanel, AutoDetectIfPanelEncodingIsBinary}; silence for the whole window (then nothing / late ack / late RDY / close). Few records are outside the domain (compared with the model, not judged, never near the end of the window): replies without a fixed verdict (other well-formed frame, short / mismatching binary, two frames; text replies to the detector), replies reaching the probe Read in two segments 300 ms apart (B:skip-reply-in-several-segments), close inside the window. A connection that is neither compared (within 300 ms of the end of the window the monitor decides alone: B:tight-margin) nor judged is tagged B:unchecked by the driver and such a record is not counted as non-trivial (none occurs in the generated scripts unless a delay slips by > 150 ms); otherwise non-trivial always; distinct = distinct record text; the named replies (ack, RDY, map, ErrorMsg, ack carrying an event) with traffic of the negotiated mode 40 ms behind them (empty message + a 4095/4096/9000-byte line (thorough 65535) or a 4092/65536-byte frame), reply delay 0 and 1.2 s',
    trusted_base=["io.ReadFull, bufio.ReadString, strings.TrimSpace (Go's unicode.IsSpace set; model: Base/Bytes.trimSpace), net.Conn read deadlines, Go channels and proto.Marshal/Unmarshal enter the model by their contracts (opaque where possible)",
                  "scripted TCP panel on loopback (harness/netpanel.go): what it sent and when is taken from its own trace"],
    assumptions=["atomicity of the LTS labels (one label = one Go statement group; a conn.Write of one chunk is one label)", "time in the LTS is urgent (at or after an armed read deadline only the timeout can happen); a conn.Write error other than a timeout is sticky; a writer whose quit channel is closed has returned before the retry period ends", "timing clauses hold with a tolerance of 400 ms; scripts keep >= 300 ms from every deadline (others are tagged tight-margin and judged by the monitor alone)"],
)

CLAIM = dict(
    category="proof",
    text='Lean theorems about the decision logic of both entry points, for every reply (any bytes): C12.probe_bytes (= 02 00 00 00 08 01 given marshal(ping) = 08 01, which the harness observes), C12.classifyClient_iff, C12.detector_iff, C12.ack_frame_is_binary_both, C12.silence_rdy_map_are_ascii_both (ASCII and exactly one LF written), C12.client_any_other_text_is_ascii; timing, with the probe deadlines regenerated from both sources: C12.timeouts_are_two_seconds / timeouts_are_the_window_of_the_property_text (the 2000 ms of the monitor are the number of the property text, not read from the code), C12.probe_window_is_the_constant_deadline (the first Set...Deadline call site regenerated from ConnectToPanel - in the connection loop, before the probe Read - is SetReadDeadline(now + 2000 ms) with a constant argument: the same window on every reconnect; a window kept in a variable, seeded change C12-9, breaks the obligation), C12.late_is_silence (a reply at or after the deadline is not seen: ASCII, one LF, both), C12.ack_before_timeout_is_binary (a well-formed frame at any delay below the deadline: binary, nothing written, both), C12.entry_points_see_same_reply / entry_points_agree_before_min_timeout (below the smaller deadline both see the same reply and agree on every named reply class), C12.between_timeouts_disagree; error text: C12.errormsg_extracted, errormsg_passed_to_onconnect (LF-terminated), errormsg_passed_to_onconnect_unterminated, errormsg_absent. Observation outside the domain (the property ranges over reply class x delay x entry point, not over TCP segmentation of the reply; decision of the project lead): C12.split_ack_disagree - an acknowledge frame whose first segment has 1..5 bytes makes the client say ASCII (and write a LF) and the detector say binary; reproduced on the real client, compared with the model, not judged. Tied to the code by trace validation of both real entry points against a scripted panel; Spec monitor checkC12 on every trace, every connection of a call judged on its own, also after reconnects (probe is exactly one ping frame on every connection; ack below 2 s -> binary and nothing more written; silence / RDY / map= -> ASCII and exactly one LF; client: any other text -> ASCII, ErrorMsg text handed to onconnect). Partial: a reply is what one Read returns; replies within 50 ms of the 2 s deadline are not constrained; real time outside the model.',
    note=TB,
    technique="Lean 4 proof (state machines / LTS of the protocol logic, induction over streams and executions) + trace validation of the real client against a scripted TCP panel (Spec monitors on every trace, deterministic model outcome on margin-safe scripts)",
)
