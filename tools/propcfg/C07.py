from propcfg.C16 import TB

def nontrivial(cmd, inp, impl, prev):
    # the input contains a line feed or white space at a line edge: flattening had something to do
    if cmd.startswith("net.") or cmd == "strip.wire":
        return True
    a = inp.split(" ")
    return "0a" in a[-1] or "20" in a[-1]

PROP = dict(
    family="c07", session_start=None, trivial=nontrivial,
    n=dict(quick=4000, thorough=60000),
    exhaustive=dict(quick=False, thorough=False),
    rule="strings with line feeds / CRLF / ASCII and Unicode white space / tag and JSON fragments at random positions, "
         "sent through the public encoders in every flattened payload field (7 kinds + SVG) and every pass-through string "
         "field (12 kinds); strip.field records whose kind is `a+b+...` are ONE encoder call on several messages: the string "
         "in an earlier message (each of the 12 field kinds, or `inall` / `outall` = every pass-through field of one message "
         "at once: identity strings, address lists, register ids, title and both text lines) and a last message without "
         "any string (event, ack, ping, sleep state, map / state, command, register), the reverse, a filler on both sides, the "
         "field message twice (every combination, fixed) + n/4 random calls of 2-5 messages; wire clause through BOTH ASCII "
         "writers: net.c09 records (ConnectToPanel's writer) with white-space / line-feed texts and with 26 texts a writer could "
         "treat specially (format verbs %d %% %s %[1]d, backslash escapes, | = #, line feeds, blanks at the edges), and strip.wire "
         "records = gorwp.Connect against a scripted ASCII-mode panel (answers the probe with RDY, answers the initial request), "
         "SetRWPTextByStruct / SendRawState with those texts: the LF-split stream the panel received (heartbeat pings removed) "
         "must be exactly the encoder's strings for the same messages (Spec.Strip.checkWire); non-trivial = the input contains "
         "a line feed or a space; distinct = distinct record text",
    trusted_base=["strings.Split/TrimSpace/Join/ReplaceAll modelled (Base/Bytes.lean) and validated by the correspondence",
                  "how each encoder embeds a field into its line is not modelled here (C01/C03); pass-through fields are checked metamorphically against the same message with the field already flattened"],
    assumptions=["proto string fields are valid UTF-8 (guaranteed by protobuf-go on Marshal/Unmarshal)"],
)

CLAIM = dict(
    text="Lean theorems: the three flattening functions (stripLineBreaks, stripLineBreaksSvg, the return-site line-feed flattening) never output LF for any input (strip_no_lf, stripSvg_no_lf, singleLine_no_lf; Lemmas/StripOneLine.lean). FULL-ENCODER theorem encoders_frame: for every list of inbound messages and every list of outbound messages, whatever their string fields contain, no string returned by the encoder models encIn / encOut contains a line feed and the returned lists frame correctly (each string + LF, split at LF, recovers exactly the strings: Spec.Strip.framing); framing holds for any list of LF-free strings. The output of the payload flattening is, for every input, the in-order concatenation of the input's lines with only white-space runes removed at line ends (strip_structure / stripSvg_structure). strip_payload / stripSvg_payload: the executable statement the check evaluates on the real output (Spec.Strip.checkPayload: one line, white-space-free content equal) holds of the model for every input whose lines do not start, once trimmed, with a UTF-8 continuation byte (JoinSafe; implied by valid UTF-8: strip_content_utf8) and for SVG for every byte string; contentEq_invalid_utf8_counterexample shows the guard is needed (E2 80 LF 85 41 joins into U+2005) — Go strings from protobuf/JSON are valid UTF-8. topo_lines_content: the two topology lines the outbound encoder returns are the key + the flattened SVG / JSON and pass that payload check against the field. The same predicates are evaluated on the real encoders' output for every payload and pass-through field, in single- and multi-message calls; the stream clause is evaluated at both writer sites the property names (ConnectToPanel: net.c09 records; gorwp: strip.wire records, Spec.Strip.checkWire = the panel's LF-split stream equals the produced strings) - the writers themselves are checked by execution only, not modelled in Lean.",
    note=TB + "That the Go encoders equal the models encIn / encOut (in particular that every returned string passes through the return-site flattening) rests on the correspondence of C01/C03/C07 over all field kinds.",
    technique="Lean 4 proof (list induction over lines, trim decomposition, full encoder models) + model/implementation correspondence through the public encoders",
)
