from propcfg.C16 import TB

def nontrivial(cmd, inp, impl, prev):
    # at least one decoded message carries something (not only empty messages)
    return " + " in (" " + impl.split(" ; ")[0] + " ") or any(t not in ("M", "0", "~") for t in impl.split(" ; ")[0].split(" ")[1:])

PROP = dict(
    family="c04", session_start=None, trivial=nontrivial,
    n=dict(quick=8000, thorough=200000),
    exhaustive=dict(quick=False, thorough=False),
    rule="lines generated from the grammar: every flow word; every event kind (Down, Up, Press, Enc, Abs, Speed, Raw) x 6 ids "
         "(incl. leading zero, 2^32-1) with and without each edge suffix (binary AND value events), signed/unsigned values at 19 boundaries; 16 HWC# lines with an unknown kind word alone and between events; map; every "
         "one of the 29 keys; numbers at 19 boundaries for every numeric key; capability lists in random orders with "
         "duplicates; SysStat lines with any subset/order of the 20 fields, floats in 5 notations; ;-lists with padded/empty "
         "items; registers; sequences of 2-8 lines with non-grammar lines interleaved; 42 non-grammar samples + random; "
         "78 near-miss lines (grammar keyword, malformed arguments: tag B:ood, correspondence only); random concatenations of grammar tokens "
         "(regex fuzz, correspondence only); dout.rx / dout.match: the library's real regexps (go:linkname) against the model's byte matchers, "
         "bounded-exhaustive (token strings up to length 3 (quick) / 4-5 (thorough) after each keyword prefix, all 29 keys x value strings, glued keys, "
         "all single edits of valid lines, double edits sampled (quick) / all over a reduced alphabet (thorough)). "
         "Scenario classes (after the random stream, every run; x10 in the thorough tier): (a) dout.seq = 2-5 calls on different batches, the "
         "returned message lists kept and printed at return time and again after the last call, every fourth as dout.par = the calls of even / "
         "odd index in two goroutines, 12 repetitions each; (b) the same line more than once in one call "
         "with other lines in between (A X A, A A, A B A, A X A Y A for each of the 16 line families; every non-grammar sample around an event); "
         "(c) every numeric position of every line family (35 templates: event id / edge / value, map key and value, every numeric key, SysStat "
         "integer fields, register ids and values) re-spelled with 1, 2, 7 and 25 leading zeros, '-0' and (SysStat) '+' where the pattern admits "
         "a sign, one position at a time and all at once, alone and in batches; digit strings of 30-80 characters; canonical values 8, 9, 10, 18, "
         "100, 255 so that an octal / base-prefix reading shows; (g) dout.ctx = 29 lines with a known key and an enumerated value outside its "
         "enumeration or arguments that do not parse (_panelType=Foo, EnvironmentalHealth=Weird, _support=Foo, SysStat=Foo:5, HWC#5=Enc ...) "
         "alone, directly after each of 14 message-producing lines, between two events, repeated, and in random batches with well-formed, "
         "near-miss and non-grammar lines: the record carries what the decoder returns for every distinct line alone, H1 = effects(batch) = "
         "Spec.Out.readOutboundWith (the grammar's reading of every line it reads, the line's own effects for every outside line, in line "
         "order; tag B:ctx); (f) lines of 201-6000 bytes; every record whose input or output carries a byte string longer than 200 bytes (and "
         "every third other record) is executed a second time with DebugRWPhelpers on. "
         "non-trivial = some decoded message is non-empty; distinct = distinct record text",
    trusted_base=["regexp: the four patterns are hand-written byte matchers in the model (leftmost-first, '.' = one rune or invalid byte, never LF, '$' = end of text); equivalence with the library's real compiled regexps validated by bounded-exhaustive dout.match records + near-miss lines; regex_sources_tie / regex_alternations_tie pin the pattern texts and their alternation lists",
                  "strconv.ParseFloat(…,32) and encoding/json (networkConfigFromString) enter as oracle values computed by the harness",
                  "strconv.Atoi incl. overflow clamp, strings.Split/TrimSpace modelled (Base/Bytes.lean) and validated by the correspondence"],
    assumptions=["a line contains no LF (lines are split at LF by the caller)"],
)

CLAIM = dict(
    text="Lean theorems over the decoder model DecOut.decOut (hand-written byte matchers for the four regular expressions, TrimExplode, the SysStat "
         "sliding scan as written) and the independent reader Spec.Out.readLine. FULL STRENGTH, for all byte strings: "
         "decOut_sound (for every list of lines each of which is well-formed in the grammar of Spec/GrammarOut.lean or non-grammar — decidable inDomainLines — the "
         "decoded messages carry exactly the effects the reader assigns, in line order: Down/Up/Press with and without edge suffix, Enc/Abs/Speed/Raw with and "
         "without edge suffix (value_edge_ignored: the suffix of a value event carries no information, reader and decoder treat HWC#id.e=Kind:v as HWC#id=Kind:v), "
         "signed values over the full ranges, Press = press then release, map, all 29 keys, capability lists in any order with duplicates, SysStat with any "
         "subset/order of the 20 fields, ;-lists, registers); nongrammar_silent (a line whose keyword/key is not in the grammar, key= without value, blank "
         "line, an HWC# line with an unknown kind word: no event, no report) + unknown_kind_silent (explicit form, every left-hand side); kernels "
         "press_is_down_then_up, support_any_order / support_same_set (the switch loop on any list of parts) and support_line_any_order / "
         "support_lines_same_set (the same through the whole decoder on a _support= line), sysstat_any_subset_order, items_spec (reader and TrimExplode model "
         "both meet the relational, functional specification ItemsOf of a ;-list); decOut_context_free (ALL line lists, no domain hypothesis: the "
         "effects of the decoded batch are the reader's effects of every well-formed / non-grammar line and, for every line the grammar says nothing "
         "about — _panelType=Foo, EnvironmentalHealth=Weird, HWC#5=Enc ... — exactly the effects that line has when decoded alone, in line order: "
         "no line repeats, drops or alters the message of a neighbour) + decOut_line_local, readOutboundWith_eq; regex_sources_tie (the four regex source texts of the current code are the "
         "ones the matchers implement) + regex_alternations_tie (the alternation lists parsed out of those sources are the matchers' keyword tables and name "
         "the same sets as the reader's tables); roundtrip_out (C03 o C04: for every message list of the C03 domain the encoder's lines lie in inDomainLines "
         "and decode to messages with exactly the effects of the originals, in order; normalisations stated at the theorem); "
         "raw_event_lost_counterexample + raw_case_would_panic for the pinned tree. "
         "Rests on correspondence: model = RawPanelASCIIstringsToOutboundMessages; the byte matchers vs the library's REAL compiled regexps (reached by "
         "go:linkname; dout.rx records tie their String() to the regenerated source, dout.match records compare sub-matches on ~140 000 bounded-exhaustive "
         "strings per run: all token strings up to length 3-5 after every keyword prefix, all single edits and sampled/all double edits of valid lines), Atoi "
         "overflow clamp, TrimSpace; ParseFloat and encoding/json as oracle values. Lines with a grammar keyword and malformed arguments are outside the domain "
         "(C06 only).",
    note=TB,
    technique="Lean 4 proof + model/implementation correspondence incl. bounded-exhaustive matcher-vs-regexp records",
)
