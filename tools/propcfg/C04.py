from propcfg.C16 import TB

def nontrivial(cmd, inp, impl, prev):
    # at least one decoded message carries something (not only empty messages)
    return " + " in (" " + impl.split(" ; ")[0] + " ") or any(t not in ("M", "0", "~") for t in impl.split(" ; ")[0].split(" ")[1:])

PROP = dict(
    family="c04", session_start=None, trivial=nontrivial,
    n=dict(quick=8000, thorough=200000),
    exhaustive=dict(quick=False, thorough=False),
    rule="lines generated from the grammar: every flow word; every event kind (Down, Up, Press, Enc, Abs, Speed, Raw) x 6 ids "
         "(incl. leading zero, 2^32-1) with and without each edge suffix, signed/unsigned values at 19 boundaries; map; every "
         "one of the 29 keys; numbers at 19 boundaries for every numeric key; capability lists in random orders with "
         "duplicates; SysStat lines with any subset/order of the 20 fields, floats in 5 notations; ;-lists with padded/empty "
         "items; registers; sequences of 2-8 lines with non-grammar lines interleaved; 42 non-grammar samples + random; "
         "78 near-miss lines (grammar keyword, malformed arguments: tag B:ood, correspondence only); random concatenations of grammar tokens "
         "(regex fuzz, correspondence only). "
         "non-trivial = some decoded message is non-empty; distinct = distinct record text",
    trusted_base=["regexp: the four patterns are hand-written byte matchers in the model (leftmost-first, '.' = one rune or invalid byte, never LF, '$' = end of text); equivalence validated by the correspondence incl. near-miss lines, and regex_sources_tie pins the pattern texts",
                  "strconv.ParseFloat(…,32) and encoding/json (networkConfigFromString) enter as oracle values computed by the harness",
                  "strconv.Atoi incl. overflow clamp, strings.Split/TrimSpace modelled (Base/Bytes.lean) and validated by the correspondence"],
    assumptions=["a line contains no LF (lines are split at LF by the caller)"],
)

CLAIM = dict(
    text="Lean theorems over the decoder model DecOut.decOut (hand-written byte matchers for the four regular expressions, TrimExplode, the SysStat "
         "sliding scan as written) and the independent reader Spec.Out.readLine. FULL STRENGTH, for all byte strings: "
         "decOut_sound (for every list of lines each of which is well-formed in the Appendix-B grammar or non-grammar — decidable inDomainLines — the "
         "decoded messages carry exactly the effects the reader assigns, in line order: all 7 event kinds incl. Raw, with/without edge suffix, signed "
         "values over the full ranges, Press = press then release, map, all 29 keys, capability lists in any order with duplicates, SysStat with any "
         "subset/order of the 20 fields, ;-lists, registers); nongrammar_silent (a line whose keyword/key is not in the grammar, key= without value, blank "
         "line: no event, no report); kernels press_is_down_then_up, support_any_order / support_same_set (any list of parts), "
         "sysstat_any_subset_order; regex_sources_tie (the four regex source texts of the current code are the ones the matchers implement); "
         "raw_event_lost_counterexample + raw_case_would_panic for the pinned tree. "
         "Rests on correspondence: model = RawPanelASCIIstringsToOutboundMessages (Go regexp semantics of the matchers incl. near-miss lines, Atoi overflow "
         "clamp, TrimSpace), ParseFloat and encoding/json as oracle values. Lines with a grammar keyword and malformed arguments are outside the domain "
         "(C06 only).",
    note=TB,
    technique="Lean 4 proof + model/implementation correspondence",
)
