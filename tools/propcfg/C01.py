from propcfg.C16 import TB

def nontrivial(cmd, inp, impl, prev):
    # the encoder produced at least one line (the message has an ASCII representation)
    return impl not in ("", "-")

PROP = dict(
    family="c01", session_start=None, trivial=nontrivial,
    n=dict(quick=12000, thorough=400000),
    # the packed-integer / chunking kernels are swept exhaustively in BOTH tiers; the message generator is sampled
    exhaustive=dict(quick=True, thorough=True),
    rule="records ein.msgs = one call of InboundMessagesToRawPanelASCIIstrings on messages built field by field from the "
         "repo's protobuf types (presence pattern x boundary values x random; 1-4 messages, 1-3 states, 0-5 ids, all 29 "
         "command fields, text strings incl. bytes >= 0x80). Exhaustive part (every run): all state 0-7 x output x blink "
         "0-15 (256), all interp 0-15 x value 0-4095 (65 536), 32 index colours (HWCc# and text field), all 256 values of "
         "each RGB channel (HWCc# and text field), every image length 1..700, every single text field alone. EQ = Lean "
         "model encIn equals the implementation's strings; H1 = Spec.readInbound(implementation lines) equals "
         "effectsOfIn per message up to permutation of commuting effects (records outside InDomainIn are tagged "
         "B:outdom and only checked for totality / one-line strings). non-trivial = at least one line produced; "
         "distinct = distinct record text; branch tags = line families present in the record",
    trusted_base=["encoding/json (SetNetworkConfig text: supplied by the harness, opaque; Processors JSON: outside the domain)",
                  "proto.Equal(x, &T{}) modelled as structural equality with the all-default message (harness decodes with DiscardUnknown)",
                  "fmt.Sprintf(%d/%s), strconv.Itoa, strings.Join, math.Ceil(float64) for lengths < 2^40, encoding/base64 (modelled in Base/B64.lean, decode(encode b) = b proved)",
                  "the reference reader Spec/GrammarIn.lean is the oracle: written from DESIGN.md Appendix B / proto comments, imports no Model/ code"],
    assumptions=["string fields of the ASCII-representable domain contain no '|' and no LF (LF is C07's subject)",
                 "json.Unmarshal(json.Marshal(cfg)) = cfg for NetworkConfig (InDomainIn states it for the oracle)"],
)

CLAIM = dict(
    text="Full-strength Lean theorem C01.enc_sound (no bound on messages, states, ids, field values): for every list of "
         "messages in InDomainIn (the property's quantifier as a decidable predicate: mode 0-5, blink<16, interp<16, "
         "value<4096, index<32, any RGB, all 21 text fields incl. fonts/sizes/padding/colours, images of 1..2^32-1 bytes in "
         "the 3 formats with/without X/Y, all 29 command fields, all register kinds), Spec.readInbound (encIn ms) = "
         "ms.flatMap effectsOfIn — sequence equality, hence per-id replication and submission order (enc_sound_append). "
         "Kernels proved for all values by arithmetic: mode_pack, ext_pack, colIndex_pack, colRGB_pack (every 32-bit "
         "channel value -> 2-bit level), textColor_pack_*, text_fields (any field list without '|'), chunk_len_le_170, "
         "chunk_count, chunks_concat, b64_roundtrip; enc_ok (no panic on any input). Resting on correspondence, not "
         "proof: that the Go encoder equals the Lean model encIn (EQ on every generated record + exhaustive kernel "
         "sweeps through the real encoder), and the opaque encoding/json text of SetNetworkConfig.",
    note=TB + "The reference reader is itself the specification of the ASCII grammar (Appendix B); a message text/graphics "
         "sub-message equal to the all-default message, and image data of length 0, have no ASCII representation and "
         "carry no effect (excluded from the domain, as the encoder deliberately emits nothing).",
    technique="Lean 4 proof (bit-field arithmetic via omega, list induction over ids/states/messages/chunks, "
              "split/join round trip) + model/implementation correspondence with exhaustive kernel sweeps",
)
