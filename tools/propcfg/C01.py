from propcfg.C16 import TB

def nontrivial(cmd, inp, impl, prev):
    # the encoder produced at least one line (the message has an ASCII representation)
    return impl not in ("", "-")

PROP = dict(
    family="c01", session_start=None, trivial=nontrivial,
    n=dict(quick=12000, thorough=400000),
    # the packed-integer / chunking kernels are swept exhaustively in BOTH tiers; the message generator is sampled
    exhaustive=dict(quick=False, thorough=False),  # kernels are swept exhaustively, the message generator is sampled: the run as a whole is not an enumeration
    rule="records ein.msgs = one call of InboundMessagesToRawPanelASCIIstrings on messages built field by field from the "
         "repo's protobuf types (presence pattern x boundary values x random; 1-4 messages, 1-3 states, 0-5 ids, all 29 "
         "command fields, text strings incl. bytes >= 0x80). Exhaustive part (every run): all state 0-7 x output x blink "
         "0-15 (256), all interp 0-15 x value 0-4095 (65 536), 32 index colours (HWCc# and text field), all 256 values of "
         "each RGB channel (HWCc# and text field), every image length 1..700, every single text field alone; plus a fixed "
         "table of out-of-range messages (states -1/6/7/8/13/int32 bounds x blink masks >= 16, interpretations / values "
         "beyond 4/12 bits, colour indices beyond 5 bits and negative, both colour alternatives set, empty colour, "
         "out-of-range / negative formatting, icons, pair mode, scale type, fonts, sizes, padding, spacing, second line "
         "without pair mode, image types outside 0-2, images without data, negative enum command arguments, flow / "
         "register kinds outside their enums), and every fourth random record is drawn with out-of-range enums and "
         "bit fields (strings stay free of '|' and LF). EQ = Lean model encIn equals the implementation's strings; "
         "H1 = Spec.readInbound(implementation lines) EQUALS effectsOfIn per message as a list (exact order: nothing on "
         "the inbound side iterates over a Go map, no permutation is tolerated) for records in InDomainIn; for records "
         "outside InDomainIn but inside Spec.inWireDomain (tag B:wiredom) the same exact comparison against the effects "
         "of Spec.maskMsg (theorem enc_sound_masked); records outside both (tag B:outdom: '|' / LF in strings, "
         "Processors) are only checked for totality / one-line strings. Records ein.rt (one per random message list) = "
         "RawPanelASCIIstringsToInboundMessages(InboundMessagesToRawPanelASCIIstrings(msgs)): EQ = decIn(encIn msgs) of the "
         "two Lean models, H1 = the returned messages have exactly the effects of the submitted ones (theorem "
         "C02.roundtrip_in; records outside InDomainIn / roundtripGuard tagged B:rt-outdom). Scenario classes (after the random "
         "stream, every run; x10 in the thorough tier): (a) ein.seq = 2-5 calls on different message lists, every returned slice kept "
         "and snapshotted at return time, the record reports the snapshots and the kept slices AS READ AFTER THE LAST CALL (a later "
         "call must not change an earlier result: shared storage); ein.par = the same with the calls of even / odd index in two "
         "goroutines, 12 repetitions each; (b) the same message / state (same component ids; identical images A B A) / register "
         "more than once in one call with others in between (A B A, A A, A X A B A); (d) 1500 message lists drawn with coinciding "
         "values (every numeric draw repeats the previous one with probability 1/3, every string the previous string, ids repeat: "
         "X = Y = W, RangeLow = RangeHigh, Title = Textline1, index next to RGB ...), 40 % of them with out-of-range enums; (e) "
         "ein.reuse = a message list is converted, its message OBJECTS are overwritten in place with a second list (sub-messages "
         "keep their addresses wherever both lists have one; dense messages with every section) and the same pointers are converted "
         "again; (f) strings of 201-2000 bytes in title, text lines, calibration payload, register id; (g) SetCalibrationProfile payloads with ONE "
         "physical line of 65535 / 65536 / 70000 / 300000 bytes, alone and after a short first line; every record whose input or "
         "output carries a byte string longer than 200 bytes (and every third other record) is executed a second time with "
         "DebugRWPhelpers on: a differing result is what the record reports; ein.fields = the Message.field names of the real "
         "protobuf descriptors reachable from InboundMessage equal Model.In.protoFieldsRead ++ protoFieldsOpaque. Every result of a "
         "multi-call record is judged like an ein.msgs record of its call (EQ with the model, H1 by the Spec; clause suffix @part<j>). "
         "non-trivial = at least one line produced; "
         "distinct = distinct record text; branch tags = line families present in the record",
    trusted_base=["encoding/json (SetNetworkConfig text: supplied by the harness, opaque; Processors JSON: outside the domain)",
                  "proto.Equal(x, &T{}) modelled as structural equality with the all-default message (harness decodes with DiscardUnknown)",
                  "fmt.Sprintf(%d/%s), strconv.Itoa, strings.Join, math.Ceil(float64) for lengths < 2^40, encoding/base64 (modelled in Base/B64.lean, decode(encode b) = b proved)",
                  "the reference reader Spec/GrammarIn.lean is the oracle: written from DESIGN.md Appendix B / proto comments, imports no Model/ code"],
    assumptions=["string fields of the ASCII-representable domain contain no '|' and no LF (LF is C07's subject)",
                 "json.Unmarshal(json.Marshal(cfg)) = cfg for NetworkConfig (InDomainIn states it for the oracle)"],
)

CLAIM = dict(
    text="Full-strength Lean theorem C01.enc_sound (no bound on messages, states, ids, field values): for every list of "
         "messages in InDomainIn (the property's quantifier as a decidable predicate: mode 0-5, blink<16, interp<16, "
         "value<4096, index<32, any RGB, all 21 text fields incl. fonts/sizes/padding/colours, images of 1..2^32-1 bytes in "
         "the 3 formats with/without X/Y, all 29 command fields, all register kinds), Spec.readInbound (encIn ms) = "
         "ms.flatMap effectsOfIn — sequence equality, hence per-id replication and submission order (enc_sound_append). "
         "C01.enc_sound_masked (same strength, NO enum / bit-field range hypothesis): on Spec.inWireDomain (ids, sizes and "
         "verbatim-printed integers inside their Go types, strings free of '|' and LF, register ids in their alphabet, no "
         "Processors, the SetNetworkConfig oracle law) the reader reads exactly the effects of Spec.maskMsg m — every "
         "packed field reduced to the low bits its width carries (two's complement), RGB wins when both colour "
         "alternatives are set (both_colours_rgb_wins), a second line / value without pair mode gives pair mode 1 "
         "(pair_mode_inferred), negative formatting / pair mode count as 0, a scale without positive type is none, an "
         "image without data and a negative SleepMode / SleepScreenSaver / LoadCPU argument are not carried; "
         "wire_domain_contains_domain + mask_invisible_on_domain: the two theorems agree on InDomainIn; "
         "mode_pack_masked, ext_pack_masked, colIndex_pack_masked, text_line_masked are the kernels without range. "
         "The SetNetworkConfig clause is exercised with a concrete non-trivial oracle (witnessOracle) in examples. "
         "proto_fields_partition + enc_ignores_unread / enc_ignores_unread_eq: every proto field reachable from InboundMessage is read "
         "by the model or lies under Processors (JSON only); the lines depend on Model.In.carried m only (colour index next to RGB, "
         "X / Y without offset flag, a scale without positive type, the integer value under formatting 7/10/11, the font size under "
         "any other, id / value of a register of unknown kind are never read), for every message list. "
         "Kernels proved for all values by arithmetic: mode_pack, ext_pack, colIndex_pack, colRGB_pack (every 32-bit "
         "channel value -> 2-bit level), textColor_pack_*, text_fields (any field list without '|'), chunk_len_le_170, "
         "chunk_count, chunks_concat, b64_roundtrip; enc_ok (no panic on any input). Resting on correspondence, not "
         "proof: that the Go encoder equals the Lean model encIn (EQ on every generated record + exhaustive kernel "
         "sweeps through the real encoder), in particular that it is a FUNCTION of its argument (no state kept between calls, no "
         "result storage shared with later calls or other goroutines, nothing cached by object address: ein.seq / ein.par / "
         "ein.reuse records) and unaffected by DebugRWPhelpers, and the opaque encoding/json text of SetNetworkConfig.",
    note=TB + "The reference reader is itself the specification of the ASCII grammar (Appendix B); a message text/graphics "
         "sub-message equal to the all-default message, and image data of length 0, have no ASCII representation and "
         "carry no effect (excluded from the domain, as the encoder deliberately emits nothing).",
    technique="Lean 4 proof (bit-field arithmetic via omega incl. two's-complement masks, list induction over ids/states/messages/chunks, "
              "split/join round trip) + model/implementation correspondence with exhaustive kernel sweeps",
)
