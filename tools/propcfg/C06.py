from propcfg.C16 import TB

def nontrivial(cmd, inp, impl, prev):
    return True

PROP = dict(
    family="c06", session_start=None, trivial=nontrivial, race_binary=True,
    n=dict(quick=6000, thorough=200000),
    exhaustive=dict(quick=False, thorough=False),
    rule="(totality) malformed / mutated lines for both decoders (truncated, wrong separators, huge numbers, bytes >= 0x80, LF/CR "
         "inside, JSON-looking incl. [null], {, [1], misaligned SysStat scans) and messages for both encoders with any presence "
         "pattern and out-of-range enums/integers, incl. messages obtained from proto.Unmarshal of mutated wire bytes; "
         "(re-entrancy) conc.run records: 4-32 goroutines x 2-4 passes over 26 shared inputs through the four converters and the "
         "streaming reader (with the JSON state hop), every result compared with the sequential one; in the thorough tier the "
         "same in a child process built with go build -race; every record counts as non-trivial; distinct = distinct record text",
    trusted_base=["encoding/json, proto.Unmarshal results enter as printed by the harness",
                  "race detector (supporting evidence for the schedules that ran)"],
    assumptions=["unknown protobuf fields are discarded on Unmarshal",
                 "the Go memory model and races inside regexp / encoding/json / proto are outside the model (partial)"],
)

CLAIM = dict(
    text="Totality is proved for all inputs on models that carry Go's panics explicitly (encIn_total, decIn_total, decIn_no_nil_message, encOut_total, decOut_total, decOut_no_nil_message; the streaming reader is a total function over the total batch decoder in the C05 model), with decide-counterexamples for the three pinned defects. Re-entrancy: the modelled functions are pure, so all interleavings equal the sequential result by construction; the transfer to the Go code rests on no_shared_mutable_state — a theorem over the list of assignments to package-level variables regenerated from /repo on every run — plus a concurrent-vs-sequential differential run (race-instrumented in the thorough tier). Partial: the Go memory model and data races inside regexp/json/proto are outside the model.",
    note=TB + "Schedules: only those the runtime took are observed; the claim for all interleavings is the purity argument.",
    technique="Lean 4 proof (panic-carrying models, induction over lines/messages; decide over the regenerated shared-state table) + model/implementation correspondence + concurrent differential run",
)
