from propcfg.C16 import TB

def nontrivial(cmd, inp, impl, prev):
    return True

PROP = dict(
    family="c06", session_start=None, trivial=nontrivial, race_binary=True,
    n=dict(quick=6000, thorough=200000),
    exhaustive=dict(quick=False, thorough=False),
    rule="(totality) malformed / mutated lines for both decoders (truncated, wrong separators, huge numbers, bytes >= 0x80, LF/CR "
         "inside, JSON-looking incl. [null], {, [1], misaligned SysStat scans) and messages for both encoders with any presence "
         "pattern and out-of-range enums/integers, incl. messages obtained from proto.Unmarshal of mutated wire bytes; "
         "call sequences on these hostile inputs (ein/eout .seq, .par, .reuse, din/dout .seq: results of earlier calls kept and re-read "
         "after later calls, calls of even / odd index in two goroutines with 12 repetitions, message objects overwritten in place and "
         "converted again; every result compared with the model of its own call); "
         "(re-entrancy) conc.run records: 4-32 goroutines x 2-4 rounds through the four converters and the streaming reader (with "
         "and without the JSON state hop), every result compared with the sequential one; inputs: 28 shared input sets (messages of "
         "every kind, several states incl. two images of different formats in one message, multi-line texts / names / topology "
         "JSON / SVG, JSON state and message-array lines spread over several text lines, chunk lines) converted by all goroutines in "
         "different orders, and per goroutine its OWN inputs (PanelInfo.RawPanelSupport with a 13-flag capability set no other "
         "goroutine has and its complement, the matching _support= lines, texts / event lists / two images of goroutine-specific "
         "size and format), converted in bursts right after all goroutines met at a barrier; graphics phases: every goroutine "
         "feeds its own transfer up to the last-but-one line, all meet, then the even ones feed the completing line and then chunk 0 "
         "of a second transfer, the odd ones the other way round (a transfer completes while another goroutine starts one); every "
         "returned slice / message is HELD and compared three times: when it comes back, at the end of the round (after the "
         "goroutine's later calls, while others still convert) and after all goroutines finished; the sequential reference pass "
         "holds its results the same way (a result changed by a later call is reported without any concurrency); one conc.run in a "
         "child process built with go build -race in the quick tier, six in the thorough tier; a panic in the reference pass is "
         "reported as panic; every record counts as non-trivial; distinct = distinct record text. "
         "DebugRWPhelpers stays false during conc.run; the conc.debug child is single-goroutine and switches it on once (under "
         "DebugRWPhelpersMU) between a sequential pass with the dump off and the passes with the dump on; no generator toggles the "
         "flag while converters run",
    trusted_base=["encoding/json, proto.Unmarshal results enter as printed by the harness",
                  "race detector (supporting evidence for the schedules that ran)"],
    assumptions=["unknown protobuf fields are discarded on Unmarshal",
                 "the Go memory model and races inside regexp / encoding/json / proto are outside the model (partial)",
                 "DebugRWPhelpers is constant while converters run. The library never assigns it; the four converters read it "
                 "without the mutex (`if DebugRWPhelpers {` at converterFunctions.go:633, 946, 1479, 1763); DebugRWPhelpersMU is "
                 "locked only inside those branches (634-658, 947-970, 1480-1504, 1764-1789), where it serialises the debug dumps "
                 "of concurrent calls - it does not guard the flag. Throw-away experiment (go build -race -tags verif; 8 goroutines "
                 "x 300 passes through the four converters and the reader + one goroutine looping DebugRWPhelpersMU.Lock(); "
                 "DebugRWPhelpers = ...; DebugRWPhelpersMU.Unlock()): the race detector reports DATA RACE between the toggler's write "
                 "and the reads at all four sites (633, 946, 1479, 1763), exit 66 with halt_on_error=1; without the toggler no report. "
                 "Toggling the flag is not a converter call, hence outside C06's statement",
                 "shared-state tables are syntactic (go/ast over rawpanellib, gorwp, ibeam_lib_monogfx, topology; not the protoc-generated "
                 "ibeam_rawpanel, not rawpanel-lib-c / gorwp/examples which are package main): state reached through reflection, cgo, "
                 "linkname or the dependencies (ibeam-lib-utils, protobuf, regexp, encoding/json) is not seen"],
)

CLAIM = dict(
    text="Totality is proved for all inputs on models that carry Go's panics explicitly (encIn_total, decIn_total, decIn_no_nil_message, encOut_total, decOut_total, decOut_no_nil_message; the streaming reader has its own panic-carrying model Stream.parseE - sub-matches indexed in Except Panic, hand-over to the panic-carrying batch decoder - with parse_total / parse_session_total: any reader state, any input, any length, no panic, no nil message; batch_models_agree / parse_models_agree prove that these panic-carrying models return, on every input, exactly the messages of the C05 models Batch.decode / Stream.parse, so C02's soundness, C05's safety and C06's totality are about one function; loops_are_bounded: every for statement of converterFunctions.go and of the reader, regenerated from the source, is a range loop or a counted loop whose counter and bound the body does not assign, no goto / go / select / channel operation / recursion), with decide-counterexamples for the three pinned defects. Re-entrancy: the modelled functions are pure, so all interleavings equal the sequential result by construction; the transfer to the Go code rests on no_shared_mutable_state and package_vars_known — theorems over tables regenerated from /repo on every run for the four library packages (rawpanellib, gorwp, ibeam_lib_monogfx, topology): no write to a package-level variable (directly or through index/field/dereference); every other non-read use of one (method call, call argument, address, alias, copy/append destination, range) is on an explicit allow-list written in Lean (read-only regexp methods MatchString/FindStringSubmatch, Lock/Unlock of the debug-dump mutex, font tables stored in MonoImg.font, icon tables passed to MonoImg.DrawBitmap, and those two sinks are followed and only read); every package-level variable of a reference or aggregate type is one of the known tables/regexps/mutex, so a new package-level cache fails the build — plus a concurrent-vs-sequential differential run (race-instrumented in the thorough tier). The debug flag DebugRWPhelpers is read by the converters without its mutex (converterFunctions.go:633, 946, 1479, 1763; the mutex only serialises the dumps); the claim assumes the flag is constant while converters run — a caller toggling it under the mutex concurrently with converter calls is reported as a data race by the race detector at all four sites (throw-away experiment), which is outside the statement because a toggle is not a converter call. Partial: the Go memory model and data races inside regexp/json/proto are outside the model.",
    note=TB + "Schedules: only those the runtime took are observed; the claim for all interleavings is the purity argument.",
    technique="Lean 4 proof (panic-carrying models, induction over lines/messages; decide over the regenerated shared-state tables against a hand-written allow-list) + model/implementation correspondence + concurrent differential run",
)
