#!/bin/sh
# merge new (not shared) files of a builder workspace into /verif:  merge_ws.sh <name>
N="$1"; W=/tmp/ws/$N/verif
cd $W || exit 2
for f in $(find corpus harness lean/RawPanelVerif tools/propcfg extract -type f \( -name '*.lean' -o -name '*.go' -o -name '*.py' -o -name '*.rec' \) 2>/dev/null | grep -v "/Gen/"); do
  if [ ! -e /verif/$f ]; then mkdir -p /verif/$(dirname $f); cp $f /verif/$f; echo "new  $f";
  elif ! cmp -s $f /verif/$f; then echo "DIFF $f"; fi
done
