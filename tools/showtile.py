#!/usr/bin/env python3
"""debug aid: show implementation vs model bitmap of tile.render records (stdin: lines 'answer#record')"""
import sys
def grid(hexs, w, h):
    if hexs in ('-', ''): return []
    b = bytes.fromhex(hexs); wib = (w + 7)//8
    return [''.join('#' if b[y*wib + x//8] >> (7 - x % 8) & 1 else '.' for x in range(w)) for y in range(h)]
for line in sys.stdin:
    ans, rec = line.rstrip('\n').split('#', 1)
    inp, impl = rec.split(' | ')
    a = ans.split(' ')
    it = impl.split(' ')
    w, h = int(inp.split(' ')[1]), int(inp.split(' ')[2])
    print(inp)
    print('answer:', a[0], a[1], 'impl colours', it[3], it[4], 'model', a[5] if len(a) > 6 else '', a[6] if len(a) > 6 else '')
    gi = grid(it[2], w, h)
    gm = grid(a[4], w, h) if a[0] == 'NE' and len(a) > 4 else gi
    for y in range(h):
        print(gi[y], ' ', gm[y], ' ', ''.join('^' if gi[y][x] != gm[y][x] else ' ' for x in range(w)))
