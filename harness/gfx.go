package main

// C05 — chunked graphics: executor for the `gfx.*` records and generator family `c05`.
//
// Records (input half | implementation output half):
//   gfx.match <linehex>                        | `-` (no match of ASCIIreader_gfx) or the 11 submatches as hex tokens
//   gfx.hist  <n> <linehex>*n                  | <RESULT>
//   gfx.rt    <type> <W> <H> <off> <X> <Y> <ids,comma> <imagehex> <k> (<pos> <linehex>)*k
//                                              | L <n> <linehex>*n <RESULT on the encoder's lines with the k extra lines inserted>
//   gfx.multi <m> (<s> (<type> <W> <H> <off> <X> <Y> <ids,comma> <imagehex>)*s)*m <k> (<pos> <linehex>)*k
//                                              | L <n> <linehex>*n <RESULT …>   ONE encoder call on m InboundMessages, message i
//                                              carrying s_i states with one image each (any formats / targets / sizes / offset
//                                              flags, in the given order); the k extra lines woven in as for gfx.rt
// RESULT := B <k> MSG*k F <g> <hex>*g                              batch: one call on all lines
//           S <m> (<lineindex> <k> MSG*k)*m F <g> <hex>*g R STATE  ASCIIreader.Parse line by line
//           J <m> (<lineindex> <k> MSG*k)*m F <g> <hex>*g R STATE  same, reader through json.Marshal/Unmarshal between lines
//           P <m> (<linehex> <k> MSG*k)*m                          the batch decoder on single lines (only non-empty results)
// MSG    := G <ids,comma> <type> <W> <H> <off> <X> <Y> <datahex> <token>   message carrying exactly one HWCGfx state
//           O <hex of deterministic proto.Marshal>                         any other message
// F lists, for every G message in order of delivery, the bytes its image object holds at the END of the history
// (the G token itself is printed at the moment of delivery), <token> = index of the first G message of the
// section sharing the same *HWCGfx object.
// STATE  := <count> <max> <listhex> <typehex> <n | k:linehex,…,linehex (the k buffered lines)>

import (
	"encoding/base64"
	"encoding/json"
	"fmt"
	"io"
	"os"
	"runtime"
	"sort"
	"strconv"
	"strings"
	"sync"

	rawpanellib "github.com/SKAARHOJ/rawpanel-lib"
	rwp "github.com/SKAARHOJ/rawpanel-lib/ibeam_rawpanel"
	elog "github.com/s00500/env_logger"
	"github.com/sirupsen/logrus"
	"google.golang.org/protobuf/proto"
)

type gfxExec struct {
	mu   sync.Mutex
	solo map[string]string
}

func init() {
	registerExecutor("gfx", &gfxExec{solo: map[string]string{}})
	registerFamily("c05", genC05)
}

// The library logs a warning for every out-of-sequence chunk (hundreds of thousands in the enumerated histories).
// Whatever another init() configured, silence it before the first gfx record is executed.
var gfxQuiet sync.Once

func gfxSilenceLibraryLog() {
	gfxQuiet.Do(func() {
		quiet := logrus.New()
		quiet.SetOutput(io.Discard)
		quiet.SetLevel(logrus.PanicLevel)
		elog.ConfigureAllLoggers(quiet, "")
	})
}

func idsStr(ids []uint32) string {
	if len(ids) == 0 {
		return "-"
	}
	p := make([]string, len(ids))
	for i, v := range ids {
		p[i] = strconv.FormatUint(uint64(v), 10)
	}
	return strings.Join(p, ",")
}

// gfxOf: the image object of a message that consists of exactly one state carrying exactly a HWCGfx
func gfxOf(m *rwp.InboundMessage) *rwp.HWCGfx {
	if m == nil || len(m.States) != 1 || m.States[0] == nil || m.States[0].HWCGfx == nil {
		return nil
	}
	ref := &rwp.InboundMessage{States: []*rwp.HWCState{{HWCIDs: m.States[0].HWCIDs, HWCGfx: m.States[0].HWCGfx}}}
	if !proto.Equal(ref, m) {
		return nil
	}
	return m.States[0].HWCGfx
}

type gfxSeen struct {
	objs []*rwp.HWCGfx
}

func (s *gfxSeen) msg(sb *strings.Builder, m *rwp.InboundMessage) {
	if m == nil {
		sb.WriteString(" O nil")
		return
	}
	g := gfxOf(m)
	if g == nil {
		b, err := proto.MarshalOptions{Deterministic: true}.Marshal(m)
		if err != nil {
			sb.WriteString(" O err")
			return
		}
		sb.WriteString(" O " + hx(b))
		return
	}
	tok := len(s.objs)
	for i, o := range s.objs {
		if o == g {
			tok = i
			break
		}
	}
	s.objs = append(s.objs, g)
	fmt.Fprintf(sb, " G %s %d %d %d %s %d %d %s %d", idsStr(m.States[0].HWCIDs), int(g.ImageType), g.W, g.H, b01(g.XYoffset), g.X, g.Y, hx(g.ImageData), tok)
}

func (s *gfxSeen) finals(sb *strings.Builder) {
	fmt.Fprintf(sb, " F %d", len(s.objs))
	for _, o := range s.objs {
		sb.WriteString(" " + hx(o.ImageData))
	}
}

func readerState(sb *strings.Builder, ar *rawpanellib.ASCIIreader) {
	buf := "n"
	if ar.HWCGfx != nil { // number of buffered lines, then the lines themselves (what the JSON hop made of them)
		parts := make([]string, len(ar.HWCGfx))
		for i, l := range ar.HWCGfx {
			parts[i] = hx([]byte(l))
		}
		buf = strconv.Itoa(len(ar.HWCGfx)) + ":" + strings.Join(parts, ",")
	}
	fmt.Fprintf(sb, " R %d %d %s %s %s", ar.HWCGfx_count, ar.HWCGfx_max, hx([]byte(ar.HWCGfx_HWClist)), hx([]byte(ar.HWCGfx_ImageType)), buf)
}

func (e *gfxExec) soloOf(line string) string {
	e.mu.Lock()
	v0, ok := e.solo[line]
	e.mu.Unlock()
	if ok {
		return v0
	}
	var sb strings.Builder
	p := guarded(func() {
		ms := rawpanellib.RawPanelASCIIstringsToInboundMessages([]string{line})
		if len(ms) > 0 {
			seen := &gfxSeen{}
			fmt.Fprintf(&sb, " %s %d", hx([]byte(line)), len(ms))
			for _, m := range ms {
				seen.msg(&sb, m)
			}
		}
	})
	v := sb.String()
	if p != "" {
		v = " " + hx([]byte(line)) + " 1 O " + p
	}
	e.mu.Lock()
	if len(e.solo) > 4096 {
		e.solo = map[string]string{}
	}
	e.solo[line] = v
	e.mu.Unlock()
	return v
}

func (e *gfxExec) history(lines []string) string {
	var sb strings.Builder
	// ---- batch: one call on all lines; the returned message pointers are kept and re-read at the end
	p := guarded(func() {
		var b strings.Builder
		ms := rawpanellib.RawPanelASCIIstringsToInboundMessages(lines)
		seen := &gfxSeen{}
		fmt.Fprintf(&b, "B %d", len(ms))
		for _, m := range ms {
			seen.msg(&b, m)
		}
		seen.finals(&b)
		sb.WriteString(b.String())
	})
	if p != "" {
		sb.WriteString("B " + p)
	}
	// ---- streaming, and streaming with the state through JSON (as rawpanel-lib-c/main.go does)
	for _, mode := range []string{"S", "J"} {
		p := guarded(func() {
			var b, body strings.Builder
			seen := &gfxSeen{}
			reader := &rawpanellib.ASCIIreader{}
			var state []byte
			m := 0
			for i, l := range lines {
				var ms []*rwp.InboundMessage
				if mode == "S" {
					ms = reader.Parse(l)
				} else {
					var rd rawpanellib.ASCIIreader
					if state != nil {
						if json.Unmarshal(state, &rd) != nil {
							panic("json.Unmarshal of reader state failed")
						}
					}
					ms = rd.Parse(l)
					state, _ = json.Marshal(rd)
				}
				if len(ms) > 0 {
					m++
					fmt.Fprintf(&body, " %d %d", i, len(ms))
					for _, x := range ms {
						seen.msg(&body, x)
					}
				}
			}
			fmt.Fprintf(&b, " %s %d", mode, m)
			b.WriteString(body.String())
			seen.finals(&b)
			if mode == "J" {
				reader = &rawpanellib.ASCIIreader{}
				if state != nil {
					if json.Unmarshal(state, reader) != nil {
						panic("json.Unmarshal of reader state failed")
					}
				}
			}
			readerState(&b, reader)
			sb.WriteString(b.String())
		})
		if p != "" {
			sb.WriteString(" " + mode + " " + p)
		}
	}
	// ---- the (opaque) single-line decoder on every distinct line, raw and trimmed
	entries := []string{}
	done := map[string]bool{}
	for _, l := range lines {
		for _, v := range []string{l, strings.TrimSpace(l)} {
			if !done[v] {
				done[v] = true
				if s := e.soloOf(v); s != "" {
					entries = append(entries, s)
				}
			}
		}
	}
	fmt.Fprintf(&sb, " P %d", len(entries))
	for _, s := range entries {
		sb.WriteString(s)
	}
	return sb.String()
}

type gfxIns struct {
	pos  int
	line string
}

func gfxParseIds(t string) []uint32 {
	ids := []uint32{}
	if t != "-" {
		for _, s := range strings.Split(t, ",") {
			v, _ := strconv.ParseUint(s, 10, 32)
			ids = append(ids, uint32(v))
		}
	}
	return ids
}

// encodeAndFeed: ONE call of the encoder on the messages, then the lines it returned (with the extra lines inserted,
// stable by position) through the three feeding disciplines
func (e *gfxExec) encodeAndFeed(msgs []*rwp.InboundMessage, extra []gfxIns) string {
	var enc []string
	p := guarded(func() {
		enc = rawpanellib.InboundMessagesToRawPanelASCIIstrings(msgs)
	})
	if p != "" {
		return "L " + p
	}
	var sb strings.Builder
	fmt.Fprintf(&sb, "L %d", len(enc))
	for _, l := range enc {
		sb.WriteString(" " + hx([]byte(l)))
	}
	sort.SliceStable(extra, func(i, j int) bool { return extra[i].pos < extra[j].pos })
	lines := []string{}
	ei := 0
	for i := 0; i <= len(enc); i++ {
		for ei < len(extra) && (extra[ei].pos <= i || i == len(enc)) {
			lines = append(lines, extra[ei].line)
			ei++
		}
		if i < len(enc) {
			lines = append(lines, enc[i])
		}
	}
	return sb.String() + " " + e.history(lines)
}

func (e *gfxExec) Exec(cmd string, a []string) string {
	gfxSilenceLibraryLog()
	switch cmd {
	case "gfx.mode": // tells the driver which model to compare with (pinned | repaired); nothing to execute
		return "-"
	case "gfx.match":
		line := string(unhx(a[0]))
		res := "-"
		p := guarded(func() {
			if rawpanellib.ASCIIreader_gfx.MatchString(line) {
				sm := rawpanellib.ASCIIreader_gfx.FindStringSubmatch(line)
				parts := make([]string, 0, 11)
				for _, s := range sm[1:] {
					parts = append(parts, hx([]byte(s)))
				}
				res = strings.Join(parts, " ")
			}
		})
		if p != "" {
			return p
		}
		return res
	case "gfx.hist":
		n := atoi(a[0])
		lines := make([]string, n)
		for i := 0; i < n; i++ {
			lines[i] = string(unhx(a[1+i]))
		}
		return e.history(lines)
	case "gfx.rt":
		ty, w, h, off, x, y := atoi(a[0]), atoi(a[1]), atoi(a[2]), abool(a[3]), atoi(a[4]), atoi(a[5])
		ids := gfxParseIds(a[6])
		img := unhx(a[7])
		k := atoi(a[8])
		extra := []gfxIns{}
		for i := 0; i < k; i++ {
			extra = append(extra, gfxIns{atoi(a[9+2*i]), string(unhx(a[10+2*i]))})
		}
		msg := &rwp.InboundMessage{States: []*rwp.HWCState{{HWCIDs: ids, HWCGfx: &rwp.HWCGfx{
			ImageType: rwp.HWCGfx_ImageTypeE(ty), W: uint32(w), H: uint32(h), XYoffset: off, X: uint32(x), Y: uint32(y), ImageData: img}}}}
		return e.encodeAndFeed([]*rwp.InboundMessage{msg}, extra)
	case "gfx.multi":
		pos := 0
		next := func() string { pos++; return a[pos-1] }
		m := atoi(next())
		msgs := make([]*rwp.InboundMessage, 0, m)
		for i := 0; i < m; i++ {
			ns := atoi(next())
			msg := &rwp.InboundMessage{}
			for j := 0; j < ns; j++ {
				ty, w, h, off, x, y := atoi(next()), atoi(next()), atoi(next()), abool(next()), atoi(next()), atoi(next())
				ids := gfxParseIds(next())
				img := unhx(next())
				msg.States = append(msg.States, &rwp.HWCState{HWCIDs: ids, HWCGfx: &rwp.HWCGfx{
					ImageType: rwp.HWCGfx_ImageTypeE(ty), W: uint32(w), H: uint32(h), XYoffset: off, X: uint32(x), Y: uint32(y), ImageData: img}})
			}
			msgs = append(msgs, msg)
		}
		k := atoi(next())
		extra := []gfxIns{}
		for i := 0; i < k; i++ {
			p := atoi(next())
			extra = append(extra, gfxIns{p, string(unhx(next()))})
		}
		return e.encodeAndFeed(msgs, extra)
	}
	panic("unknown record " + cmd)
}

// ------------------------------------------------------------------------------------------------
// generators
// ------------------------------------------------------------------------------------------------

var gfxPrefix = []string{"HWCg#", "HWCgRGB#", "HWCgGray#"}

func b64(b []byte) string { return base64.StdEncoding.EncodeToString(b) }

// chunk line builder: hdr "" (none) or "/max,WxH[,X,Y]"
func gline(pfx, ids string, idx int, hdr string, payload []byte) string {
	return fmt.Sprintf("%s%s=%d%s:%s", pfx, ids, idx, hdr, b64(payload))
}

func emitHist(lines []string) string {
	as := make([]string, 0, len(lines)+1)
	as = append(as, strconv.Itoa(len(lines)))
	for _, l := range lines {
		as = append(as, hx([]byte(l)))
	}
	return emitS("gfx.hist", as)
}

// emitMany: like emitS for a batch of independent records; the records are executed on the real library by a pool
// of goroutines (the gfx executor keeps no state between records) and printed in the given order.
func emitMany(cmd string, argsList [][]string) {
	res := make([]string, len(argsList))
	var wg sync.WaitGroup
	sem := make(chan struct{}, runtime.NumCPU())
	ex := execFor(cmd)
	for i := range argsList {
		wg.Add(1)
		sem <- struct{}{}
		go func(i int) {
			defer wg.Done()
			res[i] = ex.Exec(cmd, argsList[i])
			<-sem
		}(i)
	}
	wg.Wait()
	var sb strings.Builder
	for i, as := range argsList {
		sb.Reset()
		sb.WriteString(cmd)
		for _, a := range as {
			sb.WriteByte(' ')
			sb.WriteString(a)
		}
		sb.WriteString(" | ")
		sb.WriteString(res[i])
		sb.WriteByte('\n')
		out.WriteString(sb.String())
	}
}

func histArgs(lines []string) []string {
	as := make([]string, 0, len(lines)+1)
	as = append(as, strconv.Itoa(len(lines)))
	for _, l := range lines {
		as = append(as, hx([]byte(l)))
	}
	return as
}

// all histories of length exactly n over alphabet (prefixes are covered: deliveries are reported per line)
func enumHist(alpha []string, n int) {
	idx := make([]int, n)
	lines := make([]string, n)
	pending := [][]string{}
	defer func() { emitMany("gfx.hist", pending) }()
	for {
		for i := range idx {
			lines[i] = alpha[idx[i]]
		}
		pending = append(pending, histArgs(lines))
		if len(pending) >= 8192 {
			emitMany("gfx.hist", pending)
			pending = pending[:0]
		}
		i := n - 1
		for i >= 0 {
			idx[i]++
			if idx[i] < len(alpha) {
				break
			}
			idx[i] = 0
			i--
		}
		if i < 0 {
			return
		}
	}
}

// alphabet symbols: every symbol has its own one-byte payload so that a concatenation names its chunks
func gfxAlphabets() (full, reduced, core []string) {
	pay := byte(1)
	next := func() []byte { pay++; return []byte{pay} }
	targets := []string{"5", "7,8"}
	fmts := []string{"HWCg#", "HWCgRGB#"}
	sym := map[string]string{}
	for _, t := range targets {
		for _, f := range fmts {
			k := f + t
			sym[k+"/s"] = gline(f, t, 0, "", next())
			sym[k+"/0"] = gline(f, t, 0, "/0,8x8", next())
			sym[k+"/1"] = gline(f, t, 0, "/1,16x8", next())
			sym[k+"/2"] = gline(f, t, 0, "/2,24x8", next())
			sym[k+"=1"] = gline(f, t, 1, "", next())
			sym[k+"=2"] = gline(f, t, 2, "", next())
			sym[k+"=3"] = gline(f, t, 3, "", next())
			for _, s := range []string{"/s", "/0", "/1", "/2", "=1", "=2", "=3"} {
				full = append(full, sym[k+s])
			}
		}
	}
	full = append(full, "ping")
	a := "HWCg#5"
	core = []string{sym[a+"/s"], sym[a+"/1"], sym[a+"/2"], sym[a+"=1"], sym[a+"=2"], sym[a+"=3"], "ping"}
	reduced = []string{sym[a+"/s"], sym[a+"/0"], sym[a+"/1"], sym[a+"/2"], sym[a+"=1"], sym[a+"=2"], sym[a+"=3"],
		sym["HWCg#7,8/1"], sym["HWCg#7,8=1"], sym["HWCgRGB#5/1"], sym["HWCgRGB#5=1"], "ping",
		"HWCg#5=1:AQ=", // chunk 1 whose payload is not valid base64
	}
	return
}

var gfxPassThrough = []string{"ping", "list", "HWC#5=4", "HWCt#5=123", "", "HeartBeatTimer=3000", "HWCc#7=130", "nonsense", "Clear"}

func genRT(r *Rng, n int, ty int, off bool, nids int, interleave bool) {
	img := r.Bytes(n)
	ids := make([]string, nids)
	for i := range ids {
		ids[i] = strconv.Itoa(r.Pick(0, 1, 5, 38, 255, 4095, 65536, 4294967295))
	}
	w, h := r.Pick(0, 1, 8, 64, 112, 4096), r.Pick(0, 1, 8, 32, 48, 65535)
	x, y := 0, 0
	if off || r.Chance(10) {
		x, y = r.Pick(0, 1, 7, 100, 65535), r.Pick(0, 1, 9, 300)
	}
	as := []string{strconv.Itoa(ty), strconv.Itoa(w), strconv.Itoa(h), b01(off), strconv.Itoa(x), strconv.Itoa(y), strings.Join(ids, ","), hx(img)}
	extra := []string{}
	k := 0
	if interleave {
		k = r.Range(1, 4)
		total := ((n + 169) / 170) * nids
		for i := 0; i < k; i++ {
			extra = append(extra, strconv.Itoa(r.Range(0, total)), hx([]byte(gfxPassThrough[r.Intn(len(gfxPassThrough))])))
		}
	}
	as = append(as, strconv.Itoa(k))
	as = append(as, extra...)
	emitS("gfx.rt", as)
}

// random long history biased to near-clean runs
func genLong(r *Rng, maxLines int) {
	lines := []string{}
	targets := []string{"5", "7,8", "12", "5,6"}
	for len(lines) < maxLines {
		t := targets[r.Intn(len(targets))]
		f := gfxPrefix[r.Intn(3)]
		n := r.Range(1, 6) // chunks of this transfer
		hdr := ""
		if n != 3 || r.Chance(70) {
			hdr = fmt.Sprintf("/%d,%dx%d", n-1, r.Pick(8, 64, 112), r.Pick(8, 32))
			if r.Chance(40) {
				hdr += fmt.Sprintf(",%d,%d", r.Range(0, 50), r.Range(0, 50))
			}
		}
		run := []string{}
		for i := 0; i < n; i++ {
			h := ""
			if i == 0 {
				h = hdr
			}
			sz := r.Pick(1, 1, 2, 3, 3, 170)
			run = append(run, gline(f, t, i, h, r.Bytes(sz)))
		}
		// perturbations
		switch r.Intn(12) {
		case 0: // drop a chunk
			i := r.Intn(len(run))
			run = append(run[:i:i], run[i+1:]...)
		case 1: // duplicate a chunk
			i := r.Intn(len(run))
			run = append(run[:i+1:i+1], run[i:]...)
		case 2: // swap two
			if len(run) > 1 {
				i := r.Intn(len(run) - 1)
				run[i], run[i+1] = run[i+1], run[i]
			}
		case 3: // stray chunk of another target / format / index inserted
			i := r.Intn(len(run) + 1)
			s := gline(gfxPrefix[r.Intn(3)], targets[r.Intn(len(targets))], r.Range(0, 7), "", r.Bytes(2))
			run = append(run[:i:i], append([]string{s}, run[i:]...)...)
		case 4: // trailing chunks after completion
			for j := 0; j < r.Range(1, 3); j++ {
				run = append(run, gline(f, t, n+j-r.Intn(2), "", r.Bytes(2)))
			}
		case 5: // truncated (interrupted) transfer
			run = run[:r.Intn(len(run))+0]
		case 6: // corrupt payload
			i := r.Intn(len(run))
			run[i] = run[i][:len(run[i])-1]
		case 7: // white space around a line: ASCII, the Unicode spaces strings.TrimSpace strips, and bytes that only look like them
			i := r.Intn(len(run))
			run[i] = gfxLead[r.Intn(len(gfxLead))] + run[i] + gfxTrail[r.Intn(len(gfxTrail))]
		}
		// pass-through lines
		for j := 0; j < len(run)+1 && r.Chance(25); j++ {
			i := r.Intn(len(run) + 1)
			run = append(run[:i:i], append([]string{gfxPassThrough[r.Intn(len(gfxPassThrough))]}, run[i:]...)...)
		}
		lines = append(lines, run...)
	}
	if len(lines) > maxLines {
		lines = lines[:maxLines]
	}
	emitHist(lines)
}

// white space for the ends of a line: what strings.TrimSpace strips (ASCII, U+0085, U+00A0, U+1680, U+2000-200A, U+2028/9,
// U+202F, U+205F, U+3000) and near misses it must keep (a lone continuation byte 0x85 / 0xA0, a truncated U+00A0,
// U+200B zero width space, U+FEFF)
var gfxLead = []string{" ", "\t", "", "", "\u00a0", "\u0085", "\u2028\u3000", "\u1680 ", "\xa0", "\u200b", "\ufeff"}
var gfxTrail = []string{" ", "\r", "\r\n", "  ", "", "\u00a0", "\u0085\u2029", "\u3000 ", "\u205f\u202f", "\u2000\u200a", "\xa0", "\xc2", "\x85", "\xe2\x80", "\u200b"}

// genEdge: fixed and random histories at the edges of the model's trusted pieces: Unicode white space at the ends of
// lines (streaming reader trims, batch call does not), invalid UTF-8 in a held chunk line (rewritten to U+FFFD by the
// JSON hop), numbers around 2^32 and 2^63 and with many leading zeros (su.Intval clamps, uint32() wraps)
func genEdge(r *Rng, n int) {
	c0, c1 := "HWCg#5=0/1,8x8:AQ==", "HWCg#5=1:Ag=="
	fixed := [][]string{
		{c0, c1 + "\u00a0"}, {"\u00a0" + c0 + "\u0085", "\u0085" + c1}, {c0 + "\u2028", c1 + "\u3000"}, {c0, c1 + "\xa0"},
		{c0 + "\xff", c1}, {"HWCg#5=0/2,8x8:AQ==", "HWCg#5=1:Ag\xff==", "HWCg#5=2:Aw=="}, {"HWCg#5=0/2,8x8:AQ==\xff", "HWCg#5=1:Ag==", "HWCg#5=2:Aw=="},
		{"HWCg#5=0/2,8x8:AQ==", "HWCg#5=1:\xc3\x28Ag==", "HWCg#5=2:Aw=="}, {"HWCg#5=0/2,8x8:A\u00e9Q==", "HWCg#5=1:Ag==", "HWCg#5=2:Aw=="},
		{"HWCg#5=0/1,8x8:A\rQ==", c1}, {"HWCg#5=0/2,8x8:AQ==", "HWCg#5=1:Ag==\xe2\x80", "HWCg#5=2:Aw=="},
		// a history that ENDS with invalid UTF-8 still held: the final J state shows the line as the JSON hop rewrote it
		{"HWCg#5=0/2,8x8:AQ==\xff"}, {"HWCg#5=0/2,8x8:AQ==", "HWCg#5=1:Ag\xff=="}, {"HWCg#5=0/3,8x8:\xc0\xafAQ==", "HWCg#5=1:Ag==\xed\xa0\x80", "HWCg#5=2:\xf4\x90\x80\x80"},
		{"HWCg#5=0/2,8x8:A\u00e9\u2028Q==", "HWCg#5=1:<&>\x01\x7f"},
		{"HWCg#4294967295=0/0,8x8:AQ=="}, {"HWCg#4294967296=0/0,8x8:AQ=="}, {"HWCg#4294967301=0/0,8x8:AQ=="},
		{"HWCg#5=0/0,4294967295x4294967296:AQ=="}, {"HWCg#5=0/0,8x8,4294967295,4294967297:AQ=="},
		{"HWCg#5=0000000000000000000000000/0,4294967295x8:AQ=="}, {"HWCg#5=0/00000000000000000000001,8x8:AQ==", "HWCg#5=000000000000000000001:Ag=="},
		{"HWCg#5=0/9223372036854775807,8x8:AQ==", "HWCg#5=9223372036854775807:Ag=="}, {"HWCg#5=0/9223372036854775808,8x8:AQ==", "HWCg#5=9223372036854775808:Ag=="},
		{"HWCg#5=0/18446744073709551616,8x8:AQ==", "HWCg#5=1:Ag=="}, {"HWCg#99999999999999999999,5=0/0,8x8:AQ=="},
		{"HWCg#5,,6=0/0,8x8:AQ=="}, {"HWCg#,=0/0,8x8:AQ=="}, {"HWCg#05=0/1,8x8:AQ==", "HWCg#5=1:Ag=="},
	}
	for _, h := range fixed {
		emitHist(h)
	}
	nums := []string{"0", "1", "00", "007", "4294967295", "4294967296", "4294967297", "9223372036854775806", "9223372036854775807",
		"9223372036854775808", "18446744073709551615", "18446744073709551616", "00000000000000000000000002", "99999999999999999999999999"}
	pick := func() string { return nums[r.Intn(len(nums))] }
	for i := 0; i < n; i++ {
		ids := pick()
		if r.Chance(30) {
			ids += "," + pick()
		}
		k := r.Range(0, 2) // declared last index
		hdr := fmt.Sprintf("/%s,%sx%s", []string{"0", "1", "2", "00", "01", "0000000000000000000002"}[k+3*r.Intn(2)], pick(), pick())
		if r.Chance(40) {
			hdr += "," + pick() + "," + pick()
		}
		lines := []string{fmt.Sprintf("HWCg#%s=%s%s:%s", ids, []string{"0", "00", "0000000000000000000000"}[r.Intn(3)], hdr, b64(r.Bytes(2)))}
		for j := 1; j <= 2; j++ {
			idx := strconv.Itoa(j)
			if r.Chance(30) {
				idx = strings.Repeat("0", r.Range(1, 25)) + idx
			}
			if r.Chance(10) {
				idx = pick()
			}
			lines = append(lines, fmt.Sprintf("HWCg#%s=%s:%s", ids, idx, b64(r.Bytes(2))))
		}
		if r.Chance(30) { // white space / invalid UTF-8 at the ends or inside a held payload
			j := r.Intn(len(lines))
			lines[j] = gfxLead[r.Intn(len(gfxLead))] + lines[j] + gfxTrail[r.Intn(len(gfxTrail))]
		}
		if r.Chance(15) {
			j := r.Intn(len(lines))
			lines[j] = lines[j] + []string{"\xff", "\u00e9", "\xed\xa0\x80", "\xf4\x90\x80\x80", "\xc0\xaf"}[r.Intn(5)]
		}
		emitHist(lines)
	}
}

func genMatch(r *Rng, n int) {
	base := []string{
		"HWCg#5=0:AAAA", "HWCgRGB#5=0/3,64x32:AAAA", "HWCgGray#5,6,7=0/3,64x32,1,2:AAAA", "HWCg#5=12:", "HWCg#,=0:x",
		"HWCg#5=0/3,64x32,1:AAAA", "HWCg#5=0/3,64x32,1,2,3:AAAA", "HWCg#5=0/3,64:AAAA", "HWCg#5=0/3:AAAA", "HWCg#5=0/:A",
		"HWCg#5=:AAAA", "HWCg#=0:AAAA", "HWCg5=0:AAAA", "HWCgrgb#5=0:AAAA", "HWCgRGB#5=0", "xHWCg#5=0:AA", " HWCg#5=0:AA",
		"HWCg#5=0:AA\n", "HWCg#5=0:A\nA", "HWCg#5=0:AA\r", "HWCg#5=0 :AA", "HWCg#5=0/3,64X32:AA", "HWCg#5=0/3,64x32,:AA",
		"HWCg#5=0/3,64x32,,:AA", "HWCg#5=0/03,064x0032,01,02:AA", "HWCg#5=00:AA", "HWCg#5=-1:AA", "HWCg#5=0::AA:", "HWCgGray#1,,2=3:/+==",
		"HWCg#5=0/3,64x32:AA:/1,2x3", "HWCg#5=1/3,64x32:AA", "HWCgGray#HWCg#5=0:AA", "HWCg#5=0/3,6 4x32:AA", "HWCg#99999999999999999999=18446744073709551616:AA",
		"HWCt#5=0:AA", "HWCg#5=0/1,2x3,4,5:\x80\xff", "HWCg#5=0/1,2x3,4,5", "", "HWCg#", "HWCg#5=0/1,2x3,4,5:",
	}
	for _, l := range base {
		emit("gfx.match", []byte(l))
	}
	chars := []byte("HWCgRGBray#0123456789,=/x:A \n\r")
	for i := 0; i < n; i++ {
		l := []byte(base[r.Intn(len(base))])
		for m := r.Range(1, 3); m > 0 && len(l) > 0; m-- {
			p := r.Intn(len(l))
			switch r.Intn(3) {
			case 0:
				l[p] = chars[r.Intn(len(chars))]
			case 1:
				l = append(l[:p:p], l[p+1:]...)
			case 2:
				l = append(l[:p:p], append([]byte{chars[r.Intn(len(chars))]}, l[p:]...)...)
			}
		}
		emit("gfx.match", l)
	}
}

// genMulti: ONE encoder call carrying several graphics states: every ordered pair and triple over the six image kinds
// {MONO, RGB16bit, Gray4bit} x {without, with offset}, each tuple in every way of spreading its states over the
// InboundMessages of the call that keeps their order (all in one message; one message per state; for triples also 2+1 and
// 1+2), with sizes around the chunk size, equal / different / several targets per state, different dimensions, now and
// then an empty image or a state without target, and (every third record) non-graphics lines woven in.  The encoder's
// lines then go through the batch decoder, the streaming reader and the serialised reader like a gfx.rt record.
func genMulti(r *Rng, reps int) {
	type kind struct {
		ty  int
		off bool
	}
	kinds := []kind{}
	for ty := 0; ty < 3; ty++ {
		kinds = append(kinds, kind{ty, false}, kind{ty, true})
	}
	state := func(k kind) ([]string, int) {
		n := r.Pick(1, 2, 3, 40, 169, 170, 171, 256, 340, 341, 400, 511)
		if r.Chance(6) {
			n = 0
		}
		nids := r.Pick(1, 1, 1, 2, 3)
		if r.Chance(4) {
			nids = 0
		}
		ids := make([]string, nids)
		for i := range ids {
			ids[i] = strconv.Itoa(r.Pick(5, 5, 5, 6, 7, 38, 255, 4095, 65536, 4294967295))
		}
		idt := "-"
		if nids > 0 {
			idt = strings.Join(ids, ",")
		}
		w, h := r.Pick(1, 8, 64, 64, 112, 4096), r.Pick(1, 8, 32, 32, 48, 65535)
		x, y := 0, 0
		if k.off || r.Chance(10) {
			x, y = r.Pick(0, 1, 7, 100, 65535), r.Pick(0, 1, 9, 300)
		}
		return []string{strconv.Itoa(k.ty), strconv.Itoa(w), strconv.Itoa(h), b01(k.off), strconv.Itoa(x), strconv.Itoa(y), idt, hx(r.Bytes(n))},
			((n + 169) / 170) * nids
	}
	count := 0
	one := func(ks []kind, split []int) { // split: number of states per message, in order
		as := []string{strconv.Itoa(len(split))}
		total, at := 0, 0
		for _, ns := range split {
			as = append(as, strconv.Itoa(ns))
			for j := 0; j < ns; j++ {
				st, lines := state(ks[at])
				at++
				total += lines
				as = append(as, st...)
			}
		}
		k := 0
		extra := []string{}
		if count%3 == 2 {
			k = r.Range(1, 4)
			for i := 0; i < k; i++ {
				extra = append(extra, strconv.Itoa(r.Range(0, total)), hx([]byte(gfxPassThrough[r.Intn(len(gfxPassThrough))])))
			}
		}
		count++
		as = append(as, strconv.Itoa(k))
		as = append(as, extra...)
		emitS("gfx.multi", as)
	}
	for rep := 0; rep < reps; rep++ {
		for _, a := range kinds {
			for _, b := range kinds {
				one([]kind{a, b}, []int{2})
				one([]kind{a, b}, []int{1, 1})
				for _, c := range kinds {
					t := []kind{a, b, c}
					one(t, []int{3})
					one(t, []int{1, 1, 1})
					one(t, []int{2, 1})
					one(t, []int{1, 2})
				}
			}
		}
	}
}

func genC05(r *Rng, n int, tier string) {
	thorough := tier == "thorough"
	full, reduced, core := gfxAlphabets()
	if os.Getenv("VERIF_C05_MODEL") == "pinned" {
		emit("gfx.mode", "pinned")
	}
	// (d) the hand-written matcher against the real regular expression
	genMatch(r, 20*n)
	// (b) exhaustive histories, shortest first (so that the first violation of a kind is a small one)
	for l := 1; l <= 2; l++ {
		enumHist(full, l)
	}
	if thorough {
		enumHist(full, 4)
		enumHist(reduced, 5)
		enumHist(core, 7)
	} else {
		enumHist(full, 3)
		enumHist(reduced, 4)
		enumHist(core, 6)
	}
	// (a) every image length 0..1100
	rot := r.Intn(18)
	for ln := 0; ln <= 1100; ln++ {
		if thorough {
			for c := 0; c < 18; c++ {
				genRT(r, ln, c%3, (c/3)%2 == 1, c/6+1, c%5 == 0)
			}
		} else {
			c := (ln + rot) % 18
			genRT(r, ln, c%3, (c/3)%2 == 1, c/6+1, ln%3 == 0)
		}
	}
	for i := 0; i < n/10; i++ {
		genRT(r, r.Range(1100, 6000), r.Intn(3), r.Bool(), r.Range(1, 3), r.Chance(30))
	}
	// (f) several graphics states in one encoder call (one message / several messages), all ordered pairs and triples of kinds
	if thorough {
		genMulti(r, 4)
	} else {
		genMulti(r, 1)
	}
	// (e) edges of the trusted pieces: Unicode white space, invalid UTF-8 through the JSON hop, numbers around 2^32 / 2^63
	genEdge(r, 4*n)
	// (c) random long histories
	for i := 0; i < n; i++ {
		genLong(r, r.Pick(10, 20, 50, 100, 200))
	}
}
