package main

import (
	"bytes"
	"fmt"
	"os"
	"os/exec"
	"strings"

	helpers "github.com/SKAARHOJ/rawpanel-lib"
	monogfx "github.com/SKAARHOJ/rawpanel-lib/ibeam_lib_monogfx"
	rwp "github.com/SKAARHOJ/rawpanel-lib/ibeam_rawpanel"
	"google.golang.org/protobuf/proto"
)

// C18: WriteDisplayTileNew — total, deterministic, clipped, inversion-exact, layout relations.

type tileExec struct{}

func init() {
	registerExecutor("tile", &tileExec{})
	registerFamily("c18", genC18)
}

// ---- record <-> message -----------------------------------------------------------------------

func fontTok(f *rwp.HWCText_TextStyle_Font) string {
	if f == nil {
		return "~"
	}
	return fmt.Sprintf("%d:%d:%d", int32(f.FontFace), f.TextWidth, f.TextHeight)
}
func stylingTok(s *rwp.HWCText_TextStyle) string {
	if s == nil {
		return "~"
	}
	return fmt.Sprintf("%s/%d/%d/%d/%s/%s", b01(s.FixedWidth), s.TitleBarPadding, s.ExtraCharacterSpacing, s.UnformattedFontSize, fontTok(s.TextFont), fontTok(s.TitleFont))
}
func scaleTok(s *rwp.HWCText_ScaleM) string {
	if s == nil {
		return "~"
	}
	return fmt.Sprintf("%d,%d,%d,%d,%d", int32(s.ScaleType), s.RangeLow, s.RangeHigh, s.LimitLow, s.LimitHigh)
}
func colTok(c *rwp.Color) string {
	if c == nil {
		return "~"
	}
	if c.ColorRGB != nil {
		return fmt.Sprintf("r:%d:%d:%d", c.ColorRGB.Red, c.ColorRGB.Green, c.ColorRGB.Blue)
	}
	if c.ColorIndex != nil {
		return fmt.Sprintf("i:%d", int32(c.ColorIndex.Index))
	}
	return "e"
}

func tileArgs(t *rwp.HWCText, w, h, shrink, border int) []interface{} {
	return []interface{}{w, h, shrink, border, t.Inverted, t.IntegerValue, t.IntegerValue2, int32(t.Formatting), int32(t.StateIcon), int32(t.ModifierIcon),
		t.SolidHeaderBar, int32(t.PairMode), runeBytes(t.Title), runeBytes(t.Textline1), runeBytes(t.Textline2),
		scaleTok(t.Scale), stylingTok(t.TextStyling), colTok(t.PixelColor), colTok(t.BackgroundColor)}
}

func latin1(b []byte) string {
	rs := make([]rune, len(b))
	for i, x := range b {
		rs[i] = rune(x)
	}
	return string(rs)
}

func parseFontTok(s string) *rwp.HWCText_TextStyle_Font {
	if s == "~" {
		return nil
	}
	p := strings.Split(s, ":")
	return &rwp.HWCText_TextStyle_Font{FontFace: rwp.HWCText_TextStyle_Font_FontFaceE(atoi(p[0])), TextWidth: uint32(atoi(p[1])), TextHeight: uint32(atoi(p[2]))}
}
func parseColTok(s string) *rwp.Color {
	switch {
	case s == "~":
		return nil
	case s == "e":
		return &rwp.Color{}
	case strings.HasPrefix(s, "r:"):
		p := strings.Split(s, ":")
		return &rwp.Color{ColorRGB: &rwp.ColorRGB{Red: uint32(atoi(p[1])), Green: uint32(atoi(p[2])), Blue: uint32(atoi(p[3]))}}
	default:
		return &rwp.Color{ColorIndex: &rwp.ColorIndex{Index: rwp.ColorIndex_Colors(atoi(s[2:]))}}
	}
}

func textFromArgs(a []string) (t *rwp.HWCText, w, h, shrink, border int) {
	w, h, shrink, border = atoi(a[0]), atoi(a[1]), atoi(a[2]), atoi(a[3])
	t = &rwp.HWCText{
		Inverted: abool(a[4]), IntegerValue: int32(atoi(a[5])), IntegerValue2: int32(atoi(a[6])),
		Formatting: rwp.HWCText_FormattingE(atoi(a[7])), StateIcon: rwp.HWCText_StateIconE(atoi(a[8])),
		ModifierIcon: rwp.HWCText_ModifierIconE(atoi(a[9])), SolidHeaderBar: abool(a[10]), PairMode: rwp.HWCText_PairModeE(atoi(a[11])),
		Title: latin1(unhx(a[12])), Textline1: latin1(unhx(a[13])), Textline2: latin1(unhx(a[14])),
	}
	if a[15] != "~" {
		p := strings.Split(a[15], ",")
		t.Scale = &rwp.HWCText_ScaleM{ScaleType: rwp.HWCText_ScaleM_ScaleTypeE(atoi(p[0])), RangeLow: int32(atoi(p[1])), RangeHigh: int32(atoi(p[2])), LimitLow: int32(atoi(p[3])), LimitHigh: int32(atoi(p[4]))}
	}
	if a[16] != "~" {
		p := strings.Split(a[16], "/")
		t.TextStyling = &rwp.HWCText_TextStyle{FixedWidth: abool(p[0]), TitleBarPadding: uint32(atoi(p[1])), ExtraCharacterSpacing: uint32(atoi(p[2])), UnformattedFontSize: uint32(atoi(p[3])), TextFont: parseFontTok(p[4]), TitleFont: parseFontTok(p[5])}
	}
	t.PixelColor = parseColTok(a[17])
	t.BackgroundColor = parseColTok(a[18])
	return
}

// the same state in the two other font faces (0: 5x7, 1: 8x8, 2: 5x5; faces 0 and 2 share the glyph cell width, faces 0
// and 1 the cell height), proportional: what a glyph-metric memo keyed too coarsely would confuse the state's own faces with
func otherFonts(t *rwp.HWCText) []*rwp.HWCText {
	out := []*rwp.HWCText{}
	for k := 1; k <= 2; k++ {
		b := proto.Clone(t).(*rwp.HWCText)
		if b.TextStyling == nil {
			b.TextStyling = &rwp.HWCText_TextStyle{}
		}
		if b.TextStyling.TextFont == nil {
			b.TextStyling.TextFont = &rwp.HWCText_TextStyle_Font{}
		}
		if b.TextStyling.TitleFont == nil {
			b.TextStyling.TitleFont = &rwp.HWCText_TextStyle_Font{}
		}
		shift := func(f *rwp.HWCText_TextStyle_Font) {
			face := int(f.FontFace & 7)
			if face > 2 {
				face = 0 // SetFont's default case
			}
			f.FontFace = rwp.HWCText_TextStyle_Font_FontFaceE((face + k) % 3)
		}
		shift(b.TextStyling.TextFont)
		shift(b.TextStyling.TitleFont)
		b.TextStyling.FixedWidth = false
		out = append(out, b)
	}
	return out
}

// the first rendering of the record's state in a fresh process (the harness re-executes itself on this one record):
// returns the tokens "A pixelColour backgroundColour" of the child's output
func tileFreshProcess(a []string) string {
	exe, err := os.Executable()
	if err != nil {
		return "child:" + err.Error()
	}
	cmd := exec.Command(exe, "c18", "-replay", "/dev/stdin")
	cmd.Stdin = strings.NewReader("tile.render " + strings.Join(a, " ") + "\n")
	cmd.Env = append(os.Environ(), "VERIF_TILE_CHILD=1")
	o, err := cmd.Output()
	if err != nil {
		return "child:" + strings.ReplaceAll(err.Error(), " ", "_")
	}
	line := strings.TrimSpace(string(o))
	i := strings.Index(line, " | ")
	if i < 0 {
		return "child:no-output"
	}
	f := strings.Fields(line[i+3:])
	if len(f) < 5 {
		return "child:" + strings.Join(f, "_")
	}
	return f[2] + " " + f[3] + " " + f[4]
}

// the caller keeps using a state it has rendered: `mask` says which fillable sub-messages were absent (1 TextStyling,
// 2 TextStyling.TextFont, 4 TextStyling.TitleFont, 8 Scale; the renderer filled them in), and the caller now edits every
// field of those.  Whatever it writes there is its own business: no other state's rendering may change.
func nilSubMessages(p *rwp.HWCText, mask int) {
	if mask&1 != 0 {
		p.TextStyling = nil
	} else if p.TextStyling != nil {
		if mask&2 != 0 {
			p.TextStyling.TextFont = nil
		}
		if mask&4 != 0 {
			p.TextStyling.TitleFont = nil
		}
	}
	if mask&8 != 0 {
		p.Scale = nil
	}
}

func mutateFilled(p *rwp.HWCText, mask int) {
	font := func(f *rwp.HWCText_TextStyle_Font) {
		if f != nil {
			f.FontFace = rwp.HWCText_TextStyle_Font_FontFaceE((int(f.FontFace&7)%3 + 1) % 3)
			f.TextWidth = (f.TextWidth%4 + 1) % 4
			f.TextHeight = (f.TextHeight%4 + 2) % 4
		}
	}
	if s := p.TextStyling; s != nil {
		if mask&1 != 0 {
			s.FixedWidth = !s.FixedWidth
			s.TitleBarPadding = (s.TitleBarPadding%4 + 1) % 4
			s.ExtraCharacterSpacing = (s.ExtraCharacterSpacing%4 + 1) % 4
			s.UnformattedFontSize = (s.UnformattedFontSize%5 + 2) % 5
		}
		if mask&3 != 0 {
			font(s.TextFont)
		}
		if mask&5 != 0 {
			font(s.TitleFont)
		}
	}
	if sc := p.Scale; sc != nil && mask&8 != 0 {
		sc.ScaleType = rwp.HWCText_ScaleM_ScaleTypeE(int(sc.ScaleType)%4 + 1)
		sc.RangeLow, sc.RangeHigh = sc.RangeLow-7, sc.RangeHigh+1000
		sc.LimitLow, sc.LimitHigh = sc.LimitLow+3, sc.LimitHigh-5
	}
}

func (e *tileExec) Exec(cmd string, a []string) string {
	res := ""
	p := guarded(func() {
		switch cmd {
		case "tile.render":
			// args: the 19 state/geometry tokens + optional flags "also print the RGB565 export", "compare with a fresh process",
			// "first render a sibling state with absent sub-messages and edit what the renderer filled in" (mask)
			rgb := len(a) > 19 && a[19] == "1"
			fresh := len(a) > 20 && a[20] == "1" && os.Getenv("VERIF_TILE_CHILD") == ""
			mut := 0
			if len(a) > 21 && os.Getenv("VERIF_TILE_CHILD") == "" {
				mut = atoi(a[21])
			}
			t, w, h, shrink, border := textFromArgs(a)
			var before *monogfx.MonoImg
			if mut > 0 {
				t0 := proto.Clone(t).(*rwp.HWCText)
				i0 := helpers.WriteDisplayTileNew(t0, w, h, shrink, border)
				before = &i0
				sib := proto.Clone(t).(*rwp.HWCText)
				nilSubMessages(sib, mut)
				helpers.WriteDisplayTileNew(sib, w, h, shrink, border)
				mutateFilled(sib, mut)
			}
			t2 := proto.Clone(t).(*rwp.HWCText)
			t3 := proto.Clone(t).(*rwp.HWCText)
			t3.Inverted = !t3.Inverted
			vs := otherFonts(t)
			vs2 := otherFonts(t)
			if fresh {
				// warm the process with the other font faces first: state A must still render as in a fresh process
				for _, v := range otherFonts(t) {
					helpers.WriteDisplayTileNew(v, w, h, shrink, border)
				}
			}
			// order A, B, C, A, B, C (B, C = the same state in the other two font faces): a glyph-metric memo keyed too coarsely
			// and overwritten makes the second A, B or C differ from the first
			img := helpers.WriteDisplayTileNew(t, w, h, shrink, border)
			imgB := helpers.WriteDisplayTileNew(vs[0], w, h, shrink, border)
			imgC := helpers.WriteDisplayTileNew(vs[1], w, h, shrink, border)
			img2 := helpers.WriteDisplayTileNew(t2, w, h, shrink, border)
			imgB2 := helpers.WriteDisplayTileNew(vs2[0], w, h, shrink, border)
			imgC2 := helpers.WriteDisplayTileNew(vs2[1], w, h, shrink, border)
			img3 := helpers.WriteDisplayTileNew(t3, w, h, shrink, border)
			det := bytes.Equal(img.GetImgSlice(), img2.GetImgSlice()) && bytes.Equal(img.GetImgSliceRGB(), img2.GetImgSliceRGB()) &&
				img.OLEDPixelColor == img2.OLEDPixelColor && img.OLEDBckgColor == img2.OLEDBckgColor &&
				bytes.Equal(imgB.GetImgSlice(), imgB2.GetImgSlice()) && bytes.Equal(imgC.GetImgSlice(), imgC2.GetImgSlice())
			if before != nil {
				// the state rendered before and after the sibling was edited by its owner
				det = det && bytes.Equal(before.GetImgSlice(), img.GetImgSlice()) && bytes.Equal(before.GetImgSliceRGB(), img.GetImgSliceRGB()) &&
					before.OLEDPixelColor == img.OLEDPixelColor && before.OLEDBckgColor == img.OLEDBckgColor
			}
			if fresh {
				mine := fmt.Sprintf("%s %d %d", hx(img.GetImgSlice()), img.OLEDPixelColor, img.OLEDBckgColor)
				det = det && tileFreshProcess(a) == mine
			}
			rgbTok := "~"
			if rgb {
				rgbTok = hx(img.GetImgSliceRGB())
			}
			// the argument after the call (the renderer fills absent sub-messages of its argument)
			post := strings.Join(argStrings(tileArgs(t, w, h, shrink, border)[4:]), ";")
			res = fmt.Sprintf("%d %d %s %d %d %s %s %s %s %d", img.Width, img.Height, hx(img.GetImgSlice()), img.OLEDPixelColor, img.OLEDBckgColor, hx(img3.GetImgSlice()), b01(det), post, rgbTok, img.LineHeight())
		case "tile.bar":
			v2 := atoi(a[0])
			t, w, h, shrink, border := textFromArgs(a[1:])
			tb := proto.Clone(t).(*rwp.HWCText)
			tb.IntegerValue = int32(v2)
			i1 := helpers.WriteDisplayTileNew(t, w, h, shrink, border)
			i2 := helpers.WriteDisplayTileNew(tb, w, h, shrink, border)
			res = hx(i1.GetImgSlice()) + " " + hx(i2.GetImgSlice())
		default:
			panic("unknown record " + cmd)
		}
	})
	if p != "" {
		return p
	}
	return res
}

// ---- generators -------------------------------------------------------------------------------

func tileString(r *Rng, maxLen int) string {
	n := r.Range(0, maxLen)
	if r.Chance(20) {
		n = 0
	}
	b := []byte{}
	for i := 0; i < n; i++ {
		switch r.Intn(20) {
		case 0:
			b = append(b, []byte(string(rune(r.Range(128, 0x24ff))))...)
		case 1:
			b = append(b, byte(r.Range(128, 255)))
		case 2:
			b = append(b, ' ')
		case 3:
			b = append(b, byte(r.Intn(32)))
		default:
			b = append(b, byte(r.Range(33, 126)))
		}
	}
	return string(b)
}

func i32val(r *Rng) int32 {
	switch r.Intn(8) {
	case 0:
		return int32(r.Pick(0, 1, -1, 5, 15, 25, 35, -4, 999, 1000, 1005))
	case 1:
		return int32(r.Pick(2147483647, -2147483648, 2147483646, -2147483647))
	case 2:
		return int32(r.U64())
	default:
		return int32(r.Range(-12000, 12000))
	}
}

func randFont(r *Rng) *rwp.HWCText_TextStyle_Font {
	if r.Chance(25) {
		return nil
	}
	f := &rwp.HWCText_TextStyle_Font{FontFace: rwp.HWCText_TextStyle_Font_FontFaceE(r.Range(0, 3)), TextWidth: uint32(r.Intn(4)), TextHeight: uint32(r.Intn(4))}
	if r.Chance(8) {
		f.FontFace = rwp.HWCText_TextStyle_Font_FontFaceE(int32(r.U64()))
		f.TextWidth = uint32(r.U64())
	}
	if r.Chance(50) {
		f.TextWidth, f.TextHeight = 0, 0
	}
	return f
}

func randCol(r *Rng) *rwp.Color {
	switch r.Intn(6) {
	case 0:
		return nil
	case 1:
		return &rwp.Color{}
	case 2, 3:
		return &rwp.Color{ColorIndex: &rwp.ColorIndex{Index: rwp.ColorIndex_Colors(r.Range(0, 40))}}
	default:
		c := &rwp.Color{ColorRGB: &rwp.ColorRGB{Red: uint32(r.Pick(0, 84, 85, 169, 170, 254, 255, 300, r.Intn(256))), Green: uint32(r.Intn(256)), Blue: uint32(r.Intn(256))}}
		if r.Chance(20) {
			c.ColorIndex = &rwp.ColorIndex{Index: 3} // both set: RGB wins
		}
		return c
	}
}

func randTileText(r *Rng) *rwp.HWCText {
	t := &rwp.HWCText{}
	t.IntegerValue, t.IntegerValue2 = i32val(r), i32val(r)
	switch r.Intn(10) {
	case 0:
		t.Formatting = rwp.HWCText_FormattingE(r.Range(13, 40))
	case 1:
		t.Formatting = rwp.HWCText_FormattingE(int32(r.U64()))
	case 2, 3:
		t.Formatting = 10
	case 4:
		t.Formatting = 11
	default:
		t.Formatting = rwp.HWCText_FormattingE(r.Range(0, 12))
	}
	t.StateIcon = rwp.HWCText_StateIconE(r.Pick(0, 0, 0, 1, 2, 3, 4, -1))
	t.ModifierIcon = rwp.HWCText_ModifierIconE(r.Pick(0, 0, 0, 1, 2, 3, 4, 5, 6, 7, 8, -1))
	t.Title = tileString(r, 12)
	t.SolidHeaderBar = r.Bool()
	t.Textline1 = tileString(r, 10)
	t.Textline2 = tileString(r, 10)
	t.PairMode = rwp.HWCText_PairModeE(r.Pick(0, 0, 0, 1, 2, 3, 4, 5, -1))
	if r.Chance(60) {
		t.Scale = &rwp.HWCText_ScaleM{ScaleType: rwp.HWCText_ScaleM_ScaleTypeE(r.Pick(0, 1, 1, 2, 3, 4)), RangeLow: i32val(r), RangeHigh: i32val(r), LimitLow: i32val(r), LimitHigh: i32val(r)}
		if r.Chance(60) { // sane range around the value
			lo := int32(r.Range(-1000, 1000))
			hi := lo + int32(r.Range(-5, 2000))
			t.Scale.RangeLow, t.Scale.RangeHigh = lo, hi
			t.Scale.LimitLow, t.Scale.LimitHigh = lo+int32(r.Range(-10, 300)), hi-int32(r.Range(-10, 300))
			t.IntegerValue = lo + int32(r.Range(-50, 2100))
		}
	}
	if r.Chance(70) {
		t.TextStyling = &rwp.HWCText_TextStyle{TextFont: randFont(r), TitleFont: randFont(r), FixedWidth: r.Chance(25),
			TitleBarPadding: uint32(r.Pick(0, 0, 1, 2, 3)), ExtraCharacterSpacing: uint32(r.Pick(0, 0, 0, 1, 2, 3, 5)), UnformattedFontSize: uint32(r.Pick(0, 1, 2, 3, 4, 5))}
		// TitleBarPadding is a 2-bit field (documented range 0-3); it is used unmasked by the renderer, so values
		// outside the range (up to 2^32-1 rows of title bar: an hours-long loop) are outside the property's domain.
	}
	t.Inverted = r.Chance(30)
	t.PixelColor, t.BackgroundColor = randCol(r), randCol(r)
	return t
}

func randGeom(r *Rng, tier string) (w, h, shrink, border int) {
	switch r.Intn(12) {
	case 0:
		w, h = r.Pick(0, 1, 7, 8, 9), r.Pick(0, 1, 5, 8)
	case 1:
		w, h = 256, r.Pick(20, 32, 64)
	case 2, 3, 4:
		w, h = r.Pick(64, 64, 48, 52, 96, 112, 128), r.Pick(32, 32, 24, 38, 48, 64)
	case 5:
		// beyond the documented 256x64: the theorems hold for every size
		w, h = r.Pick(257, 260, 300, 320), r.Pick(65, 72, 96, 100)
		if r.Chance(50) {
			w = r.Range(0, 130)
		} else {
			h = r.Range(0, 64)
		}
	default:
		w, h = r.Range(0, 130), r.Range(0, 64)
	}
	if tier != "thorough" && w > 130 && !r.Chance(30) {
		w = 128
	}
	shrink = r.Intn(4)
	border = r.Pick(0, 0, 0, 1, 2, 3)
	// the theorems cover every integer shrink / border (only the two low bits of shrink are read; a border that eats
	// the whole tile, or a negative one, leaves an empty or shifted bounding box)
	switch r.Intn(12) {
	case 0:
		shrink = r.Pick(-1, -2, -3, 4, 5, 6, 7, 255, 1<<31, -(1 << 31))
	case 1:
		border = r.Pick(4, 5, 8, 12, 16, 31, 32, 33, 64, 100, 1000)
	case 2:
		border = r.Pick(-1, -2, -3, -8, -100)
	case 3:
		if w > 0 && h > 0 { // border around half the smaller side: active area empty or one pixel
			m := w
			if h < m {
				m = h
			}
			border = m/2 + r.Pick(-1, 0, 0, 1)
		}
	}
	return
}

func genC18(r *Rng, n int, tier string) {
	for i := 0; i < n; i++ {
		t := randTileText(r)
		w, h, shrink, border := randGeom(r, tier)
		if r.Chance(12) {
			// bar monotonicity pair: scale type 1, v1 <= v2, range > 0, value text unchanged (hidden, or a float format whose
			// printed digits do not change between v1 and v2); pair mode, icons, title, labels, fonts are random
			lo := int32(r.Range(-500, 500))
			hi := lo + int32(r.Range(1, 3000))
			big := r.Chance(30) // very large ranges / values: (value-low)*width exceeds 32 bits
			if big {
				lo = int32(r.Pick(0, -1000000, 5))
				hi = lo + int32(r.Pick(2000000000, 40000000, 1000000000))
			}
			t.Formatting = 7
			if r.Chance(50) {
				t.PairMode = 0
			}
			t.Scale = &rwp.HWCText_ScaleM{ScaleType: 1, RangeLow: lo, RangeHigh: hi, LimitLow: lo, LimitHigh: hi}
			if r.Chance(30) {
				t.Scale.LimitLow, t.Scale.LimitHigh = lo+int32(r.Range(-10, 300)), hi-int32(r.Range(-10, 300))
			}
			v1 := lo + int32(r.Range(-20, 3100))
			v2 := v1 + int32(r.Range(0, 600))
			if big {
				v1 = lo + int32(r.Range(0, 100)*1000000)
				v2 = v1 + int32(r.Range(0, 60)*1000000)
			}
			if !big && r.Chance(35) {
				// visible value whose text is the same at v1 and v2
				f := r.Pick(1, 8, 9, 12)
				v2 = v1 + int32(r.Range(0, 12))
				if tileValueText(f, v1) == tileValueText(f, v2) {
					t.Formatting = rwp.HWCText_FormattingE(f)
				}
			}
			t.IntegerValue = v1
			args := append([]interface{}{v2}, tileArgs(t, w, h, shrink, border)...)
			emit("tile.bar", args...)
			continue
		}
		if r.Chance(25) {
			// centring cases: one/two lines of plain text that fit, proportional, no extra spacing
			t.Formatting = rwp.HWCText_FormattingE(r.Pick(10, 11))
			mk := func() string {
				n := r.Range(1, 6)
				b := make([]byte, n)
				for i := range b {
					b[i] = byte(r.Range(33, 126))
				}
				const alnum = "0123456789ABCDEFGHIJKLMNOPQRSTUVWXYZabcdefghijklmnopqrstuvwxyz"
				b[0], b[n-1] = alnum[r.Intn(len(alnum))], alnum[r.Intn(len(alnum))]
				return string(b)
			}
			t.Title, t.Textline1, t.Textline2 = mk(), mk(), mk()
			if t.TextStyling != nil {
				t.TextStyling.FixedWidth = false
				t.TextStyling.ExtraCharacterSpacing = 0
				t.TextStyling.UnformattedFontSize = uint32(r.Pick(0, 1, 1, 2))
				if t.TextStyling.TextFont != nil {
					t.TextStyling.TextFont.TextWidth, t.TextStyling.TextFont.TextHeight = 0, 0
				}
			}
			w, h = r.Pick(64, 96, 112, 128), r.Pick(32, 48, 64)
			if r.Chance(25) {
				// around the vertical-fit boundary (line height 6..32 against the active height) and narrow tiles
				// (texts wider than the active area): the clause must hold where its guard holds, on either side
				h = r.Range(2, 34)
				if r.Chance(40) {
					w = r.Range(4, 40)
				}
			}
		}
		// every 6th state (and every small tile) also prints the RGB565 export (GetImgSliceRGB)
		rgb := w*h <= 256 || r.Chance(16)
		// every 12th state is also rendered by a fresh process (after the other font faces were rendered in this one)
		fresh := r.Chance(8)
		// every 10th state: a sibling with absent sub-messages is rendered first and its owner then edits what the renderer
		// filled in; mostly the state itself has the same sub-messages absent (it would share a common default object)
		mut := 0
		if r.Chance(10) {
			mut = r.Pick(1, 1, 1, 2, 4, 8, 8, r.Range(1, 15), r.Range(1, 15))
			if r.Chance(75) {
				nilSubMessages(t, mut)
			}
			if r.Chance(40) {
				fresh = true
			}
		}
		emit("tile.render", append(tileArgs(t, w, h, shrink, border), rgb, fresh, mut)...)
	}
}

// the text the renderer prints for the float formats (used only to pick bar pairs whose value text does not change)
func tileValueText(f int, v int32) string {
	switch f {
	case 1:
		return fmt.Sprintf("%1.2f", float64(v)/1000)
	case 8:
		return fmt.Sprintf("%1.3f", float64(v)/1000)
	case 9:
		return fmt.Sprintf("%1.2f", float64(v)/100)
	case 12:
		return fmt.Sprintf("%1.1f", float64(v)/10)
	}
	return ""
}
