package main

// Scripted TCP panel helper for the lifecycle (C11) and gorwp (C19) families.
// Own file, own identifiers (prefix nl) so it merges next to other network helpers.
//
// * nlPort: a loopback port that is *reserved* (bound) but not listening: a dial gets ECONNREFUSED and no
//   other listener of this process (or any other) can be given the same port; Listen() turns it on later.
// * nlTrace: timestamped, ordered event log with "wait for event" support.
// * nlRunBatch: run many records concurrently through an Executor, print them in generation order.

import (
	"bytes"
	"fmt"
	"net"
	"os"
	"runtime/pprof"
	"sort"
	"strconv"
	"strings"
	"sync"
	"syscall"
	"time"
)

// ---------------- reserved port ----------------

type nlPort struct {
	fd   int
	Port int
	ln   net.Listener
}

func nlReservePort() (*nlPort, error) {
	fd, err := syscall.Socket(syscall.AF_INET, syscall.SOCK_STREAM|syscall.SOCK_CLOEXEC, 0)
	if err != nil {
		return nil, err
	}
	syscall.SetsockoptInt(fd, syscall.SOL_SOCKET, syscall.SO_REUSEADDR, 1)
	sa := &syscall.SockaddrInet4{Port: 0, Addr: [4]byte{127, 0, 0, 1}}
	if err := syscall.Bind(fd, sa); err != nil {
		syscall.Close(fd)
		return nil, err
	}
	got, err := syscall.Getsockname(fd)
	if err != nil {
		syscall.Close(fd)
		return nil, err
	}
	return &nlPort{fd: fd, Port: got.(*syscall.SockaddrInet4).Port}, nil
}

func (p *nlPort) Addr() string { return "127.0.0.1:" + strconv.Itoa(p.Port) }

// Listen starts accepting on the reserved port.
func (p *nlPort) Listen() (net.Listener, error) {
	if err := syscall.Listen(p.fd, 128); err != nil {
		return nil, err
	}
	f := os.NewFile(uintptr(p.fd), "nlport")
	ln, err := net.FileListener(f) // dups the fd
	f.Close()
	p.fd = -1
	if err != nil {
		return nil, err
	}
	p.ln = ln
	return ln, nil
}

func (p *nlPort) Close() {
	if p.ln != nil {
		p.ln.Close()
	}
	if p.fd >= 0 {
		syscall.Close(p.fd)
		p.fd = -1
	}
}

// ---------------- trace ----------------

type nlTrace struct {
	mu     sync.Mutex
	t0     time.Time
	ev     []string
	seen   map[string]chan struct{}
	maxLag int64
}

func nlNewTrace() *nlTrace {
	return &nlTrace{t0: time.Now(), seen: map[string]chan struct{}{}}
}

func (t *nlTrace) now() int64 { return time.Since(t.t0).Milliseconds() }

func (t *nlTrace) ch(key string) chan struct{} {
	c, ok := t.seen[key]
	if !ok {
		c = make(chan struct{})
		t.seen[key] = c
	}
	return c
}

// log appends `ms:text`; key (if non-empty) releases waiters for that key (first occurrence only).
func (t *nlTrace) log(key string, text string) {
	t.mu.Lock()
	t.ev = append(t.ev, strconv.FormatInt(t.now(), 10)+":"+text)
	if key != "" {
		c := t.ch(key)
		select {
		case <-c:
		default:
			close(c)
		}
	}
	t.mu.Unlock()
}

func (t *nlTrace) signal(key string) chan struct{} {
	t.mu.Lock()
	defer t.mu.Unlock()
	return t.ch(key)
}

// wait blocks until key was logged, or timeout; returns false on timeout/stop.
func (t *nlTrace) wait(key string, d time.Duration, stop <-chan struct{}) bool {
	tm := time.NewTimer(d)
	defer tm.Stop()
	select {
	case <-t.signal(key):
		return true
	case <-tm.C:
		return false
	case <-stop:
		return false
	}
}

// sleep sleeps d and records by how much the wake-up was late (scheduling lag of this process).
func (t *nlTrace) sleep(d time.Duration, stop <-chan struct{}) bool {
	if d <= 0 {
		return true
	}
	st := time.Now()
	tm := time.NewTimer(d)
	defer tm.Stop()
	select {
	case <-tm.C:
		lag := (time.Since(st) - d).Milliseconds()
		t.mu.Lock()
		if lag > t.maxLag {
			t.maxLag = lag
		}
		t.mu.Unlock()
		return true
	case <-stop:
		return false
	}
}

func (t *nlTrace) String() string {
	t.mu.Lock()
	defer t.mu.Unlock()
	return strings.Join(t.ev, " ")
}

// ---------------- goroutines of one script (pprof label) ----------------

// nlLabelledGoroutines counts live goroutines that carry the pprof label key=val and have a frame of the
// library (package path contains "rawpanel-lib") on their stack.
func nlLabelledGoroutines(key, val string) int {
	var buf bytes.Buffer
	p := pprof.Lookup("goroutine")
	if p == nil {
		return -1
	}
	p.WriteTo(&buf, 1)
	want := fmt.Sprintf("%q:%q", key, val)
	n := 0
	txt := buf.String()
	if strings.HasPrefix(txt, "goroutine profile:") { // header line is glued to the first entry
		if i := strings.Index(txt, "\n"); i >= 0 {
			txt = txt[i+1:]
		}
	}
	for _, blk := range strings.Split(txt, "\n\n") {
		lines := strings.Split(blk, "\n")
		if len(lines) == 0 {
			continue
		}
		cnt := 0
		if i := strings.Index(lines[0], " @"); i > 0 {
			cnt, _ = strconv.Atoi(strings.TrimSpace(lines[0][:i]))
		}
		lab, lib := false, false
		for _, l := range lines[1:] {
			if strings.HasPrefix(l, "# labels:") && strings.Contains(l, want) {
				lab = true
			}
			if strings.Contains(l, "rawpanel-lib") && !strings.Contains(l, "vharness") {
				lib = true
			}
		}
		if lab && lib {
			n += cnt
		}
	}
	return n
}

// ---------------- concurrent batch ----------------

type nlRec struct {
	cmd  string
	args []string
	cost int // expected wall time (ms), longest first
}

// nlRunBatch executes the records with `par` workers and prints `cmd args | output` in the given order.
func nlRunBatch(recs []nlRec, par int) {
	outs := make([]string, len(recs))
	idx := make([]int, len(recs))
	for i := range idx {
		idx[i] = i
	}
	sort.SliceStable(idx, func(a, b int) bool { return recs[idx[a]].cost > recs[idx[b]].cost })
	sem := make(chan struct{}, par)
	var wg sync.WaitGroup
	for _, i := range idx {
		i := i
		sem <- struct{}{}
		wg.Add(1)
		go func() {
			defer wg.Done()
			defer func() { <-sem }()
			outs[i] = execFor(recs[i].cmd).Exec(recs[i].cmd, recs[i].args)
		}()
		time.Sleep(2 * time.Millisecond) // stagger starts
	}
	wg.Wait()
	for i, r := range recs {
		var sb strings.Builder
		sb.WriteString(r.cmd)
		for _, a := range r.args {
			sb.WriteByte(' ')
			sb.WriteString(a)
		}
		sb.WriteString(" | ")
		sb.WriteString(outs[i])
		sb.WriteByte('\n')
		out.WriteString(sb.String())
	}
}

// key=value argument lists
func nlKV(args []string) map[string]string {
	m := map[string]string{}
	for _, a := range args {
		if i := strings.Index(a, "="); i > 0 {
			m[a[:i]] = a[i+1:]
		}
	}
	return m
}

func nlInt(m map[string]string, k string, def int) int {
	if v, ok := m[k]; ok {
		n, err := strconv.Atoi(v)
		if err == nil {
			return n
		}
	}
	return def
}

// classify a read error seen by the panel
func nlErrKind(err error) string {
	s := err.Error()
	switch {
	case s == "EOF":
		return "eof"
	case strings.Contains(s, "reset by peer"):
		return "rst"
	case strings.Contains(s, "closed network connection"):
		return "own"
	}
	return "other"
}
