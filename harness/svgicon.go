package main

// svg.* records: C15 (topology/svgicon.go GenerateCompositeSVGdoc / GenerateCompositeSVG).
//
//   svg.gen showLabels showHWCID showType showDisplaySize base:hex kinds:hex endOk:01 FEAT TOKS MASK ROT T  |  OUT
//   kinds := one letter per token encoding/xml's Decoder.Token delivers for the base: S start element, E end element,
//            C / W character data (non-blank / blank), M comment, P processing instruction, D directive;
//            endOk = the stream ended with io.EOF.  The harness's own judgement, made with encoding/xml only.
//   FEAT, TOKS := the lossy-feature flags and the token stream of the base (svgbase.go), also made with encoding/xml only
//   MASK := ~ | + n (id value)^n
//   ROT  := n (token fmt fmt90 zero90:01)^n     fmt.Sprintf("%03f") of every rotation token of T, and of value+90
//   OUT  := PR nil strEmpty:01 args:01 again:01 | PR doc strEmpty:01 kept:01 kept2:01 keptMod:01 wellformed:01 tail:01 args:01 again:01 n NODE^n
//   PR   := err | noroot | root                 what the real xmldom.ParseXML(base) returned
//   NODE := name:hex nA (key:hex value:hex)^nA text:hex printed:hex            printed = node.XML()
//
//   svg.esc s:hex | printed:hex      (&xmldom.Node{Name:"text", Attributes:{style: s}, Text: s}).XML(): the printer on any bytes
//
// kept  = the base's root attributes and own children are unchanged in the result tree (xmldom tree against xmldom tree).
// kept2 = independent of xmldom: the encoding/xml RawToken stream of the base (start elements with prefix:name and all
//         attributes in order, end elements, non-blank character data (trimmed; CDATA sections arrive as character data),
//         comments, processing instructions, directives) is, in order, a subsequence of the token stream of doc.XML()
//         and of doc.XMLPretty().
// keptMod = "kept modulo the named lossy features" (normalForm below, encoding/xml only): base and printed document are
//         compared after deleting from BOTH exactly what the known findings cover - comments; name prefixes; every processing
//         instruction when the base has one that is not its first token; non-blank character data that is not the last thing
//         in its element.  What is left of the base must be, in order, within what is left of doc.XML() and of doc.XMLPretty().
//         A loss on a base WITH such a feature that the feature does not explain shows here (kept2 is 0 on such a base anyway).
// args  = after every call of the library in this record the availability map equals a deep copy taken before the first call
//         (the only argument a callee can modify: the others are strings and booleans)
// again = calling again with the SAME argument objects gives the same document (GenerateCompositeSVGdoc twice: both nil or
//         the same doc.XML(); the first document still prints the same after the second call), and the string wrapper
//         GenerateCompositeSVG returns XMLPretty() of the document for the default render switches ("" for nil)
//
//   svg.seq MASK k (showLabels showHWCID showType showDisplaySize base:hex kinds:hex endOk:01 FEAT TOKS ROT T)^k  |  OUT (; OUT)^(k-1)
//         k calls as in svg.gen that share ONE availability map object (built once from MASK) and ONE Topology object into
//         which each T is assigned in place and whose ToJSON() is the topology argument: the same (topology, map) before and
//         after other topologies were rendered; every call is judged like a svg.gen record.
// wellformed = both printed documents tokenize to EOF with matching tags (Decoder.Token), have exactly one root element,
//         no character data outside it and no start element with the same attribute name twice.
// tail  = doc.XML() / doc.XMLPretty() end with the node.XML() texts of the appended elements (indented, one per line,
//         in the pretty form), then the root's text (no '<') and the root's end tag.

import (
	"bytes"
	"encoding/xml"
	"fmt"
	"io"
	"sort"
	"strconv"
	"strings"

	"github.com/SKAARHOJ/rawpanel-lib/topology"
	xmldom "github.com/subchen/go-xmldom"
)

// tokenKinds: the independent judgement on a base document (same decoder settings as xmldom.Parse: xml.NewDecoder + Token)
func tokenKinds(s string) (string, bool) {
	d := xml.NewDecoder(strings.NewReader(s))
	var sb strings.Builder
	for {
		t, err := d.Token()
		if err == io.EOF {
			return sb.String(), true
		}
		if err != nil {
			return sb.String(), false
		}
		switch x := t.(type) {
		case xml.StartElement:
			sb.WriteByte('S')
		case xml.EndElement:
			sb.WriteByte('E')
		case xml.CharData:
			if len(bytes.TrimSpace(x)) == 0 {
				sb.WriteByte('W')
			} else {
				sb.WriteByte('C')
			}
		case xml.Comment:
			sb.WriteByte('M')
		case xml.ProcInst:
			sb.WriteByte('P')
		case xml.Directive:
			sb.WriteByte('D')
		}
	}
}

// rawTokens: the content of a document as encoding/xml sees it, names with their prefixes, blank text dropped
func rawTokens(s string) ([]string, bool) {
	d := xml.NewDecoder(strings.NewReader(s))
	var out []string
	for {
		t, err := d.RawToken()
		if err == io.EOF {
			return out, true
		}
		if err != nil {
			return out, false
		}
		switch x := t.(type) {
		case xml.StartElement:
			var sb strings.Builder
			sb.WriteString("S " + x.Name.Space + ":" + x.Name.Local)
			for _, a := range x.Attr {
				sb.WriteString(" " + a.Name.Space + ":" + a.Name.Local + "=" + strconv.Quote(a.Value))
			}
			out = append(out, sb.String())
		case xml.EndElement:
			out = append(out, "E "+x.Name.Space+":"+x.Name.Local)
		case xml.CharData:
			if tr := bytes.TrimSpace(x); len(tr) > 0 {
				out = append(out, "C "+strconv.Quote(string(tr)))
			}
		case xml.Comment:
			out = append(out, "M "+strconv.Quote(string(x)))
		case xml.ProcInst:
			out = append(out, "P "+x.Target+" "+strconv.Quote(string(bytes.TrimSpace(x.Inst))))
		case xml.Directive:
			out = append(out, "D "+strconv.Quote(string(x)))
		}
	}
}

func isSubsequence(a, b []string) bool {
	i := 0
	for _, x := range b {
		if i < len(a) && a[i] == x {
			i++
		}
	}
	return i == len(a)
}

// keptTokens: the base's token stream is contained, in order, in the printed document's
func keptTokens(base, printed string) bool {
	bt, ok1 := rawTokens(base)
	pt, ok2 := rawTokens(printed)
	return ok1 && ok2 && isSubsequence(bt, pt)
}

// wellFormedDoc: tokenizes with matching tags, one root, nothing but blanks / comments / PIs / directives outside it,
// no attribute name twice in a start tag
func wellFormedDoc(s string) bool {
	d := xml.NewDecoder(strings.NewReader(s))
	depth, roots := 0, 0
	for {
		t, err := d.Token()
		if err == io.EOF {
			break
		}
		if err != nil {
			return false
		}
		switch x := t.(type) {
		case xml.StartElement:
			if depth == 0 {
				roots++
			}
			depth++
		case xml.EndElement:
			depth--
		case xml.CharData:
			if depth == 0 && len(bytes.TrimSpace(x)) > 0 {
				return false
			}
		}
	}
	if roots != 1 || depth != 0 {
		return false
	}
	r := xml.NewDecoder(strings.NewReader(s))
	for {
		t, err := r.RawToken()
		if err != nil {
			return err == io.EOF
		}
		if x, ok := t.(xml.StartElement); ok {
			seen := map[string]bool{}
			for _, a := range x.Attr {
				k := a.Name.Space + ":" + a.Name.Local
				if seen[k] {
					return false
				}
				seen[k] = true
			}
		}
	}
}

// printedTail: `printed` = … + appended + root-text + "</root>" (+ "\n" in the pretty form), where root-text is what the
// printer wrote for the root's own text: it contains no '<', '>' or line break (all escaped)
func printedTail(printed, rootName, appended string, pretty bool) bool {
	if appended == "" {
		return true
	}
	end := "</" + rootName + ">"
	cut := byte('>')
	if pretty {
		end += "\n"
		cut = '\n'
	}
	if !strings.HasSuffix(printed, end) {
		return false
	}
	s := strings.TrimSuffix(printed, end)
	if k := strings.LastIndexByte(s, cut); k >= 0 {
		s = s[:k+1] // drop the root's text
	}
	return strings.HasSuffix(s, appended)
}

func dumpNode(sb *strings.Builder, n *xmldom.Node) {
	sb.WriteString(n.Name)
	sb.WriteByte('(')
	for _, a := range n.Attributes {
		sb.WriteString(strconv.Quote(a.Name) + "=" + strconv.Quote(a.Value) + ",")
	}
	sb.WriteString(")" + strconv.Quote(n.Text) + "[")
	for _, c := range n.Children {
		dumpNode(sb, c)
	}
	sb.WriteByte(']')
}

func dumpBasePart(root *xmldom.Node, nChildren int) string {
	var sb strings.Builder
	sb.WriteString(root.Name + "(")
	for _, a := range root.Attributes {
		sb.WriteString(strconv.Quote(a.Name) + "=" + strconv.Quote(a.Value) + ",")
	}
	sb.WriteString(")" + strconv.Quote(root.Text) + "[")
	for i := 0; i < nChildren && i < len(root.Children); i++ {
		dumpNode(&sb, root.Children[i])
	}
	sb.WriteByte(']')
	return sb.String()
}

func encXMLNode(n *xmldom.Node) []string {
	o := []string{hx([]byte(n.Name)), itoa(len(n.Attributes))}
	for _, a := range n.Attributes {
		o = append(o, hx([]byte(a.Name)), hx([]byte(a.Value)))
	}
	return append(o, hx([]byte(n.Text)), hx([]byte(n.XML())))
}

func decBase(r *tokReader) string {
	base := r.str()
	// the token summary is input for model and Spec; it must be the one encoding/xml gives for this base
	for _, want := range baseSummary(base) {
		if r.next() != want {
			panic("bad record: token summary does not belong to the base document")
		}
	}
	return base
}

func decMask(r *tokReader) map[uint32]uint32 {
	switch r.next() {
	case "~":
		return nil
	case "+":
		m := map[uint32]uint32{}
		n := r.int()
		for i := 0; i < n; i++ {
			k := r.u32()
			m[k] = r.u32()
		}
		return m
	}
	panic("bad mask marker")
}

func skipRot(r *tokReader) {
	nr := r.int()
	for i := 0; i < 4*nr; i++ {
		r.next()
	}
}

func sameMap(a, b map[uint32]uint32) bool {
	if (a == nil) != (b == nil) || len(a) != len(b) {
		return false
	}
	for k, v := range a {
		if w, ok := b[k]; !ok || w != v {
			return false
		}
	}
	return true
}

// normalForm: the token stream of a document (RawToken) after deleting what the known lossy features cover.
// Written from the feature definitions (Spec/SvgBaseSpec.lean, header of svgbase.go), with encoding/xml only.
func normalForm(doc string, dropPI bool) ([]string, bool) {
	type nt struct {
		kind byte // S E C (non-blank text) W (blank text) P D
		s    string
	}
	d := xml.NewDecoder(strings.NewReader(doc))
	var raw []nt
	for {
		t, err := d.RawToken()
		if err == io.EOF {
			break
		}
		if err != nil {
			return nil, false
		}
		switch x := t.(type) {
		case xml.StartElement:
			var sb strings.Builder
			sb.WriteString("S " + x.Name.Local) // ns-prefix: the prefix is not compared
			for _, a := range x.Attr {
				sb.WriteString(" " + a.Name.Local + "=" + strconv.Quote(a.Value))
			}
			raw = append(raw, nt{'S', sb.String()})
		case xml.EndElement:
			raw = append(raw, nt{'E', "E " + x.Name.Local})
		case xml.CharData:
			if tr := bytes.TrimSpace(x); len(tr) > 0 {
				raw = append(raw, nt{'C', "C " + strconv.Quote(string(tr))})
			} else {
				raw = append(raw, nt{'W', ""})
			}
		case xml.Comment: // comment: not compared
		case xml.ProcInst:
			if !dropPI { // pi: none is compared when the base has one that is not its first token
				raw = append(raw, nt{'P', "P " + x.Target + " " + strconv.Quote(string(bytes.TrimSpace(x.Inst)))})
			}
		case xml.Directive:
			raw = append(raw, nt{'D', "D " + strconv.Quote(string(x))})
		}
	}
	var out []string
	for i, t := range raw {
		if t.kind == 'W' {
			continue
		}
		if t.kind == 'C' {
			// mixed-text: character data whose next start tag / end tag / character data is not an end tag is not compared
			next := byte(0)
			for _, u := range raw[i+1:] {
				if u.kind == 'S' || u.kind == 'E' || u.kind == 'C' || u.kind == 'W' {
					next = u.kind
					break
				}
			}
			if next != 'E' {
				continue
			}
		}
		out = append(out, t.s)
	}
	return out, true
}

// piNotFirst: the document has a processing instruction that is not its first non-blank token
func piNotFirst(doc string) bool {
	d := xml.NewDecoder(strings.NewReader(doc))
	first := true
	for {
		t, err := d.RawToken()
		if err != nil {
			return false
		}
		switch x := t.(type) {
		case xml.ProcInst:
			if !first {
				return true
			}
		case xml.CharData:
			if len(bytes.TrimSpace(x)) == 0 {
				continue
			}
		}
		first = false
	}
}

func keptModulo(base, printed string) bool {
	dropPI := piNotFirst(base)
	bt, ok1 := normalForm(base, dropPI)
	pt, ok2 := normalForm(printed, dropPI)
	return ok1 && ok2 && isSubsequence(bt, pt)
}

// svgCall: the library on one set of arguments (theMap is the caller's object, possibly used before), everything observed
func svgCall(o [4]bool, base string, theMap map[uint32]uint32, topoJSON string) []string {
	var mapBefore map[uint32]uint32
	if theMap != nil {
		mapBefore = map[uint32]uint32{}
		for k, v := range theMap {
			mapBefore[k] = v
		}
	}
	argsKept := true
	var doc, doc2, docDef *xmldom.Document
	var str string
	quietly(func() {
		doc = topology.GenerateCompositeSVGdoc(topoJSON, base, theMap, o[0], o[1], o[2], o[3])
	})
	argsKept = argsKept && sameMap(theMap, mapBefore)
	first := ""
	if doc != nil {
		first = doc.XML()
	}
	quietly(func() {
		doc2 = topology.GenerateCompositeSVGdoc(topoJSON, base, theMap, o[0], o[1], o[2], o[3])
	})
	argsKept = argsKept && sameMap(theMap, mapBefore)
	again := (doc == nil) == (doc2 == nil)
	if doc != nil && doc2 != nil {
		again = doc2.XML() == first && doc.XML() == first
	}
	quietly(func() {
		str = topology.GenerateCompositeSVG(topoJSON, base, theMap)
	})
	argsKept = argsKept && sameMap(theMap, mapBefore)
	quietly(func() {
		docDef = topology.GenerateCompositeSVGdoc(topoJSON, base, theMap, true, true, false, false)
	})
	argsKept = argsKept && sameMap(theMap, mapBefore)
	if docDef == nil {
		again = again && str == ""
	} else {
		again = again && str == docDef.XMLPretty()
	}
	if doc != nil {
		again = again && doc.XML() == first
	}
	// the outcome of the real parser on the base
	pr := "err"
	var before *xmldom.Document
	quietly(func() {
		if d, err := xmldom.ParseXML(base); err == nil {
			before = d
			pr = "noroot"
			if d.Root != nil {
				pr = "root"
			}
		}
	})
	if doc == nil {
		return []string{pr, "nil", b01(str == ""), b01(argsKept), b01(again)}
	}
	nBase := 0
	kept := false
	if before != nil && before.Root != nil {
		nBase = len(before.Root.Children)
		kept = dumpBasePart(before.Root, nBase) == dumpBasePart(doc.Root, nBase) && len(doc.Root.Children) >= nBase
	}
	compact, pretty := doc.XML(), doc.XMLPretty()
	kept2 := keptTokens(base, compact) && keptTokens(base, pretty)
	keptMod := keptModulo(base, compact) && keptModulo(base, pretty)
	wf := wellFormedDoc(compact) && wellFormedDoc(pretty)
	var ac, ap strings.Builder
	for _, c := range doc.Root.Children[nBase:] {
		ac.WriteString(c.XML())
		ap.WriteString("  " + c.XML() + "\n")
	}
	tail := printedTail(compact, doc.Root.Name, ac.String(), false) && printedTail(pretty, doc.Root.Name, ap.String(), true)
	res := []string{pr, "doc", b01(str == ""), b01(kept), b01(kept2), b01(keptMod), b01(wf), b01(tail), b01(argsKept), b01(again),
		itoa(len(doc.Root.Children) - nBase)}
	for _, c := range doc.Root.Children[nBase:] {
		res = append(res, encXMLNode(c)...)
	}
	return res
}

type svgExec struct{}

func (e *svgExec) Exec(cmd string, a []string) string {
	a = stripTags(a)
	var res []string
	p := guarded(func() {
		if cmd == "svg.esc" {
			r := &tokReader{t: a}
			s := r.str()
			n := &xmldom.Node{Name: "text", Text: s}
			n.SetAttributeValue("style", s)
			res = []string{hx([]byte(n.XML()))}
			return
		}
		if cmd == "svg.seq" {
			r := &tokReader{t: a}
			theMap := decMask(r)
			k := r.int()
			top := &topology.Topology{}
			for i := 0; i < k; i++ {
				o := [4]bool{r.next() == "1", r.next() == "1", r.next() == "1", r.next() == "1"}
				base := decBase(r)
				skipRot(r)
				assignTopo(top, decTopo(r), true)
				if i > 0 {
					res = append(res, ";")
				}
				res = append(res, svgCall(o, base, theMap, top.ToJSON())...)
			}
			return
		}
		if cmd != "svg.gen" {
			panic("unknown record " + cmd)
		}
		r := &tokReader{t: a}
		o := [4]bool{r.next() == "1", r.next() == "1", r.next() == "1", r.next() == "1"}
		base := decBase(r)
		theMap := decMask(r)
		skipRot(r)
		top := decTopo(r)
		res = svgCall(o, base, theMap, top.ToJSON())
	})
	if p != "" {
		return p
	}
	return strings.Join(res, " ")
}

// base documents of the generator.  On every VALID one (the first validBases entries) the unchanged library keeps the
// whole content (kept2).  Valid documents on which it does NOT are in lossyBases / rejectedBases (known findings) and
// come out of the grammar (svgbase.go); every record carries the lossy-feature flags of its base (FEAT).
var baseSVGs = []string{
	`<svg></svg>`,
	`<svg xmlns="http://www.w3.org/2000/svg" viewBox="0 0 3000 2000" width="100%"></svg>`,
	`<?xml version="1.0" encoding="UTF-8"?>` + "\n" + `<svg viewBox="0 0 10 10"><g id="a"><rect x="1" y="2" width="3" height="4"/><g><circle r="1"/></g></g><text x="5">Hi &amp; &lt;there&gt;</text></svg>`,
	"<svg\n   viewBox=\"0 0 1200\n 800\"\n   style=\"fill:none;\n stroke:#000\"\n>\n  <path\n     d=\"M 0 0\n L 10 10\"\n     id=\"p1\" />\n</svg>\n",
	`<svg><rect id="HWc1" x="0" y="0"/></svg>`,
	`<svg><defs><style>.a{fill:red}</style></defs><rect class="a"/></svg>`,
	// CDATA (arrives as character data), character references, quotes and control characters in attribute values,
	// DOCTYPE with an internal subset, attribute order, text directly in the root, standalone declaration, self-closing root
	`<svg><style><![CDATA[ a > b { fill: red } ]]></style><text>&#169; &#x3c;&quot;&apos;</text></svg>`,
	`<!DOCTYPE svg PUBLIC "-//W3C//DTD SVG 1.1//EN" "http://www.w3.org/Graphics/SVG/1.1/DTD/svg11.dtd">` + "\n" + `<svg b="1" a='x"y' c="t&#9;u&#10;v"><g><g></g></g></svg>`,
	`<?xml version="1.0" encoding="utf-8" standalone="no"?><!DOCTYPE svg [<!ENTITY e "v">]><svg>root text</svg>`,
	`<svg/>`,
	// ---- invalid (index validBases and up) ----
	``,
	`   `,
	`<svg>`,
	`<svg></g>`,
	`not xml at all`,
	`<svg><a></svg>`,
	`<!-- only a comment -->`,
	`<svg attr=unquoted></svg>`,
	`<svg></svg><extra`,
	// no start element at all: xmldom.ParseXML returns err == nil and Root == nil
	`<?xml version="1.0"?>`,
	`<?xml version="1.0"?>` + "\n",
	"\n",
	`<!-- c -->`,
	`<!-- a --><!-- b -->`,
	`<?xml version="1.0"?><!-- c -->`,
	`<!DOCTYPE svg>`,
	// tokenizes to a start element and then fails
	`<svg><text>&nbsp;</text></svg>`,
}

const validBases = 10

// Valid base documents on which the UNCHANGED library loses or reorders base content (kept2 = 0) or prints a document
// that is not well-formed: the xmldom parse/print round trip.  Known findings (known_findings.json, C15.*); the model
// (Model/XmldomBase.lean) says what the code does on them, the Spec says the property is false.
var lossyBases = []string{
	`<svg><!-- c --></svg>`,                              // comment inside the root dropped
	`<!-- c --><svg/>`,                                   // comment before the root dropped
	`<svg/><!-- c -->`,                                   // comment after the root dropped
	`<svg><text>a<tspan>b</tspan>c</text></svg>`,         // mixed content: "a" lost
	`<svg><text>a<tspan>b</tspan></text></svg>`,          // mixed content: "a" moved behind the child
	`<svg>t<rect/></svg>`,                                // root text moved behind the children
	`<svg xmlns:xlink="http://www.w3.org/1999/xlink"><use xlink:href="#a"/></svg>`, // prefixes stripped: xlink="…", href="#a"
	`<svg><image href="a.png" xlink:href="a.png"/></svg>`, // prefixes stripped: attribute href twice, not well-formed
	`<svg><text xml:space="preserve"> a </text></svg>`,   // xml:space -> space, blanks trimmed
	`<s:svg xmlns:s="http://www.w3.org/2000/svg"><s:rect/></s:svg>`, // element prefixes stripped
	`<svg><?foo bar?></svg>`,                             // PI moved in front of the root
	`<?xml version="1.0"?><?xml-stylesheet href="s.css"?><svg/>`, // only the last PI is kept: XML declaration lost
	// further shapes of the same classes
	`<svg><text>a<![CDATA[b]]></text></svg>`,             // text and a CDATA section: two tokens, the first is lost
	`<svg><text>a<!-- c -->b</text></svg>`,               // a comment splits the text: "a" and the comment lost
	"<svg><text>a<tspan/>\n</text></svg>",                // text before a child, blanks after it: "a" lost
	`<svg><g a:x="1" b:x="2"/></svg>`,                    // two prefixed attributes with one local name: x twice
	`<svg/><?foo bar?>`,                                  // PI after the root moved in front of it
	`<!DOCTYPE svg><?foo bar?><svg/>`,                    // PI after the DOCTYPE moved in front of it
	`<svg xmlns:xlink="http://www.w3.org/1999/xlink" xlink:href="#a" href="#b"/>`, // duplicate attribute on the root
}

// Valid documents that encoding/xml (hence xmldom.ParseXML) rejects: the result is empty
var rejectedBases = []string{
	`<?xml version="1.0" encoding="ISO-8859-1"?><svg/>`,
	`<?xml version="1.1"?><svg/>`,
	`<!DOCTYPE svg [<!ENTITY e "v">]><svg><text>&e;</text></svg>`,
	"<?xml version='1.0' encoding='iso-8859-1'?>\n<svg><text>\xe6</text></svg>",
	`<?xml version="1.0" encoding="US-ASCII" standalone="yes"?><svg><g/></svg>`,
	`<?xml version="1.1" encoding="UTF-8"?>` + "\n" + `<svg viewBox="0 0 1 1"><rect/></svg>`,
	`<?xml version="1.0"?><!DOCTYPE svg [<!ENTITY col "#f00"> <!ENTITY w "10">]><svg><rect fill="&col;" width="&w;"/></svg>`,
}

func rotTable(t *topology.Topology) []string {
	seen := map[string]float32{}
	add := func(td *topology.TopologyHWcTypeDef) {
		if td != nil {
			seen[rotTok(td.Rotate)] = td.Rotate
		}
	}
	for k := range t.TypeIndex {
		td := t.TypeIndex[k]
		add(&td)
	}
	for i := range t.HWc {
		add(t.HWc[i].TypeOverride)
	}
	seen["0"] = 0
	keys := []string{}
	for k := range seen {
		keys = append(keys, k)
	}
	sort.Strings(keys)
	o := []string{itoa(len(keys))}
	for _, k := range keys {
		f := seen[k]
		o = append(o, k, fmt.Sprintf("%03f", f), fmt.Sprintf("%03f", f+90), b01(f+90 == 0))
	}
	return o
}

func genC15(r *Rng, sessions int, tier string) {
	g := &topoGen{r: r}
	for i := 0; i < sessions; i++ {
		t := g.topology(false)
		// labels: none, one line, two lines, empty second line, three parts
		for k := range t.HWc {
			switch r.Intn(7) {
			case 0:
				t.HWc[k].Txt = ""
			case 1:
				t.HWc[k].Txt = g.text(6) + "|" + g.text(6)
			case 2:
				t.HWc[k].Txt = g.text(5) + "|"
			case 3:
				t.HWc[k].Txt = "|" + g.text(5)
			case 4:
				t.HWc[k].Txt = g.text(3) + "|" + g.text(3) + "|" + g.text(3)
			}
		}
		// styles of sub elements and display type texts with characters the printer must escape or replace
		tks := []uint32{}
		for k := range t.TypeIndex {
			tks = append(tks, k)
		}
		sort.Slice(tks, func(i, j int) bool { return tks[i] < tks[j] }) // (map order must not reach the Rng)
		for _, k := range tks {
			sub := t.TypeIndex[k].Sub
			for si := range sub {
				if r.Chance(25) {
					sub[si].Style = svgText(r, 8, false)
				}
			}
		}
		// the printer alone, on arbitrary bytes (invalid UTF-8, control bytes, non-characters, everything escaped)
		if r.Chance(30) {
			emitS("svg.esc", []string{hx([]byte(svgText(r, 10, true)))})
		}
		nvariants := 2
		for v := 0; v < nvariants; v++ {
			o := g.svgOpts()
			base := g.svgBase()
			args := []string{b01(o[0]), b01(o[1]), b01(o[2]), b01(o[3]), hx([]byte(base))}
			args = append(args, baseSummary(base)...)
			args = append(args, g.svgMask(t)...)
			args = append(args, rotTable(t)...)
			toks := encTopo(t)
			args = append(args, toks...)
			args = append(args, fingerprint(toks))
			emitS("svg.gen", args)
		}
		// the same availability map OBJECT and the same Topology object through several renderings: (T, base) first, then
		// one or two changed topologies (as a caller edits them through the exported fields) and / or other base documents,
		// then (T, base) again.  (Base documents without a lossy feature only: the known findings are classified on svg.gen records.)
		if r.Chance(35) {
			o := g.svgOpts()
			base := g.svgBasePlain()
			call := func(o []bool, base string, t *topology.Topology) []string {
				a := []string{b01(o[0]), b01(o[1]), b01(o[2]), b01(o[3]), hx([]byte(base))}
				a = append(a, baseSummary(base)...)
				a = append(a, rotTable(t)...)
				return append(a, encTopo(t)...)
			}
			calls := [][]string{call(o, base, t)}
			cur := t
			for n := r.Range(1, 2); n > 0; n-- {
				cur = g.mutate(cur)
				b2, o2 := base, o
				if r.Chance(40) {
					b2 = g.svgBasePlain()
				}
				if r.Chance(30) {
					o2 = g.svgOpts()
				}
				calls = append(calls, call(o2, b2, cur))
			}
			calls = append(calls, call(o, base, t))
			args := append(g.svgMask(t), itoa(len(calls)))
			for _, c := range calls {
				args = append(args, c...)
			}
			args = append(args, fingerprint(args))
			emitS("svg.seq", args)
		}
	}
}

func (g *topoGen) svgOpts() []bool {
	r := g.r
	if r.Chance(40) {
		return []bool{r.Bool(), r.Bool(), r.Bool(), r.Bool()}
	}
	return []bool{true, true, false, false}
}

func (g *topoGen) svgBase() string {
	r := g.r
	switch k := r.Intn(100); {
	case k < 30:
		return baseSVGs[r.Intn(validBases)]
	case k < 45:
		return baseSVGs[r.Intn(len(baseSVGs))]
	case k < 57:
		return lossyBases[r.Intn(len(lossyBases))]
	case k < 62:
		return rejectedBases[r.Intn(len(rejectedBases))]
	}
	return grammarBase(r)
}

// svgBasePlain: a base document (valid or not) that has none of the features under which failures are known findings
func (g *topoGen) svgBasePlain() string {
	for {
		if b := g.svgBase(); baseSummary(b)[2] == "F:-" {
			return b
		}
	}
}

// availability map: nil, empty, all available, all masked, random subset (values 0 / non-zero), foreign ids
func (g *topoGen) svgMask(t *topology.Topology) []string {
	r := g.r
	switch r.Intn(6) {
	case 0, 1:
		return []string{"~"}
	case 2:
		return []string{"+", "0"}
	}
	ids := []uint32{}
	seen := map[uint32]bool{}
	for _, c := range t.HWc {
		if !seen[c.Id] && r.Chance(85) {
			seen[c.Id] = true
			ids = append(ids, c.Id)
		}
	}
	if r.Chance(30) {
		x := uint32(r.Range(20, 30))
		if !seen[x] {
			ids = append(ids, x)
		}
	}
	sort.Slice(ids, func(i, j int) bool { return ids[i] < ids[j] })
	mode := r.Intn(3)
	args := []string{"+", itoa(len(ids))}
	for _, id := range ids {
		v := uint32(0)
		if mode == 0 || (mode == 2 && r.Bool()) {
			v = uint32(r.Pick(1, 1, 2, 255, 4294967295))
		}
		args = append(args, utoa(id), utoa(v))
	}
	return args
}

// svgText: text for the printer: ASCII incl. everything escaped, control bytes, valid multi-byte runes incl. the
// boundaries of the XML character range, and (for svg.esc only reachable undamaged) invalid UTF-8
func svgText(r *Rng, max int, invalid bool) string {
	n := r.Intn(max + 1)
	var sb strings.Builder
	for i := 0; i < n; i++ {
		switch r.Intn(8) {
		case 0:
			sb.WriteByte(byte(r.Pick('"', '\'', '&', '<', '>', '\t', '\n', '\r', ']', ';', '#')))
		case 1:
			sb.WriteByte(byte(r.Pick(0, 1, 8, 11, 12, 14, 31, 127)))
		case 2:
			sb.WriteString(string(rune(r.Pick(0x80, 0xe6, 0x7ff, 0x800, 0xd7ff, 0xe000, 0xfffd, 0xfffe, 0xffff, 0x10000, 0x1f600, 0x10ffff))))
		case 3:
			if !invalid { // (strings of the topology pass through JSON, which replaces invalid UTF-8)
				sb.WriteByte(byte(r.Range(32, 126)))
				continue
			}
			// invalid: stray continuation, overlong, surrogate, truncated, > U+10FFFF, 0xFE/0xFF
			bad := []string{"\x80", "\xbf", "\xc0\xaf", "\xc1\xbf", "\xe0\x80\xaf", "\xe0\x9f\xbf", "\xed\xa0\x80", "\xed\xbf\xbf", "\xc3", "\xe2\x82",
				"\xf0\x9f\x98", "\xf0\x8f\xbf\xbf", "\xf4\x90\x80\x80", "\xf5\x80\x80\x80", "\xfe", "\xff", "\xef\xbf", "\xe2\x28\xa1"}
			sb.WriteString(bad[r.Intn(len(bad))])
		default:
			sb.WriteByte(byte(r.Range(32, 126)))
		}
	}
	return sb.String()
}

func init() {
	// (the library logs XML syntax errors through env_logger: logsetup.go sends that to stderr)
	registerExecutor("svg", &svgExec{})
	registerFamily("c15", genC15)
}
