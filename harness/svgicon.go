package main

// svg.* records: C15 (topology/svgicon.go GenerateCompositeSVGdoc / GenerateCompositeSVG).
//
//   svg.gen showLabels showHWCID showType showDisplaySize base:hex baseOk:01 MASK ROT T  |  OUT
//   MASK := ~ | + n (id value)^n
//   ROT  := n (token fmt fmt90 zero90:01)^n     fmt.Sprintf("%03f") of every rotation token of T, and of value+90
//   OUT  := nil strEmpty:01 | doc strEmpty:01 kept:01 wellformed:01 n NODE^n
//   NODE := name:hex nA (key:hex value:hex)^nA text:hex
// baseOk is the harness's own judgement (encoding/xml reads the base to EOF and sees an element); kept = the base's
// root attributes and own children are unchanged in the result; wellformed = the printed document re-parses.

import (
	"encoding/xml"
	"fmt"
	"io"
	"sort"
	"strconv"
	"strings"

	"github.com/SKAARHOJ/rawpanel-lib/topology"
	xmldom "github.com/subchen/go-xmldom"
)

func xmlOK(s string) bool {
	d := xml.NewDecoder(strings.NewReader(s))
	seen := false
	for {
		t, err := d.Token()
		if err == io.EOF {
			return seen
		}
		if err != nil {
			return false
		}
		if _, ok := t.(xml.StartElement); ok {
			seen = true
		}
	}
}

func dumpNode(sb *strings.Builder, n *xmldom.Node) {
	sb.WriteString(n.Name)
	sb.WriteByte('(')
	for _, a := range n.Attributes {
		sb.WriteString(strconv.Quote(a.Name) + "=" + strconv.Quote(a.Value) + ",")
	}
	sb.WriteString(")" + strconv.Quote(n.Text) + "[")
	for _, c := range n.Children {
		dumpNode(sb, c)
	}
	sb.WriteByte(']')
}

func dumpBasePart(root *xmldom.Node, nChildren int) string {
	var sb strings.Builder
	sb.WriteString(root.Name + "(")
	for _, a := range root.Attributes {
		sb.WriteString(strconv.Quote(a.Name) + "=" + strconv.Quote(a.Value) + ",")
	}
	sb.WriteString(")" + strconv.Quote(root.Text) + "[")
	for i := 0; i < nChildren && i < len(root.Children); i++ {
		dumpNode(&sb, root.Children[i])
	}
	sb.WriteByte(']')
	return sb.String()
}

func encXMLNode(n *xmldom.Node) []string {
	o := []string{hx([]byte(n.Name)), itoa(len(n.Attributes))}
	for _, a := range n.Attributes {
		o = append(o, hx([]byte(a.Name)), hx([]byte(a.Value)))
	}
	return append(o, hx([]byte(n.Text)))
}

type svgExec struct{}

func (e *svgExec) Exec(cmd string, a []string) string {
	a = stripTags(a)
	var res []string
	p := guarded(func() {
		if cmd != "svg.gen" {
			panic("unknown record " + cmd)
		}
		r := &tokReader{t: a}
		o1, o2, o3, o4 := r.next() == "1", r.next() == "1", r.next() == "1", r.next() == "1"
		base := r.str()
		r.next() // baseOk: input for the model only
		var theMap map[uint32]uint32
		switch r.next() {
		case "~":
		case "+":
			theMap = map[uint32]uint32{}
			n := r.int()
			for i := 0; i < n; i++ {
				k := r.u32()
				theMap[k] = r.u32()
			}
		default:
			panic("bad mask marker")
		}
		nr := r.int()
		for i := 0; i < nr; i++ {
			r.next()
			r.next()
			r.next()
			r.next()
		}
		top := decTopo(r)
		topoJSON := top.ToJSON()
		var doc *xmldom.Document
		var str string
		quietly(func() {
			doc = topology.GenerateCompositeSVGdoc(topoJSON, base, theMap, o1, o2, o3, o4)
			str = topology.GenerateCompositeSVG(topoJSON, base, theMap)
		})
		if doc == nil {
			res = []string{"nil", b01(str == "")}
			return
		}
		nBase := 0
		kept := false
		if before, err := xmldom.ParseXML(base); err == nil && before.Root != nil {
			nBase = len(before.Root.Children)
			kept = dumpBasePart(before.Root, nBase) == dumpBasePart(doc.Root, nBase) && len(doc.Root.Children) >= nBase
		}
		wf := xmlOK(doc.XMLPretty()) && xmlOK(doc.XML())
		res = []string{"doc", b01(str == ""), b01(kept), b01(wf), itoa(len(doc.Root.Children) - nBase)}
		for _, c := range doc.Root.Children[nBase:] {
			res = append(res, encXMLNode(c)...)
		}
	})
	if p != "" {
		return p
	}
	return strings.Join(res, " ")
}

var baseSVGs = []string{
	`<svg></svg>`,
	`<svg xmlns="http://www.w3.org/2000/svg" viewBox="0 0 3000 2000" width="100%"></svg>`,
	`<?xml version="1.0" encoding="UTF-8"?>` + "\n" + `<svg viewBox="0 0 10 10"><g id="a"><rect x="1" y="2" width="3" height="4"/><g><circle r="1"/></g></g><text x="5">Hi &amp; &lt;there&gt;</text></svg>`,
	"<svg\n   viewBox=\"0 0 1200\n 800\"\n   style=\"fill:none;\n stroke:#000\"\n>\n  <path\n     d=\"M 0 0\n L 10 10\"\n     id=\"p1\" />\n</svg>\n",
	`<!-- panel --><svg><!-- inner --><rect id="HWc1" x="0" y="0"/></svg>`,
	`<svg><defs><style>.a{fill:red}</style></defs><rect class="a"/></svg>`,
	``,
	`   `,
	`<svg>`,
	`<svg></g>`,
	`not xml at all`,
	`<svg><a></svg>`,
	`<!-- only a comment -->`,
	`<svg attr=unquoted></svg>`,
	`<svg></svg><extra`,
}

func rotTable(t *topology.Topology) []string {
	seen := map[string]float32{}
	add := func(td *topology.TopologyHWcTypeDef) {
		if td != nil {
			seen[rotTok(td.Rotate)] = td.Rotate
		}
	}
	for k := range t.TypeIndex {
		td := t.TypeIndex[k]
		add(&td)
	}
	for i := range t.HWc {
		add(t.HWc[i].TypeOverride)
	}
	seen["0"] = 0
	keys := []string{}
	for k := range seen {
		keys = append(keys, k)
	}
	sort.Strings(keys)
	o := []string{itoa(len(keys))}
	for _, k := range keys {
		f := seen[k]
		o = append(o, k, fmt.Sprintf("%03f", f), fmt.Sprintf("%03f", f+90), b01(f+90 == 0))
	}
	return o
}

func genC15(r *Rng, sessions int, tier string) {
	g := &topoGen{r: r}
	for i := 0; i < sessions; i++ {
		t := g.topology(false)
		// labels: none, one line, two lines, empty second line, three parts
		for k := range t.HWc {
			switch r.Intn(7) {
			case 0:
				t.HWc[k].Txt = ""
			case 1:
				t.HWc[k].Txt = g.text(6) + "|" + g.text(6)
			case 2:
				t.HWc[k].Txt = g.text(5) + "|"
			case 3:
				t.HWc[k].Txt = "|" + g.text(5)
			case 4:
				t.HWc[k].Txt = g.text(3) + "|" + g.text(3) + "|" + g.text(3)
			}
		}
		nvariants := 2
		for v := 0; v < nvariants; v++ {
			o := []bool{true, true, false, false}
			if r.Chance(40) {
				o = []bool{r.Bool(), r.Bool(), r.Bool(), r.Bool()}
			}
			var base string
			if r.Chance(75) {
				base = baseSVGs[r.Intn(6)]
			} else {
				base = baseSVGs[r.Intn(len(baseSVGs))]
			}
			args := []string{b01(o[0]), b01(o[1]), b01(o[2]), b01(o[3]), hx([]byte(base)), b01(xmlOK(base))}
			// availability map: nil, empty, all available, all masked, random subset (values 0 / non-zero), foreign ids
			switch r.Intn(6) {
			case 0, 1:
				args = append(args, "~")
			case 2:
				args = append(args, "+", "0")
			default:
				ids := []uint32{}
				seen := map[uint32]bool{}
				for _, c := range t.HWc {
					if !seen[c.Id] && r.Chance(85) {
						seen[c.Id] = true
						ids = append(ids, c.Id)
					}
				}
				if r.Chance(30) {
					x := uint32(r.Range(20, 30))
					if !seen[x] {
						ids = append(ids, x)
					}
				}
				sort.Slice(ids, func(i, j int) bool { return ids[i] < ids[j] })
				mode := r.Intn(3)
				args = append(args, "+", itoa(len(ids)))
				for _, id := range ids {
					v := uint32(0)
					if mode == 0 || (mode == 2 && r.Bool()) {
						v = uint32(r.Pick(1, 1, 2, 255, 4294967295))
					}
					args = append(args, utoa(id), utoa(v))
				}
			}
			args = append(args, rotTable(t)...)
			toks := encTopo(t)
			args = append(args, toks...)
			args = append(args, fingerprint(toks))
			emitS("svg.gen", args)
		}
	}
}

func init() {
	// (the library logs XML syntax errors through env_logger: logsetup.go sends that to stderr)
	registerExecutor("svg", &svgExec{})
	registerFamily("c15", genC15)
}
