package main

// Data-path families of the network client: C08 (receive framing), C09 (writer), C10 (malformed / stalled
// streams), C12 (protocol auto-detection).  One record = one script:
//
//   net.<fam> <options> conn <panel actions> [conn …] [sub <submitter actions> …] | <trace>
//
// options: mode=b|a (what the script negotiates), modes=<b|a per connection> (scripts whose connections negotiate
//          different modes; mode= is then the mode of the vocabulary, the other decoder's output is listed as dex:),
//          retry=<s>, end=<ms> (wait after the scripts, then cancel),
//          cap=<ms> (upper bound for the scripts), voc=<n>:<hex,…> (payloads / trimmed lines whose decoder output
//          the trace must contain), heap=1 (run alone; report bytes allocated during the run), qcap=<n>,
//          rxq=1 (the panel records what it receives by count only: scripts in which the client writes megabytes).
// panel actions: see netpanel.go.   submitter actions: h[<k>] (wait for the k-th onconnect, default 1), m<n>:<hex,…>
// (hand one message list to the client; items = proto.Marshal of InboundMessages), s<ms>, B<count>x<size> (hand over
// one list of <count> graphics states of <size> image bytes each: enough to fill the socket buffers; traced as
// big:g:i:count:size:bf:bb:al:ab without its bytes: bf frames / bb bytes is what the list is on the wire in binary mode,
// al lines / ab bytes in ASCII mode (computed only when the list is handed over on the script's last connection and that
// connection speaks ASCII; 0 otherwise)).
// The executor runs the real ConnectToPanel (net.c08/c09/c10/c12c) or AutoDetectIfPanelEncodingIsBinary
// (net.c12d: once per scripted connection, one after the other) in-process against the scripted panel and prints the
// trace (netpanel.go) as the record's output.

import (
	"context"
	"fmt"
	"net"
	"runtime"
	"strconv"
	"strings"
	"sync"
	"time"

	rawpanellib "github.com/SKAARHOJ/rawpanel-lib"
	rwp "github.com/SKAARHOJ/rawpanel-lib/ibeam_rawpanel"
	"google.golang.org/protobuf/proto"
)

func init() {
	registerExecutor("net", netExec{})
	registerFamily("c08", genC08)
	registerFamily("c09", genC09)
	registerFamily("c10", genC10)
	registerFamily("c12", genC12)
}

// ---- canonical rendering ----
var ndDet = proto.MarshalOptions{Deterministic: true}

func ndItems(items [][]byte) string {
	if len(items) == 0 {
		return "0:-"
	}
	s := make([]string, len(items))
	for i, b := range items {
		s[i] = hx(b)
	}
	return strconv.Itoa(len(items)) + ":" + strings.Join(s, ",")
}

func ndOutItems(msgs []*rwp.OutboundMessage) string {
	items := make([][]byte, len(msgs))
	for i, m := range msgs {
		if m == nil {
			items[i] = []byte("nil")
			continue
		}
		b, _ := ndDet.Marshal(m)
		items[i] = b
	}
	return ndItems(items)
}

func ndParseItems(s string) [][]byte {
	i := strings.IndexByte(s, ':')
	if i < 0 {
		panic("bad item list " + s)
	}
	n := atoi(s[:i])
	if n == 0 {
		return nil
	}
	parts := strings.Split(s[i+1:], ",")
	if len(parts) != n {
		panic("bad item count " + s[:20])
	}
	o := make([][]byte, n)
	for j, p := range parts {
		o[j] = unhx(p)
	}
	return o
}

// ---- record parsing ----
type ndSubAction struct {
	Kind  byte
	Ms    int // s: milliseconds; h: ordinal of the onconnect to wait for; B: image bytes per message
	N     int // B: number of messages
	Items [][]byte
}

type ndScript struct {
	mode   string
	modes  string
	retry  int
	endMs  int
	capMs  int
	heap   bool
	rxq    bool
	qcap   int
	voc    [][]byte
	conns  []ConnScript
	subs   [][]ndSubAction
	detect bool
}

func ndParse(cmd string, args []string) ndScript {
	sc := ndScript{mode: "b", retry: 1, endMs: 300, capMs: 0, detect: cmd == "net.c12d"}
	sect := 0
	for _, t := range args {
		switch {
		case t == "conn":
			sect = 1
			sc.conns = append(sc.conns, ConnScript{})
		case t == "sub":
			sect = 2
			sc.subs = append(sc.subs, nil)
		case sect == 0:
			kv := strings.SplitN(t, "=", 2)
			if len(kv) != 2 {
				panic("bad option " + t)
			}
			switch kv[0] {
			case "mode":
				sc.mode = kv[1]
			case "modes":
				sc.modes = kv[1]
			case "retry":
				sc.retry = atoi(kv[1])
			case "end":
				sc.endMs = atoi(kv[1])
			case "cap":
				sc.capMs = atoi(kv[1])
			case "heap":
				sc.heap = kv[1] == "1"
			case "qcap":
				sc.qcap = atoi(kv[1])
			case "rxq":
				sc.rxq = kv[1] == "1"
			case "voc":
				sc.voc = ndParseItems(kv[1])
			}
		case sect == 1:
			a, err := parsePanelAction(t)
			if err != nil {
				panic(err.Error())
			}
			k := len(sc.conns) - 1
			sc.conns[k] = append(sc.conns[k], a)
		case sect == 2:
			a := ndSubAction{Kind: t[0]}
			switch t[0] {
			case 's':
				a.Ms = atoi(t[1:])
			case 'm':
				a.Items = ndParseItems(t[1:])
			case 'h':
				a.Ms = 1
				if len(t) > 1 {
					a.Ms = atoi(t[1:])
				}
			case 'B':
				x := strings.IndexByte(t, 'x')
				if x < 0 {
					panic("bad submitter action " + t)
				}
				a.N, a.Ms = atoi(t[1:x]), atoi(t[x+1:])
			default:
				panic("bad submitter action " + t)
			}
			g := len(sc.subs) - 1
			sc.subs[g] = append(sc.subs[g], a)
		}
	}
	if sc.capMs == 0 { // upper bound for the scripts: everything they sleep or wait for, plus slack
		sc.capMs = 5000
		for _, c := range sc.conns {
			for _, a := range c {
				switch a.Kind {
				case 's', 'e':
					sc.capMs += a.N
				case 'p':
					sc.capMs += a.Ms / 4
				}
			}
		}
	}
	return sc
}

// ---- executor ----
type netExec struct{}

func (netExec) Exec(cmd string, args []string) string {
	var res string
	p := guarded(func() {
		sc := ndParse(cmd, args)
		if sc.detect {
			res = ndRunDetector(sc)
		} else {
			res = ndRunClient(sc)
		}
	})
	if p != "" {
		return p + "@0"
	}
	return res
}

// decoder table for the vocabulary: what the client's decoder makes of each payload / trimmed line
func ndDecTable(tr *NetTrace, sc ndScript) {
	one := func(tag string, ascii bool, i int, v []byte) {
		if ascii {
			var msgs []*rwp.OutboundMessage
			if p := guarded(func() { msgs = rawpanellib.RawPanelASCIIstringsToOutboundMessages([]string{string(v)}) }); p != "" {
				tr.Add("%s:%d:1:%s", tag, i, hx([]byte(p)))
				return
			}
			tr.Add("%s:%d:%s", tag, i, ndOutItems(msgs))
		} else {
			m := &rwp.OutboundMessage{}
			proto.Unmarshal(v, m) // result ignored, exactly as the client does
			tr.Add("%s:%d:%s", tag, i, ndOutItems([]*rwp.OutboundMessage{m}))
		}
	}
	for i, v := range sc.voc {
		one("dec", sc.mode == "a", i, v)
		if sc.modes != "" { // connections in both modes: also what the other mode's decoder makes of the entry
			one("dex", sc.mode != "a", i, v)
		}
	}
}

// the list of submitter action B<count>x<size>: <count> graphics states of <size> image bytes each
func ndBigList(count, size int) []*rwp.InboundMessage {
	msgs := make([]*rwp.InboundMessage, count)
	for i := range msgs {
		img := make([]byte, size)
		for j := range img {
			img[j] = byte(i*31 + j*7)
		}
		msgs[i] = &rwp.InboundMessage{States: []*rwp.HWCState{{HWCIDs: []uint32{uint32(500 + i)},
			HWCGfx: &rwp.HWCGfx{ImageType: rwp.HWCGfx_RGB16bit, W: 320, H: 240, ImageData: img}}}}
	}
	return msgs
}

func ndRunClient(sc ndScript) string {
	tr := NewNetTrace()
	ndDecTable(tr, sc)
	ping, _ := proto.Marshal(&rwp.InboundMessage{FlowMessage: rwp.InboundMessage_PING})
	tr.Add("ping:%s", hx(ping))
	var m0 runtime.MemStats
	if sc.heap {
		runtime.GC()
		runtime.ReadMemStats(&m0)
	}
	panel, err := NewScriptedPanelQ(tr, sc.conns, sc.rxq)
	if err != nil {
		return "panic:listen@0"
	}
	toPanel := make(chan []*rwp.InboundMessage, sc.qcap)
	fromPanel := make(chan []*rwp.OutboundMessage)
	ctx, cancel := context.WithCancel(context.Background())
	defer cancel()
	var wg sync.WaitGroup
	stopConsumer := make(chan struct{})
	consumerDone := make(chan struct{})
	flush := make(chan chan struct{})
	// A send on msgsFromPanel completes when the consumer has received the slice, but the consumer records it a
	// moment later.  Callbacks therefore first make the (sequential) consumer acknowledge: everything it received
	// before is then in the trace, and the trace order respects "delivered before the callback".
	sync1 := func() {
		ack := make(chan struct{})
		select {
		case flush <- ack:
			<-ack
		case <-consumerDone:
		}
	}
	onconnect := func(errMsg string, bin bool, c net.Conn) {
		sync1()
		tr.Add("con:%s:%s", b01(bin), hx([]byte(errMsg)))
		panel.SignalConnected()
	}
	ondisconnect := func(ex bool) {
		sync1()
		tr.Add("dis:%s", b01(ex))
	}
	go func() {
		defer close(consumerDone)
		for {
			select {
			case msgs := <-fromPanel:
				tr.Add("msg:%s", ndOutItems(msgs))
			case ack := <-flush:
				close(ack)
			case <-stopConsumer:
				return
			}
		}
	}()
	retCh := make(chan struct{})
	go func() {
		defer close(retCh)
		if p := guarded(func() {
			rawpanellib.ConnectToPanel(panel.Addr(), toPanel, fromPanel, ctx, &wg, onconnect, ondisconnect,
				&rawpanellib.ConnectToPanelConfig{NoConnectionRetryPeriod: 1, ReConnectionRetryPeriod: sc.retry})
		}); p != "" {
			tr.Add("%s", strings.ReplaceAll(p, "@", "_"))
		}
	}()
	// submitters
	var subWg sync.WaitGroup
	for g, acts := range sc.subs {
		subWg.Add(1)
		go func(g int, acts []ndSubAction) {
			defer subWg.Done()
			n := 0
			for _, a := range acts {
				switch a.Kind {
				case 'h':
					wait := 4 * time.Second
					if a.Ms > 1 {
						wait = 12 * time.Second // a reconnect: loss detection + retry period (+ probe window, EOF sleep)
					}
					waitCond(&panel.mu, panel.cond, wait, func() bool { return panel.connected >= a.Ms || panel.closed })
				case 'B':
					msgs := ndBigList(a.N, a.Ms)
					// what the list amounts to on the wire (the bytes themselves are not traced)
					bf, bb, al, ab := len(msgs), 0, 0, 0
					for _, m := range msgs {
						bb += 4 + proto.Size(m)
					}
					panel.mu.Lock()
					onLast := panel.connected >= len(sc.conns)
					panel.mu.Unlock()
					lastMode := sc.mode
					if sc.modes != "" {
						lastMode = sc.modes[len(sc.modes)-1:]
					}
					if onLast && lastMode == "a" {
						for _, l := range rawpanellib.InboundMessagesToRawPanelASCIIstrings(msgs) {
							al++
							ab += len(l) + 1
						}
					}
					tr.Add("big:%d:%d:%d:%d:%d:%d:%d:%d", g, n, a.N, a.Ms, bf, bb, al, ab)
					select {
					case toPanel <- msgs:
					case <-ctx.Done():
					}
					n++
				case 's':
					time.Sleep(time.Duration(a.Ms) * time.Millisecond)
				case 'm':
					msgs := make([]*rwp.InboundMessage, len(a.Items))
					mar := make([][]byte, len(a.Items))
					for i, it := range a.Items {
						m := &rwp.InboundMessage{}
						if err := proto.Unmarshal(it, m); err != nil {
							panic("submission item does not unmarshal")
						}
						msgs[i] = m
						mar[i], _ = proto.Marshal(m)
					}
					if sc.mode == "a" || strings.Contains(sc.modes, "a") {
						lines := rawpanellib.InboundMessagesToRawPanelASCIIstrings(msgs)
						lb := make([][]byte, len(lines))
						for i, l := range lines {
							lb[i] = []byte(l)
						}
						tr.Add("lin:%d:%d:%s", g, n, ndItems(lb))
					}
					tr.Add("sub:%d:%d:%s", g, n, ndItems(mar))
					select {
					case toPanel <- msgs:
					case <-ctx.Done():
					}
					n++
				}
			}
		}(g, acts)
	}
	if !panel.WaitScripts(time.Duration(sc.capMs) * time.Millisecond) {
		tr.Add("to:999:999")
	}
	subDone := make(chan struct{})
	go func() { subWg.Wait(); close(subDone) }()
	select {
	case <-subDone:
	case <-time.After(time.Duration(sc.capMs) * time.Millisecond):
		tr.Add("to:998:998")
	}
	time.Sleep(time.Duration(sc.endMs) * time.Millisecond)
	if sc.heap {
		var m1 runtime.MemStats
		runtime.ReadMemStats(&m1)
		tr.Add("heap:%d", m1.TotalAlloc-m0.TotalAlloc)
	}
	tr.Add("cancel")
	cancel()
	select {
	case <-retCh:
		tr.Add("ret")
		wgDone := make(chan struct{})
		go func() { wg.Wait(); close(wgDone) }()
		select {
		case <-wgDone:
			tr.Add("wg")
		case <-time.After(3 * time.Second):
			tr.Add("nowg")
		}
	case <-time.After(6 * time.Second):
		tr.Add("noret")
	}
	time.Sleep(20 * time.Millisecond) // let the panel's readers see the close
	panel.Close()
	close(stopConsumer)
	<-consumerDone
	return tr.String()
}

func ndRunDetector(sc ndScript) string {
	tr := NewNetTrace()
	ping, _ := proto.Marshal(&rwp.InboundMessage{FlowMessage: rwp.InboundMessage_PING})
	tr.Add("ping:%s", hx(ping))
	panel, err := NewScriptedPanel(tr, sc.conns)
	if err != nil {
		return "panic:listen@0"
	}
	// the stand-alone detector is called once per scripted connection, one call after the other (each on a fresh
	// connection): whatever an earlier call saw must not influence a later one
	var last net.Conn
	for k := range sc.conns {
		c, err := net.Dial("tcp", panel.Addr())
		if err != nil {
			panel.Close()
			return "panic:dial@0"
		}
		var res bool
		if p := guarded(func() { res = rawpanellib.AutoDetectIfPanelEncodingIsBinary(c, panel.Addr()) }); p != "" {
			tr.Add("%s", strings.ReplaceAll(p, "@", "_"))
		} else {
			tr.Add("det:%s", b01(res))
		}
		if k < len(sc.conns)-1 {
			panel.WaitScript(k, time.Duration(sc.capMs)*time.Millisecond)
			time.Sleep(60 * time.Millisecond)
			c.Close()
			time.Sleep(20 * time.Millisecond)
		} else {
			last = c
		}
	}
	panel.WaitScripts(time.Duration(sc.capMs) * time.Millisecond)
	time.Sleep(time.Duration(sc.endMs) * time.Millisecond)
	tr.Add("cancel")
	if last != nil {
		last.Close()
	}
	time.Sleep(20 * time.Millisecond)
	panel.Close()
	return tr.String()
}

// ---- batch emission: run many scripts concurrently, print in generation order ----
type ndRec struct {
	cmd  string
	args []string
}

const ndParallel = 48

func ndEmitBatch(recs []ndRec) {
	outs := make([]string, len(recs))
	sem := make(chan struct{}, ndParallel)
	var wg sync.WaitGroup
	solo := []int{}
	for i, r := range recs {
		isSolo := false
		for _, a := range r.args {
			if a == "heap=1" {
				isSolo = true
			}
			if a == "conn" {
				break
			}
		}
		if isSolo {
			solo = append(solo, i)
			continue
		}
		wg.Add(1)
		sem <- struct{}{}
		go func(i int, r ndRec) {
			defer wg.Done()
			defer func() { <-sem }()
			outs[i] = execFor(r.cmd).Exec(r.cmd, r.args)
		}(i, r)
	}
	wg.Wait()
	for _, i := range solo { // memory measurements: alone
		outs[i] = execFor(recs[i].cmd).Exec(recs[i].cmd, recs[i].args)
	}
	for i, r := range recs {
		out.WriteString(r.cmd)
		for _, a := range r.args {
			out.WriteByte(' ')
			out.WriteString(a)
		}
		out.WriteString(" | ")
		out.WriteString(outs[i])
		out.WriteByte('\n')
	}
	out.Flush()
}

// ---- script building helpers ----
func ndFrame(p []byte) []byte {
	h := []byte{byte(len(p)), byte(len(p) >> 8), byte(len(p) >> 16), byte(len(p) >> 24)}
	return append(h, p...)
}

func ndHeader(v uint32) []byte { return []byte{byte(v), byte(v >> 8), byte(v >> 16), byte(v >> 24)} }

func ndMar(m proto.Message) []byte {
	b, err := ndDet.Marshal(m)
	if err != nil {
		panic(err)
	}
	return b
}

var ndAck = ndMar(&rwp.OutboundMessage{FlowMessage: rwp.OutboundMessage_ACK})
var ndPingOut = ndMar(&rwp.OutboundMessage{FlowMessage: rwp.OutboundMessage_PING})

func ndEvent(id uint32, pressed bool) []byte {
	return ndMar(&rwp.OutboundMessage{Events: []*rwp.HWCEvent{{HWCID: id, Binary: &rwp.BinaryEvent{Pressed: pressed}}}})
}

// an OutboundMessage whose marshalled size is exactly n (n = 0 or n >= 2); n = 1 gives the single byte 0x08
func ndMsgOfSize(n int) []byte {
	if n == 0 {
		return []byte{}
	}
	if n == 1 {
		return []byte{0x08} // a truncated field: not a valid message, but a payload a panel can send
	}
	if n == 2 {
		return ndMar(&rwp.OutboundMessage{FlowMessage: rwp.OutboundMessage_PING})
	}
	for flow := 0; flow < 2; flow++ {
		lo := n - 16
		if lo < 0 {
			lo = 0
		}
		for l := lo; l <= n; l++ {
			m := &rwp.OutboundMessage{FlowMessage: rwp.OutboundMessage_FlowMsg(flow), Message: &rwp.Message{Message: strings.Repeat("m", l)}}
			if b := ndMar(m); len(b) == n {
				return b
			}
		}
	}
	panic(fmt.Sprint("no message of size ", n))
}

// script assembly
type ndB struct{ toks []string }

func (b *ndB) add(t ...string) *ndB { b.toks = append(b.toks, t...); return b }
func ndW(p []byte) string           { return "w" + strings.TrimPrefix(hx(p), "-") }
func ndS(ms int) string             { return "s" + strconv.Itoa(ms) }

// handshake of a connection in the given mode ("b": ack frame, "a": RDY, "s": silence -> ASCII after 2 s)
func ndHandshake(mode string) []string {
	switch mode {
	case "b":
		return []string{"conn", "p6", ndW(ndFrame(ndAck)), "h"}
	case "a":
		return []string{"conn", "p6", ndW([]byte("RDY\n")), "h"}
	default:
		return []string{"conn", "p6", "h"}
	}
}

// split stream at the given cut offsets (sorted, 0 < c < len) into write actions separated by gapMs sleeps
func ndCutWrites(stream []byte, cuts []int, gapMs int) []string {
	toks := []string{}
	prev := 0
	for _, c := range append(append([]int{}, cuts...), len(stream)) {
		if c <= prev || c > len(stream) {
			continue
		}
		if len(toks) > 0 && gapMs > 0 {
			toks = append(toks, ndS(gapMs))
		}
		toks = append(toks, ndW(stream[prev:c]))
		prev = c
	}
	return toks
}

func ndVoc(items [][]byte) string { return "voc=" + ndItems(ndUniq(items)) }

func ndUniq(items [][]byte) [][]byte {
	seen := map[string]bool{}
	o := [][]byte{}
	for _, it := range items {
		if !seen[string(it)] {
			seen[string(it)] = true
			o = append(o, it)
		}
	}
	return o
}

func ndRecOf(cmd string, opts []string, sections ...[]string) ndRec {
	args := append([]string{}, opts...)
	for _, s := range sections {
		args = append(args, s...)
	}
	return ndRec{cmd, args}
}

func ndConcat(parts ...[]string) []string {
	o := []string{}
	for _, p := range parts {
		o = append(o, p...)
	}
	return o
}

func ndRandCuts(r *Rng, n, k int) []int {
	set := map[int]bool{}
	for i := 0; i < k && n > 1; i++ {
		set[1+r.Intn(n-1)] = true
	}
	o := []int{}
	for c := 1; c < n; c++ {
		if set[c] {
			o = append(o, c)
		}
	}
	return o
}

// ---------------------------------------------------------------------------------------------------
// panel behaviour classes shared by the net families (a class one family generates must not be missing from its
// siblings: the same fault is then reported whichever property's check is run)
// ---------------------------------------------------------------------------------------------------
var ndAckWithPayload = ndFrame(ndMar(&rwp.OutboundMessage{FlowMessage: rwp.OutboundMessage_ACK,
	Events: []*rwp.HWCEvent{{HWCID: 9, Binary: &rwp.BinaryEvent{Pressed: true}}}}))

// every way a panel answers the probe: name -> (mode negotiated, handshake section)
var ndReplyClasses = []struct {
	name, mode string
	reply      []byte
}{
	{"ack", "b", ndFrame(ndAck)},
	{"ackpl", "b", ndAckWithPayload}, // acknowledge that carries an event as well
	{"rdy", "a", []byte("RDY\n")},
	{"sil", "a", nil}, // silence for the probe window
	{"map", "a", []byte("map=1:2\n")},
	{"err", "a", []byte("ErrorMsg=Panel is locked to another client\n")},
	{"txt", "a", []byte("list\nBSY\n")},
}

func ndHandshakeOf(reply []byte) []string {
	if reply == nil {
		return []string{"conn", "p6", "h"}
	}
	return []string{"conn", "p6", ndW(reply), "h"}
}

// ndCrossRecs: for the delivery / containment families (cmd = net.c08 | net.c10): every reply class, followed by
// traffic in the negotiated mode made of the classes of the sibling generators - short message, empty message (blank
// line / frame without payload), a line or frame on a reader-buffer boundary (ndLongLineSizes; 4096 and 64 KiB frames),
// dribbled header / cut line, an idle period longer than the in-frame timeout, silence inside an ASCII line (no fault) -
// and runs whose connections change mode (ErrorMsg + close, ASCII with a long line, binary with a 64 KiB frame).
func ndCrossRecs(cmd string, r *Rng, thorough bool) []ndRec {
	recs := []ndRec{}
	ev0, ev1 := ndEvent(21, true), ndEvent(22, false)
	lineSizes := ndLongLineSizes
	if !thorough { // quick: the 64 KiB lines are sent once per family (C08 (c), mode-change run below), see ndLineSizesFor
		lineSizes = []int{4094, 4095, 4096, 4097, 9000, 20000}
	}
	frameSizes := []int{4092, 4096, 65532, 65536, 70000}
	ascData := func(ln int, eol string) ([]string, [][]byte) {
		long := ndLongLine(ln)
		s := []byte("HWC#5=Down\r\n\n" + long + eol + "ping\n")
		d := ndConcat(ndCutWrites(s, ndRandCuts(r, len(s), 2), 2), []string{ndS(2500), ndW([]byte("HWC#12")), ndS(2500), ndW([]byte("=Up\n"))})
		return d, [][]byte{[]byte("HWC#5=Down"), {}, []byte(long), []byte("ping"), []byte("HWC#12=Up")}
	}
	binData := func(sz int) ([]string, [][]byte) {
		big := ndMsgOfSize(sz)
		fb := ndFrame(big)
		d := ndConcat([]string{ndW(append(ndFrame(ev0), ndHeader(0)...))}, ndCutWrites(fb[:4], []int{1, 2, 3}, 3), []string{ndW(fb[4:]), ndS(2500)},
			ndCutWrites(ndFrame(ev1), []int{2}, 300))
		return d, [][]byte{ev0, {}, big, ev1}
	}
	i := 0
	for _, rc := range ndReplyClasses {
		nper := 2
		if thorough {
			nper = 5
		}
		for k := 0; k < nper; k++ {
			i++
			var d []string
			var voc [][]byte
			if rc.mode == "a" {
				d, voc = ascData(lineSizes[(i*3+k)%len(lineSizes)], []string{"\n", "\r\n"}[i%2])
			} else {
				d, voc = binData(frameSizes[(i+k)%len(frameSizes)])
			}
			recs = append(recs, ndRecOf(cmd, []string{"mode=" + rc.mode, "end=300", ndVoc(voc)}, ndHandshakeOf(rc.reply), d))
		}
	}
	// the boundary lines after a RDY in any case (quick tier: the other reply classes draw two sizes each)
	for _, ln := range []int{4095, 4096, 65535, 65536} {
		if !thorough && ln > 60000 {
			continue
		}
		ls, vocL := ndLongLineStream(ln, "\n")
		recs = append(recs, ndRecOf(cmd, []string{"mode=a", "end=250", ndVoc(vocL)}, ndHandshakeOf([]byte("RDY\n")), []string{ndW(ls)}))
	}
	// mode changes between the connections of one run
	endC := []string{ndS(60), "c"}
	for v := 0; v < 2; v++ {
		ln := []int{65536, 4096}[v]
		if v == 0 && !thorough && cmd == "net.c08" {
			ln = 20000 // C08 (c) sends the 64 KiB lines of the quick tier
		}
		aD, aV := ascData(ln, "\n")
		aD2, aV2 := ascData([]int{4097, 9000}[v], "\r\n")
		bD, bV := binData([]int{65536, 4092}[v])
		voc := append(append(append([][]byte{}, bV...), aV...), aV2...)
		errC := ndConcat(ndHandshakeOf([]byte("ErrorMsg=Locked\n")), endC)
		ascC := ndConcat(ndHandshakeOf([][]byte{[]byte("RDY\n"), nil}[v]), aD, endC)
		binC := ndConcat(ndHandshakeOf([][]byte{ndFrame(ndAck), ndAckWithPayload}[v]), bD)
		recs = append(recs, ndRecOf(cmd, []string{"mode=b", "modes=aab", "end=300", ndVoc(voc)}, errC, ascC, binC))
		bin0 := ndConcat(ndHandshakeOf(ndFrame(ndAck)), bD, endC)
		asc1 := ndConcat(ndHandshakeOf([]byte("map=1:2\n")), aD2)
		recs = append(recs, ndRecOf(cmd, []string{"mode=b", "modes=ba", "end=300", ndVoc(voc)}, bin0, asc1))
	}
	return recs
}

// ---------------------------------------------------------------------------------------------------
// C08
// ---------------------------------------------------------------------------------------------------
var ndAsciiLines = []string{"HWC#5=Down", "ping", "HWC#12=Up", "", "ack", "list", "_model=SK_VERIF", "_serial=123456",
	"map=3:4", "HWC#7=Enc:-2", "BSY", "RDY", "HWC#33.4=Press", "_name=Some Panel Name", "HWC#40=Abs:512", "nack"}

// lengths (without terminator) of the long ASCII lines every net family sends: one below / at / one above the sizes at
// which a buffered line reader changes behaviour (4096 = bufio's default buffer, 65536 = bufio.MaxScanTokenSize), with
// the terminator counted or not, and well beyond
var ndLongLineSizes = []int{4094, 4095, 4096, 4097, 9000, 20000, 65534, 65535, 65536, 70000}

// the quick tier's selection (the model's line reader is quadratic in the line length: ~11 s of driver time per 64 KiB
// line): every size around bufio's 4096-byte buffer, and of the 64 KiB ones the exact boundary (65535 + LF) and 70000
func ndLineSizesFor(thorough bool) []int {
	if thorough {
		return ndLongLineSizes
	}
	return []int{4094, 4095, 4096, 4097, 9000, 20000, 65535, 70000}
}

// "_model=A" CRLF, a topology line of ln bytes, "_serial=B" LF; the vocabulary of the three lines
func ndLongLine(ln int) string { return "_panelTopology_svgbase=" + strings.Repeat("x", ln-23) }

func ndLongLineStream(ln int, eol string) ([]byte, [][]byte) {
	long := ndLongLine(ln)
	return []byte("_model=A\r\n" + long + eol + "_serial=B\n"), [][]byte{[]byte("_model=A"), []byte(long), []byte("_serial=B")}
}

func ndJoin(frames [][]byte) []byte {
	s := []byte{}
	for _, f := range frames {
		s = append(s, ndFrame(f)...)
	}
	return s
}

func genC08(r *Rng, n int, tier string) {
	recs := []ndRec{}
	thorough := tier == "thorough"
	// (a) every single and double cut point of a 3-frame, 24-byte stream (binary)
	short := [][]byte{ndPingOut, {}, ndEvent(300, true)}
	stream := ndJoin(short)
	optsB := []string{"mode=b", "end=250", ndVoc(short)}
	recs = append(recs, ndRecOf("net.c08", optsB, ndHandshake("b"), []string{ndW(stream)}))
	for c1 := 1; c1 < len(stream); c1++ {
		recs = append(recs, ndRecOf("net.c08", optsB, ndHandshake("b"), ndCutWrites(stream, []int{c1}, 2)))
	}
	for c1 := 1; c1 < len(stream); c1++ {
		for c2 := c1 + 1; c2 < len(stream); c2++ {
			if !thorough && (c1*31+c2)%3 != int(r.s%3) && !(c1 <= 4 && c2 <= 8) {
				continue // quick: a third of the double cuts, plus all cuts inside the first header / first payload
			}
			recs = append(recs, ndRecOf("net.c08", optsB, ndHandshake("b"), ndCutWrites(stream, []int{c1, c2}, 2)))
		}
	}
	// (b) 1-byte dribble
	all := []int{}
	for c := 1; c < len(stream); c++ {
		all = append(all, c)
	}
	recs = append(recs, ndRecOf("net.c08", optsB, ndHandshake("b"), ndCutWrites(stream, all, 1)))
	// (c) ASCII: LF / CRLF / padded lines, every single cut point, a sample of double cuts, dribble
	pick := []string{"HWC#5=Down", "ping", "", "_name=Some Panel Name", "HWC#7=Enc:-2"}
	vocA := [][]byte{}
	for _, l := range ndAsciiLines {
		vocA = append(vocA, []byte(l))
	}
	optsA := []string{"mode=a", "end=250", ndVoc(vocA)}
	for _, eol := range []string{"\n", "\r\n", "mixed"} {
		s := []byte{}
		for i, l := range pick {
			e := eol
			if eol == "mixed" {
				e = []string{"\n", "\r\n", " \r\n", "\t\n"}[i%4]
				if i%2 == 1 {
					l = "  " + l
				}
			}
			s = append(s, []byte(l+e)...)
		}
		recs = append(recs, ndRecOf("net.c08", optsA, ndHandshake("a"), []string{ndW(s)}))
		for c1 := 1; c1 < len(s); c1++ {
			if !thorough && eol != "\r\n" && c1%3 != 0 {
				continue
			}
			recs = append(recs, ndRecOf("net.c08", optsA, ndHandshake("a"), ndCutWrites(s, []int{c1}, 2)))
		}
		nd := 20
		if thorough {
			nd = 150
		}
		for i := 0; i < nd; i++ {
			recs = append(recs, ndRecOf("net.c08", optsA, ndHandshake("a"), ndCutWrites(s, ndRandCuts(r, len(s), 2), 2)))
		}
		alls := []int{}
		for c := 1; c < len(s); c++ {
			alls = append(alls, c)
		}
		recs = append(recs, ndRecOf("net.c08", optsA, ndHandshake("a"), ndCutWrites(s, alls, 1)))
	}
	// ASCII panel that stays silent during the probe (2 s) and then talks
	recs = append(recs, ndRecOf("net.c08", optsA, ndHandshake("s"), []string{ndW([]byte("HWC#5=Down\r\nping\n"))}))
	// ASCII lines longer than bufio's 4096-byte buffer (e.g. a topology SVG on one line)
	// and around the sizes at which buffered readers change behaviour (ndLongLineSizes: bufio.Reader's 4096-byte
	// buffer, bufio.Scanner's 64 KiB token limit): the line, LF- or CRLF-terminated, between two short ones
	for i, ln := range ndLineSizesFor(thorough) {
		ls, vocL := ndLongLineStream(ln, []string{"\n", "\r\n"}[i%2])
		recs = append(recs, ndRecOf("net.c08", []string{"mode=a", "end=250", ndVoc(vocL)}, ndHandshake("a"), ndCutWrites(ls, ndRandCuts(r, len(ls), 3), 2)))
	}
	// binary frames whose size (payload, payload + header) sits on the same boundaries
	for _, sizes := range [][]int{{4091, 4092, 4095, 4096, 4097}, {65531, 65532, 65535, 65536, 65537, 70000}} {
		fr := [][]byte{}
		for _, sz := range sizes {
			fr = append(fr, ndMsgOfSize(sz))
		}
		ls := ndJoin(fr)
		recs = append(recs, ndRecOf("net.c08", []string{"mode=b", "end=300", ndVoc(fr)}, ndHandshake("b"), ndCutWrites(ls, ndRandCuts(r, len(ls), 4), 2)))
	}
	// (d) long streams: payload sizes 0, 1, 999-1001, 499 999, random cuts
	nlong := 2
	if thorough {
		nlong = 40
	}
	for i := 0; i < nlong; i++ {
		sizes := []int{1000, 0, 499999, 1, 999, 1001, 2}
		if i%2 == 1 {
			sizes = []int{499999, 1001, 0, 0, 1000, 1, 999, 65536}
		}
		fr := [][]byte{}
		for _, sz := range sizes {
			fr = append(fr, ndMsgOfSize(sz))
		}
		ls := ndJoin(fr)
		cuts := ndRandCuts(r, len(ls), 4+r.Intn(12))
		// always also cut inside a header and right after one
		cuts = append(cuts, 1004+2, 1004+4+4)
		cs := map[int]bool{}
		for _, c := range cuts {
			cs[c] = true
		}
		sorted := []int{}
		for c := 1; c < len(ls); c++ {
			if cs[c] {
				sorted = append(sorted, c)
			}
		}
		recs = append(recs, ndRecOf("net.c08", []string{"mode=b", "end=600", ndVoc(fr)}, ndHandshake("b"), ndCutWrites(ls, sorted, r.Pick(0, 1, 5))))
	}
	// (e) idle gaps longer than the in-frame timeout between messages; (f) header split from payload by 1.5 s
	ev := [][]byte{ndEvent(1, true), ndEvent(2, false), ndMsgOfSize(1000)}
	optsE := []string{"mode=b", "end=300", ndVoc(ev)}
	gaps := [][2]int{{2500, 2500}, {4500, 0}}
	if thorough {
		gaps = [][2]int{{2500, 0}, {0, 2500}, {2500, 2500}, {4500, 0}, {4500, 2500}, {0, 4500}}
	}
	for _, g := range gaps {
		d := []string{ndW(ndFrame(ev[0]))}
		if g[0] > 0 {
			d = append(d, ndS(g[0]))
		}
		d = append(d, ndW(ndFrame(ev[1])))
		if g[1] > 0 {
			d = append(d, ndS(g[1]))
		}
		d = append(d, ndW(ndFrame(ev[2])))
		recs = append(recs, ndRecOf("net.c08", optsE, ndHandshake("b"), d))
		// the same gaps, the gap falling after the first message and before a message that itself arrives in pieces
		d2 := []string{ndW(ndFrame(ev[0])), ndS(g[0] + 2500), ndW(ndFrame(ev[1])[:2]), ndS(300), ndW(ndFrame(ev[1])[2:]), ndW(ndFrame(ev[2]))}
		recs = append(recs, ndRecOf("net.c08", optsE, ndHandshake("b"), d2))
	}
	la := []string{ndW([]byte("HWC#5=Down\n")), ndS(2500), ndW([]byte("ping\r\n")), ndS(2500), ndW([]byte("HWC#12")), ndS(2500), ndW([]byte("=Up\n"))}
	recs = append(recs, ndRecOf("net.c08", optsA, ndHandshake("a"), la))
	f2 := ndFrame(ev[2])
	recs = append(recs, ndRecOf("net.c08", optsE, ndHandshake("b"), []string{ndW(ndFrame(ev[0])), ndW(f2[:4]), ndS(1500), ndW(f2[4:]), ndW(ndFrame(ev[1]))}))
	recs = append(recs, ndRecOf("net.c08", optsE, ndHandshake("b"), []string{ndW(f2[:4]), ndS(700), ndW(f2[4:500]), ndS(700), ndW(f2[500:]), ndW(ndFrame(ev[1]))}))
	recs = append(recs, ndRecOf("net.c08", optsE, ndHandshake("b"), []string{ndW(f2[:1]), ndS(1500), ndW(f2[1:]), ndS(2500), ndW(ndFrame(ev[1]))}))
	// (g) idle period BEFORE the first message of a connection (longer than the probe window and than the in-frame
	// timeout), the first message then whole, cut inside its header, or dribbled; both modes, both ASCII handshakes
	optsH := []string{"mode=b", "end=300", ndVoc(append([][]byte{{}}, ev...))}
	idles := []int{2500, 4500}
	if thorough {
		idles = []int{2100, 2500, 3500, 4500, 7000}
	}
	evs := append(append(ndFrame(ev[0]), ndFrame(ev[1])...), ndFrame(ev[2])...)
	for i, idle := range idles {
		recs = append(recs, ndRecOf("net.c08", optsE, ndHandshake("b"), []string{ndS(idle), ndW(evs)}))
		recs = append(recs, ndRecOf("net.c08", optsE, ndHandshake("b"), ndConcat([]string{ndS(idle)}, ndCutWrites(evs, []int{1 + i%3, 4, 6}, 3), []string{ndS(2500), ndW(ndFrame(ev[1]))})))
		recs = append(recs, ndRecOf("net.c08", optsH, ndHandshake("b"), []string{ndS(idle), ndW(ndHeader(0)), ndS(idle), ndW(evs)}))
		for _, hsk := range []string{"a", "s"} {
			recs = append(recs, ndRecOf("net.c08", optsA, ndHandshake(hsk), []string{ndS(idle), ndW([]byte("HWC#5=Down\r\nping\n")), ndS(idle), ndW([]byte("\nHWC#12=Up\n"))}))
		}
	}
	// (h) an empty message (frame with no payload / blank line), then an idle period, then more messages
	for i, idle := range idles {
		e4 := ndHeader(0)
		recs = append(recs, ndRecOf("net.c08", optsH, ndHandshake("b"), []string{ndW(ndFrame(ev[0])), ndW(e4), ndS(idle), ndW(evs)}))
		recs = append(recs, ndRecOf("net.c08", optsH, ndHandshake("b"), []string{ndW(append(ndFrame(ev[0]), e4...)), ndS(idle), ndW(e4), ndS(idle), ndW(ndFrame(ev[1]))}))
		recs = append(recs, ndRecOf("net.c08", optsH, ndHandshake("b"), ndConcat(ndCutWrites(e4, []int{1, 2, 3}, 2+i), []string{ndS(idle), ndW(ndFrame(ev[1]))})))
		recs = append(recs, ndRecOf("net.c08", optsA, ndHandshake("a"), []string{ndW([]byte("ping\n\r\n")), ndS(idle), ndW([]byte("HWC#5=Down\n"))}))
	}
	// (i) the mode is negotiated per connection: connections of one run of the client that speak different modes
	// (the panel ends a connection at a message boundary; the client reconnects by itself), and plain reconnects
	asciiS := []byte("HWC#5=Down\r\nping\n_name=Some Panel Name\n")
	vocM := append(append([][]byte{}, ev...), vocA...)
	optsM := func(modes string) []string { return []string{"mode=b", "modes=" + modes, "end=300", ndVoc(vocM)} }
	errHs := func(text string) []string { return []string{"conn", "p6", ndW([]byte("ErrorMsg=" + text + "\n")), "h"} }
	endC := []string{ndS(60), "c"}
	binData := func(i int) []string { return ndCutWrites(evs, ndRandCuts(r, len(evs), i%3), 2) }
	ascData := func(i int) []string { return ndCutWrites(asciiS, ndRandCuts(r, len(asciiS), i%3), 2) }
	type cdef struct {
		mode string
		hs   []string
		data []string
	}
	seqs := [][]cdef{
		{{"a", errHs("Panel busy, try again"), nil}, {"b", ndHandshake("b"), binData(1)}},
		{{"a", ndHandshake("s"), ascData(0)}, {"b", ndHandshake("b"), binData(0)}},
		{{"a", ndHandshake("a"), ascData(2)}, {"b", ndHandshake("b"), binData(2)}},
		{{"b", ndHandshake("b"), binData(1)}, {"a", ndHandshake("a"), ascData(1)}},
		{{"b", ndHandshake("b"), binData(0)}, {"a", ndHandshake("a"), ascData(0)}, {"b", ndHandshake("b"), binData(2)}},
		{{"b", ndHandshake("b"), binData(2)}, {"b", ndHandshake("b"), binData(0)}},
		{{"a", ndHandshake("a"), ascData(1)}, {"a", ndHandshake("a"), ascData(2)}},
		{{"a", errHs("Locked"), nil}, {"a", ndHandshake("a"), ascData(0)}, {"b", ndHandshake("b"), []string{ndS(2500), ndW(evs)}}},
	}
	if thorough {
		for i := 0; i < 12; i++ {
			sq := []cdef{}
			for k := 0; k < 2+r.Intn(2); k++ {
				switch r.Intn(4) {
				case 0:
					sq = append(sq, cdef{"a", errHs("E" + strconv.Itoa(i)), nil})
				case 1:
					sq = append(sq, cdef{"a", ndHandshake([]string{"a", "s"}[r.Intn(2)]), ascData(i + k)})
				default:
					sq = append(sq, cdef{"b", ndHandshake("b"), binData(i + k)})
				}
			}
			seqs = append(seqs, sq)
		}
	}
	for _, sq := range seqs {
		modes := ""
		secs := [][]string{}
		for k, c := range sq {
			modes += c.mode
			sec := ndConcat(c.hs, c.data)
			if k < len(sq)-1 {
				sec = ndConcat(sec, endC)
			}
			secs = append(secs, sec)
		}
		recs = append(recs, ndRecOf("net.c08", optsM(modes), secs...))
	}
	// (j) ASCII lines with white space outside ASCII at their edges: strings.TrimSpace strips every rune with
	// unicode.IsSpace (U+0085, U+00A0, U+1680, U+2000-U+200A, U+2028, U+2029, U+202F, U+205F, U+3000), not only the
	// six ASCII blanks; bytes that merely look like part of such a rune (a lone 0xA0, U+200B) stay.  The protocol
	// does not say whether such a character is padding (the monitor skips these records); the model must agree.
	uni := []struct{ sent, kept string }{
		{"HWC#5=Down\u00a0", "HWC#5=Down"},
		{"\u0085ping\u2028\r", "ping"},
		{"\u3000 _name=Some Panel Name \u3000 \t", "_name=Some Panel Name"},
		{"\u00a0", ""},
		{"\u1680\u2000HWC#12=Up\u200a\u202f\u205f\u2029", "HWC#12=Up"},
		{"_name=Some\u00a0Panel", "_name=Some\u00a0Panel"},
		{"ping\xa0", "ping\xa0"},
		{"\xc2ack", "\xc2ack"},
		{"nack\u200b", "nack\u200b"},
		{"list\xe2\x80", "list\xe2\x80"},
	}
	vocU := [][]byte{}
	su := []byte{}
	for _, u := range uni {
		vocU = append(vocU, []byte(u.kept))
		su = append(su, []byte(u.sent+"\n")...)
	}
	optsU := []string{"mode=a", "end=250", ndVoc(vocU)}
	recs = append(recs, ndRecOf("net.c08", optsU, ndHandshake("a"), []string{ndW(su)}))
	for c1 := 1; c1 < len(su); c1++ {
		if !thorough && c1%9 != int(r.s%9) {
			continue
		}
		recs = append(recs, ndRecOf("net.c08", optsU, ndHandshake("a"), ndCutWrites(su, []int{c1}, 2)))
	}
	allu := []int{}
	for c := 1; c < len(su); c++ {
		allu = append(allu, c)
	}
	recs = append(recs, ndRecOf("net.c08", optsU, ndHandshake("s"), ndCutWrites(su, allu, 1)))
	// (k) the classes of the sibling families: every reply class x traffic on the reader-buffer boundaries
	recs = append(recs, ndCrossRecs("net.c08", r, thorough)...)
	_ = n
	ndEmitBatch(recs)
}

// ---------------------------------------------------------------------------------------------------
// C10
// ---------------------------------------------------------------------------------------------------
func genC10(r *Rng, n int, tier string) {
	recs := []ndRec{}
	thorough := tier == "thorough"
	good := [][]byte{ndEvent(7, true), ndEvent(8, false), ndPingOut}
	next := ndConcat(ndHandshake("b"), []string{ndW(ndFrame(good[2])), ndS(100)}) // the connection after the drop
	// (1) header values at three positions
	big := ndMsgOfSize(499999)
	for _, hv := range []uint32{0, 1, 499999, 500000, 500001, 1 << 31, 1<<32 - 1} {
		for pos := 0; pos < 3; pos++ {
			if !thorough && hv == 499999 && pos != 1 {
				continue
			}
			var body []byte
			voc := [][]byte{good[0], good[1], good[2]}
			switch hv {
			case 0:
				body = ndHeader(0)
				voc = append(voc, []byte{})
			case 1:
				body = append(ndHeader(1), 0x08)
				voc = append(voc, []byte{0x08})
			case 499999:
				body = ndFrame(big)
				voc = append(voc, big)
			default:
				body = ndHeader(hv)
			}
			pre := []string{}
			switch pos {
			case 1:
				pre = []string{ndW(ndFrame(good[0]))}
			case 2:
				pre = []string{ndW(ndFrame(good[0])), ndS(2500)}
			}
			tail := append(ndFrame(good[1]), ndFrame(good[2])...) // two valid frames right behind
			opts := []string{"mode=b", "end=400", ndVoc(voc)}
			if hv >= 500000 && pos == 0 {
				opts = append(opts, "heap=1")
			}
			if hv >= 500000 {
				// same segment and a later segment; then the reconnect
				d := ndConcat(pre, []string{ndW(append(append([]byte{}, body...), tail...)), ndS(300), ndW(tail), ndS(900)})
				recs = append(recs, ndRecOf("net.c10", opts, ndHandshake("b"), d, next))
			} else {
				d := ndConcat(pre, []string{ndW(body), ndW(tail)})
				recs = append(recs, ndRecOf("net.c10", opts, ndHandshake("b"), d))
			}
		}
	}
	// (2) a 40-byte frame truncated at every offset, 3 s stall, then resume or close
	p36 := ndMsgOfSize(36)
	f40 := ndFrame(p36)
	offs := []int{1, 2, 3, 4, 5, 20, 39}
	if thorough {
		offs = []int{}
		for o := 1; o < 40; o++ {
			offs = append(offs, o)
		}
	}
	voc := [][]byte{good[0], good[1], good[2], p36}
	for _, o := range offs {
		for _, resume := range []bool{true, false} {
			for _, first := range []bool{true, false} {
				if !thorough && first && o > 5 {
					continue
				}
				d := []string{}
				if !first {
					d = append(d, ndW(ndFrame(good[0])))
				}
				d = append(d, ndW(f40[:o]), ndS(3000))
				if resume {
					d = append(d, ndW(append(append([]byte{}, f40[o:]...), ndFrame(good[1])...)), ndS(1200))
				} else {
					d = append(d, "c")
				}
				recs = append(recs, ndRecOf("net.c10", []string{"mode=b", "end=400", ndVoc(voc)}, ndHandshake("b"), d, next))
			}
		}
	}
	// (2b) large announced lengths (just below the limit, and mid-range) with only a few payload bytes, then a stall:
	// the 2 s limit must not depend on the announced size
	for _, ann := range []uint32{499999, 400000, 20000} {
		d := []string{ndW(ndFrame(good[0])), ndW(append(ndHeader(ann), r.Bytes(10)...)), ndS(3000), "c"}
		recs = append(recs, ndRecOf("net.c10", []string{"mode=b", "end=400", ndVoc(voc)}, ndHandshake("b"), d, next))
	}
	// (3) payloads of correct length that are no valid message, followed by two valid frames
	garbage := [][]byte{{}, {0x08}, {0x08, 0xff}, {0xff, 0xff, 0xff, 0xff}, {0x42, 0x7f, 0x01}, {0x0a, 0x05, 0x01}, r.Bytes(17), r.Bytes(300), r.Bytes(4096)}
	ng := 6
	if thorough {
		ng = 150
	}
	for i := 0; i < ng; i++ {
		garbage = append(garbage, r.Bytes(1+r.Intn(64)))
	}
	for i, g := range garbage {
		v := [][]byte{g, good[1], good[2], good[0]}
		s := append(append(ndFrame(g), ndFrame(good[1])...), ndFrame(good[2])...)
		d := ndCutWrites(s, ndRandCuts(r, len(s), i%3), 2)
		if i%2 == 0 {
			d = ndConcat([]string{ndW(ndFrame(good[0]))}, d)
		}
		recs = append(recs, ndRecOf("net.c10", []string{"mode=b", "end=300", ndVoc(v)}, ndHandshake("b"), d))
	}
	// (4) combinations across two reconnects
	combos := 2
	if thorough {
		combos = 24
	}
	for i := 0; i < combos; i++ {
		over := ndConcat(ndHandshake("b"), []string{ndW(ndFrame(good[0])), ndW(append(ndHeader(uint32(500000+r.Intn(1<<20))), ndFrame(good[1])...)), ndS(1300)})
		o := 1 + r.Intn(39)
		stall := ndConcat(ndHandshake("b"), []string{ndW(ndFrame(good[1])), ndW(f40[:o]), ndS(3000), ndW(f40[o:]), ndS(1200)})
		last := ndConcat(ndHandshake("b"), []string{ndW(ndFrame([]byte{0xff, 0xff})), ndW(ndFrame(good[2])), ndW(f40), ndS(100)})
		secs := [][]string{over, stall, last}
		if i%2 == 1 {
			secs = [][]string{stall, over, last}
		}
		recs = append(recs, ndRecOf("net.c10", []string{"mode=b", "end=400", ndVoc(append(voc, []byte{0xff, 0xff}))}, secs...))
	}
	// (5) the 4 header bytes arrive in separate segments (every composition of 4 into 2..4 parts), spaced 2 / 40 / 400 ms;
	// lengths whose high header bytes are not zero, so that a header assembled from too few bytes has another value;
	//   (5a) the frame is then completed and followed by two valid frames: nothing desynchronises;
	//   (5b) the header stays truncated after the dribbled bytes and the panel falls silent: dropped, nothing delivered
	splits := [][]int{{1, 1, 2}, {1, 1, 1, 1}, {2, 1, 1}, {1, 2, 1}, {1, 3}, {2, 2}, {3, 1}}
	hgaps := []int{2, 40, 400}
	p64k := ndMsgOfSize(65536)
	p70k := ndMsgOfSize(70000)
	tail2 := append(ndFrame(good[1]), ndFrame(good[2])...)
	dribble := func(b []byte, parts []int, gap int) []string { // the first len(parts) pieces of b, one write each
		cuts := []int{}
		o := 0
		for _, n := range parts {
			o += n
			cuts = append(cuts, o)
		}
		return ndCutWrites(b[:o], cuts[:len(cuts)-1], gap)
	}
	i5 := 0
	for si, sp := range splits {
		for gi, gap := range hgaps {
			if !thorough && (si+gi)%3 != 0 && si > 1 {
				continue // quick: 1+1+2 and 1+1+1+1 at every spacing, a third of the other compositions
			}
			i5++
			payload := p36
			switch i5 % 3 {
			case 1:
				payload = p64k
			case 2:
				payload = p70k
			}
			fr := ndFrame(payload)
			d := []string{}
			if i5%2 == 0 {
				d = append(d, ndW(ndFrame(good[0])))
			}
			d = ndConcat(d, dribble(fr, sp, gap), []string{ndW(append(append([]byte{}, fr[4:]...), tail2...))})
			recs = append(recs, ndRecOf("net.c10", []string{"mode=b", "end=400", ndVoc([][]byte{good[0], good[1], good[2], payload})}, ndHandshake("b"), d))
		}
	}
	truncs := [][]int{{1, 1}, {1, 1, 1}, {2, 1}, {1, 2}, {1}, {3}}
	hvals := []uint32{65536, 36, 458752, 123456, 16777215}
	i5 = 0
	for ti, tp := range truncs {
		for hi, hv := range hvals {
			if !thorough && (ti+hi)%2 != 0 && ti > 1 {
				continue
			}
			i5++
			gap := hgaps[i5%3]
			hdr := ndHeader(hv)
			d := []string{}
			if i5%2 == 0 {
				d = append(d, ndW(ndFrame(good[0])))
			}
			d = ndConcat(d, dribble(hdr, tp, gap), []string{ndS(3000)})
			sent := 0
			for _, x := range tp {
				sent += x
			}
			if hv == 36 && i5%4 < 2 { // resume: the rest of the frame and a valid frame arrive after the stall
				d = append(d, ndW(append(append([]byte{}, f40[sent:]...), ndFrame(good[1])...)), ndS(1200))
			} else {
				d = append(d, "c")
			}
			recs = append(recs, ndRecOf("net.c10", []string{"mode=b", "end=400", ndVoc(voc)}, ndHandshake("b"), d, next))
		}
	}
	// (6) a frame with an empty (or undecodable) payload, then silence for longer than the in-frame timeout, then
	// valid frames: the connection is kept, everything is delivered
	for ii, idle := range []int{2500, 4500} {
		for v := 0; v < 5; v++ {
			if !thorough && ii == 1 && v%2 == 1 {
				continue
			}
			e4 := ndHeader(0)
			g2 := []byte{0x08, 0xff}
			d := []string{}
			vv := [][]byte{good[0], good[1], good[2], {}, g2}
			switch v {
			case 0: // empty frame first on the connection
				d = []string{ndW(e4), ndS(idle), ndW(tail2)}
			case 1: // after a valid frame, same segment
				d = []string{ndW(append(ndFrame(good[0]), e4...)), ndS(idle), ndW(tail2)}
			case 2: // after a valid frame, own segment; two empty frames; idle twice
				d = []string{ndW(ndFrame(good[0])), ndW(e4), ndS(idle), ndW(e4), ndW(e4), ndS(idle), ndW(tail2)}
			case 3: // empty frame dribbled
				d = ndConcat([]string{ndW(ndFrame(good[0]))}, ndCutWrites(e4, []int{1, 2, 3}, 5), []string{ndS(idle), ndW(tail2)})
			case 4: // undecodable payload, then idle
				d = []string{ndW(ndFrame(g2)), ndS(idle), ndW(ndFrame(good[0])), ndW(ndFrame(g2)), ndS(idle), ndW(tail2)}
			}
			recs = append(recs, ndRecOf("net.c10", []string{"mode=b", "end=400", ndVoc(vv)}, ndHandshake("b"), d))
		}
	}
	// (7) the malformed frame is the first thing the panel sends after an idle period that follows the handshake
	for _, idle := range []int{2500} {
		d := []string{ndS(idle), ndW(append(ndHeader(500000), tail2...)), ndS(300), ndW(tail2), ndS(900)}
		recs = append(recs, ndRecOf("net.c10", []string{"mode=b", "end=400", ndVoc(voc)}, ndHandshake("b"), d, next))
		d = []string{ndS(idle), ndW(f40[:2]), ndS(3000), "c"}
		recs = append(recs, ndRecOf("net.c10", []string{"mode=b", "end=400", ndVoc(voc)}, ndHandshake("b"), d, next))
	}
	// (8) the reader ends the connection by its own decision — over-limit header, bytes that are no frame at all
	// (text sent to a binary client: its first four bytes are an over-limit header), a frame stalled inside its header or
	// inside its payload — in every state of the writer goroutine: idle (nothing handed over), in the middle of writing a
	// long list to a panel that reads, and blocked in conn.Write (the panel has stopped reading, megabytes are queued).
	// Whatever the writer does, the connection is dropped promptly, reported as an uncancelled disconnect, and the client
	// reconnects (the next connection delivers again).
	type endDef struct {
		name  string
		fault []string // panel actions that make the reader give the connection up
	}
	ends := []endDef{
		{"over", []string{ndW(append(ndHeader(500000), tail2...)), ndS(300), ndW(tail2), ndS(900)}},
		{"garbage", []string{ndW([]byte("HWC#5=Down\nping\n")), ndS(1200)}},
		{"stall-header", []string{ndW(f40[:2]), ndS(3000), "c"}},
		{"stall-payload", []string{ndW(f40[:20]), ndS(3000), "c"}},
	}
	for ei, e := range ends {
		for wi, wr := range []string{"idle", "midwrite", "blocked"} {
			for _, first := range []bool{true, false} {
				if !thorough && first != ((ei+wi)%2 == 0) {
					continue // quick: the fault first on the connection / after a valid frame, alternating
				}
				opts := []string{"mode=b", "end=400", ndVoc(voc)}
				c0 := ndHandshake("b")
				sub := []string{}
				switch wr {
				case "midwrite": // the list is handed over as soon as the connection is up; the panel reads it
					opts = append(opts, "rxq=1")
					sub = []string{"sub", "h", "B60x400000"}
					c0 = append(c0, fmt.Sprintf("p%d:4000", 1000000+500000*ei)) // the fault comes when 1-2.5 of the 24 MB have arrived
				case "blocked": // the panel stops reading; 16 MB are handed over; the writer sits in conn.Write
					opts = append(opts, "rxq=1")
					sub = []string{"sub", "h", ndS(150), "B40x400000"}
					c0 = append(c0, "z", ndS(700))
				}
				if !first {
					c0 = append(c0, ndW(ndFrame(good[0])))
				}
				c0 = append(c0, e.fault...)
				if len(sub) > 0 {
					recs = append(recs, ndRecOf("net.c10", opts, c0, next, sub))
				} else {
					recs = append(recs, ndRecOf("net.c10", opts, c0, next))
				}
			}
		}
	}
	// (9) the classes of the sibling families: every reply class x traffic on the reader-buffer boundaries, silence
	// inside an ASCII line, mode changes between connections: nothing here is a fault, no connection may be dropped
	recs = append(recs, ndCrossRecs("net.c10", r, thorough)...)
	// (10) the faults of this family behind every BINARY reply class and after a connection that spoke ASCII
	for i, rc := range ndReplyClasses {
		if rc.mode != "b" {
			continue
		}
		hs := ndHandshakeOf(rc.reply)
		d := []string{ndW(ndFrame(good[0])), ndW(append(ndHeader(500000), tail2...)), ndS(300), ndW(tail2), ndS(900)}
		recs = append(recs, ndRecOf("net.c10", []string{"mode=b", "end=400", ndVoc(voc)}, hs, d, next))
		d = []string{ndW(ndFrame(good[0])), ndW(f40[:3+17*i]), ndS(3000), "c"}
		recs = append(recs, ndRecOf("net.c10", []string{"mode=b", "end=400", ndVoc(voc)}, hs, d, next))
	}
	{
		ls, vocL := ndLongLineStream(4096, "\n")
		ascC := ndConcat(ndHandshakeOf([]byte("RDY\n")), []string{ndW(ls), ndS(60), "c"})
		over := ndConcat(ndHandshake("b"), []string{ndW(ndFrame(good[0])), ndW(append(ndHeader(500000), tail2...)), ndS(1300)})
		vv := append(append([][]byte{}, voc...), vocL...)
		recs = append(recs, ndRecOf("net.c10", []string{"mode=b", "modes=abb", "end=400", ndVoc(vv)}, ascC, over, next))
	}
	_ = n
	ndEmitBatch(recs)
}

// ---------------------------------------------------------------------------------------------------
// C09
// ---------------------------------------------------------------------------------------------------
func ndInMsg(r *Rng, id uint32, kind int) *rwp.InboundMessage {
	switch kind {
	case 0:
		return &rwp.InboundMessage{States: []*rwp.HWCState{{HWCIDs: []uint32{id}, HWCMode: &rwp.HWCMode{State: rwp.HWCMode_StateE(r.Intn(6)), Output: r.Bool(), BlinkPattern: uint32(r.Intn(16))}}}}
	case 1:
		return &rwp.InboundMessage{FlowMessage: rwp.InboundMessage_PING, States: []*rwp.HWCState{{HWCIDs: []uint32{id}, HWCMode: &rwp.HWCMode{State: rwp.HWCMode_ON}}}}
	case 2: // graphics state of 1-12 kB (mono image, 8 pixels per byte)
		h := 64
		w := 128 + 8*r.Intn(180)
		return &rwp.InboundMessage{States: []*rwp.HWCState{{HWCIDs: []uint32{id}, HWCGfx: &rwp.HWCGfx{ImageType: rwp.HWCGfx_MONO, W: uint32(w), H: uint32(h), ImageData: r.Bytes(w / 8 * h)}}}}
	case 4: // text state whose last field ends in white space (a writer that trims lines would change it on the wire)
		tails := []string{" ", "  ", "\t", " x ", ""}
		return &rwp.InboundMessage{States: []*rwp.HWCState{{HWCIDs: []uint32{id}, HWCText: &rwp.HWCText{Title: " T" + tails[r.Intn(len(tails))], Formatting: 7, Textline1: "ISO" + tails[r.Intn(len(tails))]}}}}
	case 5: // graphics state whose protobuf encoding exceeds 64 KiB (length prefix needs more than 16 bits)
		n := 65536 + r.Intn(90000)
		return &rwp.InboundMessage{States: []*rwp.HWCState{{HWCIDs: []uint32{id}, HWCGfx: &rwp.HWCGfx{ImageType: rwp.HWCGfx_RGB16bit, W: 320, H: 240, ImageData: r.Bytes(n)}}}}
	default:
		return &rwp.InboundMessage{States: []*rwp.HWCState{{HWCIDs: []uint32{id, id + 1}, HWCMode: &rwp.HWCMode{State: rwp.HWCMode_DIMMED}}}}
	}
}

// messages without an ASCII representation (the converter gives no line for them); in binary mode each is a frame
func ndLinelessMsgs() []*rwp.InboundMessage {
	return []*rwp.InboundMessage{
		{},                        // empty message: a frame without payload in binary mode
		{Command: &rwp.Command{}}, // command with nothing set
		{States: []*rwp.HWCState{{HWCIDs: []uint32{5, 6}}}},                       // state with ids but no content
		{States: []*rwp.HWCState{{}}},                                             // state without ids
		{States: []*rwp.HWCState{{HWCMode: &rwp.HWCMode{State: rwp.HWCMode_ON}}}}, // content but no ids
	}
}

// bytes a list puts on the wire in the given mode
func ndWireLen(mode string, msgs []*rwp.InboundMessage) int {
	t := 0
	if mode == "a" {
		for _, l := range rawpanellib.InboundMessagesToRawPanelASCIIstrings(msgs) {
			t += len(l) + 1
		}
	} else {
		for _, m := range msgs {
			b, _ := proto.Marshal(m)
			t += 4 + len(b)
		}
	}
	return t
}

func ndMarItems(msgs []*rwp.InboundMessage) [][]byte {
	items := [][]byte{}
	for _, m := range msgs {
		b, _ := proto.Marshal(m)
		items = append(items, b)
	}
	return items
}

// a text state whose ASCII line is exactly k bytes long (without the line feed)
func ndTextMsgWithLineLen(id uint32, k int) *rwp.InboundMessage {
	mk := func(t int) *rwp.InboundMessage {
		return &rwp.InboundMessage{States: []*rwp.HWCState{{HWCIDs: []uint32{id}, HWCText: &rwp.HWCText{Title: strings.Repeat("x", t), Formatting: 7}}}}
	}
	base := len(rawpanellib.InboundMessagesToRawPanelASCIIstrings([]*rwp.InboundMessage{mk(1)})[0])
	t := k - base + 1
	if t < 1 {
		t = 1
	}
	return mk(t)
}

func genC09(r *Rng, n int, tier string) {
	recs := []ndRec{}
	// NON-EMPTY lists that convert to zero ASCII lines (one such message, several, all kinds), empty lists, and lists in
	// which only some messages have lines, between ordinary submissions; both modes; one and two submitters; with and
	// without traffic from the panel.  Nothing but the converter's lines (binary: one frame per message) may reach the panel.
	ll := ndLinelessMsgs()
	for si, rc := range ndReplyClasses {
		mode := rc.mode
		total := 6
		if mode == "a" {
			total++
		}
		subSecs := [][]string{}
		for g := 0; g <= si%2; g++ {
			toks := []string{"sub", "h"}
			lists := [][]*rwp.InboundMessage{
				{ndInMsg(r, uint32(3000+g*100), 1)},
				{ll[(si+g)%len(ll)]},
				{},
				{ndInMsg(r, uint32(3001+g*100), 0)},
				{ll[1], ll[2]},
				ll,
				{ll[0], ndInMsg(r, uint32(3002+g*100), 4), ll[3]},
				{ll[(si+g+2)%len(ll)]},
				{ndInMsg(r, uint32(3003+g*100), 3)},
			}
			if si >= 5 { // only line-less lists: whatever arrives at the panel belongs to no line
				lists = [][]*rwp.InboundMessage{{ll[0]}, {ll[1], ll[2]}, ll, {ll[4]}}
			}
			for i, l := range lists {
				total += ndWireLen(mode, l)
				toks = append(toks, "m"+ndItems(ndMarItems(l)))
				if (i+si)%3 == 0 {
					toks = append(toks, ndS(1+r.Intn(40)))
				}
			}
			subSecs = append(subSecs, toks)
		}
		// every reply class; meanwhile the panel sends a short message, an empty one and one on a reader-buffer boundary
		ptoks := ndHandshakeOf(rc.reply)
		voc := [][]byte{}
		if si%3 != 2 {
			if mode == "a" {
				long := ndLongLine([]int{4095, 4096, 9000}[si%3])
				voc = append(voc, []byte("HWC#7=Down"), []byte{}, []byte(long))
				ptoks = append(ptoks, ndW([]byte("HWC#7=Down\n\r\n"+long+"\n")))
			} else {
				bigf := ndMsgOfSize([]int{4092, 65536}[si%2])
				voc = append(voc, ndEvent(7, true), []byte{}, bigf)
				ptoks = append(ptoks, ndW(append(ndFrame(ndEvent(7, true)), ndHeader(0)...)), ndW(ndFrame(bigf)))
			}
		}
		ptoks = append(ptoks, fmt.Sprintf("p%d:3000", total), ndS(400)) // stray bytes written after the last line are still seen
		recs = append(recs, ndRecOf("net.c09", []string{"mode=" + mode, "end=150", ndVoc(voc)}, append([][]string{ptoks}, subSecs...)...))
	}
	// ASCII submissions whose lines end exactly on / one short of / one past the boundaries a buffering writer would have
	// (4096, 8192, 65536 bytes): a single such line, and two lines whose running length incl. the first line feed lands there
	for bi, B := range []int{4096, 8192, 65536} {
		toks := []string{"sub", "h"}
		total := 7
		id := uint32(5000 + 10*bi)
		lists := [][]*rwp.InboundMessage{
			{ndTextMsgWithLineLen(id, B-1)},
			{ndTextMsgWithLineLen(id+1, B)},
			{ndTextMsgWithLineLen(id+2, B+1)},
			{ndTextMsgWithLineLen(id+3, 1000), ndTextMsgWithLineLen(id+4, B-1001), ndInMsg(r, id+5, 1)},
			{ndTextMsgWithLineLen(id+6, 1000), ndTextMsgWithLineLen(id+7, B-1002), ndInMsg(r, id+8, 0)},
			{ndTextMsgWithLineLen(id+6, 999), ndTextMsgWithLineLen(id+7, B-1000), ndInMsg(r, id+9, 0)},
		}
		for _, l := range lists {
			total += ndWireLen("a", l)
			toks = append(toks, "m"+ndItems(ndMarItems(l)))
		}
		ptoks := ndHandshake("a")
		ptoks = append(ptoks, fmt.Sprintf("p%d:5000", total), ndS(300))
		recs = append(recs, ndRecOf("net.c09", []string{"mode=a", "end=150", ndVoc(nil)}, ptoks, toks))
	}
	nscripts := 24
	if tier == "thorough" {
		nscripts = 400
	}
	for si := 0; si < nscripts; si++ {
		mode := "b"
		if si%2 == 1 {
			mode = "a"
		}
		ng := 1 + (si/2)%4
		total := 6
		if mode == "a" {
			total++
		}
		subSecs := [][]string{}
		for g := 0; g < ng; g++ {
			toks := []string{"sub", "h"}
			nsub := 1 + r.Intn(6)
			for i := 0; i < nsub; i++ {
				nm := 0
				switch r.Intn(6) {
				case 0:
					nm = 0 // empty list
				case 1:
					nm = 1
				case 2:
					nm = 50
				default:
					nm = 1 + r.Intn(12)
				}
				msgs := []*rwp.InboundMessage{}
				items := [][]byte{}
				for j := 0; j < nm; j++ {
					kind := r.Intn(5)
					if kind == 2 && r.Chance(60) {
						kind = 0
					}
					if r.Chance(3) && nm <= 12 {
						kind = 5
					}
					m := ndInMsg(r, uint32(1+g*100000+i*1000+j*2), kind)
					if r.Chance(8) || (nm == 1 && r.Chance(30)) { // a message without an ASCII representation
						m = ll[r.Intn(len(ll))]
					}
					msgs = append(msgs, m)
					b, _ := proto.Marshal(m)
					items = append(items, b)
				}
				// bytes the panel has to wait for (only used to end the script; the check itself is in the Spec)
				if mode == "a" {
					for _, l := range rawpanellib.InboundMessagesToRawPanelASCIIstrings(msgs) {
						total += len(l) + 1
					}
				} else {
					for _, b := range items {
						total += 4 + len(b)
					}
				}
				toks = append(toks, "m"+ndItems(items))
				if r.Chance(30) {
					toks = append(toks, ndS(r.Intn(5)))
				}
			}
			subSecs = append(subSecs, toks)
		}
		// the panel sends events while the submissions are written
		nev := r.Pick(0, 5, 40, 200)
		ptoks := ndHandshake(mode)
		voc := [][]byte{}
		for e := 0; e < nev; e++ {
			if mode == "b" {
				p := ndEvent(uint32(1+e%50), e%2 == 0)
				voc = append(voc, p)
				ptoks = append(ptoks, ndW(ndFrame(p)))
			} else {
				l := fmt.Sprintf("HWC#%d=%s", 1+e%50, []string{"Down", "Up"}[e%2])
				voc = append(voc, []byte(l))
				ptoks = append(ptoks, ndW([]byte(l+"\n")))
			}
			if e%8 == 7 {
				ptoks = append(ptoks, ndS(1))
			}
		}
		ptoks = append(ptoks, fmt.Sprintf("p%d:8000", total))
		opts := []string{"mode=" + mode, "end=150", ndVoc(voc)}
		if si%3 == 0 {
			opts = append(opts, "qcap=10")
		}
		recs = append(recs, ndRecOf("net.c09", opts, append([][]string{ptoks}, subSecs...)...))
	}
	// submissions long after the panel's last frame: one event from the panel, a submission, 2.6 s of silence, two more
	for _, mode := range []string{"b", "a"} {
		toks := []string{"sub", "h"}
		total := 6
		if mode == "a" {
			total++
		}
		for i := 0; i < 3; i++ {
			m := ndInMsg(r, uint32(900+i), 0)
			b, _ := proto.Marshal(m)
			if mode == "a" {
				for _, l := range rawpanellib.InboundMessagesToRawPanelASCIIstrings([]*rwp.InboundMessage{m}) {
					total += len(l) + 1
				}
			} else {
				total += 4 + len(b)
			}
			toks = append(toks, "m"+ndItems([][]byte{b}))
			if i == 0 {
				toks = append(toks, ndS(2600))
			}
		}
		ptoks := ndHandshake(mode)
		voc := [][]byte{}
		if mode == "b" {
			p := ndEvent(7, true)
			voc = append(voc, p)
			ptoks = append(ptoks, ndW(ndFrame(p)))
		} else {
			voc = append(voc, []byte("HWC#7=Down"))
			ptoks = append(ptoks, ndW([]byte("HWC#7=Down\n")))
		}
		ptoks = append(ptoks, fmt.Sprintf("p%d:9000", total))
		recs = append(recs, ndRecOf("net.c09", []string{"mode=" + mode, "end=150", ndVoc(voc)}, ptoks, toks))
	}
	// lists the trace does not carry byte for byte (B<count>x<size>: graphics states of 30-60 kB, several hundred kB per
	// list) handed over on the checked connection, between listed ones and concurrently with a second goroutine: the
	// monitor demands them as that many frames / lines with that many bytes, contiguous, at their place in the order
	for bi, mode := range []string{"b", "a", "b"} {
		total := 6
		if mode == "a" {
			total++
		}
		wire := func(msgs []*rwp.InboundMessage) int {
			t := 0
			if mode == "a" {
				for _, l := range rawpanellib.InboundMessagesToRawPanelASCIIstrings(msgs) {
					t += len(l) + 1
				}
			} else {
				for _, m := range msgs {
					t += 4 + proto.Size(m)
				}
			}
			return t
		}
		subSecs := [][]string{}
		for g := 0; g < 1+bi%2+bi/2; g++ {
			toks := []string{"sub", "h"}
			for i := 0; i < 4; i++ {
				if (i+g)%2 == 1 {
					cnt, sz := 3+r.Intn(4), 30000+1000*r.Intn(30)
					total += wire(ndBigList(cnt, sz))
					toks = append(toks, fmt.Sprintf("B%dx%d", cnt, sz))
				}
				m := ndInMsg(r, uint32(700+g*100+i), r.Pick(0, 1, 3, 4))
				b, _ := proto.Marshal(m)
				total += wire([]*rwp.InboundMessage{m})
				toks = append(toks, "m"+ndItems([][]byte{b}))
			}
			subSecs = append(subSecs, toks)
		}
		ptoks := append(ndHandshake(mode), fmt.Sprintf("p%d:8000", total))
		recs = append(recs, ndRecOf("net.c09", []string{"mode=" + mode, "end=150", ndVoc(nil)}, append([][]string{ptoks}, subSecs...)...))
	}
	// a connection is lost and the client reconnects by itself; what is handed over on the new connection must reach the
	// panel completely and in order.  The loss happens while the writer goroutine of the old connection is busy (the panel
	// has stopped reading and the list being written is larger than the socket buffers: blocked in conn.Write) or idle;
	// it is caused by an over-limit header, a stalled frame, or the panel closing / resetting; the two connections
	// negotiate the same or different modes; one or two goroutines submit on the new connection.
	type lossDef struct {
		m0, loss string
		blocked  bool
		m1       string
	}
	losses := []lossDef{
		{"b", "over", true, "b"}, {"b", "close", true, "b"}, {"b", "stall", true, "b"}, {"a", "close", true, "a"},
		{"a", "close", true, "b"}, {"b", "over", true, "a"}, {"b", "over", false, "b"}, {"a", "close", false, "a"},
	}
	if tier == "thorough" {
		losses = nil
		for _, m0 := range []string{"b", "a"} {
			for _, loss := range []string{"over", "stall", "close", "rst"} {
				if m0 == "a" && (loss == "over" || loss == "stall") {
					continue
				}
				for _, blocked := range []bool{true, false} {
					for _, m1 := range []string{"b", "a"} {
						losses = append(losses, lossDef{m0, loss, blocked, m1})
					}
				}
			}
		}
	}
	for li, ld := range losses {
		c0 := ndHandshake(ld.m0)
		if ld.blocked {
			c0 = append(c0, "z", ndS(700))
		} else {
			c0 = append(c0, ndS(300))
		}
		switch ld.loss {
		case "over":
			c0 = append(c0, ndW(ndHeader(uint32(500000+r.Intn(1<<30)))), ndS(200))
		case "stall":
			c0 = append(c0, ndW([]byte{byte(1 + r.Intn(200))}), ndS(2400))
		case "close":
			c0 = append(c0, "c")
		case "rst":
			c0 = append(c0, "r")
		}
		total := 6
		if ld.m1 == "a" {
			total++
		}
		subSecs := [][]string{}
		for g := 0; g < 1+li%2; g++ {
			toks := []string{"sub"}
			if g == 0 {
				toks = append(toks, "h", ndS(150))
				if ld.blocked {
					toks = append(toks, "B40x400000")
				}
			}
			toks = append(toks, "h2")
			for i := 0; i < 30-20*g; i++ {
				nm := 1 + r.Intn(3)
				msgs := []*rwp.InboundMessage{}
				items := [][]byte{}
				for j := 0; j < nm; j++ {
					m := ndInMsg(r, uint32(1000+g*100000+i*10+j), r.Pick(0, 0, 1, 3, 4))
					msgs = append(msgs, m)
					b, _ := proto.Marshal(m)
					items = append(items, b)
				}
				if ld.m1 == "a" {
					for _, l := range rawpanellib.InboundMessagesToRawPanelASCIIstrings(msgs) {
						total += len(l) + 1
					}
				} else {
					for _, b := range items {
						total += 4 + len(b)
					}
				}
				toks = append(toks, "m"+ndItems(items))
			}
			subSecs = append(subSecs, toks)
		}
		c1 := ndHandshake(ld.m1)
		voc := [][]byte{}
		for e := 0; e < 5*(li%3); e++ { // some traffic from the panel on the new connection
			if ld.m1 == "b" {
				p := ndEvent(uint32(1+e), e%2 == 0)
				voc = append(voc, p)
				c1 = append(c1, ndW(ndFrame(p)))
			} else {
				l := fmt.Sprintf("HWC#%d=%s", 1+e, []string{"Down", "Up"}[e%2])
				voc = append(voc, []byte(l))
				c1 = append(c1, ndW([]byte(l+"\n")))
			}
		}
		c1 = append(c1, fmt.Sprintf("p%d:5000", total))
		opts := []string{"mode=" + ld.m1, "modes=" + ld.m0 + ld.m1, "end=150", ndVoc(voc)}
		recs = append(recs, ndRecOf("net.c09", opts, append([][]string{c0, c1}, subSecs...)...))
	}
	_ = n
	ndEmitBatch(recs)
}

// ---------------------------------------------------------------------------------------------------
// C12
// ---------------------------------------------------------------------------------------------------
func genC12(r *Rng, n int, tier string) {
	recs := []ndRec{}
	thorough := tier == "thorough"
	type rep struct {
		name string
		b    []byte
	}
	// the reply classes the property names, for both entry points …
	named := []rep{
		{"ack", ndFrame(ndAck)},                     // acknowledge frame
		{"rdy", []byte("RDY\n")},                    // ASCII ready word
		{"rdy+", []byte("RDY\nmap=1:2\n")},          // ready word with more behind it
		{"map", []byte("map=12:34\n")},              // map line
		{"maps", []byte("map=1:1\nmap=2:2\nRDY\n")}, // several map lines
	}
	// … and for the reconnecting client: any other text reply, with or without an error message
	namedClient := []rep{
		{"err", []byte("ErrorMsg=Panel is busy serving another client\n")},
		{"err2", []byte("ErrorMsg=Locked\nBSY\n")},
		{"err-nolf", []byte("ErrorMsg=no newline")},
		{"err-eq", []byte("ErrorMsg=Max connections reached (limit=1), locked by IP=10.0.0.5\n")}, // '=' inside the message text
		{"bsy", []byte("BSY\n")},
		{"list", []byte("list\n_model=SK_X\n")},
		{"nack", []byte("nack\n")},
	}
	// replies for which the property fixes no verdict (compared with the model, not judged; kept away from the window's end)
	unnamedClient := []rep{
		{"frame-ping", ndFrame(ndPingOut)},                            // another well-formed frame
		{"short", []byte{1, 2}},                                       // short, not text
		{"mismatch", []byte{9, 0, 0, 0, 8, 2}},                        // header does not match the byte count
		{"two-frames", append(ndFrame(ndAck), ndFrame(ndPingOut)...)}, // two frames in one segment
	}
	unnamedDetector := []rep{
		{"frame-event", ndFrame(ndEvent(5, true))},
		{"empty-frame", []byte{0, 0, 0, 0}}, // a frame with an empty payload (4 bytes)
	}
	if thorough {
		unnamedClient = append(unnamedClient, unnamedDetector...)
		unnamedDetector = unnamedClient
	}
	// reply delays: well inside the window, and 200 ms before its end (there the monitor decides alone: B:tight-margin);
	// nothing is scheduled within 100 ms of the end (the monitor does not judge replies within 50 ms of it)
	delays := []int{0, 600, 1200, 1800}
	closeDelays := map[int]bool{0: true, 1200: true}
	if thorough {
		delays = []int{0, 100, 600, 1000, 1200, 1500, 1700, 1800}
		closeDelays = map[int]bool{0: true, 100: true, 600: true, 1000: true, 1200: true, 1500: true, 1700: true, 1800: true}
	}
	one := func(reply []byte, d int, cl bool, last bool) []string { // one connection: reply after d ms, then close or stay
		toks := []string{"conn", "p6"}
		if d > 0 {
			toks = append(toks, ndS(d))
		}
		if reply != nil {
			toks = append(toks, ndW(reply))
		}
		if cl {
			toks = append(toks, "s30", "c")
		} else if last {
			toks = append(toks, "s150")
		}
		return toks
	}
	capOf := func(secs [][]string) string {
		c := 6000 + 2500*(len(secs)-1)
		for _, sec := range secs {
			for _, t := range sec {
				if t[0] == 's' {
					c += atoi(t[1:])
				}
			}
		}
		return "cap=" + strconv.Itoa(c)
	}
	// (A) several connections of ONE call of the entry point: the reconnecting client probes every new connection (the
	// panel drops the earlier ones; the client reconnects by itself), the stand-alone detector is called once per
	// connection.  Every connection is judged by what the panel replies on that connection: reply class x delay on the
	// 2nd and 3rd connection, after every kind of earlier connection (binary; ASCII by ready word; ASCII by silence;
	// error message and close).
	earlier := map[string][]string{
		"B": one(ndFrame(ndAck), 0, true, false),
		"R": one([]byte("RDY\n"), 0, true, false),
		"S": {"conn", "p6", "s2400", "c"},
		"E": one([]byte("ErrorMsg=Panel busy, try again\n"), 0, true, false),
	}
	type multi struct {
		cmd  string
		pre  []string
		last rep
		d    int
	}
	ms := []multi{}
	ack, rdy, mp, errr := named[0], named[1], named[3], namedClient[0]
	if thorough {
		for _, e := range []string{"B", "R", "S", "E"} {
			for _, rp := range []rep{ack, rdy, mp, errr} {
				for _, d := range []int{0, 600, 1200, 1800} {
					ms = append(ms, multi{"net.c12c", []string{e}, rp, d})
					if rp.name != "err" && (d == 1200 || d == 1800) {
						ms = append(ms, multi{"net.c12d", []string{e}, rp, d})
					}
				}
			}
			for _, e2 := range []string{"B", "R", "S", "E"} {
				ms = append(ms, multi{"net.c12c", []string{e, e2}, ack, 1200}, multi{"net.c12c", []string{e, e2}, ack, 1800}, multi{"net.c12c", []string{e, e2}, rdy, 600})
			}
		}
	} else {
		for _, e := range []string{"B", "R", "S", "E"} {
			ms = append(ms, multi{"net.c12c", []string{e}, ack, 600}, multi{"net.c12c", []string{e}, ack, 1200},
				multi{"net.c12c", []string{e}, ack, 1800}, multi{"net.c12c", []string{e}, rdy, 600},
				multi{"net.c12c", []string{e}, rdy, 1800}, multi{"net.c12c", []string{e}, mp, 1200},
				multi{"net.c12c", []string{e}, errr, 1200},
				multi{"net.c12d", []string{e}, ack, 1200}, multi{"net.c12d", []string{e}, ack, 1800},
				multi{"net.c12d", []string{e}, rdy, 600})
		}
		ms = append(ms,
			multi{"net.c12c", []string{"B", "R"}, ack, 1200}, multi{"net.c12c", []string{"R", "S"}, ack, 1800},
			multi{"net.c12c", []string{"S", "E"}, ack, 600}, multi{"net.c12c", []string{"E", "B"}, rdy, 1800},
			multi{"net.c12c", []string{"R", "R"}, ack, 1200}, multi{"net.c12c", []string{"B", "B"}, mp, 600},
			multi{"net.c12c", []string{"R", "E"}, errr, 1800}, multi{"net.c12c", []string{"S", "S"}, ack, 1200},
			multi{"net.c12d", []string{"R", "R"}, ack, 1200}, multi{"net.c12d", []string{"S", "B"}, mp, 1800})
	}
	for _, m := range ms {
		secs := [][]string{}
		for _, e := range m.pre {
			secs = append(secs, earlier[e])
		}
		secs = append(secs, one(m.last.b, m.d, false, true))
		recs = append(recs, ndRecOf(m.cmd, []string{"end=300", capOf(secs)}, secs...))
	}
	// three connections in a row, each probed and dropped at once
	recs = append(recs, ndRec{"net.c12c", []string{"end=300",
		"conn", "p6", ndW(ndFrame(ndAck)), "s30", "c",
		"conn", "p6", ndW(ndFrame(ndAck)), "s30", "c",
		"conn", "p6", ndW([]byte("RDY\n")), "s150"}})
	// (B) one probe exchange: reply class x delay x {followed by close or not} x entry point
	for _, cmd := range []string{"net.c12c", "net.c12d"} {
		reps := append([]rep{}, named...)
		if cmd == "net.c12c" {
			reps = append(reps, namedClient...)
		}
		for _, rp := range reps {
			for _, d := range delays {
				for _, cl := range []bool{false, true} {
					if cl && !closeDelays[d] {
						continue
					}
					recs = append(recs, ndRec{cmd, append([]string{"end=250"}, one(rp.b, d, cl, true)...)})
				}
			}
		}
		// replies the property fixes no verdict for
		un := unnamedClient
		if cmd == "net.c12d" {
			un = unnamedDetector
		}
		for _, rp := range un {
			for _, d := range delays {
				if d != 0 && !(thorough && d <= 1200) {
					continue
				}
				recs = append(recs, ndRec{cmd, append([]string{"end=250"}, one(rp.b, d, false, true)...)})
			}
		}
		if cmd == "net.c12d" { // text replies other than ready word / map: named for the client only
			for i, rp := range namedClient {
				if !thorough && i != 0 && i != 4 {
					continue
				}
				recs = append(recs, ndRec{cmd, append([]string{"end=250"}, one(rp.b, 0, false, true)...)})
			}
		}
		// replies that reach the single probe Read in two segments (an acknowledge frame whose header and payload are
		// written separately, a ready word cut in two): outside the property's domain (the monitor skips them,
		// B:skip-reply-in-several-segments), but the model's verdict for the first segment is still compared
		type split struct {
			rep []byte
			k   int
			cmd string // "" = both entry points
		}
		splits := []split{{ndFrame(ndAck), 4, ""}, {ndFrame(ndAck), 1, "net.c12c"}, {[]byte("RDY\n"), 2, "net.c12d"}}
		if thorough {
			splits = []split{{ndFrame(ndAck), 4, ""}, {ndFrame(ndAck), 1, ""}, {ndFrame(ndAck), 2, ""}, {ndFrame(ndAck), 5, ""}, {[]byte("RDY\n"), 2, ""}, {[]byte("map=1:2\n"), 4, ""}}
		}
		for _, sp := range splits {
			if sp.cmd != "" && sp.cmd != cmd {
				continue
			}
			for _, d := range []int{0, 500} {
				if !thorough && d > 0 {
					continue
				}
				toks := []string{"conn", "p6"}
				if d > 0 {
					toks = append(toks, ndS(d))
				}
				toks = append(toks, ndW(sp.rep[:sp.k]), "s300", ndW(sp.rep[sp.k:]), "s150")
				recs = append(recs, ndRec{cmd, append([]string{"end=250"}, toks...)})
			}
		}
		// a named reply with traffic of the negotiated mode right behind it (own segment, 40 ms later): a line / frame on
		// a reader-buffer boundary, an empty message; the verdict and what the panel receives do not depend on it
		for i, rp := range []rep{named[0], named[1], named[3], namedClient[0], {"ackpl", ndAckWithPayload}} {
			if cmd == "net.c12d" && i >= 3 {
				continue
			}
			var behind []byte
			if rp.name == "ack" || rp.name == "ackpl" {
				behind = append(ndHeader(0), ndFrame(ndMsgOfSize([]int{4092, 65536}[i%2]))...)
			} else {
				ln := []int{4095, 4096, 9000}[i%3]
				if thorough {
					ln = 65535
				}
				behind = []byte("\n" + ndLongLine(ln) + "\nping\n")
			}
			for _, d := range []int{0, 1200} {
				toks := append(one(rp.b, d, false, false), "s40", ndW(behind), "s150")
				recs = append(recs, ndRec{cmd, append([]string{"end=250"}, toks...)})
			}
		}
		// silence for the whole window (then nothing / then late data / then close), and close inside the window
		recs = append(recs, ndRec{cmd, []string{"end=300", "conn", "p6", "s2400"}})
		recs = append(recs, ndRec{cmd, []string{"end=300", "conn", "p6", "s2400", ndW(ndFrame(ndAck)), "s100"}})
		recs = append(recs, ndRec{cmd, []string{"end=300", "conn", "p6", "s2400", ndW([]byte("RDY\n")), "s100"}})
		recs = append(recs, ndRec{cmd, []string{"end=300", "conn", "p6", "s2400", "c"}})
		recs = append(recs, ndRec{cmd, []string{"end=300", "conn", "p6", "s500", "c"}})
		if cmd == "net.c12c" || thorough {
			recs = append(recs, ndRec{cmd, []string{"end=300", "conn", "p6", "c"}})
		}
	}
	_ = n
	_ = r
	ndEmitBatch(recs)
}
