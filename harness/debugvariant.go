package main

import (
	"hash/fnv"
	"os"
	"strings"

	helpers "github.com/SKAARHOJ/rawpanel-lib"
)

// The four converters have a debug dump (package variable DebugRWPhelpers) that prints what they converted. The dump
// must not change what they return. Every third converter record (chosen by a hash of its text, so a replay chooses
// the same) is executed a second time with the dump switched on and the process's stdout pointed at /dev/null; if the
// result differs, the debug-on result is what the record reports (the driver then sees model ≠ implementation and
// evaluates the property on it).
func withDebugVariant(cmd string, a []string, f func(string, []string) string) string {
	normal := f(cmd, a)
	h := fnv.New32a()
	h.Write([]byte(cmd))
	h.Write([]byte(strings.Join(a, " ")))
	if h.Sum32()%3 != 0 || os.Getenv("VERIF_NO_DEBUG_VARIANT") != "" {
		return normal
	}
	dbg := ""
	quietly(func() {
		helpers.DebugRWPhelpersMU.Lock()
		helpers.DebugRWPhelpers = true
		helpers.DebugRWPhelpersMU.Unlock()
		defer func() {
			helpers.DebugRWPhelpersMU.Lock()
			helpers.DebugRWPhelpers = false
			helpers.DebugRWPhelpersMU.Unlock()
		}()
		dbg = f(cmd, a)
	})
	if dbg != normal {
		return dbg
	}
	return normal
}
