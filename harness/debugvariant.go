package main

import (
	"hash/fnv"
	"os"
	"strings"

	helpers "github.com/SKAARHOJ/rawpanel-lib"
)

// The four converters have a debug dump (package variable DebugRWPhelpers) that prints what they converted. The dump
// must not change what they return. Every third converter record (chosen by a hash of its text, so a replay chooses
// the same) AND every record whose input or output carries a line / string longer than debugLongLine bytes (a dump that
// shortens or wraps what it prints acts only on long lines) is executed a second time with the dump switched on and the
// process's stdout pointed at /dev/null; if the result differs, the debug-on result is what the record reports (the
// driver then sees model ≠ implementation and evaluates the property on it).
const debugLongLine = 200

// a byte string of more than n bytes in the record text: a run of more than 2n hex digits
func hasLongHex(s string, n int) bool {
	run := 0
	for i := 0; i < len(s); i++ {
		c := s[i]
		if (c >= '0' && c <= '9') || (c >= 'a' && c <= 'f') {
			run++
			if run > 2*n {
				return true
			}
		} else {
			run = 0
		}
	}
	return false
}

func withDebugVariant(cmd string, a []string, f func(string, []string) string) string {
	normal := f(cmd, a)
	if os.Getenv("VERIF_NO_DEBUG_VARIANT") != "" {
		return normal
	}
	h := fnv.New32a()
	h.Write([]byte(cmd))
	h.Write([]byte(strings.Join(a, " ")))
	if h.Sum32()%3 != 0 {
		long := hasLongHex(normal, debugLongLine)
		for i := 0; !long && i < len(a); i++ {
			long = hasLongHex(a[i], debugLongLine)
		}
		if !long {
			return normal
		}
	}
	dbg := ""
	quietly(func() {
		helpers.DebugRWPhelpersMU.Lock()
		helpers.DebugRWPhelpers = true
		helpers.DebugRWPhelpersMU.Unlock()
		defer func() {
			helpers.DebugRWPhelpersMU.Lock()
			helpers.DebugRWPhelpers = false
			helpers.DebugRWPhelpersMU.Unlock()
		}()
		dbg = f(cmd, a)
	})
	if dbg != normal {
		return dbg
	}
	return normal
}
