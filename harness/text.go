package main

import (
	"fmt"
	"strconv"
	"strings"
	"unicode/utf8"

	monogfx "github.com/SKAARHOJ/rawpanel-lib/ibeam_lib_monogfx"
)

// C20: text metrics vs ink; translation; scaling.

type textExec struct{}

func init() {
	registerExecutor("text", &textExec{})
	registerFamily("c20", genC20)
}

func renderCase(W, H, font int, prop bool, sp, h, v, cx, cy int, str string) *monogfx.MonoImg {
	img := &monogfx.MonoImg{}
	img.NewImage(W, H)
	img.SetFont(font, prop)
	img.SetTextSize(h, v)
	img.SetCharSpacingCompensation(byte(sp))
	img.SetTextWrap(false)
	img.SetTextColor(true)
	img.SetCursor(cx, cy)
	img.RenderText(str)
	return img
}

// the segments RenderText puts on separate lines: cut at every rune whose byte(rune) is 10 (language runtime: `range`)
func lfSegments(str string) []string {
	segs := []string{}
	start := 0
	for i, r := range str {
		if byte(r) == 10 {
			segs = append(segs, str[start:i])
			start = i + utf8.RuneLen(r) // a rune with low byte 0x0A is never RuneError: RuneLen is its encoded length
		}
	}
	return append(segs, str[start:])
}

func intsTok(xs []int) string {
	if len(xs) == 0 {
		return "-"
	}
	o := make([]string, len(xs))
	for i, x := range xs {
		o[i] = strconv.Itoa(x)
	}
	return strings.Join(o, ",")
}

// text.case font prop spacing h v cx cy dx dy W H str | sw lh lh1 segw segw1 A B C
// str = the bytes of the Go string handed to RenderText / StrWidth (arbitrary bytes, valid UTF-8 or not)
func (e *textExec) Exec(cmd string, a []string) string {
	res := ""
	p := guarded(func() {
		if cmd != "text.case" {
			panic("unknown record " + cmd)
		}
		font, prop, sp, h, v := atoi(a[0]), abool(a[1]), atoi(a[2]), atoi(a[3]), atoi(a[4])
		cx, cy, dx, dy, W, H := atoi(a[5]), atoi(a[6]), atoi(a[7]), atoi(a[8]), atoi(a[9]), atoi(a[10])
		str := string(unhx(a[11]))
		A := renderCase(W, H, font, prop, sp, h, v, cx, cy, str)
		B := renderCase(W, H, font, prop, sp, h, v, cx+dx, cy+dy, str)
		C := renderCase(W, H, font, prop, sp, 1, 1, cx, cy, str)
		segw, segw1 := []int{}, []int{}
		for _, seg := range lfSegments(str) {
			segw = append(segw, A.StrWidth(seg))
			segw1 = append(segw1, C.StrWidth(seg))
		}
		res = fmt.Sprintf("%d %d %d %s %s %s %s %s", A.StrWidth(str), A.LineHeight(), C.LineHeight(), intsTok(segw), intsTok(segw1),
			hx(A.GetImgSlice()), hx(B.GetImgSlice()), hx(C.GetImgSlice()))
	})
	if p != "" {
		return p
	}
	return res
}

// one character of a test string, as the bytes of the Go string
func c20Char(r *Rng) []byte {
	switch r.Intn(24) {
	case 0:
		return []byte{byte(r.Intn(32))} // control incl. LF (10) and CR (13)
	case 1:
		return []byte(string(rune(r.Range(128, 255)))) // Latin-1 rune: two bytes of UTF-8, byte(rune) >= 0x80
	case 2:
		return []byte{' '}
	case 3:
		return []byte{127}
	case 4:
		return []byte{13}
	case 5:
		return []byte{10}
	case 6: // rune >= U+0100: byte(rune) keeps the low 8 bits (U+010A is a line feed, U+0141 an 'A')
		lo := r.Pick(10, 13, 32, 65, 97, 126, 127, 128, 255, r.Intn(256))
		hi := r.Pick(1, 2, 0x20, 0xD7, 0xE0, 0xFF, 0x100, 0x10FF)
		return []byte(string(rune(hi<<8 | lo)))
	case 7: // a byte that is not valid UTF-8 on its own: RuneError, byte 0xFD
		return []byte{byte(r.Pick(0x80, 0xBF, 0xC0, 0xC1, 0xF5, 0xFF, r.Range(128, 255)))}
	case 8: // truncated / broken multi-byte sequences, overlong forms, surrogates
		return [][]byte{{0xC3}, {0xE2, 0x82}, {0xF0, 0x9F, 0x98}, {0xE0, 0x80, 0x8A}, {0xC0, 0x8A}, {0xED, 0xA0, 0x80},
			{0xF4, 0x90, 0x80, 0x80}, {0xE2, 0x28, 0xA1}, {0xF0, 0x28, 0x8C, 0xBC}}[r.Intn(9)]
	default:
		return []byte{byte(r.Range(33, 126))}
	}
}

func c20String(r *Rng, n int) []byte {
	b := make([]byte, 0, n)
	for i := 0; i < n; i++ {
		b = append(b, c20Char(r)...)
	}
	return b
}

// number of lines RenderText will use
func lineCount(bs []byte) int {
	return len(lfSegments(string(bs)))
}

func emitTextCase(r *Rng, font int, prop bool, sp, h, v int, bs []byte) {
	// canvas large enough not to clip: width of the widest possible rendering + cursor + offsets
	maxAdv := 9*maxInt(h, 1) + sp
	need := len(bs)*maxAdv + 9*maxInt(h, 1) + 8
	cx, cy := r.Range(0, 9), r.Range(0, 5)
	dx, dy := r.Range(-cx, 11), r.Range(-cy, 6)
	W := ((cx + maxInt(dx, 0) + need + 7) / 8) * 8
	veff := v
	if v == 0 {
		veff = maxInt(h, 1) // SetTextSize: v == 0 means "same as h"
	}
	H := cy + maxInt(dy, 0) + 8*maxInt(veff, 1)*lineCount(bs) + 10
	if r.Chance(35) && h >= 1 {
		// the smallest canvas that does not clip: the line boxes of both renderings fit exactly (sized with the metrics the
		// library reports; the whole-glyph clip tests of DrawChar are sharpest here)
		m := &monogfx.MonoImg{}
		m.NewImage(8, 8)
		m.SetFont(font, prop)
		m.SetTextSize(h, v)
		m.SetCharSpacingCompensation(byte(sp))
		segs := lfSegments(string(bs))
		W = 1
		for i, seg := range segs {
			x0 := 0
			if i == 0 {
				x0 = cx + maxInt(dx, 0)
			}
			W = maxInt(W, x0+m.StrWidth(seg)+maxInt(h, 1))
		}
		H = cy + maxInt(dy, 0) + len(segs)*int(m.LineHeight())
		if r.Chance(50) {
			W = ((W + 7) / 8) * 8
		}
	}
	emit("text.case", font, prop, sp, h, v, cx, cy, dx, dy, W, H, bs)
}

// cursor left of / above the canvas, or a canvas too small for the text: the ink is clipped; the box clause and the
// model comparison still apply (translation / scale are claimed for unclipped renderings only)
func emitClippedCase(r *Rng, font int, prop bool, sp, h, v int, bs []byte) {
	cx, cy := r.Range(-30, 12), r.Range(-20, 8)
	if r.Chance(10) {
		cx = r.Pick(-2147483647, 2147483647, -1000000, 1000000)
	}
	if r.Chance(10) {
		cy = r.Pick(-2147483647, 2147483647, -1000000, 1000000)
	}
	dx, dy := r.Range(-12, 12), r.Range(-8, 8)
	emit("text.case", font, prop, sp, h, v, cx, cy, dx, dy, r.Range(0, 80), r.Range(0, 40), bs)
}

func maxInt(a, b int) int {
	if a > b {
		return a
	}
	return b
}

func genC20(r *Rng, n int, tier string) {
	// exhaustive single glyphs: every byte x 3 fonts x 2 modes at size 1 and one larger size (all sizes in thorough)
	sizes := [][2]int{{1, 1}, {2, 3}}
	if tier == "thorough" {
		sizes = [][2]int{{1, 1}, {2, 2}, {3, 1}, {4, 4}, {2, 3}}
	}
	for font := 0; font <= 2; font++ {
		for _, prop := range []bool{true, false} {
			for ch := 0; ch < 256; ch++ {
				if ch == 10 {
					continue
				}
				for _, sz := range sizes {
					emitTextCase(r, font, prop, r.Intn(4), sz[0], sz[1], []byte(string(rune(ch))))
				}
			}
		}
	}
	// runes >= U+0100 (RenderText keeps byte(rune)), malformed UTF-8 (RuneError -> byte 0xFD), as single "glyphs"
	for _, rn := range []rune{0x100, 0x10A, 0x10D, 0x120, 0x141, 0x17F, 0x1FF, 0x20AC, 0x2A0A, 0xD7FF, 0xE000, 0xFFFD, 0xFFFF, 0x10000, 0x1F60A, 0x10FFFF} {
		emitTextCase(r, r.Intn(3), r.Bool(), r.Intn(4), r.Range(1, 3), r.Range(1, 3), []byte(string(rn)))
	}
	for b := 0x80; b <= 0xFF; b += r.Range(1, 5) {
		emitTextCase(r, r.Intn(3), r.Bool(), r.Intn(4), r.Range(1, 2), r.Range(1, 2), []byte{byte(b)})
		emitTextCase(r, r.Intn(3), r.Bool(), r.Intn(4), 1, 1, []byte{byte(b), 'A', byte(r.Range(0x80, 0xBF)), 'z'})
	}
	// clipped renderings: negative / huge cursors, canvases smaller than the text
	for i := 0; i < n/4; i++ {
		emitClippedCase(r, r.Pick(0, 1, 2), r.Bool(), r.Intn(4), r.Range(1, 3), r.Range(1, 3), c20String(r, r.Range(0, 6)))
	}
	// random strings
	for i := 0; i < n; i++ {
		font := r.Pick(0, 1, 2, 0, 1, 2, 3, -1)
		h, v := r.Range(1, 4), r.Range(1, 4)
		if r.Chance(15) {
			v = 0 // SetTextSize: v == 0 means "same as h"
		}
		l := r.Range(0, 7)
		if h >= 3 {
			l = r.Range(0, 4)
		}
		sp := r.Intn(4)
		if r.Chance(50) {
			sp = 0
		}
		emitTextCase(r, font, r.Bool(), sp, h, v, c20String(r, l))
	}
}
