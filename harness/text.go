package main

import (
	"fmt"

	monogfx "github.com/SKAARHOJ/rawpanel-lib/ibeam_lib_monogfx"
)

// C20: text metrics vs ink; translation; scaling.

type textExec struct{}

func init() {
	registerExecutor("text", &textExec{})
	registerFamily("c20", genC20)
}

func renderCase(W, H, font int, prop bool, sp, h, v, cx, cy int, bs []byte) (*monogfx.MonoImg, string) {
	rs := make([]rune, len(bs))
	for i, b := range bs {
		rs[i] = rune(b)
	}
	str := string(rs)
	img := &monogfx.MonoImg{}
	img.NewImage(W, H)
	img.SetFont(font, prop)
	img.SetTextSize(h, v)
	img.SetCharSpacingCompensation(byte(sp))
	img.SetTextWrap(false)
	img.SetTextColor(true)
	img.SetCursor(cx, cy)
	img.RenderText(str)
	return img, str
}

// text.case font prop spacing h v cx cy dx dy W H str | sw lh A B C
func (e *textExec) Exec(cmd string, a []string) string {
	res := ""
	p := guarded(func() {
		if cmd != "text.case" {
			panic("unknown record " + cmd)
		}
		font, prop, sp, h, v := atoi(a[0]), abool(a[1]), atoi(a[2]), atoi(a[3]), atoi(a[4])
		cx, cy, dx, dy, W, H := atoi(a[5]), atoi(a[6]), atoi(a[7]), atoi(a[8]), atoi(a[9]), atoi(a[10])
		bs := unhx(a[11])
		A, str := renderCase(W, H, font, prop, sp, h, v, cx, cy, bs)
		B, _ := renderCase(W, H, font, prop, sp, h, v, cx+dx, cy+dy, bs)
		C, _ := renderCase(W, H, font, prop, sp, 1, 1, cx, cy, bs)
		res = fmt.Sprintf("%d %d %s %s %s", A.StrWidth(str), A.LineHeight(), hx(A.GetImgSlice()), hx(B.GetImgSlice()), hx(C.GetImgSlice()))
	})
	if p != "" {
		return p
	}
	return res
}

func c20String(r *Rng, n int) []byte {
	b := make([]byte, 0, n)
	for i := 0; i < n; i++ {
		switch r.Intn(16) {
		case 0:
			b = append(b, byte(r.Intn(32))) // control incl. LF (10) and CR (13)
		case 1:
			b = append(b, byte(r.Range(128, 255)))
		case 2:
			b = append(b, ' ')
		case 3:
			b = append(b, 127)
		case 4:
			b = append(b, 13)
		default:
			b = append(b, byte(r.Range(33, 126)))
		}
	}
	return b
}

func emitTextCase(r *Rng, font int, prop bool, sp, h, v int, bs []byte) {
	// canvas large enough not to clip: width of the widest possible rendering + cursor + offsets
	maxAdv := 8*maxInt(h, 1) + sp
	need := len(bs)*maxAdv + 8*maxInt(h, 1) + 8
	cx, cy := r.Range(0, 9), r.Range(0, 5)
	dx, dy := r.Range(-cx, 11), r.Range(-cy, 6)
	W := ((cx + maxInt(dx, 0) + need + 7) / 8) * 8
	veff := v
	if v == 0 {
		veff = maxInt(h, 1) // SetTextSize: v == 0 means "same as h"
	}
	H := cy + maxInt(dy, 0) + 8*maxInt(veff, 1) + 10
	emit("text.case", font, prop, sp, h, v, cx, cy, dx, dy, W, H, bs)
}

func maxInt(a, b int) int {
	if a > b {
		return a
	}
	return b
}

func genC20(r *Rng, n int, tier string) {
	// exhaustive single glyphs: every byte x 3 fonts x 2 modes at size 1 and one larger size (all sizes in thorough)
	sizes := [][2]int{{1, 1}, {2, 3}}
	if tier == "thorough" {
		sizes = [][2]int{{1, 1}, {2, 2}, {3, 1}, {4, 4}, {2, 3}}
	}
	for font := 0; font <= 2; font++ {
		for _, prop := range []bool{true, false} {
			for ch := 0; ch < 256; ch++ {
				if ch == 10 {
					continue
				}
				for _, sz := range sizes {
					emitTextCase(r, font, prop, r.Intn(4), sz[0], sz[1], []byte{byte(ch)})
				}
			}
		}
	}
	// random strings
	for i := 0; i < n; i++ {
		font := r.Pick(0, 1, 2, 0, 1, 2, 3, -1)
		h, v := r.Range(1, 4), r.Range(1, 4)
		if r.Chance(15) {
			v = 0 // SetTextSize: v == 0 means "same as h"
		}
		l := r.Range(0, 7)
		if h >= 3 {
			l = r.Range(0, 4)
		}
		sp := r.Intn(4)
		if r.Chance(50) {
			sp = 0
		}
		emitTextCase(r, font, r.Bool(), sp, h, v, c20String(r, l))
	}
}
