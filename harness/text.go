package main

import (
	"fmt"
	"strconv"
	"strings"
	"unicode/utf8"

	monogfx "github.com/SKAARHOJ/rawpanel-lib/ibeam_lib_monogfx"
)

// C20: text metrics vs ink; translation; scaling.

type textExec struct{}

func init() {
	registerExecutor("text", &textExec{})
	registerFamily("c20", genC20)
}

func renderCase(W, H, font int, prop bool, sp, h, v, cx, cy int, str string) *monogfx.MonoImg {
	img := &monogfx.MonoImg{}
	img.NewImage(W, H)
	img.SetFont(font, prop)
	img.SetTextSize(h, v)
	img.SetCharSpacingCompensation(byte(sp))
	img.SetTextWrap(false)
	img.SetTextColor(true)
	img.SetCursor(cx, cy)
	img.RenderText(str)
	return img
}

// the segments RenderText puts on separate lines: cut at every rune whose byte(rune) is 10 (language runtime: `range`)
func lfSegments(str string) []string {
	segs := []string{}
	start := 0
	for i, r := range str {
		if byte(r) == 10 {
			segs = append(segs, str[start:i])
			start = i + utf8.RuneLen(r) // a rune with low byte 0x0A is never RuneError: RuneLen is its encoded length
		}
	}
	return append(segs, str[start:])
}

func intsTok(xs []int) string {
	if len(xs) == 0 {
		return "-"
	}
	o := make([]string, len(xs))
	for i, x := range xs {
		o[i] = strconv.Itoa(x)
	}
	return strings.Join(o, ",")
}

// per line the widths GetCharWidth reports for its characters (CR is neither drawn nor advanced over): "6,6;-;4"
func cwsTok(img *monogfx.MonoImg, segs []string) string {
	o := make([]string, len(segs))
	for i, seg := range segs {
		ws := []int{}
		for _, r := range seg {
			if byte(r) != 13 {
				ws = append(ws, int(img.GetCharWidth(byte(r))))
			}
		}
		o[i] = intsTok(ws)
	}
	return strings.Join(o, ";")
}

// text.case font prop spacing h v cx cy dx dy W H str | sw lh lh1 segw segw1 A B C cws
// str = the bytes of the Go string handed to RenderText / StrWidth (arbitrary bytes, valid UTF-8 or not)
//
// text.sess W H dx dy fin op... | <final tokens> <one token per op>
//   a whole call history on ONE image object: NewImage(W,H) on a fresh object, then the calls op... in the order given:
//     F:n:p SetFont   Z:h:v SetTextSize   P:s SetCharSpacingCompensation   W:b SetTextWrap   C:x:y SetCursor   K:b SetTextColor
//     N:w:h NewImage  B:w:h:hex CreateFromBytes          (re-creation of the canvas on the same object)
//     X:x:y:w:h SetBoundingBox   I:b InvertPixels
//     S:hex StrWidth -> n    L LineHeight -> n    G:c GetCharWidth/GetCharStart -> w/s
//     R:hex RenderText -> canvas    D:x:y:c:col:bg:h:v DrawChar -> canvas                  (calls without result print ".")
//   then the final case on three objects A, B, C that all went through that history; the canvas is cleared first
//   (FillRect(0,0,Width,Height,false): the text state is untouched):
//     R:ord:cx:cy:hex  SetTextWrap(false) [C: SetTextSize(1,1)], the metrics (StrWidth of the string and of every line,
//                      LineHeight, GetCharWidth of every glyph) and SetCursor + RenderText; ord 0 = metrics first (how a
//                      caller centres a text), 1 = rendering first            -> sw lh lh1 segw segw1 A B C cws
//     D:x:y:c:col:bg:h:v  a direct DrawChar with explicit sizes (B at x+dx,y+dy; C with sizes 1,1; the object's own text
//                      size is whatever the history left)                     -> cw cell A B C
func (e *textExec) Exec(cmd string, a []string) string {
	res := ""
	p := guarded(func() {
		if cmd == "text.sess" {
			res = textSess(a)
			return
		}
		if cmd != "text.case" {
			panic("unknown record " + cmd)
		}
		font, prop, sp, h, v := atoi(a[0]), abool(a[1]), atoi(a[2]), atoi(a[3]), atoi(a[4])
		cx, cy, dx, dy, W, H := atoi(a[5]), atoi(a[6]), atoi(a[7]), atoi(a[8]), atoi(a[9]), atoi(a[10])
		str := string(unhx(a[11]))
		A := renderCase(W, H, font, prop, sp, h, v, cx, cy, str)
		B := renderCase(W, H, font, prop, sp, h, v, cx+dx, cy+dy, str)
		C := renderCase(W, H, font, prop, sp, 1, 1, cx, cy, str)
		segw, segw1 := []int{}, []int{}
		for _, seg := range lfSegments(str) {
			segw = append(segw, A.StrWidth(seg))
			segw1 = append(segw1, C.StrWidth(seg))
		}
		res = fmt.Sprintf("%d %d %d %s %s %s %s %s %s", A.StrWidth(str), A.LineHeight(), C.LineHeight(), intsTok(segw), intsTok(segw1),
			hx(A.GetImgSlice()), hx(B.GetImgSlice()), hx(C.GetImgSlice()), cwsTok(C, lfSegments(str)))
	})
	if p != "" {
		return p
	}
	return res
}

// ---- sessions on one image object ----

func sessOp(img *monogfx.MonoImg, tok string) string {
	f := strings.Split(tok, ":")
	switch f[0] {
	case "F":
		img.SetFont(atoi(f[1]), abool(f[2]))
	case "Z":
		img.SetTextSize(atoi(f[1]), atoi(f[2]))
	case "P":
		img.SetCharSpacingCompensation(byte(atoi(f[1])))
	case "W":
		img.SetTextWrap(abool(f[1]))
	case "C":
		img.SetCursor(atoi(f[1]), atoi(f[2]))
	case "K":
		img.SetTextColor(abool(f[1]))
	case "N":
		img.NewImage(atoi(f[1]), atoi(f[2]))
	case "B":
		_ = img.CreateFromBytes(atoi(f[1]), atoi(f[2]), append([]byte{}, unhx(f[3])...))
	case "X":
		img.SetBoundingBox(atoi(f[1]), atoi(f[2]), atoi(f[3]), atoi(f[4]))
	case "I":
		img.InvertPixels(abool(f[1]))
	case "S":
		return strconv.Itoa(img.StrWidth(string(unhx(f[1]))))
	case "L":
		return strconv.Itoa(int(img.LineHeight()))
	case "G":
		return fmt.Sprintf("%d/%d", img.GetCharWidth(byte(atoi(f[1]))), img.GetCharStart(byte(atoi(f[1]))))
	case "R":
		img.RenderText(string(unhx(f[1])))
		return hx(img.GetImgSlice())
	case "D":
		img.DrawChar(atoi(f[1]), atoi(f[2]), byte(atoi(f[3])), abool(f[4]), abool(f[5]), atoi(f[6]), atoi(f[7]))
		return hx(img.GetImgSlice())
	default:
		panic("unknown session call " + tok)
	}
	return "."
}

func textSess(a []string) string {
	W, H, dx, dy, fin, ops := atoi(a[0]), atoi(a[1]), atoi(a[2]), atoi(a[3]), a[4], a[5:]
	objs := [3]*monogfx.MonoImg{}
	outs := []string{}
	for k := range objs {
		objs[k] = &monogfx.MonoImg{}
		objs[k].NewImage(W, H)
		for _, op := range ops {
			o := sessOp(objs[k], op)
			if k == 0 {
				outs = append(outs, o)
			}
		}
		objs[k].FillRect(0, 0, objs[k].Width, objs[k].Height, false)
	}
	A, B, C := objs[0], objs[1], objs[2]
	f := strings.Split(fin, ":")
	final := ""
	switch f[0] {
	case "R":
		ord, cx, cy, str := atoi(f[1]), atoi(f[2]), atoi(f[3]), string(unhx(f[4]))
		segs := lfSegments(str)
		type met struct {
			sw   int
			lh   uint32
			segw []int
			cws  string
		}
		measure := func(img *monogfx.MonoImg) met {
			m := met{sw: img.StrWidth(str)}
			if len(segs) == 1 {
				m.segw = []int{m.sw} // a string without line feed is its only line: one call, as a caller would make it
			} else {
				for _, seg := range segs {
					m.segw = append(m.segw, img.StrWidth(seg))
				}
			}
			m.lh = img.LineHeight()
			m.cws = cwsTok(img, segs)
			return m
		}
		run := func(img *monogfx.MonoImg, x, y int) met {
			var m met
			if ord == 0 {
				m = measure(img)
			}
			img.SetCursor(x, y)
			img.RenderText(str)
			if ord != 0 {
				m = measure(img)
			}
			return m
		}
		for _, img := range objs {
			img.SetTextWrap(false)
		}
		C.SetTextSize(1, 1)
		mA := run(A, cx, cy)
		run(B, cx+dx, cy+dy)
		mC := run(C, cx, cy)
		final = fmt.Sprintf("%d %d %d %s %s %s %s %s %s", mA.sw, mA.lh, mC.lh, intsTok(mA.segw), intsTok(mC.segw),
			hx(A.GetImgSlice()), hx(B.GetImgSlice()), hx(C.GetImgSlice()), mC.cws)
	case "D":
		x, y, c, col, bg, h, v := atoi(f[1]), atoi(f[2]), byte(atoi(f[3])), abool(f[4]), abool(f[5]), atoi(f[6]), atoi(f[7])
		A.DrawChar(x, y, c, col, bg, h, v)
		B.DrawChar(x+dx, y+dy, c, col, bg, h, v)
		C.DrawChar(x, y, c, col, bg, 1, 1)
		cw := A.GetCharWidth(c)
		C.SetTextSize(1, 1) // after the drawing: the cell height is LineHeight() at size 1
		final = fmt.Sprintf("%d %d %s %s %s", cw, C.LineHeight(), hx(A.GetImgSlice()), hx(B.GetImgSlice()), hx(C.GetImgSlice()))
	default:
		panic("unknown final case " + fin)
	}
	if len(outs) == 0 {
		return final
	}
	return final + " " + strings.Join(outs, " ")
}

// one character of a test string, as the bytes of the Go string
func c20Char(r *Rng) []byte {
	switch r.Intn(24) {
	case 0:
		return []byte{byte(r.Intn(32))} // control incl. LF (10) and CR (13)
	case 1:
		return []byte(string(rune(r.Range(128, 255)))) // Latin-1 rune: two bytes of UTF-8, byte(rune) >= 0x80
	case 2:
		return []byte{' '}
	case 3:
		return []byte{127}
	case 4:
		return []byte{13}
	case 5:
		return []byte{10}
	case 6: // rune >= U+0100: byte(rune) keeps the low 8 bits (U+010A is a line feed, U+0141 an 'A')
		lo := r.Pick(10, 13, 32, 65, 97, 126, 127, 128, 255, r.Intn(256))
		hi := r.Pick(1, 2, 0x20, 0xD7, 0xE0, 0xFF, 0x100, 0x10FF)
		return []byte(string(rune(hi<<8 | lo)))
	case 7: // a byte that is not valid UTF-8 on its own: RuneError, byte 0xFD
		return []byte{byte(r.Pick(0x80, 0xBF, 0xC0, 0xC1, 0xF5, 0xFF, r.Range(128, 255)))}
	case 8: // truncated / broken multi-byte sequences, overlong forms, surrogates
		return [][]byte{{0xC3}, {0xE2, 0x82}, {0xF0, 0x9F, 0x98}, {0xE0, 0x80, 0x8A}, {0xC0, 0x8A}, {0xED, 0xA0, 0x80},
			{0xF4, 0x90, 0x80, 0x80}, {0xE2, 0x28, 0xA1}, {0xF0, 0x28, 0x8C, 0xBC}}[r.Intn(9)]
	default:
		return []byte{byte(r.Range(33, 126))}
	}
}

func c20String(r *Rng, n int) []byte {
	b := make([]byte, 0, n)
	for i := 0; i < n; i++ {
		b = append(b, c20Char(r)...)
	}
	return b
}

// number of lines RenderText will use
func lineCount(bs []byte) int {
	return len(lfSegments(string(bs)))
}

func emitTextCase(r *Rng, font int, prop bool, sp, h, v int, bs []byte) {
	// canvas large enough not to clip: width of the widest possible rendering + cursor + offsets
	maxAdv := 9*maxInt(h, 1) + sp
	need := len(bs)*maxAdv + 9*maxInt(h, 1) + 8
	cx, cy := r.Range(0, 9), r.Range(0, 5)
	dx, dy := r.Range(-cx, 11), r.Range(-cy, 6)
	W := ((cx + maxInt(dx, 0) + need + 7) / 8) * 8
	veff := v
	if v == 0 {
		veff = maxInt(h, 1) // SetTextSize: v == 0 means "same as h"
	}
	H := cy + maxInt(dy, 0) + 8*maxInt(veff, 1)*lineCount(bs) + 10
	if r.Chance(35) && h >= 1 {
		// the smallest canvas that does not clip: the line boxes of both renderings fit exactly (sized with the metrics the
		// library reports; the whole-glyph clip tests of DrawChar are sharpest here)
		m := &monogfx.MonoImg{}
		m.NewImage(8, 8)
		m.SetFont(font, prop)
		m.SetTextSize(h, v)
		m.SetCharSpacingCompensation(byte(sp))
		segs := lfSegments(string(bs))
		W = 1
		for i, seg := range segs {
			x0 := 0
			if i == 0 {
				x0 = cx + maxInt(dx, 0)
			}
			W = maxInt(W, x0+m.StrWidth(seg)+maxInt(h, 1))
		}
		H = cy + maxInt(dy, 0) + len(segs)*int(m.LineHeight())
		if r.Chance(50) {
			W = ((W + 7) / 8) * 8
		}
	}
	emit("text.case", font, prop, sp, h, v, cx, cy, dx, dy, W, H, bs)
}

// cursor left of / above the canvas, or a canvas too small for the text: the ink is clipped; the box clause and the
// model comparison still apply (translation / scale are claimed for unclipped renderings only)
func emitClippedCase(r *Rng, font int, prop bool, sp, h, v int, bs []byte) {
	cx, cy := r.Range(-30, 12), r.Range(-20, 8)
	if r.Chance(10) {
		cx = r.Pick(-2147483647, 2147483647, -1000000, 1000000)
	}
	if r.Chance(10) {
		cy = r.Pick(-2147483647, 2147483647, -1000000, 1000000)
	}
	dx, dy := r.Range(-12, 12), r.Range(-8, 8)
	emit("text.case", font, prop, sp, h, v, cx, cy, dx, dy, r.Range(0, 80), r.Range(0, 40), bs)
}

// ---- sessions: one image object used for several texts, setters in every order ----

type sessGen struct {
	r          *Rng
	ops        []string
	last       int // byte(rune) of the last character a query or rendering handled on the object (-1: none yet)
	hmax, vmax int // largest text size any SetTextSize of the session asks for
	W, H       int
	bstr       []byte // the string the bracketed queries measured (sessions of the kind "same queries around one setter")
}

func (g *sessGen) add(format string, a ...interface{}) { g.ops = append(g.ops, fmt.Sprintf(format, a...)) }

// characters whose width differs most between the fonts and between proportional and fixed mode, then anything
func (g *sessGen) char() []byte {
	r := g.r
	switch r.Intn(10) {
	case 0, 1, 2, 3:
		return []byte{".,:;i!l1|I' j"[r.Intn(13)]}
	case 4:
		return c20Char(r)
	default:
		return []byte{byte(r.Range(33, 126))}
	}
}

// a short string; with `coincide` it starts with the character the object handled last (a one-entry memo of a glyph
// metric that survives a font change is consulted exactly then)
func (g *sessGen) str(coincide bool, maxLen int) []byte {
	r := g.r
	n := r.Range(1, maxLen)
	b := []byte{}
	if coincide && g.last >= 0 && g.last != 10 && g.last != 13 {
		if g.last < 0x80 {
			b = append(b, byte(g.last))
		} else {
			b = append(b, []byte(string(rune(g.last)))...) // Latin-1 rune: byte(rune) is the same character
		}
		n--
	}
	for i := 0; i < n; i++ {
		b = append(b, g.char()...)
	}
	if rb := runeBytes(string(b)); len(rb) > 0 {
		g.last = int(rb[len(rb)-1])
	}
	return b
}

func (g *sessGen) setFont() { g.add("F:%d:%s", g.r.Pick(0, 1, 2, 0, 1, 2, 0, 1, 2, 3, -1), b01(g.r.Bool())) }
func (g *sessGen) setSize() {
	r := g.r
	h, v := r.Range(1, 4), r.Pick(0, 1, 2, 3, 4)
	if r.Chance(6) {
		h = r.Pick(0, -1)
	}
	g.hmax, g.vmax = maxInt(g.hmax, h), maxInt(g.vmax, maxInt(v, h))
	g.add("Z:%d:%d", h, v)
}

// re-creation of the canvas on the same object; "@" = the session's canvas size (known when the session is complete)
func (g *sessGen) recreate() {
	r := g.r
	switch r.Intn(5) {
	case 0:
		g.add("N:%d:%d", r.Range(0, 40), r.Range(0, 20))
	case 1, 2:
		g.add("N:@")
	default:
		g.add("B:@:%d", r.Intn(3)) // bytes shorter than / exactly / longer than the canvas needs
	}
}

func (g *sessGen) setter() {
	r := g.r
	switch r.Intn(13) {
	case 0, 1, 2, 3:
		g.setFont()
	case 4, 5, 6:
		g.setSize()
	case 7, 8:
		g.add("P:%d", r.Pick(0, 0, 1, 2, 3))
	case 9:
		g.add("W:%s", b01(r.Bool()))
	case 10:
		g.add("C:%d:%d", r.Range(-3, 20), r.Range(-3, 12))
	case 11:
		g.add("K:%s", b01(r.Chance(85)))
	case 12:
		g.recreate()
	}
}

func (g *sessGen) query(coincide bool) {
	r := g.r
	switch r.Intn(7) {
	case 0, 1:
		g.add("S:%s", hx(g.str(coincide, 4)))
	case 2:
		g.add("L")
	case 3:
		c := g.char()
		g.last = int(runeBytes(string(c))[0])
		g.add("G:%d", g.last)
	case 4, 5:
		if r.Chance(60) {
			g.add("C:%d:%d", r.Range(0, 12), r.Range(0, 8))
		}
		g.add("R:%s", hx(g.str(coincide, 4)))
	case 6:
		c := g.char()
		g.last = int(runeBytes(string(c))[0])
		col := r.Chance(80)
		g.add("D:%d:%d:%d:%s:%s:%d:%d", r.Range(-2, 20), r.Range(-2, 10), g.last, b01(col), b01(col != r.Chance(15)), r.Range(1, 3), r.Range(1, 3))
	}
}

// The SAME metric queries (StrWidth of one string of >= 2 characters, LineHeight, GetCharWidth/GetCharStart of one byte)
// before and after ONE setter call, for every kind of setter; 1-3 such setters in a row, the queries between them.  An
// answer remembered from the first round that a setter forgets to drop comes back in the second round.  The bounding box
// and the inversion flag are put back after their round (the final case is specified for the whole, non-inverted canvas);
// with them in force a rendering is compared with the model only.
func (g *sessGen) brackets() {
	r := g.r
	n := r.Range(2, 5)
	s := []byte{}
	for i := 0; i < n; i++ {
		s = append(s, g.char()...)
	}
	g.bstr = s
	rb := runeBytes(string(s))
	qs := []string{"S:" + hx(s)}
	if r.Chance(80) {
		qs = append(qs, "L")
	}
	if r.Chance(80) {
		c := int(rb[r.Intn(len(rb))])
		if r.Chance(20) {
			c = r.Intn(256)
		}
		qs = append(qs, fmt.Sprintf("G:%d", c))
	}
	for i := len(qs) - 1; i > 0; i-- {
		j := r.Intn(i + 1)
		qs[i], qs[j] = qs[j], qs[i]
	}
	ask := func() { g.ops = append(g.ops, qs...) }
	render := func() {
		if r.Chance(50) {
			g.add("C:%d:%d", r.Range(0, 12), r.Range(0, 8))
			g.add("R:%s", hx(s))
		}
	}
	font, prop, h, v, sp, wrap := 0, true, 1, 1, 0, true // what a fresh object has
	ask()
	for k, nb := 0, r.Range(1, 3); k < nb; k++ {
		switch r.Intn(10) {
		case 0:
			for f, p := font, prop; f == font && p == prop; {
				font, prop = r.Pick(0, 1, 2, 0, 1, 2, 3, -1), r.Bool()
			}
			g.add("F:%d:%s", font, b01(prop))
			ask()
		case 1:
			for a, b := h, v; a == h && b == v; {
				h, v = r.Range(1, 4), r.Range(1, 4)
			}
			g.hmax, g.vmax = maxInt(g.hmax, h), maxInt(g.vmax, v)
			g.add("Z:%d:%d", h, v)
			ask()
		case 2:
			for a := sp; a == sp; {
				sp = r.Pick(0, 1, 2, 3, 5)
			}
			g.add("P:%d", sp)
			ask()
		case 3:
			wrap = !wrap
			g.add("W:%s", b01(wrap))
			ask()
		case 4:
			g.add("C:%d:%d", r.Range(-3, 20), r.Range(-3, 12))
			ask()
		case 5:
			g.add("K:%s", b01(r.Chance(85)))
			ask()
		case 6:
			g.add("X:%d:%d:%d:%d", r.Range(-2, 8), r.Range(-2, 5), r.Range(0, 40), r.Range(0, 16))
			ask()
			render()
			g.add("X:@")
		case 7:
			g.add("I:1")
			ask()
			render()
			g.add("I:0")
		default:
			g.recreate()
			font, prop, h, v, wrap = 0, true, 1, 1, true
			ask()
		}
	}
	g.last = int(rb[len(rb)-1])
}

func genTextSession(r *Rng) {
	g := &sessGen{r: r, last: -1, hmax: 1, vmax: 1}
	kind := r.Intn(14)
	switch {
	case kind >= 10: // the same queries before and after each single setter call
		for k, n := 0, r.Range(0, 2); k < n; k++ {
			g.setter()
		}
		g.brackets()
	case kind <= 3: // any calls in any order
		for k, n := 0, r.Range(2, 9); k < n; k++ {
			if r.Chance(70) {
				g.setter()
			} else {
				g.query(r.Chance(30))
			}
		}
	case kind <= 6: // two texts on one object with a font / mode / size change in between
		for k, n := 0, r.Range(0, 3); k < n; k++ {
			g.setter()
		}
		g.query(false)
		if r.Chance(85) {
			g.setFont()
		}
		for k, n := 0, r.Range(0, 2); k < n; k++ {
			g.setter()
		}
	default: // text size chosen before the font
		if r.Chance(70) {
			g.setFont()
		}
		g.setSize()
		g.setFont()
		for k, n := 0, r.Range(0, 2); k < n; k++ {
			if r.Chance(50) {
				g.setter()
			} else {
				g.query(false)
			}
		}
	}
	// the text colour of a fresh object is "off": switch it on somewhere (it survives re-creation)
	if r.Chance(90) {
		at := r.Intn(len(g.ops) + 1)
		if g.bstr != nil {
			at = 0 // nothing but the one setter between two rounds of queries
		}
		g.ops = append(g.ops[:at], append([]string{"K:1"}, g.ops[at:]...)...)
	}
	// final case
	fin := ""
	cx, cy := r.Range(0, 9), r.Range(0, 5)
	dx, dy := r.Range(-cx, 11), r.Range(-cy, 6)
	nl := 1
	if kind == 9 || r.Chance(12) {
		// a direct DrawChar whose size arguments are not the object's text size
		c := g.char()
		col := r.Chance(85)
		h, v := r.Range(1, 4), r.Range(1, 4)
		if r.Chance(8) {
			h, v = r.Range(-1, 1), r.Range(-1, 2)
		}
		g.hmax, g.vmax = maxInt(g.hmax, h), maxInt(g.vmax, v)
		fin = fmt.Sprintf("D:%d:%d:%d:%s:%s:%d:%d", cx, cy, int(runeBytes(string(c))[0]), b01(col), b01(col != r.Chance(15)), h, v)
	} else {
		bs := []byte(nil)
		if g.bstr != nil && r.Chance(75) {
			bs = g.bstr // the string measured before: the metrics of the final case are one more round of the same query
		} else {
			bs = g.str(r.Chance(65), 5)
		}
		nl = lineCount(bs)
		fin = fmt.Sprintf("R:%d:%d:%d:%s", r.Pick(0, 0, 1), cx, cy, hx(bs))
	}
	// a canvas large enough not to clip whatever size the history leaves
	g.W = ((cx + maxInt(dx, 0) + 6*(9*g.hmax+3) + 9*g.hmax + 8 + 7) / 8) * 8
	g.H = cy + maxInt(dy, 0) + 8*g.vmax*nl + 10
	if r.Chance(8) { // now and then a canvas that clips (box clauses and the model comparison still apply)
		g.W, g.H = r.Range(0, 60), r.Range(0, 30)
		for _, op := range g.ops {
			if strings.HasPrefix(op, "B:@") { // CreateFromBytes installs the caller's padding bits too: no padding then
				g.W = g.W / 8 * 8
			}
		}
	}
	args := []interface{}{g.W, g.H, dx, dy, fin}
	for _, op := range g.ops {
		switch {
		case op == "N:@":
			op = fmt.Sprintf("N:%d:%d", g.W, g.H)
		case op == "X:@":
			op = fmt.Sprintf("X:0:0:%d:%d", g.W, g.H)
		case strings.HasPrefix(op, "B:@:"):
			need := g.W / 8 * g.H
			l := need
			switch op[4] {
			case '0':
				l = r.Range(0, need)
			case '2':
				l = need + r.Range(1, 30)
			}
			op = fmt.Sprintf("B:%d:%d:%s", g.W, g.H, hx(pixBits(r, l)))
		}
		args = append(args, op)
	}
	emit("text.sess", args...)
}

func maxInt(a, b int) int {
	if a > b {
		return a
	}
	return b
}

func genC20(r *Rng, n int, tier string) {
	// exhaustive single glyphs: every byte x 3 fonts x 2 modes at size 1 and one larger size (all sizes in thorough)
	sizes := [][2]int{{1, 1}, {2, 3}}
	if tier == "thorough" {
		sizes = [][2]int{{1, 1}, {2, 2}, {3, 1}, {4, 4}, {2, 3}}
	}
	for font := 0; font <= 2; font++ {
		for _, prop := range []bool{true, false} {
			for ch := 0; ch < 256; ch++ {
				if ch == 10 {
					continue
				}
				for _, sz := range sizes {
					emitTextCase(r, font, prop, r.Intn(4), sz[0], sz[1], []byte(string(rune(ch))))
				}
			}
		}
	}
	// runes >= U+0100 (RenderText keeps byte(rune)), malformed UTF-8 (RuneError -> byte 0xFD), as single "glyphs"
	for _, rn := range []rune{0x100, 0x10A, 0x10D, 0x120, 0x141, 0x17F, 0x1FF, 0x20AC, 0x2A0A, 0xD7FF, 0xE000, 0xFFFD, 0xFFFF, 0x10000, 0x1F60A, 0x10FFFF} {
		emitTextCase(r, r.Intn(3), r.Bool(), r.Intn(4), r.Range(1, 3), r.Range(1, 3), []byte(string(rn)))
	}
	for b := 0x80; b <= 0xFF; b += r.Range(1, 5) {
		emitTextCase(r, r.Intn(3), r.Bool(), r.Intn(4), r.Range(1, 2), r.Range(1, 2), []byte{byte(b)})
		emitTextCase(r, r.Intn(3), r.Bool(), r.Intn(4), 1, 1, []byte{byte(b), 'A', byte(r.Range(0x80, 0xBF)), 'z'})
	}
	// clipped renderings: negative / huge cursors, canvases smaller than the text
	for i := 0; i < n/4; i++ {
		emitClippedCase(r, r.Pick(0, 1, 2), r.Bool(), r.Intn(4), r.Range(1, 3), r.Range(1, 3), c20String(r, r.Range(0, 6)))
	}
	// random strings
	for i := 0; i < n; i++ {
		font := r.Pick(0, 1, 2, 0, 1, 2, 3, -1)
		h, v := r.Range(1, 4), r.Range(1, 4)
		if r.Chance(15) {
			v = 0 // SetTextSize: v == 0 means "same as h"
		}
		l := r.Range(0, 7)
		if h >= 3 {
			l = r.Range(0, 4)
		}
		sp := r.Intn(4)
		if r.Chance(50) {
			sp = 0
		}
		emitTextCase(r, font, r.Bool(), sp, h, v, c20String(r, l))
	}
	// one image object used more than once: setters in every order, metric queries, two texts, re-creation, DrawChar
	for i := 0; i < n/3; i++ {
		genTextSession(r)
	}
}
