package main

import (
	"encoding/json"
	"fmt"
	"os"
	"os/exec"
	"strings"
	"sync"
	"time"

	helpers "github.com/SKAARHOJ/rawpanel-lib"
	rwp "github.com/SKAARHOJ/rawpanel-lib/ibeam_rawpanel"
	"google.golang.org/protobuf/proto"
)

// C06: the four converters and the streaming reader called concurrently from many goroutines give the same results
// as calling them one after another.  A `conc.run seed goroutines rounds race` record builds a fixed input set from the
// seed, computes the sequential results, then lets `goroutines` goroutines each run `rounds` passes over the inputs
// (in different orders) and compares every result.  race=1: the same in a child process built with `go build -race`
// (`bin/harness-race`, built by the thorough tier); a data race makes that child exit with status 66.

type concExec struct{}

func init() {
	registerExecutor("conc", &concExec{})
	registerFamily("c06", genC06)
}

type concInputs struct {
	in    [][]*rwp.InboundMessage
	out   [][]*rwp.OutboundMessage
	linI  [][]string
	linO  [][]string
	strm  [][]string
}

func concBuild(seed uint64) *concInputs {
	r := NewRng(seed)
	ci := &concInputs{}
	texts := []string{"Title", "a|b", "x\ny", "ISO ", "", "Grüße", "12"}
	for i := 0; i < 24; i++ {
		ms := []*rwp.InboundMessage{}
		for j := 0; j < 1+r.Intn(4); j++ {
			st := &rwp.HWCState{HWCIDs: []uint32{uint32(1 + r.Intn(40)), uint32(50 + r.Intn(40))}}
			switch r.Intn(5) {
			case 0:
				st.HWCMode = &rwp.HWCMode{State: rwp.HWCMode_StateE(r.Intn(6)), Output: r.Bool(), BlinkPattern: uint32(r.Intn(16))}
			case 1:
				st.HWCColor = &rwp.HWCColor{ColorRGB: &rwp.ColorRGB{Red: uint32(r.Intn(256)), Green: uint32(r.Intn(256)), Blue: uint32(r.Intn(256))}}
			case 2:
				st.HWCText = &rwp.HWCText{Title: texts[r.Intn(len(texts))], Textline1: texts[r.Intn(len(texts))], IntegerValue: int32(r.Intn(2000)), Formatting: rwp.HWCText_FormattingE(r.Intn(13))}
			case 3:
				st.HWCGfx = &rwp.HWCGfx{W: 64, H: 32, ImageData: r.Bytes(1 + r.Intn(600)), ImageType: rwp.HWCGfx_ImageTypeE(r.Intn(3))}
			case 4:
				st.HWCExtended = &rwp.HWCExtended{Interpretation: rwp.HWCExtended_InterpretationE(r.Intn(8)), Value: uint32(r.Intn(4096))}
			}
			ms = append(ms, &rwp.InboundMessage{States: []*rwp.HWCState{st}, FlowMessage: rwp.InboundMessage_FlowMsg(r.Intn(4))})
		}
		ci.in = append(ci.in, ms)
		os_ := []*rwp.OutboundMessage{}
		for j := 0; j < 1+r.Intn(4); j++ {
			m := &rwp.OutboundMessage{}
			switch r.Intn(5) {
			case 0:
				m.Events = []*rwp.HWCEvent{{HWCID: uint32(r.Intn(99)), Binary: &rwp.BinaryEvent{Pressed: r.Bool(), Edge: rwp.BinaryEvent_EdgeID(r.Pick(0, 1, 2, 4, 8, 16))}}}
			case 1:
				m.PanelInfo = &rwp.PanelInfo{Model: texts[r.Intn(len(texts))], Serial: "S1", RawPanelSupport: &rwp.RawPanelSupport{ASCII: true, Binary: r.Bool()}}
			case 2:
				m.HWCavailability = map[uint32]uint32{uint32(r.Intn(50)): uint32(r.Intn(3)), 77: 1}
			case 3:
				m.SysStat = &rwp.SystemStat{CPUUsage: uint32(r.Intn(100)), CPUTemp: float32(r.Intn(900)) / 10}
			case 4:
				m.PanelTopology = &rwp.PanelTopology{Svgbase: "<svg>\n<g>\n</g></svg>", Json: "{\n \"a\": 1}"}
				if r.Intn(2) == 0 { // long single and multi-line payloads
					m.PanelTopology.Json = "{\"HWc\":[" + strings.Repeat("{\"id\":1,\"x\":10,\"y\":20,\"txt\":\"Button\"},\n", 20+r.Intn(200)) + "{}]}"
					m.PanelTopology.Svgbase = "<svg>" + strings.Repeat("<rect x=\"1\" y=\"2\"/>", 30+r.Intn(300)) + "</svg>"
				}
			}
			os_ = append(os_, m)
		}
		ci.out = append(ci.out, os_)
		ci.linI = append(ci.linI, helpers.InboundMessagesToRawPanelASCIIstrings(ms))
		ci.linO = append(ci.linO, helpers.OutboundMessagesToRawPanelASCIIstrings(os_))
	}
	ci.linI = append(ci.linI, []string{"garbage", "HWC#1=", "[null]", "{", "HWCt#3=|||x", "HWCg#1=0/0,8x8:AQ=="}, []string{"", "ping", "Flag#=1", "HWCc#1,2=255"})
	ci.linO = append(ci.linO, []string{"garbage", "HWC#5=Raw:9", "SysStat=CPUTemp:x", "map=1:2", "_support=ASCII,Foo"})
	for _, l := range ci.linI {
		ci.strm = append(ci.strm, l)
	}
	return ci
}

func canonIn(ms []*rwp.InboundMessage) string {
	var sb strings.Builder
	for _, m := range ms {
		if m == nil {
			sb.WriteString("<nil>;")
			continue
		}
		b, _ := proto.MarshalOptions{Deterministic: true}.Marshal(m)
		sb.WriteString(hx(b) + ";")
	}
	return sb.String()
}
func canonOut(ms []*rwp.OutboundMessage) string {
	var sb strings.Builder
	for _, m := range ms {
		if m == nil {
			sb.WriteString("<nil>;")
			continue
		}
		b, _ := proto.MarshalOptions{Deterministic: true}.Marshal(m)
		sb.WriteString(hx(b) + ";")
	}
	return sb.String()
}
func sortedJoin(ls []string) string { // the availability map makes line order map-dependent: compare as a multiset
	c := append([]string{}, ls...)
	for i := 1; i < len(c); i++ {
		for j := i; j > 0 && c[j] < c[j-1]; j-- {
			c[j], c[j-1] = c[j-1], c[j]
		}
	}
	return strings.Join(c, "\n")
}

func (ci *concInputs) evalAll(order int) []string {
	res := make([]string, 0, 5*len(ci.in)+8)
	n := len(ci.in)
	for k := 0; k < n; k++ {
		i := (k*7 + order) % n
		res = append(res, fmt.Sprintf("ein%d:%s", i, strings.Join(helpers.InboundMessagesToRawPanelASCIIstrings(ci.in[i]), "\n")))
		res = append(res, fmt.Sprintf("eout%d:%s", i, sortedJoin(helpers.OutboundMessagesToRawPanelASCIIstrings(ci.out[i]))))
	}
	for k := 0; k < len(ci.linI); k++ {
		i := (k*5 + order) % len(ci.linI)
		res = append(res, fmt.Sprintf("din%d:%s", i, canonIn(helpers.RawPanelASCIIstringsToInboundMessages(ci.linI[i]))))
	}
	for k := 0; k < len(ci.linO); k++ {
		i := (k*3 + order) % len(ci.linO)
		res = append(res, fmt.Sprintf("dout%d:%s", i, canonOut(helpers.RawPanelASCIIstringsToOutboundMessages(ci.linO[i]))))
	}
	for k := 0; k < len(ci.strm); k++ {
		i := (k*11 + order) % len(ci.strm)
		var rd helpers.ASCIIreader
		var sb strings.Builder
		for _, l := range ci.strm[i] {
			sb.WriteString(canonIn(rd.Parse(l)) + "|")
			st, _ := json.Marshal(rd) // state through JSON, as the C binding does
			var rd2 helpers.ASCIIreader
			json.Unmarshal(st, &rd2)
			rd = rd2
		}
		res = append(res, fmt.Sprintf("strm%d:%s", i, sb.String()))
	}
	return res
}

func concRun(seed uint64, goroutines, rounds int) string {
	ci := concBuild(seed)
	want := map[string]string{}
	for _, r := range ci.evalAll(0) {
		k := r[:strings.Index(r, ":")]
		want[k] = r
	}
	var wg sync.WaitGroup
	var mu sync.Mutex
	bad := ""
	for g := 0; g < goroutines; g++ {
		wg.Add(1)
		go func(g int) {
			defer wg.Done()
			defer func() {
				if r := recover(); r != nil {
					mu.Lock()
					bad = "panic:" + strings.ReplaceAll(fmt.Sprint(r), " ", "_")
					mu.Unlock()
				}
			}()
			for round := 0; round < rounds; round++ {
				for _, r := range ci.evalAll(g*13 + round) {
					k := r[:strings.Index(r, ":")]
					if want[k] != r {
						mu.Lock()
						if bad == "" {
							bad = "mismatch:" + k
						}
						mu.Unlock()
					}
				}
			}
		}(g)
	}
	wg.Wait()
	if bad != "" {
		return bad
	}
	return "ok"
}

// conc.debug: the same inputs (plus strings that are not valid UTF-8) with DebugRWPhelpers = true, in a child process whose
// stdout (the debug dump) is discarded; the child must finish within 20 s.
func concDebugChild(seed uint64) {
	// results with the dump off first …
	ci := concBuild(seed)
	want := map[string]string{}
	for _, r := range ci.evalAll(0) {
		want[r[:strings.Index(r, ":")]] = r
	}
	helpers.DebugRWPhelpersMU.Lock()
	helpers.DebugRWPhelpers = true
	helpers.DebugRWPhelpersMU.Unlock()
	bad := "_model=SK\xffRCP"
	for round := 0; round < 2; round++ {
		// … must be the results with the dump on
		for _, r := range ci.evalAll(round) {
			k := r[:strings.Index(r, ":")]
			if want[k] != r {
				fmt.Fprintln(os.Stderr, "debug-differs:"+k)
				os.Exit(3)
			}
		}
		helpers.RawPanelASCIIstringsToOutboundMessages([]string{bad, "_serial=\xfe", "Msg=\xc3"})
		helpers.RawPanelASCIIstringsToInboundMessages([]string{"HWCt#1=|||\xff", "SetCalibrationProfile=\xff"})
		helpers.InboundMessagesToRawPanelASCIIstrings([]*rwp.InboundMessage{{States: []*rwp.HWCState{{HWCIDs: []uint32{1}, HWCText: &rwp.HWCText{Title: "\xff\xfe"}}}}})
		helpers.OutboundMessagesToRawPanelASCIIstrings([]*rwp.OutboundMessage{{PanelInfo: &rwp.PanelInfo{Model: "\xff"}}})
		var rd helpers.ASCIIreader
		rd.Parse("HWCt#1=|||\xff")
	}
}

func concDebug(seed string) string {
	exe, _ := os.Executable()
	c := exec.Command(exe, "debug-child", "-seed", seed)
	c.Stdout = nil
	c.Stderr = nil
	if err := c.Start(); err != nil {
		return "child-failed"
	}
	done := make(chan error, 1)
	go func() { done <- c.Wait() }()
	select {
	case err := <-done:
		if err != nil {
			if ee, ok := err.(*exec.ExitError); ok && ee.ExitCode() == 3 {
				return "mismatch:debug-on-differs-from-debug-off"
			}
			return "panic:debug-child-" + strings.ReplaceAll(err.Error(), " ", "_")
		}
		return "ok"
	case <-time.After(20 * time.Second):
		c.Process.Kill()
		return "hang"
	}
}

func (e *concExec) Exec(cmd string, a []string) string {
	if cmd == "conc.debug" {
		return concDebug(a[0])
	}
	if cmd != "conc.run" {
		return "panic:unknown_record"
	}
	seed, g, rounds, race := uint64(atoi(a[0])), atoi(a[1]), atoi(a[2]), atoi(a[3])
	if race == 0 {
		return concRun(seed, g, rounds)
	}
	// child process instrumented by the race detector
	exe, _ := os.Executable()
	bin := strings.TrimSuffix(exe, "harness") + "harness-race"
	if _, err := os.Stat(bin); err != nil {
		return "norace-binary"
	}
	c := exec.Command(bin, "conc-child", "-seed", a[0], "-n", fmt.Sprint(g*1000+rounds))
	c.Env = append(os.Environ(), "GORACE=halt_on_error=1 exitcode=66")
	outb, err := c.CombinedOutput()
	if err != nil {
		if ee, ok := err.(*exec.ExitError); ok && ee.ExitCode() == 66 {
			return "datarace"
		}
		return "child-failed:" + strings.ReplaceAll(strings.TrimSpace(string(outb[:minInt(len(outb), 80)])), " ", "_")
	}
	return strings.TrimSpace(string(outb))
}

func genC06(r *Rng, n int, tier string) {
	// totality halves (malformed / wild inputs through the four converters and the reader)
	families["c06in"].Gen(r, n, tier)
	families["c06out"].Gen(r, n, tier)
	// the streaming reader (and the batch decoder) on chunk lines with hostile numbers: huge / overflowing indices and
	// announced chunk counts, through the three feeding disciplines
	huge := []string{"99999999999999999999", "9223372036854775807", "300000000000000", "18446744073709551616", "4294967296", "2147483648", "000000000000000000001"}
	for _, h := range huge {
		for _, kw := range []string{"HWCg#", "HWCgRGB#", "HWCgGray#"} {
			emitHist([]string{kw + "1=0/" + h + ",64x32:AAAA"})
			emitHist([]string{" " + kw + "9=0/" + h + ",1x1,0,0:\n"})
			emitHist([]string{kw + "1=0/1,8x8:AQ==", kw + "1=" + h + ":Ag=="})
			emitHist([]string{kw + "1=0/1," + h + "x" + h + "," + h + "," + h + ":AQ==", kw + "1=1:Ag=="})
			emitHist([]string{kw + h + "=0/0,8x8:AQ=="})
		}
	}
	// every history of at most three chunk lines over a 13-symbol alphabet (chunk 0 in four header forms, chunks 1-3, a
	// second target list, a second format, a damaged payload, a non-graphics line): state carried from line to line
	_, reduced, _ := gfxAlphabets()
	for l := 1; l <= 3; l++ {
		enumHist(reduced, l)
	}
	// debug dump switched on (child process, its stdout discarded): every converter and the reader must still return
	for i := 0; i < 2; i++ {
		emit("conc.debug", 300+i)
	}
	// concurrency half
	for i := 0; i < 6; i++ {
		emit("conc.run", 100+i, r.Pick(4, 8, 16, 32), r.Pick(2, 4), 0)
	}
	nrace := 1
	if tier == "thorough" {
		nrace = 6
	}
	for i := 0; i < nrace; i++ {
		emit("conc.run", 200+i, 16, 3, 1)
	}
}

func minInt(a, b int) int {
	if a < b {
		return a
	}
	return b
}
