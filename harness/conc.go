package main

import (
	"encoding/json"
	"fmt"
	"os"
	"os/exec"
	"strings"
	"sync"
	"time"

	helpers "github.com/SKAARHOJ/rawpanel-lib"
	rwp "github.com/SKAARHOJ/rawpanel-lib/ibeam_rawpanel"
	"google.golang.org/protobuf/proto"
)

// C06: the four converters and the streaming reader called concurrently from many goroutines give the same results
// as calling them one after another.  A `conc.run seed goroutines rounds race` record builds its inputs from the seed,
// computes the sequential results, then lets `goroutines` goroutines each run `rounds` rounds and compares every result.
// race=1: the same in a child process built with `go build -race` (`bin/harness-race`); a data race makes that child
// exit with status 66.
//
// Inputs: a shared set (every goroutine converts the same objects, in different orders) and, per goroutine, its OWN set
// (different in every goroutine).  Shapes, beyond single-line fields of every message kind:
//   * multi-line payloads: texts / names / topology JSON and SVG with line feeds in messages; JSON lines (`{…}` state,
//     `[…]` message array) spread over several text lines as decoder and reader input;
//   * per goroutine: PanelInfo.RawPanelSupport with a capability set that no other goroutine has (13 flags, mask from the
//     goroutine number), the `_support=` line of that set, texts / images / event lists of goroutine-specific length;
//   * graphics transfers in different phases at the same moment: every goroutine brings one transfer to its last-but-one
//     line, all meet at a barrier, then half of them feed the completing line while the other half feed chunk 0 of a new
//     transfer (streaming reader, plain and through the JSON hop; the batch decoder on whole transfers in between);
//   * results HELD across calls: every returned slice / message is compared when it comes back, again at the end of the
//     round (after this goroutine's later calls, while the others still convert) and - the last round's - once more
//     after all goroutines have finished.  The sequential reference pass holds its results the same way.

type concExec struct{}

func init() {
	registerExecutor("conc", &concExec{})
	registerFamily("c06", genC06)
}

type concInputs struct {
	in   [][]*rwp.InboundMessage
	out  [][]*rwp.OutboundMessage
	linI [][]string
	linO [][]string
	strm [][]string
}

var concTexts = []string{"Title", "a|b", "x\ny", "ISO ", "", "Grüße", "12", "first line\nsecond line\nthird", "\n", "tab\there\r\nCRLF", "{\"a\":\n1}"}

// multi-line JSON input lines (one "line" of the protocol that itself contains line feeds)
var concJSONLines = []string{
	"{\n  \"HWCIDs\": [3, 4],\n  \"HWCText\": {\n    \"Title\": \"multi\\nline\",\n    \"IntegerValue\": 7\n  }\n}",
	"[\n {\"States\": [{\"HWCIDs\": [9], \"HWCMode\": {\"State\": 4}}]},\n null,\n {\"FlowMessage\": 1}\n]",
	"{\"HWCIDs\":[1],\n\"HWCGfx\":{\"W\":8,\"H\":8,\n\"ImageData\":\"AQID\"}}",
	"[\n]", "{\n", "[{\"Command\":{\"PanelBrightness\":{\"OLEDs\":3,\n\"LEDs\":5}}}]\n",
}

func concBuild(seed uint64) *concInputs {
	r := NewRng(seed)
	ci := &concInputs{}
	texts := concTexts
	for i := 0; i < 24; i++ {
		ms := []*rwp.InboundMessage{}
		for j := 0; j < 1+r.Intn(4); j++ {
			st := &rwp.HWCState{HWCIDs: []uint32{uint32(1 + r.Intn(40)), uint32(50 + r.Intn(40))}}
			switch r.Intn(6) {
			case 0:
				st.HWCMode = &rwp.HWCMode{State: rwp.HWCMode_StateE(r.Intn(6)), Output: r.Bool(), BlinkPattern: uint32(r.Intn(16))}
			case 1:
				st.HWCColor = &rwp.HWCColor{ColorRGB: &rwp.ColorRGB{Red: uint32(r.Intn(256)), Green: uint32(r.Intn(256)), Blue: uint32(r.Intn(256))}}
			case 2:
				st.HWCText = &rwp.HWCText{Title: texts[r.Intn(len(texts))], Textline1: texts[r.Intn(len(texts))], Textline2: texts[r.Intn(len(texts))], IntegerValue: int32(r.Intn(2000)), Formatting: rwp.HWCText_FormattingE(r.Intn(13))}
			case 3:
				st.HWCGfx = &rwp.HWCGfx{W: 64, H: 32, ImageData: r.Bytes(1 + r.Intn(600)), ImageType: rwp.HWCGfx_ImageTypeE(r.Intn(3))}
			case 4:
				st.HWCExtended = &rwp.HWCExtended{Interpretation: rwp.HWCExtended_InterpretationE(r.Intn(8)), Value: uint32(r.Intn(4096))}
			case 5: // JSON-only state: the whole state is emitted as one JSON line, texts with line feeds inside
				st.Processors = &rwp.Processors{UniText: &rwp.ProcUniText{W: 64, H: 32, Title: texts[r.Intn(len(texts))], Textline1: texts[r.Intn(len(texts))]}}
				st.HWCText = &rwp.HWCText{Title: texts[r.Intn(len(texts))]}
			}
			m := &rwp.InboundMessage{States: []*rwp.HWCState{st}, FlowMessage: rwp.InboundMessage_FlowMsg(r.Intn(4))}
			if r.Intn(3) == 0 { // several states of different kinds (two images of different formats among them) in ONE message
				m.States = append(m.States,
					&rwp.HWCState{HWCIDs: []uint32{uint32(1 + r.Intn(9))}, HWCGfx: &rwp.HWCGfx{W: 8, H: 8, ImageData: r.Bytes(1 + r.Intn(400)), ImageType: rwp.HWCGfx_ImageTypeE(r.Intn(3))}},
					&rwp.HWCState{HWCIDs: []uint32{uint32(1 + r.Intn(9))}, HWCText: &rwp.HWCText{Title: texts[r.Intn(len(texts))]}},
					&rwp.HWCState{HWCIDs: []uint32{uint32(1 + r.Intn(9))}, HWCGfx: &rwp.HWCGfx{W: 16, H: 8, ImageData: r.Bytes(1 + r.Intn(400)), ImageType: rwp.HWCGfx_ImageTypeE(r.Intn(3))}})
			}
			ms = append(ms, m)
		}
		ci.in = append(ci.in, ms)
		os_ := []*rwp.OutboundMessage{}
		for j := 0; j < 1+r.Intn(4); j++ {
			m := &rwp.OutboundMessage{}
			switch r.Intn(6) {
			case 0:
				m.Events = []*rwp.HWCEvent{{HWCID: uint32(r.Intn(99)), Binary: &rwp.BinaryEvent{Pressed: r.Bool(), Edge: rwp.BinaryEvent_EdgeID(r.Pick(0, 1, 2, 4, 8, 16))}}}
			case 1:
				m.PanelInfo = &rwp.PanelInfo{Model: texts[r.Intn(len(texts))], Serial: "S1", Name: texts[r.Intn(len(texts))], RawPanelSupport: concSupport(r.Intn(concMasks))}
			case 2:
				m.HWCavailability = map[uint32]uint32{uint32(r.Intn(50)): uint32(r.Intn(3)), 77: 1}
			case 3:
				m.SysStat = &rwp.SystemStat{CPUUsage: uint32(r.Intn(100)), CPUTemp: float32(r.Intn(900)) / 10}
			case 4:
				m.PanelTopology = &rwp.PanelTopology{Svgbase: "<svg>\n<g>\n</g></svg>", Json: "{\n \"a\": 1}"}
				if r.Intn(2) == 0 { // long single and multi-line payloads
					m.PanelTopology.Json = "{\"HWc\":[" + strings.Repeat("{\"id\":1,\"x\":10,\"y\":20,\"txt\":\"Button\"},\n", 20+r.Intn(200)) + "{}]}"
					m.PanelTopology.Svgbase = "<svg>" + strings.Repeat("<rect x=\"1\" y=\"2\"/>", 30+r.Intn(300)) + "</svg>"
				}
			case 5:
				m.ErrorMessage = &rwp.Message{Message: texts[r.Intn(len(texts))]}
				m.Message = &rwp.Message{Message: texts[r.Intn(len(texts))]}
			}
			os_ = append(os_, m)
		}
		ci.out = append(ci.out, os_)
		ci.linI = append(ci.linI, helpers.InboundMessagesToRawPanelASCIIstrings(ms))
		ci.linO = append(ci.linO, helpers.OutboundMessagesToRawPanelASCIIstrings(os_))
	}
	ci.linI = append(ci.linI, []string{"garbage", "HWC#1=", "[null]", "{", "HWCt#3=|||x", "HWCg#1=0/0,8x8:AQ=="}, []string{"", "ping", "Flag#=1", "HWCc#1,2=255"},
		concJSONLines, []string{concJSONLines[0], "HWCg#5=0/1,8x8:AQ==", concJSONLines[1], "HWCg#5=1:Ag==", "HWCg#5=2:Aw=="})
	ci.linO = append(ci.linO, []string{"garbage", "HWC#5=Raw:9", "SysStat=CPUTemp:x", "map=1:2", "_support=ASCII,Foo"},
		[]string{"_panelTopology_HWC={\n\"HWc\":\n[]}", "_name=two\nlines", "Msg=a\nb", "_support=ASCII,\nBinary", "_support=" + strings.Join(concSupportNames, ",")})
	for _, l := range ci.linI {
		ci.strm = append(ci.strm, l)
	}
	return ci
}

// the capability names of a `_support=` line, in the order of the thirteen flags of RawPanelSupport (bit i of a mask)
var concSupportNames = []string{"ASCII", "Binary", "JSONFeedback", "JSONonInbound", "JSONonOutbound", "Processors", "System", "RawADCValues", "BurninProfile", "EnvHealth",
	"Registers", "Calibration", "NetworkSettings"}

const concMasks = 1 << 13

func concSupport(mask int) *rwp.RawPanelSupport {
	b := func(i int) bool { return mask>>uint(i)&1 == 1 }
	return &rwp.RawPanelSupport{ASCII: b(0), Binary: b(1), ASCII_JSONfeedback: b(2), ASCII_Inbound: b(3), ASCII_Outbound: b(4),
		Processors: b(5), System: b(6), RawADCValues: b(7), BurninProfile: b(8), EnvHealth: b(9), Registers: b(10), Calibration: b(11), NetworkSettings: b(12)}
}

// ---- results, held

const (
	kLines  = iota // []string of an encoder
	kSorted        // … compared as a multiset (the availability map makes line order map-dependent)
	kIn            // []*rwp.InboundMessage
	kOut           // []*rwp.OutboundMessage
	kStrm          // per line of a reader session: []*rwp.InboundMessage
)

type concHeld struct {
	key   string
	kind  int
	lines []string
	inMs  []*rwp.InboundMessage
	outMs []*rwp.OutboundMessage
	strm  [][]*rwp.InboundMessage
}

func (h *concHeld) canon() string {
	switch h.kind {
	case kLines:
		return h.key + ":" + strings.Join(h.lines, "\n")
	case kSorted:
		return h.key + ":" + sortedJoin(h.lines)
	case kIn:
		return h.key + ":" + canonIn(h.inMs)
	case kOut:
		return h.key + ":" + canonOut(h.outMs)
	}
	var sb strings.Builder
	for _, ms := range h.strm {
		sb.WriteString(canonIn(ms) + "|")
	}
	return h.key + ":" + sb.String()
}

func canonIn(ms []*rwp.InboundMessage) string {
	var sb strings.Builder
	for _, m := range ms {
		if m == nil {
			sb.WriteString("<nil>;")
			continue
		}
		b, _ := proto.MarshalOptions{Deterministic: true}.Marshal(m)
		sb.WriteString(hx(b) + ";")
	}
	return sb.String()
}
func canonOut(ms []*rwp.OutboundMessage) string {
	var sb strings.Builder
	for _, m := range ms {
		if m == nil {
			sb.WriteString("<nil>;")
			continue
		}
		b, _ := proto.MarshalOptions{Deterministic: true}.Marshal(m)
		sb.WriteString(hx(b) + ";")
	}
	return sb.String()
}
func sortedJoin(ls []string) string { // the availability map makes line order map-dependent: compare as a multiset
	c := append([]string{}, ls...)
	for i := 1; i < len(c); i++ {
		for j := i; j > 0 && c[j] < c[j-1]; j-- {
			c[j], c[j-1] = c[j-1], c[j]
		}
	}
	return strings.Join(c, "\n")
}

// one reader session over the lines, the reader state through JSON between lines when hop is set (as the C binding does)
func concSession(lines []string, hop bool) [][]*rwp.InboundMessage {
	var rd helpers.ASCIIreader
	res := make([][]*rwp.InboundMessage, 0, len(lines))
	for _, l := range lines {
		res = append(res, rd.Parse(l))
		if hop {
			st, _ := json.Marshal(rd)
			var rd2 helpers.ASCIIreader
			json.Unmarshal(st, &rd2)
			rd = rd2
		}
	}
	return res
}

// evalAll: one pass over the shared inputs; every result is handed to `got` as it comes back (still referring to
// whatever the library returned: nothing is copied)
func (ci *concInputs) evalAll(order int, got func(*concHeld)) {
	n := len(ci.in)
	for k := 0; k < n; k++ {
		i := (k*7 + order) % n
		got(&concHeld{key: fmt.Sprintf("ein%d", i), kind: kLines, lines: helpers.InboundMessagesToRawPanelASCIIstrings(ci.in[i])})
		got(&concHeld{key: fmt.Sprintf("eout%d", i), kind: kSorted, lines: helpers.OutboundMessagesToRawPanelASCIIstrings(ci.out[i])})
	}
	for k := 0; k < len(ci.linI); k++ {
		i := (k*5 + order) % len(ci.linI)
		got(&concHeld{key: fmt.Sprintf("din%d", i), kind: kIn, inMs: helpers.RawPanelASCIIstringsToInboundMessages(ci.linI[i])})
	}
	for k := 0; k < len(ci.linO); k++ {
		i := (k*3 + order) % len(ci.linO)
		got(&concHeld{key: fmt.Sprintf("dout%d", i), kind: kOut, outMs: helpers.RawPanelASCIIstringsToOutboundMessages(ci.linO[i])})
	}
	for k := 0; k < len(ci.strm); k++ {
		i := (k*11 + order) % len(ci.strm)
		got(&concHeld{key: fmt.Sprintf("strm%d", i), kind: kStrm, strm: concSession(ci.strm[i], true)})
	}
}

// ---- per goroutine: inputs no other goroutine has

type concOwn struct {
	out  []*rwp.OutboundMessage
	linO []string
	in   []*rwp.InboundMessage
	linI []string
	t1   []string // the lines of one graphics transfer of this goroutine …
	t2   []string // … and of a second one (other format, other target)
	want map[string]string
}

func concOwnBuild(seed uint64, g int) *concOwn {
	r := NewRng(seed*1000003 + uint64(g)*7919 + 17)
	mask := (g*2731 + int(seed%concMasks)*77) % concMasks // 2731 is odd: different for every goroutine number below 8192
	o := &concOwn{want: map[string]string{}}
	names := []string{}
	for i, nm := range concSupportNames {
		if mask>>uint(i)&1 == 1 {
			names = append(names, nm)
		}
	}
	o.out = []*rwp.OutboundMessage{
		{PanelInfo: &rwp.PanelInfo{Model: fmt.Sprintf("MODEL-%d", g), Serial: fmt.Sprintf("SN%04d", g*g), Name: fmt.Sprintf("panel %d\nof many", g), RawPanelSupport: concSupport(mask)}},
		{PanelInfo: &rwp.PanelInfo{RawPanelSupport: concSupport(concMasks - 1 - mask)}},
		{PanelTopology: &rwp.PanelTopology{Json: "{\"HWc\":[" + strings.Repeat(fmt.Sprintf("{\"id\":%d},\n", g), 1+g) + "{}]}"}},
	}
	for i := 0; i <= g%7; i++ {
		o.out = append(o.out, &rwp.OutboundMessage{Events: []*rwp.HWCEvent{{HWCID: uint32(g*10 + i), Binary: &rwp.BinaryEvent{Pressed: i%2 == 0}}}})
	}
	o.linO = []string{"_support=" + strings.Join(names, ","), fmt.Sprintf("_model=MODEL-%d", g), "_support=" + strings.Join(concSupportNames[g%13:], ","), fmt.Sprintf("HWC#%d=Down", g+1)}
	ty1, ty2 := rwp.HWCGfx_ImageTypeE(g%3), rwp.HWCGfx_ImageTypeE((g+1+g/3)%3)
	img1 := &rwp.HWCGfx{W: 64, H: 32, ImageType: ty1, ImageData: r.Bytes(171 + 37*g + r.Intn(200))}
	img2 := &rwp.HWCGfx{W: 48, H: 24, XYoffset: true, X: uint32(g), Y: 3, ImageType: ty2, ImageData: r.Bytes(1 + r.Intn(700))}
	o.in = []*rwp.InboundMessage{
		{States: []*rwp.HWCState{
			{HWCIDs: []uint32{uint32(100 + g)}, HWCGfx: img1},
			{HWCIDs: []uint32{uint32(100 + g), 7}, HWCText: &rwp.HWCText{Title: fmt.Sprintf("g%d\nline two", g), Textline1: strings.Repeat("x", g), IntegerValue: int32(g)}},
			{HWCIDs: []uint32{uint32(200 + g)}, HWCGfx: img2},
		}},
		{States: []*rwp.HWCState{{HWCIDs: []uint32{uint32(g + 1)}, HWCMode: &rwp.HWCMode{State: rwp.HWCMode_StateE(g % 6)}}}},
	}
	o.t1 = helpers.InboundMessagesToRawPanelASCIIstrings([]*rwp.InboundMessage{{States: []*rwp.HWCState{{HWCIDs: []uint32{uint32(100 + g)}, HWCGfx: img1}}}})
	o.t2 = helpers.InboundMessagesToRawPanelASCIIstrings([]*rwp.InboundMessage{{States: []*rwp.HWCState{{HWCIDs: []uint32{uint32(200 + g)}, HWCGfx: img2}}}})
	o.linI = append(append([]string{fmt.Sprintf("HWCt#%d=%d|1|T%d", g+1, g, g), concJSONLines[g%len(concJSONLines)]}, o.t2...), fmt.Sprintf("HWC#%d=%d", g+1, g%6))
	o.evalOwn(g, func(h *concHeld) { o.want[h.key] = h.canon() })
	for _, hop := range []bool{false, true} {
		a := &concHeld{key: fmt.Sprintf("own%d.t1.%v", g, hop), kind: kStrm, strm: concSession(o.t1, hop)}
		b := &concHeld{key: fmt.Sprintf("own%d.t2.%v", g, hop), kind: kStrm, strm: concSession(o.t2, hop)}
		o.want[a.key], o.want[b.key] = a.canon(), b.canon()
	}
	return o
}

func (o *concOwn) evalOwn(g int, got func(*concHeld)) {
	got(&concHeld{key: fmt.Sprintf("own%d.eout", g), kind: kLines, lines: helpers.OutboundMessagesToRawPanelASCIIstrings(o.out)})
	got(&concHeld{key: fmt.Sprintf("own%d.dout", g), kind: kOut, outMs: helpers.RawPanelASCIIstringsToOutboundMessages(o.linO)})
	got(&concHeld{key: fmt.Sprintf("own%d.ein", g), kind: kLines, lines: helpers.InboundMessagesToRawPanelASCIIstrings(o.in)})
	got(&concHeld{key: fmt.Sprintf("own%d.din", g), kind: kIn, inMs: helpers.RawPanelASCIIstringsToInboundMessages(o.linI)})
}

// gfxPhases: both transfers of the goroutine through two readers; the first is brought to its last-but-one line, then all
// goroutines meet, then the even ones feed the completing line first and chunk 0 of the second transfer next, the odd
// ones the other way round - a transfer completes in one goroutine while another goroutine starts one
func (o *concOwn) gfxPhases(g int, hop bool, meet func(), got func(*concHeld)) {
	var rdA, rdB helpers.ASCIIreader
	feed := func(rd *helpers.ASCIIreader, l string) []*rwp.InboundMessage {
		ms := rd.Parse(l)
		if hop {
			st, _ := json.Marshal(*rd)
			var rd2 helpers.ASCIIreader
			json.Unmarshal(st, &rd2)
			*rd = rd2
		}
		return ms
	}
	a := &concHeld{key: fmt.Sprintf("own%d.t1.%v", g, hop), kind: kStrm}
	b := &concHeld{key: fmt.Sprintf("own%d.t2.%v", g, hop), kind: kStrm}
	n := len(o.t1)
	for _, l := range o.t1[:n-1] {
		a.strm = append(a.strm, feed(&rdA, l))
	}
	meet()
	if g%2 == 0 {
		a.strm = append(a.strm, feed(&rdA, o.t1[n-1]))
		b.strm = append(b.strm, feed(&rdB, o.t2[0]))
	} else {
		b.strm = append(b.strm, feed(&rdB, o.t2[0]))
		a.strm = append(a.strm, feed(&rdA, o.t1[n-1]))
	}
	for _, l := range o.t2[1:] {
		b.strm = append(b.strm, feed(&rdB, l))
	}
	got(a)
	got(b)
}

func concRun(seed uint64, goroutines, rounds int) (res string) {
	if p := guarded(func() { res = concRun1(seed, goroutines, rounds) }); p != "" { // a panic in the sequential reference pass
		return p
	}
	return res
}

func concRun1(seed uint64, goroutines, rounds int) string {
	gfxSilenceLibraryLog() // stray chunk lines among the inputs make the library log a warning per call
	ci := concBuild(seed)
	// sequential reference: every result is consumed as it comes back … and held: after the whole pass it must still be the same
	want := map[string]string{}
	seqHeld := []*concHeld{}
	ci.evalAll(0, func(h *concHeld) { want[h.key] = h.canon(); seqHeld = append(seqHeld, h) })
	owns := make([]*concOwn, goroutines)
	for g := range owns {
		owns[g] = concOwnBuild(seed, g)
		owns[g].evalOwn(g, func(h *concHeld) { seqHeld = append(seqHeld, h) })
	}
	wantOf := func(g int, key string) (string, bool) {
		if w, ok := want[key]; ok {
			return w, true
		}
		w, ok := owns[g].want[key]
		return w, ok
	}
	for _, h := range seqHeld {
		g := 0
		fmt.Sscanf(h.key, "own%d.", &g)
		if w, ok := wantOf(g, h.key); !ok || w != h.canon() {
			return "mismatch:sequential-result-changed-by-a-later-call:" + h.key
		}
	}
	// meeting points: one per round and reader mode; a goroutine that leaves early (panic) checks in for the rest
	meets := make([]*sync.WaitGroup, rounds*2)
	for i := range meets {
		meets[i] = &sync.WaitGroup{}
		meets[i].Add(goroutines)
	}
	var wg sync.WaitGroup
	var mu sync.Mutex
	bad := ""
	fail := func(s string) {
		mu.Lock()
		if bad == "" {
			bad = s
		}
		mu.Unlock()
	}
	lastHeld := make([][]*concHeld, goroutines)
	for g := 0; g < goroutines; g++ {
		wg.Add(1)
		go func(g int) {
			defer wg.Done()
			met := 0
			defer func() {
				for ; met < len(meets); met++ {
					meets[met].Done()
				}
				if r := recover(); r != nil {
					fail("panic:" + strings.ReplaceAll(fmt.Sprint(r), " ", "_"))
				}
			}()
			meet := func() { m := meets[met]; met++; m.Done(); m.Wait() }
			for round := 0; round < rounds; round++ {
				held := []*concHeld{}
				got := func(h *concHeld) {
					if w, ok := wantOf(g, h.key); !ok || w != h.canon() {
						fail("mismatch:" + h.key)
					}
					held = append(held, h)
				}
				// graphics transfers of all goroutines in different phases at the same moment
				owns[g].gfxPhases(g, false, meet, got)
				// own inputs (capability sets, texts, images that differ from goroutine to goroutine), in a burst right after
				// everybody met, so that the calls overlap
				for it := 0; it < 12; it++ {
					if it < 11 {
						owns[g].evalOwn(g, func(h *concHeld) {
							if w, ok := wantOf(g, h.key); !ok || w != h.canon() {
								fail("mismatch:" + h.key)
							}
						})
					} else {
						owns[g].evalOwn(g, got)
					}
				}
				ci.evalAll(g*13+round, got)
				owns[g].gfxPhases(g, true, meet, got)
				// held across this goroutine's later calls, while the other goroutines still convert
				for _, h := range held {
					if w, _ := wantOf(g, h.key); w != h.canon() {
						fail("mismatch:held-result-changed:" + h.key)
					}
				}
				if round == rounds-1 {
					lastHeld[g] = held
				}
			}
		}(g)
	}
	wg.Wait()
	// … and after every goroutine has finished
	for g, hs := range lastHeld {
		for _, h := range hs {
			if w, _ := wantOf(g, h.key); w != h.canon() {
				fail("mismatch:held-result-changed-after-all-finished:" + h.key)
			}
		}
	}
	if bad != "" {
		return bad
	}
	return "ok"
}

// conc.debug: the same inputs (plus strings that are not valid UTF-8) with DebugRWPhelpers = true, in a child process whose
// stdout (the debug dump) is discarded; the child must finish within 20 s.
func concDebugChild(seed uint64) {
	// results with the dump off first …
	ci := concBuild(seed)
	want := map[string]string{}
	ci.evalAll(0, func(h *concHeld) { want[h.key] = h.canon() })
	helpers.DebugRWPhelpersMU.Lock()
	helpers.DebugRWPhelpers = true
	helpers.DebugRWPhelpersMU.Unlock()
	bad := "_model=SK\xffRCP"
	for round := 0; round < 2; round++ {
		// … must be the results with the dump on
		ci.evalAll(round, func(h *concHeld) {
			if want[h.key] != h.canon() {
				fmt.Fprintln(os.Stderr, "debug-differs:"+h.key)
				os.Exit(3)
			}
		})
		helpers.RawPanelASCIIstringsToOutboundMessages([]string{bad, "_serial=\xfe", "Msg=\xc3"})
		helpers.RawPanelASCIIstringsToInboundMessages([]string{"HWCt#1=|||\xff", "SetCalibrationProfile=\xff"})
		helpers.InboundMessagesToRawPanelASCIIstrings([]*rwp.InboundMessage{{States: []*rwp.HWCState{{HWCIDs: []uint32{1}, HWCText: &rwp.HWCText{Title: "\xff\xfe"}}}}})
		helpers.OutboundMessagesToRawPanelASCIIstrings([]*rwp.OutboundMessage{{PanelInfo: &rwp.PanelInfo{Model: "\xff"}}})
		var rd helpers.ASCIIreader
		rd.Parse("HWCt#1=|||\xff")
	}
}

func concDebug(seed string) string {
	exe, _ := os.Executable()
	c := exec.Command(exe, "debug-child", "-seed", seed)
	c.Stdout = nil
	c.Stderr = nil
	if err := c.Start(); err != nil {
		return "child-failed"
	}
	done := make(chan error, 1)
	go func() { done <- c.Wait() }()
	select {
	case err := <-done:
		if err != nil {
			if ee, ok := err.(*exec.ExitError); ok && ee.ExitCode() == 3 {
				return "mismatch:debug-on-differs-from-debug-off"
			}
			return "panic:debug-child-" + strings.ReplaceAll(err.Error(), " ", "_")
		}
		return "ok"
	case <-time.After(20 * time.Second):
		c.Process.Kill()
		return "hang"
	}
}

func (e *concExec) Exec(cmd string, a []string) string {
	if cmd == "conc.debug" {
		return concDebug(a[0])
	}
	if cmd != "conc.run" {
		return "panic:unknown_record"
	}
	seed, g, rounds, race := uint64(atoi(a[0])), atoi(a[1]), atoi(a[2]), atoi(a[3])
	if race == 0 {
		return concRun(seed, g, rounds)
	}
	// child process instrumented by the race detector
	exe, _ := os.Executable()
	bin := strings.TrimSuffix(exe, "harness") + "harness-race"
	if _, err := os.Stat(bin); err != nil {
		return "norace-binary"
	}
	c := exec.Command(bin, "conc-child", "-seed", a[0], "-n", fmt.Sprint(g*1000+rounds))
	c.Env = append(os.Environ(), "GORACE=halt_on_error=1 exitcode=66")
	outb, err := c.CombinedOutput()
	if err != nil {
		if ee, ok := err.(*exec.ExitError); ok && ee.ExitCode() == 66 {
			return "datarace"
		}
		return "child-failed:" + strings.ReplaceAll(strings.TrimSpace(string(outb[:minInt(len(outb), 80)])), " ", "_")
	}
	return strings.TrimSpace(string(outb))
}

func genC06(r *Rng, n int, tier string) {
	// totality halves (malformed / wild inputs through the four converters and the reader)
	families["c06in"].Gen(r, n, tier)
	families["c06out"].Gen(r, n, tier)
	// the streaming reader (and the batch decoder) on chunk lines with hostile numbers: huge / overflowing indices and
	// announced chunk counts, through the three feeding disciplines
	huge := []string{"99999999999999999999", "9223372036854775807", "300000000000000", "18446744073709551616", "4294967296", "2147483648", "000000000000000000001"}
	for _, h := range huge {
		for _, kw := range []string{"HWCg#", "HWCgRGB#", "HWCgGray#"} {
			emitHist([]string{kw + "1=0/" + h + ",64x32:AAAA"})
			emitHist([]string{" " + kw + "9=0/" + h + ",1x1,0,0:\n"})
			emitHist([]string{kw + "1=0/1,8x8:AQ==", kw + "1=" + h + ":Ag=="})
			emitHist([]string{kw + "1=0/1," + h + "x" + h + "," + h + "," + h + ":AQ==", kw + "1=1:Ag=="})
			emitHist([]string{kw + h + "=0/0,8x8:AQ=="})
		}
	}
	// every history of at most three chunk lines over a 13-symbol alphabet (chunk 0 in four header forms, chunks 1-3, a
	// second target list, a second format, a damaged payload, a non-graphics line): state carried from line to line
	_, reduced, _ := gfxAlphabets()
	for l := 1; l <= 3; l++ {
		enumHist(reduced, l)
	}
	// debug dump switched on (child process, its stdout discarded): every converter and the reader must still return
	for i := 0; i < 2; i++ {
		emit("conc.debug", 300+i)
	}
	// concurrency half
	for i := 0; i < 6; i++ {
		emit("conc.run", 100+i, r.Pick(4, 8, 16, 32), r.Pick(2, 4), 0)
	}
	nrace := 1
	if tier == "thorough" {
		nrace = 6
	}
	for i := 0; i < nrace; i++ {
		emit("conc.run", 200+i, 16, 3, 1)
	}
}

func minInt(a, b int) int {
	if a < b {
		return a
	}
	return b
}
