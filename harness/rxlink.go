package main

// The converter regular expressions are unexported package-level variables of the library.  The harness reaches the REAL
// compiled objects (not copies of their source text) with go:linkname, so that the `din.match` / `dout.match` records
// compare the Lean byte matchers with exactly the automata the converters run.

import (
	"regexp"
	_ "unsafe"

	_ "github.com/SKAARHOJ/rawpanel-lib"
)

//go:linkname rxCmd github.com/SKAARHOJ/rawpanel-lib.regex_cmd
var rxCmd *regexp.Regexp

//go:linkname rxGfx github.com/SKAARHOJ/rawpanel-lib.regex_gfx
var rxGfx *regexp.Regexp

//go:linkname rxGenericDual github.com/SKAARHOJ/rawpanel-lib.regex_genericDual
var rxGenericDual *regexp.Regexp

//go:linkname rxGenericSingle github.com/SKAARHOJ/rawpanel-lib.regex_genericSingle
var rxGenericSingle *regexp.Regexp

//go:linkname rxGenericSingleStr github.com/SKAARHOJ/rawpanel-lib.regex_genericSingleStr
var rxGenericSingleStr *regexp.Regexp

//go:linkname rxRegisters github.com/SKAARHOJ/rawpanel-lib.regex_registers
var rxRegisters *regexp.Regexp

//go:linkname rxMap github.com/SKAARHOJ/rawpanel-lib.regex_map
var rxMap *regexp.Regexp

//go:linkname rxGenericSingleInbound github.com/SKAARHOJ/rawpanel-lib.regex_genericSingle_inbound
var rxGenericSingleInbound *regexp.Regexp

//go:linkname rxCmdInbound github.com/SKAARHOJ/rawpanel-lib.regex_cmd_inbound
var rxCmdInbound *regexp.Regexp

//go:linkname rxRegistersOut github.com/SKAARHOJ/rawpanel-lib.regex_registersOut
var rxRegistersOut *regexp.Regexp

// the real regular expressions by the names of their variables in converterFunctions.go
func libRegex(name string) *regexp.Regexp {
	switch name {
	case "regex_cmd":
		return rxCmd
	case "regex_gfx":
		return rxGfx
	case "regex_genericDual":
		return rxGenericDual
	case "regex_genericSingle":
		return rxGenericSingle
	case "regex_genericSingleStr":
		return rxGenericSingleStr
	case "regex_registers":
		return rxRegisters
	case "regex_map":
		return rxMap
	case "regex_genericSingle_inbound":
		return rxGenericSingleInbound
	case "regex_cmd_inbound":
		return rxCmdInbound
	case "regex_registersOut":
		return rxRegistersOut
	}
	return nil
}

// `<rx>.match` executor body: `-` (no match) or the sub-matches 1.. as hex tokens
func rxMatchRecord(name string, line string) string {
	rx := libRegex(name)
	if rx == nil {
		return "panic:unknown_regex_" + name
	}
	res := "-"
	p := guarded(func() {
		if sm := rx.FindStringSubmatch(line); sm != nil {
			parts := make([]string, 0, len(sm))
			for _, s := range sm[1:] {
				parts = append(parts, hx([]byte(s)))
			}
			res = "M " + joinSp(parts)
		}
	})
	if p != "" {
		return p
	}
	return res
}

func joinSp(xs []string) string {
	out := ""
	for i, x := range xs {
		if i > 0 {
			out += " "
		}
		out += x
	}
	return out
}
