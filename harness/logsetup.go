package main

import (
	"os"

	envlog "github.com/s00500/env_logger"
	"github.com/sirupsen/logrus"
)

// The library's logger writes to stdout by default, which is the record stream: send it to stderr, once, for all families.
func init() {
	l := logrus.New()
	l.SetOutput(os.Stderr)
	envlog.ConfigureAllLoggers(l, os.Getenv("LOG"))
}
