package main

// Reusable scripted TCP panel on 127.0.0.1:0 + timestamped trace recorder.
//
// A panel serves successive connections; connection k runs script k (a list of timed actions). Everything the
// panel receives is recorded with millisecond timestamps, as is every action it performs. The trace is a list
// of tokens `kind:field:…@ms` (no spaces), printed in the order the events were recorded (one mutex).
//
// Actions (tokens of a `conn` section of a record):
//   p<n>[:<ms>]  wait until at least n bytes have been received on this connection (default 3000 ms)
//   h            wait until the harness signals "client connected" for this connection (onconnect #k), 4000 ms
//   w<hex>       one Write of these bytes (TCP_NODELAY is set)
//   s<ms>        sleep
//   c            close (FIN);   r  close with RST (linger 0)
//   e<ms>        wait up to ms for EOF / error from the peer
//   z            stop reading from this connection (the receive buffer is made small first): whatever the client
//                writes from now on piles up in the socket buffers until its Write blocks;   Z  read again
// After its script a connection is left open until the panel is closed.
// A quiet panel (NewScriptedPanelQ) records what it receives by count only (`rxn:k:<bytes>`): for scripts in which the
// client writes megabytes nobody looks at.
//
// Used by the data-path families (netdata.go: C08, C09, C10, C12); nothing here knows about a property.

import (
	"encoding/hex"
	"errors"
	"fmt"
	"io"
	"net"
	"strconv"
	"strings"
	"sync"
	"time"
)

// ---- trace ----
type netEvent struct {
	kind string // token text before "@", or "rx" / "rxn" for coalescable receive events
	k    int
	data []byte
	n    int // rxn: number of bytes
	ms   int64
}

type NetTrace struct {
	mu sync.Mutex
	t0 time.Time
	ev []netEvent
}

func NewNetTrace() *NetTrace { return &NetTrace{t0: time.Now()} }

func (t *NetTrace) now() int64 { return time.Since(t.t0).Milliseconds() }

// Add records an event token (without the @ms suffix).
func (t *NetTrace) Add(format string, a ...interface{}) {
	s := fmt.Sprintf(format, a...)
	t.mu.Lock()
	t.ev = append(t.ev, netEvent{kind: s, ms: t.now()})
	t.mu.Unlock()
}

// AddRx records bytes received on connection k; consecutive chunks with no event between them are merged.
func (t *NetTrace) AddRx(k int, b []byte) {
	t.mu.Lock()
	if n := len(t.ev); n > 0 && t.ev[n-1].kind == "rx" && t.ev[n-1].k == k {
		t.ev[n-1].data = append(t.ev[n-1].data, b...)
	} else {
		t.ev = append(t.ev, netEvent{kind: "rx", k: k, data: append([]byte(nil), b...), ms: t.now()})
	}
	t.mu.Unlock()
}

// AddRxN records that n bytes were received on connection k (count only); consecutive events are merged.
func (t *NetTrace) AddRxN(k int, n int) {
	t.mu.Lock()
	if l := len(t.ev); l > 0 && t.ev[l-1].kind == "rxn" && t.ev[l-1].k == k {
		t.ev[l-1].n += n
	} else {
		t.ev = append(t.ev, netEvent{kind: "rxn", k: k, n: n, ms: t.now()})
	}
	t.mu.Unlock()
}

func (t *NetTrace) String() string {
	t.mu.Lock()
	defer t.mu.Unlock()
	var sb strings.Builder
	for i, e := range t.ev {
		if i > 0 {
			sb.WriteByte(' ')
		}
		if e.kind == "rx" {
			sb.WriteString("rx:")
			sb.WriteString(strconv.Itoa(e.k))
			sb.WriteByte(':')
			sb.WriteString(hx(e.data))
		} else if e.kind == "rxn" {
			sb.WriteString("rxn:")
			sb.WriteString(strconv.Itoa(e.k))
			sb.WriteByte(':')
			sb.WriteString(strconv.Itoa(e.n))
		} else {
			sb.WriteString(e.kind)
		}
		sb.WriteByte('@')
		sb.WriteString(strconv.FormatInt(e.ms, 10))
	}
	return sb.String()
}

// ---- scripts ----
type PanelAction struct {
	Kind byte
	Data []byte
	N    int // byte count (p) or milliseconds (s, e)
	Ms   int // timeout of p
}

type ConnScript []PanelAction

func parsePanelAction(tok string) (PanelAction, error) {
	if tok == "" {
		return PanelAction{}, errors.New("empty action")
	}
	a := PanelAction{Kind: tok[0]}
	rest := tok[1:]
	switch tok[0] {
	case 'p':
		a.Ms = 3000
		if i := strings.IndexByte(rest, ':'); i >= 0 {
			a.Ms = atoi(rest[i+1:])
			rest = rest[:i]
		}
		a.N = atoi(rest)
	case 's', 'e':
		a.N = atoi(rest)
	case 'w':
		b, err := hex.DecodeString(rest)
		if err != nil {
			return a, err
		}
		a.Data = b
	case 'h', 'c', 'r', 'z', 'Z':
	default:
		return a, errors.New("unknown panel action " + tok)
	}
	return a, nil
}

// ---- panel ----
type panelConn struct {
	k        int
	c        net.Conn
	mu       sync.Mutex
	cond     *sync.Cond
	received int
	ended    bool // reader saw EOF / error
	paused   bool // the script told the reader to stop reading (action z)
	closedBy bool // closed by the panel itself
}

type ScriptedPanel struct {
	ln      net.Listener
	tr      *NetTrace
	scripts []ConnScript

	mu        sync.Mutex
	cond      *sync.Cond
	connected int // number of "client connected" signals so far
	conns     []*panelConn
	closed    bool
	rxQuiet   bool
	done      sync.WaitGroup  // one per scripted connection
	scriptEnd []chan struct{} // closed when the script of connection k has run
	readers   sync.WaitGroup
}

func NewScriptedPanel(tr *NetTrace, scripts []ConnScript) (*ScriptedPanel, error) {
	return NewScriptedPanelQ(tr, scripts, false)
}

// NewScriptedPanelQ: quiet = record received bytes by count only (`rxn:k:<bytes>`).
func NewScriptedPanelQ(tr *NetTrace, scripts []ConnScript, quiet bool) (*ScriptedPanel, error) {
	ln, err := net.Listen("tcp", "127.0.0.1:0")
	if err != nil {
		return nil, err
	}
	p := &ScriptedPanel{ln: ln, tr: tr, scripts: scripts, rxQuiet: quiet}
	p.cond = sync.NewCond(&p.mu)
	p.done.Add(len(scripts))
	for range scripts {
		p.scriptEnd = append(p.scriptEnd, make(chan struct{}))
	}
	go p.acceptLoop()
	return p, nil
}

func (p *ScriptedPanel) Addr() string { return p.ln.Addr().String() }

// WaitScript waits until the script of connection k has run, or the cap expires.
func (p *ScriptedPanel) WaitScript(k int, cap time.Duration) bool {
	if k >= len(p.scriptEnd) {
		return true
	}
	select {
	case <-p.scriptEnd[k]:
		return true
	case <-time.After(cap):
		return false
	}
}

// SignalConnected: the harness calls this from the client's onconnect callback.
func (p *ScriptedPanel) SignalConnected() {
	p.mu.Lock()
	p.connected++
	p.cond.Broadcast()
	p.mu.Unlock()
}

// WaitScripts waits until every scripted connection has run its script, or the cap expires.
func (p *ScriptedPanel) WaitScripts(cap time.Duration) bool {
	ch := make(chan struct{})
	go func() { p.done.Wait(); close(ch) }()
	select {
	case <-ch:
		return true
	case <-time.After(cap):
		return false
	}
}

// Close stops accepting and closes every connection still open.
func (p *ScriptedPanel) Close() {
	p.mu.Lock()
	p.closed = true
	conns := append([]*panelConn(nil), p.conns...)
	p.cond.Broadcast()
	p.mu.Unlock()
	p.ln.Close()
	for _, pc := range conns {
		pc.mu.Lock()
		pc.closedBy = true
		pc.cond.Broadcast()
		pc.mu.Unlock()
		pc.c.Close()
	}
	p.readers.Wait()
}

func (p *ScriptedPanel) acceptLoop() {
	for k := 0; ; k++ {
		c, err := p.ln.Accept()
		if err != nil {
			return
		}
		if tc, ok := c.(*net.TCPConn); ok {
			tc.SetNoDelay(true)
		}
		pc := &panelConn{k: k, c: c}
		pc.cond = sync.NewCond(&pc.mu)
		p.mu.Lock()
		if p.closed {
			p.mu.Unlock()
			c.Close()
			return
		}
		p.conns = append(p.conns, pc)
		p.mu.Unlock()
		p.tr.Add("acc:%d", k)
		p.readers.Add(1)
		go p.reader(pc)
		if k < len(p.scripts) {
			go func(k int) {
				defer p.done.Done()
				defer close(p.scriptEnd[k])
				p.runScript(pc, p.scripts[k])
			}(k)
		}
	}
}

func (p *ScriptedPanel) reader(pc *panelConn) {
	defer p.readers.Done()
	buf := make([]byte, 1<<16)
	for {
		pc.mu.Lock()
		for pc.paused && !pc.closedBy {
			pc.cond.Wait()
		}
		pc.mu.Unlock()
		n, err := pc.c.Read(buf)
		if n > 0 {
			if p.rxQuiet {
				p.tr.AddRxN(pc.k, n)
			} else {
				p.tr.AddRx(pc.k, buf[:n])
			}
			pc.mu.Lock()
			pc.received += n
			pc.cond.Broadcast()
			pc.mu.Unlock()
		}
		if err != nil {
			if ne, ok := err.(net.Error); ok && ne.Timeout() {
				// action z interrupts a Read in flight through the read deadline: not the end of the connection
				pc.c.SetReadDeadline(time.Time{})
				continue
			}
			pc.mu.Lock()
			byUs := pc.closedBy
			pc.ended = true
			pc.cond.Broadcast()
			pc.mu.Unlock()
			if !byUs {
				if err == io.EOF {
					p.tr.Add("eof:%d", pc.k)
				} else {
					p.tr.Add("rst:%d", pc.k)
				}
			}
			return
		}
	}
}

// waitCond waits on a sync.Cond-protected predicate with a timeout.
func waitCond(mu *sync.Mutex, cond *sync.Cond, d time.Duration, pred func() bool) bool {
	deadline := time.Now().Add(d)
	timer := time.AfterFunc(d, func() { mu.Lock(); cond.Broadcast(); mu.Unlock() })
	defer timer.Stop()
	mu.Lock()
	defer mu.Unlock()
	for !pred() {
		if !time.Now().Before(deadline) {
			return false
		}
		cond.Wait()
	}
	return true
}

func (p *ScriptedPanel) runScript(pc *panelConn, sc ConnScript) {
	for i, a := range sc {
		switch a.Kind {
		case 'p':
			if !waitCond(&pc.mu, pc.cond, time.Duration(a.Ms)*time.Millisecond, func() bool { return pc.received >= a.N || pc.ended || pc.closedBy }) {
				p.tr.Add("to:%d:%d", pc.k, i)
			}
		case 'h':
			if !waitCond(&p.mu, p.cond, 4*time.Second, func() bool { return p.connected > pc.k || p.closed }) {
				p.tr.Add("to:%d:%d", pc.k, i)
			}
		case 'w':
			// the event is recorded before the write so that it precedes everything the write causes
			p.tr.Add("tx:%d:%d", pc.k, i)
			if _, err := pc.c.Write(a.Data); err != nil {
				p.tr.Add("txerr:%d:%d", pc.k, i)
			}
		case 's':
			time.Sleep(time.Duration(a.N) * time.Millisecond)
		case 'e':
			waitCond(&pc.mu, pc.cond, time.Duration(a.N)*time.Millisecond, func() bool { return pc.ended || pc.closedBy })
		case 'z', 'Z':
			if a.Kind == 'z' {
				if tc, ok := pc.c.(*net.TCPConn); ok {
					tc.SetReadBuffer(4096)
				}
			}
			pc.mu.Lock()
			pc.paused = a.Kind == 'z'
			pc.cond.Broadcast()
			pc.mu.Unlock()
			if a.Kind == 'z' {
				pc.c.SetReadDeadline(time.Now()) // a Read in flight returns now; the reader then waits for Z
			}
			p.tr.Add("pause:%d:%s", pc.k, b01(a.Kind == 'z'))
		case 'c', 'r':
			pc.mu.Lock()
			pc.closedBy = true
			pc.cond.Broadcast()
			pc.mu.Unlock()
			p.tr.Add("cl:%d", pc.k)
			if a.Kind == 'r' {
				if tc, ok := pc.c.(*net.TCPConn); ok {
					tc.SetLinger(0)
				}
			}
			pc.c.Close()
			return
		}
	}
}
