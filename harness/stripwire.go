package main

// C07, wire clause through the SECOND ASCII writer named in the property's anchors (gorwp/rawpanel.go, listen: "each
// string + \n"): `strip.wire gorwp <text>*`.
//
// One record = one gorwp.Connect against a scripted ASCII-mode panel on the loopback interface. The panel answers the
// binary probe with `RDY\n` (an ASCII panel's greeting, so that the detection does not wait for its time-out), answers
// the initial request with identity + topology lines so that Connect succeeds, and records every byte it receives.
// The script then makes one call per text argument, alternating between
//   even index: SetRWPTextByStruct(hwc, {Title: t, Formatting: 7, Textline1: t, Textline2: t, PairMode: 1})
//   odd index:  SendRawState({HWCIDs: [hwc, hwc+100], HWCMode: {State: 4}, HWCText: {Title: t, IntegerValue: 5}})
// and finally SendRawState of a sentinel state (no text); the panel listens until it has seen the sentinel's line
// (deadline 10 s).
//
// Output `<received>;<produced>` (two comma-separated hex lists):
//   received = the stream the panel got after the probe and the buffer-clearing line feed, split at LF, without the
//              heartbeat `ping` lines the client's ticker puts between messages (an unterminated rest is kept as a line)
//   produced = InboundMessagesToRawPanelASCIIstrings of the same messages (initial request, the calls, the sentinel),
//              call by call, concatenated
// The driver demands received = produced.

import (
	"bytes"
	"context"
	"net"
	"strings"
	"sync"
	"time"

	helpers "github.com/SKAARHOJ/rawpanel-lib"
	"github.com/SKAARHOJ/rawpanel-lib/gorwp"
	rwp "github.com/SKAARHOJ/rawpanel-lib/ibeam_rawpanel"
)

func swMessages(texts []string) [][]*rwp.InboundMessage {
	calls := [][]*rwp.InboundMessage{{{Command: &rwp.Command{SendPanelInfo: true, SendPanelTopology: true, ReportHWCavailability: true,
		SetHeartBeatTimer: &rwp.HeartBeatTimer{Value: 3000}}}}}
	for i, t := range texts {
		hwc := uint32(10 + i)
		if i%2 == 0 {
			calls = append(calls, []*rwp.InboundMessage{{States: []*rwp.HWCState{{HWCIDs: []uint32{hwc}, HWCText: swText(t)}}}})
		} else {
			calls = append(calls, []*rwp.InboundMessage{{States: []*rwp.HWCState{swState(hwc, t)}}})
		}
	}
	calls = append(calls, []*rwp.InboundMessage{{States: []*rwp.HWCState{swSentinel()}}})
	return calls
}

func swText(t string) *rwp.HWCText {
	return &rwp.HWCText{Title: t, Formatting: 7, Textline1: t, Textline2: t, PairMode: 1}
}

func swState(hwc uint32, t string) *rwp.HWCState {
	return &rwp.HWCState{HWCIDs: []uint32{hwc, hwc + 100}, HWCMode: &rwp.HWCMode{State: 4}, HWCText: &rwp.HWCText{Title: t, IntegerValue: 5}}
}

func swSentinel() *rwp.HWCState {
	return &rwp.HWCState{HWCIDs: []uint32{9999}, HWCMode: &rwp.HWCMode{State: 2}}
}

func stripWireGorwp(texts []string) string {
	calls := swMessages(texts)
	var produced []string
	for _, c := range calls {
		produced = append(produced, helpers.InboundMessagesToRawPanelASCIIstrings(c)...)
	}
	sentinel := helpers.InboundMessagesToRawPanelASCIIstrings(calls[len(calls)-1])
	if len(sentinel) != 1 {
		return "err:sentinel"
	}
	endMark := []byte("\n" + sentinel[0] + "\n")

	port, err := nlReservePort()
	if err != nil {
		return "err:port"
	}
	defer port.Close()
	ln, err := port.Listen()
	if err != nil {
		return "err:listen"
	}

	var mu sync.Mutex
	var acc []byte
	seenEnd := make(chan struct{})
	panelDone := make(chan struct{})
	var pc net.Conn
	go func() {
		defer close(panelDone)
		c, err := ln.Accept()
		if err != nil {
			return
		}
		mu.Lock()
		pc = c
		mu.Unlock()
		defer c.Close()
		buf := make([]byte, 65536)
		stage := 0 // 0 = waiting for the probe, 1 = waiting for the first request line, 2 = recording
		ended := false
		for {
			n, err := c.Read(buf)
			if n > 0 {
				mu.Lock()
				acc = append(acc, buf[:n]...)
				if stage == 0 && len(acc) >= 6 {
					stage = 1
					c.Write([]byte("RDY\n"))
				}
				if stage == 1 && len(acc) > 7 && bytes.IndexByte(acc[7:], '\n') >= 0 {
					stage = 2
					answer := helpers.OutboundMessagesToRawPanelASCIIstrings([]*rwp.OutboundMessage{{
						PanelInfo:     &rwp.PanelInfo{Model: "M1", Serial: "S1", Name: "N1"},
						PanelTopology: &rwp.PanelTopology{Json: gwJSON0, Svgbase: gwSVG0}}})
					c.Write([]byte(strings.Join(answer, "\n") + "\n"))
				}
				if !ended && bytes.Contains(acc, endMark) {
					ended = true
					close(seenEnd)
				}
				mu.Unlock()
			}
			if err != nil {
				return
			}
		}
	}()

	ctx, cancel := context.WithCancel(context.Background())
	res := ""
	func() {
		defer cancel()
		rp, err := gorwp.Connect(port.Addr(), ctx, cancel)
		if err != nil {
			res = "err:connect"
			return
		}
		for i, t := range texts {
			hwc := uint32(10 + i)
			if i%2 == 0 {
				rp.SetRWPTextByStruct(hwc, swText(t))
			} else {
				rp.SendRawState(swState(hwc, t))
			}
		}
		rp.SendRawState(swSentinel())
		select {
		case <-seenEnd:
		case <-panelDone:
		case <-time.After(10 * time.Second):
		}
	}()
	mu.Lock()
	if pc != nil {
		pc.Close()
	}
	mu.Unlock()
	ln.Close()
	select {
	case <-panelDone:
	case <-time.After(5 * time.Second):
	}
	if res != "" {
		return res
	}
	mu.Lock()
	got := append([]byte{}, acc...)
	mu.Unlock()
	if len(got) < 7 || got[6] != '\n' {
		return "err:probe"
	}
	lines := strings.Split(string(got[7:]), "\n")
	if lines[len(lines)-1] == "" {
		lines = lines[:len(lines)-1]
	}
	var received []string
	for _, l := range lines {
		if l == "ping" {
			continue
		}
		received = append(received, l)
	}
	return hxList(received) + ";" + hxList(produced)
}

// texts with characters a writer could treat specially: format verbs, escapes, the protocol's own separators, line
// feeds (flattened by the encoder), blanks at the edges
var swTexts = []string{"Gain 50%", "100%d", "50%%", "%s %v", "%", "%!", "%[1]d", "%-5.2f|", "a\\nb", "\\", "a|b", "k=v", "#1", "HWC#1=4", "two\nlines", "x\r\ny ",
	"trail  ", "  lead", "\t", "é%漢", "%\n%", "plain", "", "%x%x%x%x%x%x%x%x%x%x%x%x", "100 %", "%%%"}

func genC07WireGorwp(r *Rng) {
	// every sample once, four per connection; then random mixes
	for i := 0; i < len(swTexts); i += 4 {
		j := i + 4
		if j > len(swTexts) {
			j = len(swTexts)
		}
		args := []interface{}{"gorwp"}
		for _, t := range swTexts[i:j] {
			args = append(args, []byte(t))
		}
		emit("strip.wire", args...)
	}
	for k := 0; k < 4; k++ {
		args := []interface{}{"gorwp"}
		for n := r.Range(1, 6); n > 0; n-- {
			t := swTexts[r.Intn(len(swTexts))]
			if r.Chance(40) {
				t += randText(r, r.Range(1, 8), false) + swTexts[r.Intn(len(swTexts))]
			}
			args = append(args, []byte(t))
		}
		emit("strip.wire", args...)
	}
}
