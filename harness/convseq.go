package main

// Shared helpers of the converter families (convin.go, convout.go) for the scenario classes that need more than one
// call, or one call on inputs a value generator practically never draws:
//
//   *.seq   k calls on k different inputs; every returned slice is kept (and snapshotted at return time); the record
//           reports the k snapshots followed by the k kept slices AS THEY READ AFTER THE LAST CALL.  A later call must not
//           change what an earlier call returned (storage shared between calls).
//   *.par   the same with the calls of even and odd index running in two goroutines, each goroutine repeating its own
//           sequence; the snapshot of every repetition must equal the first one.
//   *.reuse (encoders) two inputs; the message OBJECTS of the first call are overwritten IN PLACE (sub-messages keep
//           their addresses wherever both inputs have one) with the second input and the same pointers are converted again
//           (a result cached by address).
// The driver evaluates every reported result against the model / Spec of the input with the same index.

import (
	"runtime"
	"strings"
	"sync"

	"google.golang.org/protobuf/proto"
	"google.golang.org/protobuf/reflect/protoreflect"
)

// assignInPlace makes dst equal to src field by field.  Where dst and src both hold a sub-message (singular, or at
// the same index of a repeated field) dst keeps ITS object and the assignment recurses into it.
func assignInPlace(dst, src protoreflect.Message) {
	fds := dst.Descriptor().Fields()
	for i := 0; i < fds.Len(); i++ {
		fd := fds.Get(i)
		switch {
		case fd.IsMap():
			dst.Clear(fd)
			if src.Has(fd) {
				m := dst.Mutable(fd).Map()
				src.Get(fd).Map().Range(func(k protoreflect.MapKey, v protoreflect.Value) bool {
					m.Set(k, v)
					return true
				})
			}
		case fd.IsList():
			if !src.Has(fd) {
				dst.Clear(fd)
				continue
			}
			sl := src.Get(fd).List()
			dl := dst.Mutable(fd).List()
			if fd.Message() != nil {
				n := dl.Len()
				if sl.Len() < n {
					dl.Truncate(sl.Len())
					n = sl.Len()
				}
				for j := 0; j < n; j++ {
					assignInPlace(dl.Get(j).Message(), sl.Get(j).Message())
				}
				for j := n; j < sl.Len(); j++ {
					dl.Append(sl.Get(j))
				}
			} else {
				dl.Truncate(0)
				for j := 0; j < sl.Len(); j++ {
					dl.Append(sl.Get(j))
				}
			}
		case fd.Message() != nil:
			if !src.Has(fd) {
				dst.Clear(fd)
			} else if dst.Has(fd) {
				assignInPlace(dst.Mutable(fd).Message(), src.Get(fd).Message())
			} else {
				dst.Set(fd, src.Get(fd))
			}
		default:
			if fd.Kind() == protoreflect.BytesKind && src.Has(fd) && dst.Has(fd) {
				// same length: redraw into the SAME backing array (a sender drawing every frame into one buffer)
				d, sb := dst.Get(fd).Bytes(), src.Get(fd).Bytes()
				if len(d) == len(sb) && len(d) > 0 {
					copy(d, sb)
					continue
				}
			}
			if src.Has(fd) {
				dst.Set(fd, src.Get(fd))
			} else {
				dst.Clear(fd)
			}
		}
	}
}

// reuseObjects overwrites the message objects of `first` in place with the values of `second` and returns the list to
// convert in the second call: the same pointers for the common prefix, then the remaining objects of `second`.
func reuseObjects[M proto.Message](first, second []M) []M {
	out := make([]M, 0, len(second))
	for i := range second {
		if i < len(first) {
			want := proto.Clone(second[i])
			assignInPlace(first[i].ProtoReflect(), second[i].ProtoReflect())
			if !proto.Equal(first[i], want) {
				panic("harness: in-place assignment did not reproduce the message")
			}
			out = append(out, first[i])
		} else {
			out = append(out, second[i])
		}
	}
	return out
}

// all field names `Message.field` reachable from a message type (the proto definitions the converters are written against)
func protoFieldNames(md protoreflect.MessageDescriptor) []string {
	seen := map[string]bool{}
	var names []string
	var walk func(md protoreflect.MessageDescriptor)
	walk = func(md protoreflect.MessageDescriptor) {
		if seen[string(md.FullName())] {
			return
		}
		seen[string(md.FullName())] = true
		fds := md.Fields()
		for i := 0; i < fds.Len(); i++ {
			fd := fds.Get(i)
			names = append(names, string(md.Name())+"."+string(fd.Name()))
			if fd.IsMap() {
				if fd.MapValue().Message() != nil {
					walk(fd.MapValue().Message())
				}
			} else if fd.Message() != nil {
				walk(fd.Message())
			}
		}
	}
	walk(md)
	return names
}

// runSeq: call(i) for i = 0..k-1 in order; snap(i) renders result i immediately after its call, final(i) renders the kept
// result i after ALL calls.  Reports the k snapshots followed by the k final readings.
func runSeq(k int, call func(i int), render func(i int) string) []string {
	snaps := make([]string, k)
	for i := 0; i < k; i++ {
		call(i)
		snaps[i] = render(i)
	}
	finals := make([]string, k)
	for i := 0; i < k; i++ {
		finals[i] = render(i)
	}
	return append(snaps, finals...)
}

const parReps = 12

// runPar: the calls of even index in one goroutine, those of odd index in another, each goroutine running its own
// sequence parReps times.  call(i) stores its result in slot i; render(i) reads slot i.  Reported for call i: the
// snapshot taken directly after the call (the first repetition's, or the first later one that differs from it) and the
// reading of the kept result after later calls of the same goroutine (the first one that differs from the snapshot of
// its repetition, or the last reading).  On a library without shared state both are the sequential results.
func runPar(k int, call func(i int), render func(i int) string) []string {
	snaps := make([]string, k)
	finals := make([]string, k)
	var wg sync.WaitGroup
	panics := make([]string, 2)
	for g := 0; g < 2; g++ {
		wg.Add(1)
		go func(g int) {
			defer wg.Done()
			panics[g] = guarded(func() {
				cur := map[int]string{}
				devSnap := map[int]bool{}
				devFin := map[int]bool{}
				for rep := 0; rep < parReps; rep++ {
					for i := g; i < k; i += 2 {
						call(i)
						s := render(i)
						cur[i] = s
						if rep == 0 {
							snaps[i] = s
						} else if s != snaps[i] && !devSnap[i] {
							snaps[i] = s
							devSnap[i] = true
						}
						runtime.Gosched()
						for j := g; j <= i; j += 2 {
							if !devFin[j] {
								f := render(j)
								finals[j] = f
								if f != cur[j] {
									devFin[j] = true
								}
							}
						}
					}
				}
			})
		}(g)
	}
	wg.Wait()
	for _, p := range panics {
		if p != "" {
			panic(strings.TrimPrefix(p, "panic:"))
		}
	}
	return append(snaps, finals...)
}

// ------------------------------------------------------------------------------------------------
// decimal arguments spelled non-canonically
// ------------------------------------------------------------------------------------------------

// other spellings of the decimal numeral v (canonical, optionally with a leading '-') that denote the same number:
// leading zeros (one, two, seven, twenty-five: longer than any machine word), and where the position admits a sign
// an explicit '+', and '-0' for zero.
func spellings(v string, plus, minus bool) []string {
	neg := strings.HasPrefix(v, "-")
	abs := strings.TrimPrefix(v, "-")
	sign := ""
	if neg {
		sign = "-"
	}
	out := []string{sign + "0" + abs, sign + "00" + abs, sign + strings.Repeat("0", 7) + abs, sign + strings.Repeat("0", 25) + abs}
	if plus && !neg {
		out = append(out, "+"+abs, "+0"+abs)
	}
	if minus && abs == "0" && !neg {
		out = append(out, "-0", "-00")
	}
	return out
}

// templ: a line family with numeric positions.  parts[0] + num[0] + parts[1] + num[1] + ... + parts[n]
type numTempl struct {
	parts []string
	nums  []string // canonical numerals of the positions
	plus  []bool   // the position admits a '+' sign (free-form value read by Atoi)
	minus []bool   // the position admits a '-' sign
}

func (t numTempl) render(nums []string) string {
	var sb strings.Builder
	for i, p := range t.parts {
		sb.WriteString(p)
		if i < len(nums) {
			sb.WriteString(nums[i])
		}
	}
	return sb.String()
}

// every line obtained by re-spelling ONE numeric position (all spellings), the others canonical
func (t numTempl) respelled() []string {
	var out []string
	for p := range t.nums {
		for _, s := range spellings(t.nums[p], t.plus != nil && t.plus[p], t.minus != nil && t.minus[p]) {
			n := append([]string{}, t.nums...)
			n[p] = s
			out = append(out, t.render(n))
		}
	}
	return out
}

// all positions re-spelled at once, spelling chosen per position
func (t numTempl) respelledAll(r *Rng) string {
	n := append([]string{}, t.nums...)
	for p := range n {
		sp := spellings(t.nums[p], t.plus != nil && t.plus[p], t.minus != nil && t.minus[p])
		n[p] = sp[r.Intn(len(sp))]
	}
	return t.render(n)
}

// nt("HWC#", "7", "=", "10", "") alternates literal parts and canonical numerals
func nt(xs ...string) numTempl {
	t := numTempl{}
	for i, x := range xs {
		if i%2 == 0 {
			t.parts = append(t.parts, x)
		} else {
			t.nums = append(t.nums, x)
		}
	}
	return t
}
