package main

// C11 — connection lifecycle of ConnectToPanel under cancellation and panel loss.
// One record = one script:   life.run k=v …  |  <timestamped trace on one line>
//
// Script parameters (all part of the record, so a replay re-executes exactly the same script):
//   mode    absent | refuse (close right after accept) | silent | bin | asc | late (absent, listening from `appear` ms, then bin)
//   nc, rc  NoConnectionRetryPeriod / ReConnectionRetryPeriod in seconds (0 = library default 3 / 1; both 0 = nil config)
//   cyc     number of connections on which the panel drops: sends stream[0:cut] and then half-closes
//   cut     byte offset of the drop (0..len(stream))
//   hold    on the connection after the `cyc` dropped ones the panel sends stream[0:hold] and then stays silent
//   seg     segment size used by the panel when writing (0 = one write)
//   cancel  <event>+<ms>: pre | start | acc<k> | con<k> | dis<k> | pcl<k> | held   (k 1-based)
//   twice   1 = cancel() is called a second time 100 ms after the first
//   park    k>0: park the writer goroutine of connection k at the verif hook point "writerStart" until
//           wg.Wait() has returned (needs hooks.patch in the library; without hooks the script runs unparked)
//   appear  (mode late) time in ms at which the listener appears
//   feed    <event>+<ms>: the application starts handing message lists to the client (msgsToPanel) that long after the
//           event (same events as cancel); fn lists (default 3), fi ms apart (default 150), each offered until someone
//           takes it; fq = capacity of the msgsToPanel channel (default 0)
//           fb = bytes of text in every message of a list (default 0 = a small state message): large lists keep the writer
//           goroutine inside conn.Write for a while
//   loss    how the panel loses the `cyc` connections: close (default: half-close after stream[0:cut]) | stall (sends
//           stream[0:cut] and then stays silent with the connection open: a binary client must give the connection up
//           itself when `cut` lies inside a frame) | over (sends stream[0:cut] and then the header of a 500000-byte frame)
//   cpause  <event>+<ms>: the consumer of msgsFromPanel stops receiving that long after the event, for `cdur` ms (default 600)
//   stream  bytes the panel sends after the probe (hex); exp = expected delivery token per complete frame
//   reply   (mode asc) what the panel answers to the probe: absent = silence for the 2 s window | rdy | map | err
//           (an `ErrorMsg=…` line: a panel in server mode that is locked / full) | txt (any other text); the client
//           treats all of them as ASCII, and onconnect gets the error text of `err`
//   modes   one letter per connection (the last one for every later connection): the panel negotiates a DIFFERENT mode on
//           successive connections of one call (reconfigured panel / another device behind the address): b = binary
//           acknowledge, then `stream`; a = silence, r = RDY, m = map line, e = ErrorMsg line, t = other text (the
//           `reply` classes), then `astream` (hex) whose complete lines decode to `aexp`; `cut` / `hold` are clipped to
//           the length of the stream of the connection; `mode` names the first connection's mode
//
// Trace events (ms since the call of ConnectToPanel):
//   start | cancel | cancel2 | cancelfb (fallback: trigger event never happened) | listen | gorc:n (library goroutines of this script just before cancel)
//   acc:k | rx:k:hex | tx:k:off (logged BEFORE the write up to off) | pcl:k:off (panel half-closes) | held:k:off
//   peof:k:eof|rst|other (panel saw the client's end of connection k) | pclose:k (panel fully closed k)
//   con:k:bin:errhex | dis:k:b | del:tok,tok | ret | wg | wgblocked | nowg | noret | gor:n | gor2:n | hk:<point>:i | hk:release | lag:ms | end
//   feed:i (list i offered on msgsToPanel) | fed:i (the send completed)
//   pst:k:off (panel goes silent after off bytes, connection open) | ovr:k (panel sends an over-limit header)
//   cstop | cres (the consumer of msgsFromPanel stops / resumes receiving)

import (
	"context"
	"encoding/hex"
	"net"
	"runtime/debug"
	"runtime/pprof"
	"strconv"
	"strings"
	"sync"
	"sync/atomic"
	"time"

	helpers "github.com/SKAARHOJ/rawpanel-lib"
	rwp "github.com/SKAARHOJ/rawpanel-lib/ibeam_rawpanel"
	"google.golang.org/protobuf/proto"
)

const nlHookKey = "rawpanel-verif-hook"

var nlScriptSeq int64

// A socket the client forgot to close would be closed by the garbage collector's finalizer of net.Conn a moment later
// and the panel would see an orderly EOF: while lifecycle scripts run, the collector only works when memory gets tight.
var nlGCOnce sync.Once

func nlHoldGC() {
	nlGCOnce.Do(func() {
		debug.SetGCPercent(-1)
		debug.SetMemoryLimit(3 << 30)
	})
}

type lifeExec struct{}

func init() {
	registerExecutor("life", &lifeExec{})
	registerFamily("c11", genC11)
}

func nlMsgTok(msgs []*rwp.OutboundMessage) string {
	toks := make([]string, len(msgs))
	for i, m := range msgs {
		b, _ := proto.MarshalOptions{Deterministic: true}.Marshal(m)
		toks[i] = hx(b)
	}
	if len(toks) == 0 {
		return "-"
	}
	return strings.Join(toks, ",")
}

func (lifeExec) Exec(cmd string, args []string) string {
	if cmd != "life.run" {
		return "err:unknown-record"
	}
	nlHoldGC()
	var res string
	p := guarded(func() { res = nlRunLife(nlKV(args)) })
	if p != "" {
		return p
	}
	return res
}

func nlParseTrigger(s string) (string, int) {
	ev, ms := s, 0
	if i := strings.Index(s, "+"); i >= 0 {
		ev = s[:i]
		ms, _ = strconv.Atoi(s[i+1:])
	}
	return ev, ms
}

func nlRunLife(a map[string]string) string {
	mode := a["mode"]
	nc, rc := nlInt(a, "nc", 0), nlInt(a, "rc", 0)
	cyc, cut := nlInt(a, "cyc", 0), nlInt(a, "cut", 0)
	seg := nlInt(a, "seg", 0)
	twice := nlInt(a, "twice", 0) == 1
	park := nlInt(a, "park", 0)
	appear := nlInt(a, "appear", 0)
	stream := []byte{}
	if s, ok := a["stream"]; ok && s != "-" {
		stream, _ = hex.DecodeString(s)
	}
	hold := nlInt(a, "hold", 1<<30)
	astream := []byte{}
	if s, ok := a["astream"]; ok && s != "-" {
		astream, _ = hex.DecodeString(s)
	}
	modes := a["modes"]
	// what the panel does on connection k: handshake mode, probe reply of an ASCII panel, stream
	connPlan := func(k int) (string, string, []byte) {
		if modes == "" {
			return mode, a["reply"], stream
		}
		i := k - 1
		if i >= len(modes) {
			i = len(modes) - 1
		}
		switch modes[i] {
		case 'b':
			return "bin", "", stream
		case 'r':
			return "asc", "rdy", astream
		case 'm':
			return "asc", "map", astream
		case 'e':
			return "asc", "err", astream
		case 't':
			return "asc", "txt", astream
		}
		return "asc", "", astream
	}
	loss := a["loss"]
	cev, cms := nlParseTrigger(a["cancel"])
	maxms := nlInt(a, "maxms", 25000)

	port, err := nlReservePort()
	if err != nil {
		return "err:port"
	}
	defer port.Close()

	tr := nlNewTrace()
	stop := make(chan struct{}) // closed at script end
	var conCount, disCount, accCount int32
	var pwg sync.WaitGroup // panel goroutines

	// ---- the scripted panel ----
	serve := func(c net.Conn, k int) {
		defer pwg.Done()
		ks := strconv.Itoa(k)
		gotPing := make(chan struct{})
		gotLF := make(chan struct{})
		rdone := make(chan struct{})
		var ownClosed int32
		go func() { // reader: everything the client sends, and how the connection ends
			defer close(rdone)
			buf := make([]byte, 65536)
			total := 0
			lf := false
			for {
				n, err := c.Read(buf)
				if n > 0 {
					if n > 32 {
						tr.log("", "rx:"+ks+":"+hx(buf[:32])+":+"+strconv.Itoa(n))
					} else {
						tr.log("", "rx:"+ks+":"+hx(buf[:n]))
					}
					if total < 6 && total+n >= 6 {
						close(gotPing)
					}
					total += n
					if !lf && total > 6 {
						// an ASCII-mode client sends a single LF after the probe
						for _, b := range buf[:n] {
							if b == '\n' {
								lf = true
							}
						}
						if lf {
							close(gotLF)
						}
					}
				}
				if err != nil {
					kind := nlErrKind(err)
					if kind == "own" || atomic.LoadInt32(&ownClosed) == 1 {
						return
					}
					tr.log("peof"+ks, "peof:"+ks+":"+kind)
					return
				}
			}
		}()
		fullClose := func() {
			atomic.StoreInt32(&ownClosed, 1)
			c.Close()
		}
		cmode, creply, stream := connPlan(k)
		switch cmode {
		case "refuse":
			tr.log("pcl"+ks, "pcl:"+ks+":0")
			tr.log("", "pclose:"+ks)
			fullClose()
			<-rdone
			return
		case "silent":
			tr.log("held", "held:"+ks+":0")
			select {
			case <-stop:
			case <-rdone:
			}
			c.Close()
			return
		case "bin", "late":
			select {
			case <-gotPing:
			case <-rdone:
				c.Close()
				return
			case <-stop:
				c.Close()
				return
			}
			c.Write([]byte{2, 0, 0, 0, 8, 2}) // binary ACK frame
		case "asc":
			if rp := nlReplyBytes(creply); rp != nil { // the panel answers the probe with text instead of staying silent
				select {
				case <-gotPing:
				case <-rdone:
					c.Close()
					return
				case <-stop:
					c.Close()
					return
				}
				c.Write(rp)
			}
			select {
			case <-gotLF:
			case <-rdone:
				c.Close()
				return
			case <-stop:
				c.Close()
				return
			}
		}
		// start streaming only once the client is past the probe (its onconnect callback has fired)
		if !tr.wait("con"+ks, 4*time.Second, stop) {
			select {
			case <-stop:
				c.Close()
				return
			default:
			}
		}
		tr.sleep(30*time.Millisecond, stop)
		limit := hold
		if k <= cyc {
			limit = cut
		}
		if limit > len(stream) {
			limit = len(stream)
		}
		off := 0
		for off < limit {
			n := limit - off
			if seg > 0 && n > seg {
				n = seg
			}
			tr.log("", "tx:"+ks+":"+strconv.Itoa(off+n))
			if _, err := c.Write(stream[off : off+n]); err != nil {
				break
			}
			off += n
			if seg > 0 && off < limit {
				tr.sleep(2*time.Millisecond, stop)
			}
		}
		if k <= cyc && (loss == "stall" || loss == "over") {
			// the panel does not close: it goes silent (stall) or announces a frame beyond the client's limit (over);
			// either way the client has to end the connection by itself (or not at all, when nothing is pending)
			tr.sleep(20*time.Millisecond, stop)
			if loss == "over" {
				tr.log("pst"+ks, "ovr:"+ks)
				c.Write([]byte{0x20, 0xa1, 0x07, 0x00}) // 500000
			} else {
				tr.log("pst"+ks, "pst:"+ks+":"+strconv.Itoa(off))
			}
			select {
			case <-rdone:
			case <-stop:
			}
			c.Close()
			return
		}
		if k <= cyc {
			tr.sleep(20*time.Millisecond, stop)
			tr.log("pcl"+ks, "pcl:"+ks+":"+strconv.Itoa(off))
			if tc, ok := c.(*net.TCPConn); ok {
				tc.CloseWrite() // FIN; keep reading so the client's own close is observed
			}
			select {
			case <-rdone:
			case <-stop:
			}
			c.Close()
			return
		}
		tr.log("held", "held:"+ks+":"+strconv.Itoa(off))
		select {
		case <-stop:
		case <-rdone:
		}
		c.Close()
	}
	startListener := func() {
		ln, err := port.Listen()
		if err != nil {
			tr.log("", "err:listen")
			return
		}
		tr.log("listen", "listen")
		pwg.Add(1)
		go func() {
			defer pwg.Done()
			for {
				c, err := ln.Accept()
				if err != nil {
					return
				}
				k := int(atomic.AddInt32(&accCount, 1))
				tr.log("acc"+strconv.Itoa(k), "acc:"+strconv.Itoa(k))
				pwg.Add(1)
				go serve(c, k)
			}
		}()
	}
	switch mode {
	case "absent":
	case "late":
		pwg.Add(1)
		go func() {
			defer pwg.Done()
			if tr.sleep(time.Duration(appear)*time.Millisecond, stop) {
				startListener()
			}
		}()
	default:
		startListener()
	}

	// ---- the client under test ----
	ctx0, cancel := context.WithCancel(context.Background())
	release := make(chan struct{})
	var hookCalls int32
	var startCalls int32
	hook := func(point string) {
		atomic.AddInt32(&hookCalls, 1)
		switch point {
		case "writerStart":
			i := int(atomic.AddInt32(&startCalls, 1))
			tr.log("", "hk:writerStart:"+strconv.Itoa(i))
			if park > 0 && i == park {
				<-release
				tr.log("", "hk:release")
			}
		default:
			tr.log("", "hk:"+point)
		}
	}
	ctx := context.WithValue(ctx0, nlHookKey, hook)
	var cfg *helpers.ConnectToPanelConfig
	if nc != 0 || rc != 0 {
		cfg = &helpers.ConnectToPanelConfig{NoConnectionRetryPeriod: nc, ReConnectionRetryPeriod: rc}
	}
	toPanel := make(chan []*rwp.InboundMessage, nlInt(a, "fq", 0))
	fromPanel := make(chan []*rwp.OutboundMessage)
	var wg sync.WaitGroup
	if fs, ok := a["feed"]; ok {
		fev, fms := nlParseTrigger(fs)
		fn, fi := nlInt(a, "fn", 3), nlInt(a, "fi", 150)
		fb := nlInt(a, "fb", 0)
		ftxt := strings.Repeat("x", fb)
		pwg.Add(1)
		go func() { // the application: traffic towards the panel, whatever state the client is in
			defer pwg.Done()
			if !tr.wait(fev, time.Duration(maxms)*time.Millisecond, stop) || !tr.sleep(time.Duration(fms)*time.Millisecond, stop) {
				return
			}
			for i := 1; i <= fn; i++ {
				is := strconv.Itoa(i)
				tr.log("", "feed:"+is)
				list := []*rwp.InboundMessage{{States: []*rwp.HWCState{{HWCIDs: []uint32{uint32(i)}, HWCMode: &rwp.HWCMode{State: rwp.HWCMode_ON}}}}}
				if fb > 0 {
					list = []*rwp.InboundMessage{{States: []*rwp.HWCState{{HWCIDs: []uint32{uint32(i)}, HWCText: &rwp.HWCText{Title: ftxt}}}}}
				}
				select {
				case toPanel <- list:
					tr.log("", "fed:"+is)
				case <-stop:
					return
				}
				if !tr.sleep(time.Duration(fi)*time.Millisecond, stop) {
					return
				}
			}
		}()
	}
	label := strconv.FormatInt(atomic.AddInt64(&nlScriptSeq, 1), 10)

	delDone := make(chan struct{})
	var pauseCh chan struct{} // closed when the consumer is to stop receiving for a while
	cdur := nlInt(a, "cdur", 600)
	if ps, ok := a["cpause"]; ok {
		pev, pms := nlParseTrigger(ps)
		pc := make(chan struct{})
		pauseCh = pc
		pwg.Add(1)
		go func() {
			defer pwg.Done()
			if tr.wait(pev, time.Duration(maxms)*time.Millisecond, stop) && tr.sleep(time.Duration(pms)*time.Millisecond, stop) {
				close(pc)
			}
		}()
	}
	go func(pch chan struct{}) { // the consumer of msgsFromPanel
		defer close(delDone)
		for {
			select {
			case m := <-fromPanel:
				tr.log("", "del:"+nlMsgTok(m))
			case <-pch:
				pch = nil
				tr.log("cstop", "cstop")
				ok := tr.sleep(time.Duration(cdur)*time.Millisecond, stop)
				tr.log("cres", "cres")
				if !ok {
					return
				}
			case <-stop:
				return
			}
		}
	}(pauseCh)
	onconnect := func(errMsg string, bin bool, c net.Conn) {
		k := int(atomic.AddInt32(&conCount, 1))
		tr.log("con"+strconv.Itoa(k), "con:"+strconv.Itoa(k)+":"+b01(bin)+":"+hx([]byte(errMsg)))
	}
	ondisconnect := func(b bool) {
		k := int(atomic.AddInt32(&disCount, 1))
		tr.log("dis"+strconv.Itoa(k), "dis:"+strconv.Itoa(k)+":"+b01(b))
	}

	if cev == "pre" {
		tr.log("cancel", "cancel")
		cancel()
	}
	retCh := make(chan struct{})
	tr.t0 = time.Now()
	tr.log("start", "start")
	go pprof.Do(ctx, pprof.Labels("vscript", label), func(ctx context.Context) {
		helpers.ConnectToPanel(port.Addr(), toPanel, fromPanel, ctx, &wg, onconnect, ondisconnect, cfg)
		tr.log("ret", "ret")
		close(retCh)
	})

	// ---- cancellation trigger ----
	if cev != "pre" {
		if tr.wait(cev, time.Duration(maxms)*time.Millisecond, retCh) {
			tr.sleep(time.Duration(cms)*time.Millisecond, retCh)
			// census of this script's goroutines inside the library: the main loop + at most the current writer
			n := nlLabelledGoroutines("vscript", label)
			for i := 0; i < 3 && n > 2; i++ {
				time.Sleep(40 * time.Millisecond)
				n = nlLabelledGoroutines("vscript", label)
			}
			tr.log("", "gorc:"+strconv.Itoa(n))
			tr.log("cancel", "cancel")
		} else {
			tr.log("cancel", "cancelfb")
		}
		cancel()
	}
	if twice {
		tr.sleep(100*time.Millisecond, nil)
		tr.log("", "cancel2")
		cancel()
	}

	// ---- wind-down observation ----
	returned := false
	select {
	case <-retCh:
		returned = true
	case <-time.After(20 * time.Second):
		tr.log("", "noret")
	}
	if returned {
		wdone := make(chan struct{})
		go func() { wg.Wait(); close(wdone) }()
		first := 3 * time.Second
		if park > 0 {
			first = 400 * time.Millisecond
		}
		drained := false
		select {
		case <-wdone:
			tr.log("wg", "wg")
			drained = true
		case <-time.After(first):
			if park > 0 {
				// wg.Wait() (correctly) waits for the goroutine the hook is holding: let it go, then wait again
				tr.log("", "wgblocked")
				close(release)
				select {
				case <-wdone:
					tr.log("wg", "wg")
					drained = true
				case <-time.After(3 * time.Second):
					tr.log("", "nowg")
				}
			} else {
				tr.log("", "nowg")
			}
		}
		// goroutines of this script still inside the library (allow the runtime a moment to retire them)
		stillParked := false
		if park > 0 && drained {
			select {
			case <-release:
			default:
				stillParked = true // wg.Wait() returned although the hook still holds a writer goroutine
			}
		}
		n := 0
		for i := 0; i < 20; i++ {
			n = nlLabelledGoroutines("vscript", label)
			if n == 0 || stillParked {
				break
			}
			time.Sleep(25 * time.Millisecond)
		}
		tr.log("", "gor:"+strconv.Itoa(n))
	}
	if park > 0 {
		select {
		case <-release:
		default:
			close(release)
		}
		time.Sleep(300 * time.Millisecond)
		n := nlLabelledGoroutines("vscript", label)
		tr.log("", "gor2:"+strconv.Itoa(n))
	}
	// give the panel a moment to observe the client's close on every socket
	deadline := time.Now().Add(1500 * time.Millisecond)
	for time.Now().Before(deadline) {
		all := true
		na := int(atomic.LoadInt32(&accCount))
		for k := 1; k <= na; k++ {
			select {
			case <-tr.signal("peof" + strconv.Itoa(k)):
			default:
				if mode != "refuse" {
					all = false
				}
			}
		}
		if all {
			break
		}
		time.Sleep(20 * time.Millisecond)
	}
	tr.log("", "lag:"+strconv.FormatInt(tr.maxLag, 10))
	tr.log("", "end")
	close(stop)
	port.Close()
	pwg.Wait()
	<-delDone
	if !returned {
		cancel()
	}
	return tr.String()
}

// reply of an ASCII panel to the probe (script parameter `reply`)
func nlReplyBytes(kind string) []byte {
	switch kind {
	case "rdy":
		return []byte("RDY\n")
	case "map":
		return []byte("map=1:2\n")
	case "err":
		return []byte("ErrorMsg=Panel is locked to another client\n")
	case "txt":
		return []byte("list\nBSY\n")
	}
	return nil
}

// ---------------- generator ----------------

func nlBinFrame(m *rwp.OutboundMessage) []byte {
	b, _ := proto.MarshalOptions{Deterministic: true}.Marshal(m)
	h := []byte{byte(len(b)), byte(len(b) >> 8), byte(len(b) >> 16), byte(len(b) >> 24)}
	return append(h, b...)
}

type nlStream struct {
	mode   string
	bytes  []byte
	exp    []string // delivery token per complete frame/line
	bounds []int    // end offset of each frame/line
}

func nlBinStream() nlStream {
	msgs := []*rwp.OutboundMessage{
		{Events: []*rwp.HWCEvent{{HWCID: 1, Binary: &rwp.BinaryEvent{Pressed: true}}}},
		{}, // a complete frame with an empty payload (the default message marshals to zero bytes)
		{Events: []*rwp.HWCEvent{{HWCID: 2, Pulsed: &rwp.PulsedEvent{Value: 1}}}},
		{Events: []*rwp.HWCEvent{{HWCID: 3, Absolute: &rwp.AbsoluteEvent{Value: 500}}}},
	}
	s := nlStream{mode: "bin"}
	for _, m := range msgs {
		s.bytes = append(s.bytes, nlBinFrame(m)...)
		s.bounds = append(s.bounds, len(s.bytes))
		s.exp = append(s.exp, nlMsgTok([]*rwp.OutboundMessage{m}))
	}
	return s
}

func nlAscStream() nlStream {
	lines := []string{"HWC#1=Down", "HWC#2=Enc:1", "HWC#3=Abs:500", "HWC#4=Up"}
	s := nlStream{mode: "asc"}
	for _, l := range lines {
		s.bytes = append(s.bytes, []byte(l+"\n")...)
		s.bounds = append(s.bounds, len(s.bytes))
		s.exp = append(s.exp, nlMsgTok(helpers.RawPanelASCIIstringsToOutboundMessages([]string{l})))
	}
	return s
}

// an ASCII stream with one line of ln bytes (without its LF) between short ones: longer than a buffered reader's buffer
func nlAscLongStream(ln int) nlStream {
	lines := []string{"HWC#1=Down", ndLongLine(ln), "HWC#2=Enc:1", "", "HWC#4=Up"}
	s := nlStream{mode: "asc"}
	for _, l := range lines {
		s.bytes = append(s.bytes, []byte(l+"\n")...)
		s.bounds = append(s.bounds, len(s.bytes))
		s.exp = append(s.exp, nlMsgTok(helpers.RawPanelASCIIstringsToOutboundMessages([]string{l})))
	}
	return s
}

// a binary stream with a frame of n payload bytes between small ones (and an empty frame)
func nlBinLongStream(n int) nlStream {
	msgs := []*rwp.OutboundMessage{
		{Events: []*rwp.HWCEvent{{HWCID: 1, Binary: &rwp.BinaryEvent{Pressed: true}}}},
		nil,
		{},
		{Events: []*rwp.HWCEvent{{HWCID: 3, Absolute: &rwp.AbsoluteEvent{Value: 500}}}},
	}
	s := nlStream{mode: "bin"}
	for _, m := range msgs {
		var b []byte
		if m == nil {
			b = ndMsgOfSize(n)
			m = &rwp.OutboundMessage{}
			proto.Unmarshal(b, m)
		} else {
			b, _ = proto.MarshalOptions{Deterministic: true}.Marshal(m)
		}
		s.bytes = append(s.bytes, ndFrame(b)...)
		s.bounds = append(s.bounds, len(s.bytes))
		s.exp = append(s.exp, nlMsgTok([]*rwp.OutboundMessage{m}))
	}
	return s
}

func nlLifeRec(mode string, s *nlStream, kv ...string) nlRec {
	args := []string{"mode=" + mode}
	args = append(args, kv...)
	if s != nil {
		args = append(args, "stream="+hx(s.bytes), "exp="+strings.Join(s.exp, ";"))
	}
	m := nlKV(args)
	// rough cost estimate (ms) to schedule long scripts first
	rcv := nlInt(m, "rc", 0)
	if rcv == 0 {
		rcv = 1
	}
	cost := 500 + nlInt(m, "cyc", 0)*(rcv*1000+200)
	if mode == "asc" {
		cost += (nlInt(m, "cyc", 0) + 1) * 3000
	}
	if mode == "silent" || mode == "refuse" {
		cost += 4000
	}
	if mode == "absent" || mode == "late" {
		cost += 4000
	}
	if m["loss"] == "stall" {
		cost += nlInt(m, "cyc", 0) * 2000
	}
	cost += nlInt(m, "cdur", 0)
	return nlRec{cmd: "life.run", args: args, cost: cost}
}

// a script whose successive connections negotiate the modes `modes` (see the header): both encodings travel with the record
func nlMixRec(modes string, b, a *nlStream, kv ...string) nlRec {
	first := "asc"
	if modes[0] == 'b' {
		first = "bin"
	}
	kv = append(kv, "modes="+modes, "astream="+hx(a.bytes), "aexp="+strings.Join(a.exp, ";"))
	rec := nlLifeRec(first, b, kv...)
	for _, c := range modes { // the 2 s probe window of a silent panel, the 1 s wind-down of an ASCII connection
		if c == 'a' {
			rec.cost += 2000
		}
		if c != 'b' {
			rec.cost += 1000
		}
	}
	return rec
}

func genC11(r *Rng, n int, tier string) {
	bs, as := nlBinStream(), nlAscStream()
	recs := []nlRec{}
	add := func(mode string, s *nlStream, kv ...string) { recs = append(recs, nlLifeRec(mode, s, kv...)) }
	i2 := strconv.Itoa
	thorough := tier == "thorough"

	// (1) panel closing at every byte offset 0..N, then reconnect and full delivery, cancel when idle
	for cut := 0; cut <= len(bs.bytes); cut++ {
		add("bin", &bs, "cyc=1", "cut="+i2(cut), "cancel=held+300")
	}
	// (ASCII: every offset, so that a partial line at an orderly close is covered whatever its length)
	for cut := 0; cut <= len(as.bytes); cut++ {
		add("asc", &as, "cyc=1", "cut="+i2(cut), "cancel=held+300")
	}
	// segmented writes with a drop
	for _, cut := range []int{0, 3, 4, 5, bs.bounds[0], bs.bounds[0] + 2, bs.bounds[1] + 4, len(bs.bytes) - 1, len(bs.bytes)} {
		add("bin", &bs, "cyc=1", "cut="+i2(cut), "seg=1", "cancel=held+300")
	}
	// (2) three loss/reconnect cycles; retry periods default and {1,2}
	for _, rc := range []int{0, 1, 2} {
		for _, cut := range []int{0, bs.bounds[0], bs.bounds[1] + 3, len(bs.bytes)} {
			add("bin", &bs, "rc="+i2(rc), "cyc=3", "cut="+i2(cut), "cancel=held+300")
		}
	}
	add("asc", &as, "cyc=3", "cut="+i2(as.bounds[1]), "cancel=held+300")
	add("asc", &as, "rc=2", "cyc=2", "cut="+i2(as.bounds[0]+3), "cancel=held+300")
	// (3) cancellation instants
	//   before the dial completes
	add("bin", &bs, "cancel=pre")
	add("bin", &bs, "cancel=start+0")
	add("absent", nil, "cancel=pre")
	add("absent", nil, "cancel=start+0")
	//   during the no-connection wait (default 3 s, and 1, 2 s)
	for _, nc := range []int{0, 1, 2} {
		add("absent", nil, "nc="+i2(nc), "cancel=start+500")
		add("absent", nil, "nc="+i2(nc), "cancel=start+"+i2(map[int]int{0: 3500, 1: 1500, 2: 2500}[nc]))
		add("absent", nil, "nc="+i2(nc), "cancel=start+400", "twice=1")
	}
	//   absent first, listening later: the next dial happens at a multiple of the no-connection period
	for _, nc := range []int{0, 1, 2} {
		add("late", &bs, "nc="+i2(nc), "appear=500", "cancel=held+300")
	}
	if thorough {
		add("late", &bs, "nc=1", "appear=1500", "cancel=held+300")
		add("late", &bs, "nc=2", "appear=2500", "cancel=held+300")
	}
	//   during the 2 s probe
	for _, ms := range []int{100, 500, 1500} {
		add("asc", &as, "cancel=acc1+"+i2(ms))
		add("silent", nil, "cancel=acc1+"+i2(ms))
	}
	add("silent", nil, "cancel=con1+300")
	add("silent", nil, "cancel=con1+300", "twice=1")
	//   50 ms after onconnect, idle, twice
	for _, mode := range []string{"bin", "asc"} {
		s := &bs
		if mode == "asc" {
			s = &as
		}
		add(mode, s, "cancel=con1+50")
		add(mode, s, "cancel=con1+0")
		add(mode, s, "cancel=held+500")
		add(mode, s, "cancel=held+300", "twice=1")
		add(mode, s, "hold=0", "cancel=held+400") // connected, nothing ever sent
	}
	//   mid-header, mid-payload (binary); mid-line (ASCII)
	for _, h := range []int{1, 2, 3, 5, bs.bounds[0] - 1, bs.bounds[0] + 1, bs.bounds[0] + 3, bs.bounds[0] + 5, bs.bounds[1] + 2, len(bs.bytes) - 1} {
		add("bin", &bs, "hold="+i2(h), "cancel=held+250")
	}
	for _, h := range []int{1, as.bounds[0] - 1, as.bounds[0] + 4, len(as.bytes) - 1} {
		add("asc", &as, "hold="+i2(h), "cancel=held+250")
	}
	//   during the ASCII 1 s EOF sleep
	for _, ms := range []int{200, 500, 800} {
		add("asc", &as, "cyc=1", "cut="+i2(len(as.bytes)), "cancel=pcl1+"+i2(ms))
	}
	add("asc", &as, "cyc=1", "cut="+i2(as.bounds[0]+2), "cancel=pcl1+400")
	//   during the retry sleep (default 1 s; 2 s)
	for _, ms := range []int{200, 500, 800} {
		add("bin", &bs, "cyc=1", "cut="+i2(bs.bounds[0]), "cancel=dis1+"+i2(ms))
	}
	add("bin", &bs, "rc=2", "cyc=1", "cut="+i2(bs.bounds[1]), "cancel=dis1+1500")
	add("asc", &as, "cyc=1", "cut="+i2(as.bounds[1]), "cancel=dis1+500")
	add("bin", &bs, "cyc=2", "cut="+i2(bs.bounds[0]), "cancel=dis2+500", "twice=1")
	//   traffic towards the panel (lists offered on msgsToPanel) while the client waits out the retry period after a
	//   loss, during the ASCII EOF sleep, and straddling the reconnect; both modes, default and configured periods,
	//   unbuffered and buffered channel
	for _, mode := range []string{"bin", "asc"} {
		s := &bs
		if mode == "asc" {
			s = &as
		}
		cutAt := i2(s.bounds[0])
		for _, rc := range []int{0, 2, 3} {
			for _, fms := range []int{100, 400, 800} {
				if !thorough && (rc*7+fms/100)%2 == 1 && !(rc == 0 && fms == 100) {
					continue
				}
				add(mode, s, "rc="+i2(rc), "cyc=1", "cut="+cutAt, "feed=dis1+"+i2(fms), "fn=3", "fi=120", "cancel=held+300")
			}
		}
		add(mode, s, "rc=2", "cyc=2", "cut="+cutAt, "feed=dis1+300", "fn=25", "fi=100", "cancel=held+300")
		add(mode, s, "rc=0", "cyc=1", "cut="+cutAt, "feed=dis1+200", "fn=4", "fi=50", "fq=4", "cancel=held+300")
		add(mode, s, "rc=2", "cyc=1", "cut="+cutAt, "feed=con1+0", "fn=30", "fi=100", "cancel=held+300")
		add(mode, s, "rc=2", "cyc=1", "cut="+cutAt, "feed=dis1+500", "fn=2", "fi=100", "cancel=dis1+1200")
	}
	add("asc", &as, "cyc=1", "cut="+i2(as.bounds[1]), "feed=pcl1+300", "fn=3", "fi=200", "cancel=held+300")
	add("refuse", nil, "rc=2", "feed=dis1+400", "fn=2", "fi=100", "cancel=dis2+300")
	// (3b) the reader ends the connection itself: the panel goes silent inside a frame (2 s in-frame deadline) or
	//      announces a frame beyond the limit; the client must report an uncancelled disconnect, reconnect after the
	//      retry period and deliver again; cancellation during the stall; silence at a frame boundary / inside an ASCII
	//      line is NOT a reason to leave the connection
	for _, cut := range []int{1, 3, 5, bs.bounds[0] + 2, bs.bounds[1] + 4, len(bs.bytes) - 1} {
		add("bin", &bs, "cyc=1", "cut="+i2(cut), "loss=stall", "cancel=held+300")
	}
	add("bin", &bs, "rc=2", "cyc=2", "cut="+i2(bs.bounds[0]+1), "loss=stall", "cancel=held+300")
	add("bin", &bs, "cyc=1", "cut="+i2(bs.bounds[0]+3), "seg=1", "loss=stall", "cancel=held+300")
	for _, cut := range []int{0, bs.bounds[0], bs.bounds[1], len(bs.bytes)} {
		add("bin", &bs, "cyc=1", "cut="+i2(cut), "loss=over", "cancel=held+300")
	}
	add("bin", &bs, "cyc=2", "cut="+i2(bs.bounds[1]), "loss=over", "cancel=dis2+400")
	add("bin", &bs, "cyc=1", "cut="+i2(bs.bounds[0]+2), "loss=stall", "cancel=pst1+1000")
	add("bin", &bs, "cyc=1", "cut="+i2(bs.bounds[0]+2), "loss=stall", "cancel=dis1+500")
	add("bin", &bs, "cyc=1", "cut="+i2(bs.bounds[1]), "loss=stall", "cancel=pst1+2600")
	add("asc", &as, "cyc=1", "cut="+i2(as.bounds[0]+3), "loss=stall", "cancel=pst1+2600")
	// (3c) the consumer of msgsFromPanel stops receiving for a while (the client must block, not drop): pause while the
	//      whole stream arrives, cancel after / inside the pause, pause across a panel drop and across a reader fault
	for _, mode := range []string{"bin", "asc"} {
		s := &bs
		if mode == "asc" {
			s = &as
		}
		add(mode, s, "cpause=con1+0", "cdur=700", "cancel=held+1000")
		add(mode, s, "cpause=con1+0", "cdur=1200", "cancel=held+400")
		add(mode, s, "cyc=1", "cut="+i2(len(s.bytes)), "cpause=con1+0", "cdur=800", "cancel=held+300")
		add(mode, s, "cyc=1", "cut="+i2(s.bounds[1]+2), "cpause=con1+0", "cdur=600", "cancel=held+300")
		add(mode, s, "seg=3", "cpause=con1+40", "cdur=500", "cancel=held+900")
	}
	add("bin", &bs, "cyc=1", "cut="+i2(bs.bounds[1]+2), "loss=stall", "cpause=con1+0", "cdur=2600", "cancel=held+300")
	// (3d) heavy traffic towards the panel across two losses: the writer goroutine is inside conn.Write when the
	//      connection goes away; it must neither survive its connection nor take the reader with it
	add("bin", &bs, "cyc=2", "cut="+i2(bs.bounds[0]), "feed=con1+0", "fn=60", "fi=15", "fb=20000", "cancel=held+300")
	add("asc", &as, "cyc=2", "cut="+i2(as.bounds[0]), "feed=con1+0", "fn=40", "fi=15", "fb=20000", "cancel=held+300")
	add("bin", &bs, "cyc=1", "cut="+i2(bs.bounds[0]+2), "loss=stall", "feed=con1+0", "fn=40", "fi=60", "fb=20000", "cancel=held+300")
	add("bin", &bs, "feed=con1+0", "fn=40", "fi=10", "fb=50000", "cancel=held+300")
	// (3e) every way an ASCII panel answers the probe (silence is the default above): RDY, a map line, other text, and an
	//      ErrorMsg line (onconnect gets an error text): the lifecycle is the same whatever the callback was told -
	//      loss at a line boundary / inside a line / before anything was sent, 1-3 loss/reconnect cycles, cancellation
	//      while connected, right after onconnect, in the EOF sleep and in the retry sleep
	for ri, reply := range []string{"err", "rdy", "map", "txt"} {
		rp := "reply=" + reply
		add("asc", &as, rp, "cancel=held+300")
		add("asc", &as, rp, "cyc=1", "cut="+i2(as.bounds[1]), "cancel=held+300")
		add("asc", &as, rp, "cyc=2", "cut="+i2(as.bounds[ri%len(as.bounds)]+ri%3), "cancel=held+300")
		if reply == "err" || thorough {
			add("asc", &as, rp, "cyc=3", "cut=0", "cancel=held+300")
			add("asc", &as, rp, "rc=2", "cyc=1", "cut="+i2(len(as.bytes)), "cancel=dis1+700")
			add("asc", &as, rp, "cyc=1", "cut="+i2(as.bounds[0]+2), "cancel=pcl1+400")
			add("asc", &as, rp, "cancel=con1+0")
			add("asc", &as, rp, "hold=0", "cancel=held+400", "twice=1")
			add("asc", &as, rp, "cyc=1", "cut="+i2(as.bounds[0]), "feed=dis1+200", "fn=3", "fi=120", "cancel=held+300")
			add("asc", &as, rp, "cyc=1", "cut="+i2(as.bounds[1]+2), "cpause=con1+0", "cdur=600", "cancel=held+300")
		}
	}
	// (3f) lines and frames around the sizes at which buffered readers change behaviour (4096 = bufio's buffer; in
	//      thorough also 64 KiB), completely received before the drop / the cancellation: delivered, the connection kept
	//      until the panel drops it; drop inside the long line: not delivered; both ASCII handshakes
	lls := []int{4094, 4095, 4096, 4097, 9000}
	for li, ln := range lls {
		ls := nlAscLongStream(ln)
		rp := "reply=" + []string{"rdy", "err", "map"}[li%3]
		add("asc", &ls, rp, "cancel=held+400")
		add("asc", &ls, rp, "cyc=1", "cut="+i2(len(ls.bytes)), "cancel=held+400")
		if li%2 == 0 {
			add("asc", &ls, "cyc=1", "cut="+i2(ls.bounds[1]), "seg=1500", "cancel=held+400")
			add("asc", &ls, rp, "cyc=1", "cut="+i2(ls.bounds[1]-1), "cancel=held+400")
		}
	}
	for _, n := range []int{4092, 4096, 9000} {
		bl := nlBinLongStream(n)
		add("bin", &bl, "cancel=held+400")
		add("bin", &bl, "cyc=1", "cut="+i2(bl.bounds[1]), "seg=1500", "cancel=held+400")
		add("bin", &bl, "cyc=1", "cut="+i2(bl.bounds[1]-1), "cancel=held+400")
	}
	// (3g) successive connections of one call negotiating DIFFERENT modes (the panel was reconfigured, an auto-mode panel
	//      answers differently, another device took the address): ASCII then binary, binary then ASCII, three sessions,
	//      every ASCII handshake (silence, RDY, map, text, ErrorMsg + close) followed by a binary session; each session
	//      streams in its own encoding, is dropped (before any byte / at a boundary / inside a frame / after the stream),
	//      and the next session must deliver again from its first frame; cancellation right at the second connect, in
	//      the second probe and in the retry sleep between the modes
	mix := func(modes string, kv ...string) { recs = append(recs, nlMixRec(modes, &bs, &as, kv...)) }
	full := i2(len(bs.bytes) + len(as.bytes))
	mix("ab", "cyc=1", "cut="+full, "cancel=held+300")
	mix("ab", "cyc=1", "cut="+i2(as.bounds[1]+3), "cancel=held+300")
	mix("ba", "cyc=1", "cut="+full, "cancel=held+300")
	mix("ba", "cyc=1", "cut="+i2(bs.bounds[1]+2), "cancel=held+300")
	mix("aba", "cyc=2", "cut="+full, "cancel=held+300")
	mix("bab", "rc=2", "cyc=2", "cut="+i2(as.bounds[0]), "seg=3", "cancel=held+300")
	mix("eb", "cyc=1", "cut=0", "cancel=held+300")
	mix("eb", "cyc=1", "cut="+full, "cancel=held+300")
	mix("rb", "cyc=1", "cut="+i2(as.bounds[1]), "cancel=held+300")
	mix("mbt", "cyc=2", "cut="+i2(as.bounds[0]+2), "cancel=held+300")
	mix("tb", "rc=2", "cyc=1", "cut="+full, "feed=dis1+300", "fn=3", "fi=120", "cancel=held+300")
	mix("rb", "cyc=1", "cut="+full, "cancel=con2+0")
	mix("ba", "cyc=1", "cut="+full, "cancel=acc2+700")
	mix("rbr", "cyc=2", "cut="+full, "cancel=dis2+500")
	if thorough {
		for cut := 0; cut <= len(as.bytes); cut += 3 {
			mix("rb", "cyc=1", "cut="+i2(cut), "cancel=held+300")
			mix("br", "cyc=1", "cut="+i2(cut), "cancel=held+300")
		}
		mix("abab", "cyc=3", "cut="+full, "cancel=held+300")
		mix("bebm", "cyc=3", "cut="+i2(bs.bounds[0]), "cancel=held+300")
	}
	// (4) panel closing right after accept; cancellation while it keeps doing so
	add("refuse", nil, "cancel=dis1+300")
	add("refuse", nil, "cancel=dis2+300")
	add("refuse", nil, "rc=2", "cancel=dis1+1000")
	add("refuse", nil, "cancel=acc1+200")
	// (5) the late wg.Add schedule of the model (needs the parking hook; without hooks it is an ordinary run)
	add("bin", &bs, "cyc=1", "cut="+i2(bs.bounds[0]), "park=1", "cancel=held+300")
	// (6) random scripts
	extra := n
	for i := 0; i < extra; i++ {
		mode := "bin"
		s := &bs
		if r.Chance(35) {
			mode, s = "asc", &as
		}
		cyc := r.Intn(3)
		cut := r.Intn(len(s.bytes) + 1)
		loss := ""
		if mode == "bin" && cyc > 0 && r.Chance(25) {
			f := r.Intn(len(s.bounds))
			lo := 0
			if f > 0 {
				lo = s.bounds[f-1]
			}
			if r.Bool() {
				loss, cut = "stall", lo+1+r.Intn(s.bounds[f]-lo-1) // strictly inside frame f
			} else {
				loss, cut = "over", lo // at a frame boundary
			}
		}
		kv := []string{"rc=" + i2(r.Pick(0, 1, 2)), "cyc=" + i2(cyc), "cut=" + i2(cut), "seg=" + i2(r.Pick(0, 0, 1, 3, 7))}
		if mode == "asc" && r.Chance(60) {
			kv = append(kv, "reply="+[]string{"err", "rdy", "map", "txt"}[r.Intn(4)])
		}
		if loss != "" {
			kv = append(kv, "loss="+loss)
		}
		switch r.Intn(6) {
		case 0:
			kv = append(kv, "hold="+i2(r.Intn(len(s.bytes)+1)), "cancel=held+"+i2(r.Range(200, 600)))
		case 1:
			if cyc > 0 {
				kv = append(kv, "cancel=dis"+i2(r.Range(1, cyc))+"+"+i2(r.Range(150, 700)))
			} else {
				kv = append(kv, "cancel=con1+"+i2(r.Range(0, 400)))
			}
		case 2:
			kv = append(kv, "cancel=acc"+i2(r.Range(1, cyc+1))+"+"+i2(r.Range(0, 1800)))
		default:
			kv = append(kv, "cancel=held+"+i2(r.Range(200, 600)))
		}
		if r.Chance(15) {
			kv = append(kv, "twice=1")
		}
		if r.Chance(20) {
			kv = append(kv, "cpause=con1+"+i2(r.Range(0, 60)), "cdur="+i2(r.Range(200, 900)))
		}
		if r.Chance(20) {
			kv = append(kv, "feed=con1+"+i2(r.Range(0, 200)), "fn="+i2(r.Range(2, 20)), "fi="+i2(r.Range(5, 80)), "fb="+i2(r.Pick(0, 0, 2000, 30000)))
		}
		if cyc > 0 && loss == "" && r.Chance(30) {
			// a mode per connection, drawn at random, never the same on two successive connections
			ms := ""
			for k := 0; k <= cyc; k++ {
				if (k == 0 && mode == "bin") || (k > 0 && ms[k-1] != 'b') {
					ms += "b"
				} else {
					ms += string("armet"[r.Intn(5)])
				}
			}
			rkv := []string{}
			for _, x := range kv {
				if !strings.HasPrefix(x, "reply=") {
					rkv = append(rkv, x)
				}
			}
			mix(ms, rkv...)
			continue
		}
		add(mode, s, kv...)
	}
	par := 48
	nlRunBatch(recs, par)
}
